"""C07 worker side: build a network (grammar of vlib/gen_arch.py + optional second input, user-placed PIT layers,
SuperNetModules), convert it with PIT / SuperNet / MPS and record every observable of the conversion.

One case = (seed, cfg); cfg keys:
  method   'pit' | 'sn' | 'mps'
  dim      1 | 2
  fold     PIT(fold_bn=...)
  auto     PIT(autoconvert_layers=...)
  userpit  'none' | 'some' | 'all'   conv/linear layers replaced by hand-made PIT* layers before conversion
  ufold    'same' | 'default'        fold_bn flag given to the hand-made layers (same as PIT's / constructor default False)
  train    mode in which the model is handed over
  multi    add a second network input (forward(x0, x1))
  excl     exclude one convertible layer by name
  integer  integer weights and inputs, no BatchNorm (float64 arithmetic exact -> equality)
Everything returned is JSON-able.
"""
import copy, random, traceback
from . import gen_arch as ga

TOL = 1e-9
CONVS = ('conv1d', 'conv2d', 'linear')


# ----------------------------------------------------------------------------- spec
def make_spec(seed, cfg):
    rng = random.Random(seed)
    if cfg.get('siamese'):
        return siamese_spec(rng, cfg['dim'])
    # every topology of the grammar is kept, including a depthwise conv fed by a concat and an add of a concat (their
    # components are frozen by the conversion since the C09 repair); they are counted in the evidence distribution
    spec = ga.gen(rng, dim=cfg['dim'], conv_head=True, bn=not cfg.get('integer'), k1d=[1, 2, 3, 3, 4, 5, 6, 7, 9])
    if cfg.get('want'):
        # a stream that needs a given producer -> BatchNorm pair (e.g. Linear followed by BatchNorm1d): keep deriving
        # from the same random stream until the architecture has one
        for _ in range(60):
            if wanted_pairs(spec, cfg['want']):
                break
            spec = ga.gen(rng, dim=cfg['dim'], conv_head=False, bn=True, k1d=[1, 2, 3, 3, 4, 5, 6, 7, 9])
    if cfg.get('multi'):
        spec = add_second_input(spec)
    if cfg.get('twice'):
        spec, al = add_second_call_site(spec, rng)
        spec['aliases'] = al
    return spec


def add_second_input(spec):
    """forward(x0, x1): node 1 = second input (same shape), node 2 = x0 + x1, everything that read x0 reads the sum"""
    spec = copy.deepcopy(spec)
    old = spec['nodes']

    def sh(j):
        return j if j == 0 else j + 2

    new = [old[0], {'k': 'in', 'shape': list(old[0]['shape'])}, {'k': 'add', 'src': [0, 1]}]
    for nd in old[1:]:
        nd = dict(nd)
        if isinstance(nd['src'], int):
            nd['src'] = 2 if nd['src'] == 0 else nd['src'] + 2
        else:
            nd['src'] = [2 if j == 0 else j + 2 for j in nd['src']]
        new.append(nd)
    spec['nodes'] = new
    spec['out'] = [j + 2 for j in spec['out']]
    spec['productions'] = list(spec.get('productions', [])) + ['second-input']
    return spec


def siamese_spec(rng, dim):
    """a two-input siamese network: two private Conv+BN stems (one per input), ONE shared head Conv(+BN) applied to both stems
    (the same modules at two call sites), sum, pooled linear classifier.  The stem of the second branch is reachable from the
    output only through the second call site of the shared head."""
    cin = rng.randint(1, 3)
    c1, c2 = rng.randint(2, 5), rng.randint(2, 5)
    nodes = []

    def add(**nd):
        nodes.append(nd)
        return len(nodes) - 1
    if dim == 1:
        T = rng.randint(8, 14)
        i0 = add(k='in', shape=[cin, T])
        i1 = add(k='in', shape=[cin, T])

        def conv(src, ci, co, ks, dil, bias):
            left = (ks - 1) * dil
            p_ = add(k='pad1d', src=src, left=left)
            return add(k='conv1d', src=p_, cin=ci, cout=co, ks=ks, dil=dil, stride=1, groups=1, bias=bias)
        bn = 'bn1d'
    else:
        hw = rng.randint(5, 8)
        i0 = add(k='in', shape=[cin, hw, hw])
        i1 = add(k='in', shape=[cin, hw, hw])

        def conv(src, ci, co, ks, dil, bias):
            return add(k='conv2d', src=src, cin=ci, cout=co, ks=[ks, ks], dil=1, stride=1, groups=1, bias=bias, padding=rng.choice(['same', ks // 2]))
        bn = 'bn2d'
    stems = []
    for src in (i0, i1):
        c = conv(src, cin, c1, rng.choice([1, 3, 3, 5]), rng.choice([1, 2]), rng.random() < 0.6)
        cur = add(k=bn, src=c, c=c1) if rng.random() < 0.8 else c
        if rng.random() < 0.6:
            cur = add(k='relu', src=cur)
        stems.append(cur)
    hk, hd, hb, hbn = rng.choice([1, 3, 3]), rng.choice([1, 2]), rng.random() < 0.6, rng.random() < 0.8
    first = len(nodes)
    h1 = conv(stems[0], c1, c2, hk, hd, hb)
    o1 = add(k=bn, src=h1, c=c2) if hbn else h1
    second = len(nodes)
    h2 = conv(stems[1], c1, c2, hk, hd, hb)
    o2 = add(k=bn, src=h2, c=c2) if hbn else h2
    s_ = add(k='add', src=[o1, o2])
    cur = add(k='relu', src=s_) if rng.random() < 0.5 else s_
    cur = add(k='gap%dd' % dim, src=cur)
    cur = add(k='flatten', src=cur)
    out = add(k='linear', src=cur, cin=c2, cout=rng.randint(2, 4), bias=True)
    aliases = [(h2, h1)] + ([(o2, o1)] if hbn else [])
    return {'dim': dim, 'nodes': nodes, 'out': [out], 'productions': ['siamese-shared-head' + ('-with-bn' if hbn else '')],
            'input_shape': list(nodes[0]['shape']), 'aliases': aliases}


def add_second_call_site(spec, rng):
    """a conv(+BatchNorm) pair INVOKED AT TWO CALL SITES: after a conv c (and the BatchNorm b that follows it, if any) two
    nodes c2, b2 that read the same input are inserted, then add(b, b2); every later reader of b reads the sum.
    After build() the modules of c2 / b2 are replaced by the very objects of c / b (see alias_call_sites).
    -> (spec, [(alias node, original node)])  or (spec, []) when the network has no suitable pair"""
    nodes = spec['nodes']
    bnf = bn_followers(spec)
    cands = [c for c, nd in enumerate(nodes) if nd['k'] in ('conv1d', 'conv2d') and n_users(spec, c) == 1 and (c not in bnf or n_users(spec, bnf[c]) >= 1)]
    withbn = [c for c in cands if c in bnf and bnf[c] == c + 1]
    pool = withbn if withbn and rng.random() < 0.8 else [c for c in cands if c not in bnf]
    if not pool:
        pool = withbn
    if not pool:
        return spec, []
    c = rng.choice(pool)
    last = bnf[c] if c in bnf else c           # the node whose value is doubled
    ins = [dict(nodes[c])] + ([dict(nodes[last], src=last + 1)] if last != c else [])
    k = len(ins) + 1                            # inserted nodes: c2 [, b2], add
    c2 = last + 1
    b2 = c2 + 1 if last != c else None
    addn = {'k': 'add', 'src': [last, c2 + len(ins) - 1]}

    def sh(j):
        return j if j <= last else j + k
    new = []
    for j, nd in enumerate(nodes):
        nd = dict(nd)
        if j > last and 'src' in nd:
            if isinstance(nd['src'], int):
                nd['src'] = last + k if nd['src'] == last else sh(nd['src'])
            else:
                nd['src'] = [last + k if q == last else sh(q) for q in nd['src']]
        new.append(nd)
        if j == last:
            new.extend(ins + [addn])
    spec = dict(spec, nodes=new, out=[last + k if q == last else sh(q) for q in spec['out']],
                productions=list(spec.get('productions', [])) + ['second-call-site' + ('-with-bn' if last != c else '')])
    return spec, [(c2, c)] + ([(b2, last)] if b2 is not None else [])


def alias_call_sites(m, aliases):
    for a, orig in aliases:
        m.layers['n%d' % a] = m.layers['n%d' % orig]


def wanted_pairs(spec, kind):
    """nodes of kind `kind` ('linear' | 'conv1d' | 'conv2d') that are directly followed by a BatchNorm"""
    return [c for c, b in bn_followers(spec).items() if spec['nodes'][c]['k'] == kind]


def bn_followers(spec):
    """{conv node index: bn node index} for BatchNorm nodes fed directly by a conv/linear node"""
    out = {}
    for j, nd in enumerate(spec['nodes']):
        if nd['k'] in ('bn1d', 'bn2d') and spec['nodes'][nd['src']]['k'] in CONVS:
            out[nd['src']] = j
    return out


def cat_of_fixed(spec, handled):
    """a features-concat with >= 2 operands whose features are defined by something PIT does not search
    (network input, conv/linear left as it is)"""
    nodes = spec['nodes']
    for nd in nodes:
        if nd['k'] == 'cat' and nd['dim'] == 1:
            fixed = 0
            for s_ in nd['src']:
                j = ga.feeds_through_propagating(spec, s_)
                while nodes[j]['k'] in ('conv1d', 'conv2d') and nodes[j]['groups'] > 1 and j in handled:
                    j = ga.feeds_through_propagating(spec, nodes[j]['src'])
                if nodes[j]['k'] == 'in' or (nodes[j]['k'] in CONVS and j not in handled):
                    fixed += 1
            if fixed >= 2:
                return True
    return False


def n_users(spec, i):
    c = 0
    for nd in spec['nodes']:
        if 'src' in nd:
            s = nd['src'] if isinstance(nd['src'], list) else [nd['src']]
            c += s.count(i)
    return c + (1 if i in spec.get('out', []) else 0)


# ----------------------------------------------------------------------------- user-placed layers
def place_user_pit(torch, m, spec, which, ufold):
    """replace conv/linear modules of the built network by hand-constructed PIT* layers (own maskers)"""
    import torch.nn as nn
    from plinio.methods.pit.nn import PITConv1d, PITConv2d, PITLinear
    from plinio.methods.pit.nn.features_masker import PITFeaturesMasker
    from plinio.methods.pit.nn.timestep_masker import PITTimestepMasker
    from plinio.methods.pit.nn.dilation_masker import PITDilationMasker
    placed = []
    for i in which:
        nm = 'n%d' % i
        old = m.layers[nm]
        kw = {} if ufold is None else {'fold_bn': ufold}
        if isinstance(old, nn.Conv1d):
            new = PITConv1d(old, PITFeaturesMasker(old.out_channels), PITTimestepMasker(old.kernel_size[0]), PITDilationMasker(old.kernel_size[0]), **kw)
        elif isinstance(old, nn.Conv2d):
            new = PITConv2d(old, PITFeaturesMasker(old.out_channels), **kw)
        else:
            new = PITLinear(old, PITFeaturesMasker(old.out_features), **kw)
        new.train(old.training)
        m.layers[nm] = new
        placed.append(i)
    return placed


def place_supernet(torch, m, spec, rng, g):
    """wrap some same-shape convolutions into SuperNetModules (branch 0 = the original layer)"""
    import torch.nn as nn
    from plinio.methods.supernet import SuperNetModule
    done = []
    shared = {j for pair in spec.get('aliases', []) for j in pair}      # a layer invoked at two call sites is not made a branch
    cands = [i for i, nd in enumerate(spec['nodes']) if nd['k'] in ('conv1d', 'conv2d') and nd['stride'] == 1 and i not in shared]
    rng.shuffle(cands)
    for i in cands[:rng.randint(1, 3)]:
        nd = spec['nodes'][i]
        old = m.layers['n%d' % i]

        def clone_like(ks=None):
            if nd['k'] == 'conv1d':
                return nn.Conv1d(nd['cin'], nd['cout'], nd['ks'], stride=1, dilation=nd['dil'], groups=nd['groups'], bias=rng.random() < 0.6,
                                 padding=nd.get('cpad', 0), padding_mode=rng.choice(PMODES) if nd.get('cpad') else 'zeros')
            k2 = tuple(nd['ks']) if ks is None else (ks, ks)
            pad = nd['padding'] if ks is None else ('same' if nd['padding'] == 'same' else ks // 2)
            dil = nd['dil'] if ks is None else 1
            if nd['padding'] != 'same' and ks is not None and nd['ks'][0] // 2 != nd['padding']:
                return None
            return nn.Conv2d(nd['cin'], nd['cout'], k2, stride=1, dilation=dil, groups=nd['groups'], bias=rng.random() < 0.6, padding=pad)
        branches = [old]
        nb = rng.randint(1, 3)
        for b in range(nb):
            r = rng.random()
            alt = None
            if nd['k'] == 'conv2d' and r < 0.4 and (nd['padding'] == 'same' or nd['ks'][0] == nd['ks'][1]):
                alt = clone_like(rng.choice([1, 3, 5]))
            if alt is None and r < 0.75:
                c = clone_like()
                bn = (nn.BatchNorm1d if nd['k'] == 'conv1d' else nn.BatchNorm2d)(nd['cout'])
                alt = nn.Sequential(c, bn, nn.ReLU())
            if alt is None:
                alt = clone_like()
            branches.append(alt)
        if nd['cin'] == nd['cout'] and nd['k'] == 'conv2d' and nd['padding'] == 'same' and rng.random() < 0.4:
            branches.append(nn.Identity())
        # NON-DEFAULT selection options are part of the user's model: hard (one-hot) selection, Gumbel sampling, a pre-set
        # softmax temperature — a wrapper that resets them changes the function the user's model computes
        opts = {'hard_softmax': rng.random() < 0.5, 'gumbel_softmax': rng.random() < 0.4}
        blk = SuperNetModule(branches, **opts)
        if rng.random() < 0.5:
            blk.sn_combiner.softmax_temperature = rng.choice([0.25, 0.5, 2.0, 5.0])
        with torch.no_grad():
            for mod in blk.modules():
                if mod is old:
                    continue
                if isinstance(mod, (nn.Conv1d, nn.Conv2d)) and mod is not old:
                    mod.weight.copy_(torch.randn(mod.weight.shape, generator=g) * 0.5)
                    if mod.bias is not None:
                        mod.bias.copy_(torch.randn(mod.bias.shape, generator=g) * 0.5)
                if isinstance(mod, (nn.BatchNorm1d, nn.BatchNorm2d)):
                    mod.running_mean.copy_(torch.randn(mod.running_mean.shape, generator=g))
                    mod.running_var.copy_(torch.rand(mod.running_var.shape, generator=g) * 1.5 + 0.5)
                    mod.weight.copy_(torch.randn(mod.weight.shape, generator=g))
                    mod.bias.copy_(torch.randn(mod.bias.shape, generator=g))
            blk.sn_combiner.alpha.copy_(torch.randn(blk.sn_combiner.alpha.shape, generator=g))
        m.layers['n%d' % i] = blk
        done.append((i, len(branches), opts['hard_softmax'], opts['gumbel_softmax'], blk.sn_combiner.softmax_temperature))
    return done


def randomize_bn(torch, m, rng, g, affine_ok=True):
    """BatchNorm hyper-parameters other than the defaults: eps, momentum, affine; small running variances so that eps matters"""
    import torch.nn as nn
    info = {}
    for n, mod in m.named_modules():
        if type(mod) in (nn.BatchNorm1d, nn.BatchNorm2d):
            mod.eps = rng.choice([1e-5, 1e-3, 1e-2, 0.1])
            mod.momentum = rng.choice([0.1, 0.01, None])
            with torch.no_grad():
                mod.running_var.copy_(torch.rand(mod.running_var.shape, generator=g) * 0.99 + 0.01)
                mod.running_mean.copy_(torch.randn(mod.running_mean.shape, generator=g))
            if affine_ok and rng.random() < 0.25:
                mod.affine = False
                mod.weight = None
                mod.bias = None
            info[n] = [mod.eps, mod.momentum, mod.affine]
    return info


PMODES = ['zeros', 'circular', 'reflect', 'replicate']


def apply_padding_modes(torch, m, spec, rng):
    """padding_mode in {zeros, circular, reflect, replicate} as a per-layer attribute of the convolutions that pad (padding > 0):
    2-D: the layers of the grammar pad by an int > 0 or 'same'; 1-D: the grammar pads causally with a ConstantPad1d in front of an
    un-padded conv — p in {1, 2} of that amount is moved into the convolution (padding=p on both sides, the explicit pad shrinks by
    2p, so every shape stays what it was).  The layers are re-created with the same weights; the spec is updated (pmode / cpad)."""
    import torch.nn as nn
    nodes = spec['nodes']
    done = {}
    second_sites = {a for a, _ in spec.get('aliases', [])}       # their module is the first call site's
    for i, nd in enumerate(nodes):
        nm = 'n%d' % i
        if i in second_sites:
            continue
        if nd['k'] == 'conv2d' and nm in m.layers and type(m.layers[nm]) is nn.Conv2d:
            pads = nd['padding'] != 0 and not (nd['padding'] == 'same' and max(nd['ks']) == 1)
            if not pads or rng.random() < 0.3:
                continue
            mode = rng.choice(PMODES[1:])
            old = m.layers[nm]
            new = nn.Conv2d(nd['cin'], nd['cout'], tuple(nd['ks']), stride=nd['stride'], dilation=nd['dil'], groups=nd['groups'], bias=nd['bias'],
                            padding=nd['padding'], padding_mode=mode)
        elif nd['k'] == 'conv1d' and nm in m.layers and type(m.layers[nm]) is nn.Conv1d:
            src = nodes[nd['src']]
            if src['k'] != 'pad1d' or src['left'] < 2 or rng.random() < 0.3:
                continue
            readers = [j for j, q in enumerate(nodes) if q.get('src') == nd['src'] and j != i and not (q['k'] == 'conv1d' and q.get('ks') == nd['ks'] and q.get('cout') == nd['cout'])]
            if readers:
                continue
            p_ = rng.choice([1, 2]) if src['left'] >= 4 else 1
            mode = rng.choice(PMODES[1:])
            old = m.layers[nm]
            new = nn.Conv1d(nd['cin'], nd['cout'], nd['ks'], stride=nd['stride'], dilation=nd['dil'], groups=nd['groups'], bias=nd['bias'],
                            padding=p_, padding_mode=mode)
            if not src.get('shrunk'):
                src['left'] -= 2 * p_
                src['shrunk'] = True
                m.layers['n%d' % nd['src']] = nn.ConstantPad1d((src['left'], 0), 0)
            nd['cpad'] = p_
        else:
            continue
        with torch.no_grad():
            new.weight.copy_(old.weight)
            if old.bias is not None:
                new.bias.copy_(old.bias)
        new = new.to(old.weight.dtype)
        new.train(old.training)
        m.layers[nm] = new
        nd['pmode'] = mode
        done[ga.name(i)] = mode
    return done


def reparametrize(torch, m, spec, rng, seed):
    """re-parametrised layers (torch.nn.utils): prune.l1_unstructured / prune.random_unstructured with the mask still attached
    (state_dict: weight_orig + weight_mask, `weight` is a plain attribute recomputed by a forward pre-hook) on a random subset of
    the conv/linear layers, the classic weight_norm (weight_g / weight_v) on others"""
    import torch.nn as nn
    from torch.nn.utils import prune, weight_norm
    done = {}
    torch.manual_seed(9000 + seed)
    with torch.no_grad():
        for i, nd in enumerate(spec['nodes']):
            if nd['k'] not in CONVS or ('n%d' % i) not in m.layers:
                continue
            mod = m.layers['n%d' % i]
            if type(mod) not in (nn.Conv1d, nn.Conv2d, nn.Linear) or hasattr(mod, 'weight_orig') or hasattr(mod, 'weight_g'):
                continue
            r = rng.random()
            if r < 0.3 and mod.weight.numel() >= 2:
                prune.l1_unstructured(mod, 'weight', amount=0.3)
                done[ga.name(i)] = 'prune-l1'
            elif r < 0.5 and mod.weight.numel() >= 2:
                prune.random_unstructured(mod, 'weight', amount=0.4)
                done[ga.name(i)] = 'prune-random'
            elif r < 0.75 and bool((mod.weight.flatten(1).norm(dim=1) > 0).all()):      # g * v / |v| is NaN for an all-zero filter
                weight_norm(mod, 'weight')
                done[ga.name(i)] = 'weight-norm'
    return done


def detach_computed(model):
    """a re-parametrised layer keeps `weight` as a plain tensor attribute that its pre-hook recomputes at every forward; when the
    last forward ran with autograd on, that tensor is a non-leaf and the module cannot be deep-copied.  Detaching it changes
    nothing the model computes (the hook recomputes it from weight_orig*mask / g*v/|v| at the next forward)"""
    for mod in model.modules():
        for name in ('weight', 'bias'):
            v = vars(mod).get(name)
            if v is not None and hasattr(v, 'grad_fn') and v.grad_fn is not None:
                setattr(mod, name, v.detach())


def clone(model):
    detach_computed(model)
    return copy.deepcopy(model)


def add_training_branch(torch, m, spec, variant, rng):
    """make forward() READ self.training (torch.fx bakes Python control flow at trace time): the eval-time function is
    what the property is about.  variants:
      logsoftmax  root forward: `if not self.training: y = log_softmax(y, 1)`
      train-relu  root forward: `if self.training: y = relu(y)`
      aux         root forward returns (y, aux_head(y)) while training, y otherwise (linear heads only)
      subblock    an activation module is replaced by a traced NON-leaf block whose forward doubles x while training
    module names are kept (the class of the built network is swapped for a subclass)."""
    import torch.nn as nn
    import torch.nn.functional as F
    nodes = spec['nodes']
    if variant == 'aux' and nodes[spec['out'][0]]['k'] != 'linear':
        variant = 'logsoftmax'
    acts = [i for i, nd in enumerate(nodes) if nd['k'] in ('relu', 'relu6')]
    if variant == 'subblock' and not acts:
        variant = 'train-relu'
    base = type(m)
    nin = sum(1 for nd in nodes if nd['k'] == 'in')
    if variant == 'subblock':
        class TrainGate(nn.Module):
            def __init__(self, act):
                super().__init__()
                self.act = act

            def forward(self, x):
                x = self.act(x)
                if self.training:
                    x = x + x
                return x
        i = rng.choice(acts)
        m.layers['n%d' % i] = TrainGate(m.layers['n%d' % i])
        return variant
    if variant == 'aux':
        m.aux_head = nn.Linear(nodes[spec['out'][0]]['cout'], 2)

    def post(self, y):
        if variant == 'logsoftmax':
            if not self.training:
                y = F.log_softmax(y, 1)
        elif variant == 'train-relu':
            if self.training:
                y = torch.relu(y)
        elif variant == 'aux':
            if self.training:
                return y, self.aux_head(y)
        return y
    if nin == 1:
        class TB(base):
            def forward(self, x0):
                return post(self, base.forward(self, x0))
    else:
        class TB(base):
            def forward(self, x0, x1):
                return post(self, base.forward(self, x0, x1))
    m.__class__ = TB
    return variant


# ----------------------------------------------------------------------------- observers
def hp(mod, exact=False):
    """hyper-parameters of a module as a JSON-able tuple.  exact=False: a PIT* layer of the ORIGINAL (user-placed) is named by the
    torch layer it stands for (that is what an export must give back); exact=True (EXPORTED network): the class name as it is, so a
    NAS layer left in an export does not pass for a plain one"""
    import torch.nn as nn
    if exact and not type(mod).__module__.startswith('torch.nn'):
        return [type(mod).__name__, 'not a torch.nn layer']
    if isinstance(mod, (nn.Conv1d, nn.Conv2d)):
        return [type(mod).__mro__[[c.__module__.startswith('torch.nn') for c in type(mod).__mro__].index(True)].__name__,
                mod.in_channels, mod.out_channels, list(mod.kernel_size), list(mod.stride),
                mod.padding if isinstance(mod.padding, str) else list(mod.padding), list(mod.dilation), mod.groups, mod.bias is not None, mod.padding_mode]
    if isinstance(mod, nn.Linear):
        return ['Linear', mod.in_features, mod.out_features, mod.bias is not None]
    if isinstance(mod, (nn.BatchNorm1d, nn.BatchNorm2d)):
        return ['BatchNorm1d' if isinstance(mod, nn.BatchNorm1d) else 'BatchNorm2d', mod.num_features, mod.eps, mod.momentum, mod.affine, mod.track_running_stats]
    return [type(mod).__name__, repr(mod)]


def graph_arch(gm, fold_pairs=None):
    """architecture of a traced module: one entry per compute node, in graph order"""
    out = []
    for n in gm.graph.nodes:
        if n.op != 'output' and len(n.users) == 0:
            continue            # a node nobody reads is not part of the computed function (counted separately)
        if n.op == 'call_module':
            out.append(hp(gm.get_submodule(str(n.target)), exact=True))
        elif n.op in ('call_function', 'call_method'):
            t = n.target if isinstance(n.target, str) else getattr(n.target, '__name__', str(n.target))
            out.append(['fn', t])
    return out


def dead_nodes(gm):
    return [str(n.target) for n in gm.graph.nodes if n.op not in ('output', 'placeholder') and len(n.users) == 0]


def module_list(torch, model, method, excl):
    """the user's model as the list of modules of Model/Import.v (graph order of the method's own tracer)"""
    import torch.fx as fx
    import torch.nn as nn
    from plinio.methods.pit.nn.module import PITModule
    from plinio.methods.supernet.nn.combiner import SuperNetCombiner
    if method == 'sn':
        from plinio.methods.supernet.graph import SuperNetTracer as T
    elif method == 'mps':
        from plinio.methods.mps.graph import MPSTracer as T
    else:
        from plinio.methods.pit.graph import PITTracer as T
    mm = clone(model)
    flags = {n: m.training for n, m in model.named_modules()}
    tr = T()
    g = tr.trace(mm.eval())
    mods = dict(mm.named_modules())
    names, out = [], []
    for n in g.nodes:
        if n.op != 'call_module' or str(n.target) in names:
            continue
        m = mods[str(n.target)]
        if isinstance(m, PITModule) and not isinstance(m, (nn.BatchNorm1d, nn.BatchNorm2d)):
            k = 'KPit'
        elif type(m) in (nn.Conv1d, nn.Conv2d, nn.Linear):
            k = 'KLayer'
        elif isinstance(m, (nn.BatchNorm1d, nn.BatchNorm2d)):
            k = 'KBn'
        elif isinstance(m, SuperNetCombiner):
            k = 'KComb'
        else:
            k = 'KOther'
        prev, users = None, 0
        if n.args and isinstance(n.args[0], fx.Node) and n.args[0].op == 'call_module' and str(n.args[0].target) in names:
            prev = names.index(str(n.args[0].target))
            users = len(n.args[0].users)
        names.append(str(n.target))
        out.append({'name': str(n.target), 'kind': k, 'excl': str(n.target) in excl, 'prev': prev, 'users': users,
                    'fold': bool(getattr(m, 'fold_bn', False)) if k == 'KPit' else False, 'train': bool(flags[str(n.target)])})
    return out


def trace_plain(torch, model, xs):
    import torch.fx as fx
    from plinio.methods.pit.graph import PITTracer
    mm = clone(model).eval()
    tr = PITTracer()
    g = tr.trace(mm)
    return fx.GraphModule(tr.root, g)


def snapshot(model):
    sd = {k: v.detach().clone() for k, v in model.state_dict().items()}
    flags = {n: m.training for n, m in model.named_modules()}
    return sd, flags


def module_options(model):
    """non-tensor settings of the user's modules that decide what forward() computes (not in state_dict, not .training)"""
    out = {}
    for n, mod in model.named_modules():
        for a in ('hard_softmax', 'softmax_temperature', '_softmax_temperature', 'fold_bn', 'binarization_threshold', 'discrete_cost', 'eps', 'momentum', 'p'):
            if a in vars(mod):
                v = vars(mod)[a]
                if isinstance(v, (bool, int, float, type(None))):
                    out['%s.%s' % (n, a)] = v
        f = vars(mod).get('sample_alpha')
        if f is not None:
            out['%s.sample_alpha' % n] = getattr(f, '__name__', str(f))
    return out


def own_mode_run(torch, model, xs, seed):
    """output of a copy of the model in the mode (flags) it is in, with a fixed random stream, and the copy's state
    afterwards (training-mode BatchNorm updates its statistics, Dropout draws a mask)"""
    mc = clone(model)
    torch.manual_seed(4242 + seed)
    with torch.no_grad():
        y = mc(*xs)
    return y, {k: v.detach().clone() for k, v in mc.state_dict().items()}


def sd_diff(torch, sd0, sd1):
    changed = sorted(k for k in sd0 if k in sd1 and not (sd0[k].shape == sd1[k].shape and sd0[k].dtype == sd1[k].dtype and torch.equal(sd0[k], sd1[k])))
    missing = sorted(k for k in sd0 if k not in sd1)
    new = sorted(k for k in sd1 if k not in sd0)
    return changed, missing, new


def maxdiff(torch, a, b):
    if isinstance(a, (tuple, list)) != isinstance(b, (tuple, list)) or (isinstance(a, (tuple, list)) and len(a) != len(b)):
        return float('inf')         # a tuple where a tensor is expected (or the converse)
    if isinstance(a, (tuple, list)):
        return max(maxdiff(torch, x, y) for x, y in zip(a, b))
    if tuple(a.shape) != tuple(b.shape):
        return float('inf')
    if a.numel() == 0:
        return 0.0
    d = (a.double() - b.double()).abs().max().item()
    return d if d == d else float('inf')


BOOKKEEPING = ('feat_calc',)       # buffers registered on a searchable layer by the features calculators


# ----------------------------------------------------------------------------- the case
def run_case(torch, seed, cfg):
    import torch.nn as nn
    o = {'seed': seed, 'cfg': cfg, 'skip': None, 'fails': [], 'obs': {}}
    try:
        spec = make_spec(seed, cfg)
        if spec is None:
            o['skip'] = 'no-spec'
            return o
        o['arch'] = ga.describe(spec)
        o['topo0'] = (['dw-after-cat'] if ga.has_dw_after_cat(spec) else []) + (['add-of-cat'] if ga.has_add_of_cat(spec) else [])
        o['productions'] = spec.get('productions', [])
        integer = bool(cfg.get('integer'))
        m = ga.build(spec, seed=seed, integer=integer, dtype=torch.float64)
        if cfg.get('pmode'):
            o['pmode'] = apply_padding_modes(torch, m, spec, random.Random(seed * 13 + 5))
        alias_call_sites(m, spec.get('aliases', []))
        o['aliases'] = spec.get('aliases', [])
        xs = ga.example_input(spec, torch, seed, integer=integer, dtype=torch.float64)
        rng = random.Random(seed * 7 + 1)
        g = torch.Generator().manual_seed(seed + 5)
        if cfg.get('reparam'):
            o['reparam'] = reparametrize(torch, m, spec, rng, seed)
        if cfg.get('tbranch'):
            o['tbranch'] = add_training_branch(torch, m, spec, cfg['tbranch'], rng)
            m = m.to(torch.float64)
        method = cfg['method']
        alias_idx = {a for a, _ in spec.get('aliases', [])}
        convs = [i for i, nd in enumerate(spec['nodes']) if nd['k'] in CONVS and i not in alias_idx]
        bnf = {c: b for c, b in bn_followers(spec).items() if c not in alias_idx}
        placed = []
        if method == 'pit' and cfg.get('userpit', 'none') != 'none':
            if cfg['userpit'] == 'all':
                which = list(convs)
            else:
                which = [i for i in convs if rng.random() < 0.5]
                # make sure a layer followed by BN is among them when there is one
                withbn = [i for i in convs if i in bnf]
                if withbn and not any(i in bnf for i in which):
                    which.append(rng.choice(withbn))
                for i in (wanted_pairs(spec, cfg['want']) if cfg.get('want') else []):
                    if i in convs and i not in which:
                        which.append(i)             # the pair this stream is about is hand-placed
                if not which:
                    which = [rng.choice(convs)]
            ufold = cfg['fold'] if cfg.get('ufold', 'same') == 'same' else None
            placed = place_user_pit(torch, m, spec, sorted(which), ufold)
            alias_call_sites(m, spec.get('aliases', []))        # a user-placed layer invoked at two call sites stays ONE object
        sn_blocks = []
        if method == 'sn':
            sn_blocks = place_supernet(torch, m, spec, rng, g)
            m = m.to(torch.float64)
        o['placed'] = placed
        o['sn_blocks'] = sn_blocks
        if cfg.get('bnhp'):
            o['bnhp'] = randomize_bn(torch, m, rng, g, affine_ok=cfg['bnhp'] != 'affine-only')
        excl = ()
        if cfg.get('excl') and method == 'pit':
            c2 = [i for i in convs if i not in placed]
            if c2:
                excl = (ga.name(rng.choice(c2)),)
        o['excl'] = list(excl)
        if method == 'pit':
            handled_idx = set(i for i in convs if ga.name(i) not in excl) if cfg['auto'] else set(placed)
            # a features-concat of two or more producers that PIT does not search (it used to make export() raise,
            # DESIGN.md §9 row 6, repaired): kept and counted
            o['topo'] = (['cat-of-fixed-producers'] if cat_of_fixed(spec, handled_idx) else [])

        # ---- the reference: the model itself, in eval mode, before conversion
        m.eval()
        try:
            with torch.no_grad():
                y0 = m(*xs)
        except RuntimeError as ex0:
            # e.g. reflect padding wider than a feature map that pooling made tiny: the ORIGINAL cannot run
            o['skip'] = 'original-does-not-run'
            o['note'] = str(ex0)[:200]
            return o
        if not all(bool(torch.isfinite(t).all()) for t in (y0 if isinstance(y0, (tuple, list)) else [y0])):
            o['skip'] = 'original-output-not-finite'
            return o
        m.train(bool(cfg['train']))
        flipped = []
        if cfg.get('mixed'):
            # a model with MIXED flags (frozen BatchNorm / Dropout, or single modules switched on inside an eval model):
            # a random subset of the modules below the root is flipped against the root's mode
            cands = [(n, mod) for n, mod in m.named_modules() if n and n != 'layers']
            modal = [(n, mod) for n, mod in cands if isinstance(mod, (nn.BatchNorm1d, nn.BatchNorm2d, nn.Dropout))]
            chosen = [c for c in modal if rng.random() < 0.6] + [c for c in cands if rng.random() < 0.2]
            if not chosen:
                chosen = [rng.choice(modal or cands)]
            for n, mod in chosen:
                mod.training = not bool(cfg['train'])      # this module only, not its children
                flipped.append(n)
        o['flipped'] = sorted(set(flipped))
        sd0, fl0 = snapshot(m)
        own0 = own_mode_run(torch, m, xs, seed)
        wb0 = {n: (mod.weight.detach().clone(), None if mod.bias is None else mod.bias.detach().clone()) for n, mod in m.named_modules()
               if isinstance(mod, (nn.Conv1d, nn.Conv2d, nn.Linear))}
        opt0 = module_options(m)
        user_mods = dict(m.named_modules())
        leaf_names = [n for n, mod in user_mods.items() if n and not isinstance(mod, (nn.ModuleDict, nn.ModuleList)) and n.startswith('layers.')]
        o['mods'] = module_list(torch, m, method, excl)
        exp_arch = None
        if method == 'pit':
            from plinio.methods.pit.nn import PITConv1d, PITConv2d, PITLinear
            pit_handled = (nn.Conv1d, nn.Conv2d, nn.Linear)
            if cfg['auto']:
                handled = {ga.name(i) for i in convs if ga.name(i) not in excl}
            else:
                handled = {ga.name(i) for i in placed}
            exp_arch = expected_export_arch_named(torch, m, xs, cfg['fold'], handled)
        elif method == 'sn':
            pass

        # ---- conversion
        ex = tuple(x[:1] for x in xs) if len(xs) > 1 else xs[0][:1]
        if method == 'pit':
            from plinio.methods import PIT
            w = PIT(m, input_example=ex, autoconvert_layers=bool(cfg['auto']), fold_bn=bool(cfg['fold']), exclude_names=excl)
        elif method == 'sn':
            from plinio.methods import SuperNet
            w = SuperNet(m, input_example=ex)
        else:
            from plinio.methods import MPS
            w = MPS(m, input_example=ex)
        ob = o['obs']
        ob['found_training'] = bool(cfg['train'])
        ob['wrapper_training'] = bool(w.training)
        ob['seed_training'] = bool(w.seed.training)
        ob['seed_sub_training'] = sorted({bool(mm.training) for n, mm in w.seed.named_modules() if n})
        sd1, fl1 = snapshot(m)
        ob['user_flags_before'] = fl0
        ob['user_flags_after'] = {n: fl1.get(n) for n in fl0}
        ob['user_root_training_after'] = bool(m.training)
        opt1 = module_options(m)
        ob['options_changed'] = sorted('%s: %s -> %s' % (k, opt0[k], opt1.get(k)) for k in opt0 if opt1.get(k) != opt0[k])
        own1 = own_mode_run(torch, m, xs, seed)
        ob['d_user_own_mode'] = maxdiff(torch, own0[0], own1[0])
        ob['own_mode_state_diff'] = sd_diff(torch, own0[1], {k: v for k, v in own1[1].items() if k in own0[1]})[0]
        user_ids = {id(mod): n for n, mod in m.named_modules()}
        bad_seed = []
        for n, mm in w.seed.named_modules():
            if not n:
                continue
            exp = fl0[user_ids[id(mm)]] if id(mm) in user_ids else bool(cfg['train'])
            if bool(mm.training) != exp:
                bad_seed.append(n)
        ob['seed_sub_unexpected'] = bad_seed
        ch, mi, nw = sd_diff(torch, sd0, sd1)
        ob['sd_changed'], ob['sd_missing'], ob['sd_new'] = ch, mi, nw
        # identity of the user's modules inside the seed
        ident = {}
        seed_mods = dict(w.seed.named_modules())
        for n in leaf_names:
            if n in seed_mods:
                ident[n] = 'shared' if seed_mods[n] is user_mods[n] else 'replaced'
            else:
                ident[n] = 'absent'
        ob['identity'] = ident
        ob['user_types'] = {n: type(user_mods[n]).__name__ for n in leaf_names}
        ob['seed_types'] = {n: type(seed_mods[n]).__name__ for n in leaf_names if n in seed_mods}
        ob['user_has_bn_attr'] = {n: (getattr(user_mods[n], 'bn', None) is not None) for n in leaf_names if hasattr(user_mods[n], 'bn')}

        # ---- function preserved: wrapper (eval) vs original, user's model afterwards vs original
        w.eval()
        with torch.no_grad():
            yw = w(*xs)
        ob['d_wrapper'] = maxdiff(torch, y0, yw)
        mc = clone(m).eval()
        with torch.no_grad():
            yu = mc(*xs)
        ob['d_user_after'] = maxdiff(torch, y0, yu)
        w.train(bool(cfg['train']))

        # ---- open masks of the PIT layers + fold data (correspondence with the Coq model)
        if method == 'pit':
            layers = {}
            for n, L in w.seed.named_modules():
                if isinstance(L, (PITConv1d, PITConv2d, PITLinear)):
                    d = {'type': type(L).__name__, 'cout': int(L.out_features_masker.alpha.numel()),
                         'features_mask': [bool(v > 0.5) for v in L.features_mask.detach().reshape(-1)],
                         'alpha': [float(v) for v in L.out_features_masker.alpha.detach()],
                         'fold_flag': bool(L.fold_bn), 'has_bn': L.bn is not None}
                    if isinstance(L, PITConv1d):
                        d.update(K=int(L.kernel_size[0]), d0=int(L.dilation[0]),
                                 time_mask=[bool(v > 0.5) for v in L.time_mask.detach().reshape(-1)],
                                 beta=[float(v) for v in L.timestep_masker.beta.detach()],
                                 gamma=[float(v) for v in L.dilation_masker.gamma.detach()])
                    layers[n] = d
            ob['pit_layers'] = layers
            folds = []
            if cfg['fold']:
                for ci, bi in bnf.items():
                    cn, bn_ = ga.name(ci), ga.name(bi)
                    if cn in layers and ident.get(bn_) == 'absent':
                        L = seed_mods[cn]
                        uc, ub = user_mods[cn], user_mods[bn_]
                        w0, b0 = wb0[cn]
                        ch_ = rng.randrange(w0.shape[0])
                        r = torch.rsqrt(sd0[bn_ + '.running_var'] + ub.eps)
                        folds.append({'layer': cn, 'channel': ch_,
                                      'w': [float(v) for v in w0[ch_].reshape(-1)][:24],
                                      'b': None if b0 is None else float(b0[ch_]),
                                      'g': float(sd0[bn_ + '.weight'][ch_]) if bn_ + '.weight' in sd0 else 1.0, 'be': float(sd0[bn_ + '.bias'][ch_]) if bn_ + '.bias' in sd0 else 0.0,
                                      'mu': float(sd0[bn_ + '.running_mean'][ch_]), 'r': float(r[ch_]),
                                      'w_folded': [float(v) for v in L.weight.detach()[ch_].reshape(-1)][:24],
                                      'b_folded': None if L.bias is None else float(L.bias.detach()[ch_])})
            ob['folds'] = folds

        # ---- immediate export
        if method in ('pit', 'sn'):
            e = w.export()
            e.eval()
            with torch.no_grad():
                ye = e(*xs)
            ob['export_out_shape_ok'] = (not isinstance(ye, (tuple, list))) and tuple(ye.shape) == tuple(y0.shape)
            ob['d_export'] = maxdiff(torch, y0, ye)
            if method == 'pit':
                ob['export_arch'] = graph_arch(e)
                ob['expected_arch'] = exp_arch
                ob['export_dead_nodes'] = dead_nodes(e)
                emods = dict(e.named_modules())
                ob['exported_hp'] = {n: hp(emods[n]) for n in ob['pit_layers'] if n in emods}
                from plinio.methods.pit.nn.module import PITModule
                ob['export_nas_layers_left'] = sorted(n for n, mm in e.named_modules() if isinstance(mm, PITModule))
                # an intervening export(add_bn=False) is an observer: afterwards the wrapper still computes the original
                # function and a plain export() still gives the original architecture back
                try:
                    w.export(add_bn=False)
                    w.eval()
                    with torch.no_grad():
                        yw2 = w(*xs)
                    ob['d_wrapper_after_export'] = maxdiff(torch, y0, yw2)
                    e3 = w.export()
                    ob['export_arch_after_export'] = graph_arch(e3)
                except Exception as ex3:
                    ob['export_sequence_exc'] = '%s: %s' % (type(ex3).__name__, str(ex3)[:200])
                w.train(bool(cfg['train']))
        o['n_layers'] = len(convs)
        o['n_bn_after'] = len(bnf)
    except Exception as ex_:
        o['fails'].append(('exception', '%s: %s' % (type(ex_).__name__, str(ex_)[:300])))
        o['trace'] = traceback.format_exc()[-1800:]
    return o


def expected_export_arch_named(torch, model, xs, fold, handled):
    """see expected_export_arch; `handled` = qualified names of the layers PIT turns into / finds as PIT* layers"""
    import torch.nn as nn
    gm = trace_plain(torch, model, xs)
    mods = dict(gm.named_modules())
    out = []
    for n in gm.graph.nodes:
        if n.op == 'call_module':
            mod = mods[str(n.target)]
            if fold and isinstance(mod, (nn.BatchNorm1d, nn.BatchNorm2d)) and n.args and getattr(n.args[0], 'op', '') == 'call_module' \
                    and str(n.args[0].target) in handled:
                for e in reversed(out):
                    if e['name'] == str(n.args[0].target):
                        e['hp'] = list(e['hp'])
                        e['hp'][3 if e['hp'][0] == 'Linear' else 8] = True
                        break
                continue
            out.append({'name': str(n.target), 'hp': hp(mod)})
        elif n.op in ('call_function', 'call_method'):
            t = n.target if isinstance(n.target, str) else getattr(n.target, '__name__', str(n.target))
            out.append({'name': n.name, 'hp': ['fn', t]})
    return [e['hp'] for e in out]


# ----------------------------------------------------------------------------- oracle (the sentences of the property)
def oracle(o):
    """-> list of (key, detail) : failures of the property on this case"""
    f = list(o['fails'])
    if o['skip']:
        return []
    if f:
        cfg = o['cfg']
        tag = cfg['method'] + ('' if cfg['method'] != 'pit' else (':auto' if cfg['auto'] else ':import') + (':userpit' if o.get('placed') else '') + (':fold' if cfg['fold'] else ':nofold'))
        where = 'export' if 'in export' in o.get('trace', '') else 'conversion'
        return [('%s:%s:%s:%s' % (k, where, tag, str(info).split(':')[0]), info) for k, info in f]
    cfg, ob = o['cfg'], o['obs']
    method = cfg['method']
    tol = 0.0 if cfg.get('integer') else TOL
    tag = method + ('' if method != 'pit' else (':auto' if cfg['auto'] else ':import') + (':userpit' if o['placed'] else '') + (':fold' if cfg['fold'] else ':nofold'))
    if o.get('aliases') and method == 'pit':
        tag = 'pit:two-call-sites' + (':fold' if cfg['fold'] else ':nofold')      # a conv(+BN) pair invoked at two call sites
    if method in ('pit', 'sn'):
        if not ob['d_wrapper'] <= tol:
            f.append(('wrapped-differs-from-original:' + tag, 'max |wrapped(x) - original(x)| = %r in eval mode' % ob['d_wrapper']))
        if not ob['d_user_after'] <= 0.0:
            f.append(('user-model-output-altered:' + tag, 'the model object handed to the constructor computes a different function afterwards: max diff %r' % ob['d_user_after']))
        if ob['sd_changed'] or ob['sd_missing']:
            f.append(('user-model-params-altered:' + tag, 'state_dict of the user model: changed %s missing %s' % (ob['sd_changed'][:4], ob['sd_missing'][:4])))
        bad_new = [k for k in ob['sd_new'] if not any(b in k.split('.')[-1] for b in BOOKKEEPING)]
        if bad_new:
            f.append(('user-model-new-state:' + tag, 'state_dict of the user model gained entries %s' % bad_new[:6]))
        if 'export_arch' in ob and ob['export_arch'] != ob['expected_arch']:
            k = next((i for i, (a, b) in enumerate(zip(ob['export_arch'], ob['expected_arch'])) if a != b), min(len(ob['export_arch']), len(ob['expected_arch'])))
            f.append(('export-architecture-differs:' + tag, 'node %d: exported %s, original %s (lengths %d / %d)' % (
                k, ob['export_arch'][k] if k < len(ob['export_arch']) else None, ob['expected_arch'][k] if k < len(ob['expected_arch']) else None, len(ob['export_arch']), len(ob['expected_arch']))))
        if ob.get('export_nas_layers_left'):
            f.append(('export-keeps-nas-layers:' + tag, 'the exported network still contains searchable layers: %s' % ob['export_nas_layers_left'][:5]))
        if 'export_sequence_exc' in ob:
            f.append(('export-sequence-raises:' + tag, 'export(add_bn=False); forward; export() raised %s' % ob['export_sequence_exc']))
        if 'd_wrapper_after_export' in ob and not ob['d_wrapper_after_export'] <= tol:
            f.append(('wrapped-differs-after-export:' + tag, 'after one export(add_bn=False) the wrapped model no longer agrees with the original in eval mode: max diff %r' % ob['d_wrapper_after_export']))
        if 'export_arch_after_export' in ob and ob['export_arch_after_export'] != ob['expected_arch']:
            a_, b_ = ob['export_arch_after_export'], ob['expected_arch']
            k = next((i for i, (x_, y_) in enumerate(zip(a_, b_)) if x_ != y_), min(len(a_), len(b_)))
            f.append(('export-architecture-differs-after-export:' + tag, 'export() after an export(add_bn=False): node %d: exported %s, original %s (lengths %d / %d)' % (
                k, a_[k] if k < len(a_) else None, b_[k] if k < len(b_) else None, len(a_), len(b_))))
        if not ob.get('export_out_shape_ok', True):
            f.append(('export-output-shape-differs:' + tag, ''))
    if method in ('pit', 'mps'):
        if ob['wrapper_training'] != ob['found_training'] or ob['seed_training'] != ob['found_training'] or ob['seed_sub_unexpected']:
            f.append(('mode-not-kept:' + method, 'found training=%s; wrapper %s seed %s; seed sub-modules with another flag than the one found (shared with the user model: its flag, new: the root mode): %s' % (ob['found_training'], ob['wrapper_training'], ob['seed_training'], ob['seed_sub_unexpected'][:6])))
    if method in ('pit', 'sn') and ob.get('options_changed'):
        f.append(('user-model-options-altered:' + tag, 'settings of the modules of the user model were overwritten by the conversion: %s' % ob['options_changed'][:6]))
    if method in ('pit', 'sn') and (not ob['d_user_own_mode'] <= 0.0 or ob['own_mode_state_diff']):
        f.append(('user-model-own-mode-output-altered:' + tag, 'run in the mode it was handed over in (flags %s), the user model gives another output / updates other statistics than before: max diff %r, state differing after the run %s' % (
            'mixed: flipped ' + str(o.get('flipped', [])[:4]) if o.get('flipped') else 'uniform', ob['d_user_own_mode'], ob['own_mode_state_diff'][:4])))
    changed = sorted(n for n, v in ob['user_flags_before'].items() if ob['user_flags_after'].get(n) != v)
    if changed:
        f.append(('user-model-mode-altered:' + method, 'the model was handed over with training=%s; afterwards .training differs on %d of its modules, e.g. %s (root .training = %s)' % (
            ob['found_training'], len(changed), [c or '<root>' for c in changed[:4]], ob['user_root_training_after'])))
    return f


def worker(args):
    import warnings
    warnings.filterwarnings('ignore')
    import torch
    torch.set_num_threads(1)
    torch.set_default_dtype(torch.float64)
    return run_case(torch, *args)
