"""C07 -- second tie, by translation (DESIGN.md §13, "Second tie, by translation").

translator/import2coq.py reads the source of the BatchNorm fusion / folding of the import in the tree under test
(remove_bn_inplace, fuse_pit_modules, convert of pit/graph.py; fuse_bn_inplace, fuse_mps_modules, convert of mps/graph.py;
fuse_consecutive_layers; __init__ and forward of PITConv1d / PITConv2d / PITLinear) and writes coq/Gen/ImportGen.v;
coq/Proofs/ImportGen.v proves the generated functions equal to Model/Import.v; Props/C07.v states C07_generated_*.
What vlib/c07.py needs:

    rej = c07_gen.regenerate(ctx)                      # BEFORE ctx.build(); None, or why the translator refused the source
    ...
    gv2 = ctx.coq_eval_sharded('gfold', c07_gen.IMPORTS, '', c07_gen.gen_exprs(ex2), shard=200)
    mism += c07_gen.differences(fl, v2, gv2)           # the generated folding (PIT and MPS) next to run_fold, same numbers
    mism += c07_gen.direct(ctx, torch)                 # optional: the real remove_bn_inplace / fuse_bn_inplace / forwards on small layers
    ...
    c07_gen.report(ctx, rej, built)                    # translator-rejected wording
"""
import os
import re
from .common import COQ, REPO, write_if_changed, Fraction, coq, close
from translator import import2coq

GEN_V = os.path.join(COQ, 'Gen', 'ImportGen.v')
IMPORTS = ['Plinio.Base.Qx', 'Plinio.Model.Import', 'Plinio.Gen.ImportGen']
TRANSLATOR = 'translator/import2coq.py'
SOURCE = ('plinio/methods/pit/graph.py (remove_bn_inplace, fuse_pit_modules, convert), plinio/methods/mps/graph.py (fuse_bn_inplace, fuse_mps_modules, convert), '
          'plinio/graph/transformation.py (fuse_consecutive_layers), plinio/methods/pit/nn/{conv1d,conv2d,linear}.py (__init__, forward)')


def regenerate(ctx=None, repo=None):
    """translate the tree under test into Gen/ImportGen.v (written only when it changed).
    -> None, or the reason why the translator refused the source (the file then fails on purpose)"""
    try:
        text, rej = import2coq.translate_repo(repo or REPO), None
    except (import2coq.Reject, SyntaxError, OSError) as e:
        rej = '%s: %s' % (type(e).__name__, e)
        text = ('(* translator/import2coq.py REFUSED the import code of the tree under test:\n   %s\n   no model of the current code exists; this file fails on purpose. *)\n'
                'Definition translator_rejected : True := 0.\n' % rej.replace('*)', '* )').replace('(*', '( *'))
    write_if_changed(GEN_V, text)
    if ctx is not None and rej:
        ctx.notes.append('generated model: the translator refused the source: ' + rej)
    return rej


def status(rej, built):
    """the `generated_model` entry of the evidence file"""
    return {'file': 'coq/Gen/ImportGen.v', 'translator': TRANSLATOR, 'source': SOURCE,
            'status': 'refused: ' + rej if rej else 'regenerated; equal to the hand model (C07_generated_*)' if built else 'regenerated; obligations do not check'}


def _split_args(e):
    """top-level arguments of a Coq application (parentheses / brackets respected)"""
    out, cur, depth = [], '', 0
    for ch in e:
        if ch in '([':
            depth += 1
        elif ch in ')]':
            depth -= 1
        if ch == ' ' and depth == 0:
            if cur:
                out.append(cur)
            cur = ''
        else:
            cur += ch
    if cur:
        out.append(cur)
    return out


def gen_expr(e):
    """`run_fold g be mu r w ob` of the hand model -> `run_fold_gen (Some g) (Some be) mu r w ob` (the generated PIT and MPS
    folding on the same numbers; rsqrt(var + eps) := the number r torch computed); None if the expression has no counterpart"""
    a = _split_args(e)
    if len(a) != 7 or a[0] != 'run_fold':
        return None
    return 'run_fold_gen (Some %s) (Some %s) %s' % (a[1], a[2], ' '.join(a[3:]))


def gen_exprs(exprs):
    return [g for g in map(gen_expr, exprs) if g is not None]


def differences(cases, vals, gvals, limit=3):
    """[(what, case, info)] where the generated folding (PIT remove_bn_inplace and MPS fuse_bn_inplace) differs from run_fold.
    cases: the (case, fold record) list the hand values were computed for; vals: run_fold values (weights, bias)"""
    if len(vals) != len(gvals):
        return [('generated model: %d values for %d cases' % (len(gvals), len(vals)), cases[0][0] if cases else (0, {}), None)]
    out = []
    for (c, f), hv, gv in zip(cases, vals, gvals):
        g = gv[1] if isinstance(gv, tuple) and gv and gv[0] == 'Some' else gv
        ok = g is not None and isinstance(g, tuple) and len(g) == 4 and (g[0], g[1]) == (hv[0], hv[1]) and (g[2], g[3]) == (hv[0], hv[1])
        if not ok:
            out.append(('generated folding differs from the hand-written model on %s channel %s' % (f.get('layer'), f.get('channel')), c, {'hand': str(hv)[:200], 'generated': str(gv)[:200]}))
            if len(out) >= limit:
                break
    return out


# ------------------------------------------------------------------ direct differential run of the translated functions
def _q(x):
    return coq(Fraction(float(x)))


def _oq(x):
    return 'None' if x is None else '(Some %s)' % _q(x)


def _w(rows):
    return '[' + '; '.join('[' + '; '.join(_q(v) for v in r) + ']' for r in rows) + ']'


def direct(ctx, torch, n=None):
    """the REAL remove_bn_inplace / fuse_bn_inplace / PIT*.forward of the tree under test on small random layers (float64,
    conv bias on/off, BatchNorm affine on/off, fold on/off, all masks open as after the import), one channel compared with the
    generated model evaluated by vm_compute with rsqrt := the number torch.rsqrt(var + eps) gave; the *_ok predicates must be true.
    -> list of mismatches in the shape c07.py uses"""
    import copy
    import random
    import torch.nn as nn
    from plinio.methods.pit.graph import remove_bn_inplace
    from plinio.methods.mps.graph import fuse_bn_inplace
    from plinio.methods.pit.nn import PITConv1d, PITConv2d, PITLinear
    from plinio.methods.pit.nn.features_masker import PITFeaturesMasker
    from plinio.methods.pit.nn.timestep_masker import PITTimestepMasker
    from plinio.methods.pit.nn.dilation_masker import PITDilationMasker
    rng = random.Random(ctx.seed * 7919 + 7)
    n = n or (24 if ctx.quick else 240)
    exprs, want, info = [], [], []
    for k in range(n):
        kind = ('conv1d', 'conv2d', 'linear', 'mps-conv2d', 'mps-linear')[k % 5]
        cin, cout, K = rng.randint(1, 3), rng.randint(1, 4), rng.randint(1, 4)
        bias, affine, fold = rng.random() < 0.6, rng.random() < 0.7, rng.random() < 0.6
        eps = rng.choice([1e-5, 1e-3, 0.1])
        torch.manual_seed(rng.randrange(1 << 30))
        if kind == 'conv1d':
            plain, bn = nn.Conv1d(cin, cout, K, bias=bias).double(), nn.BatchNorm1d(cout, eps=eps, affine=affine).double()
            x = torch.randn(1, cin, K, dtype=torch.float64)
        elif kind in ('conv2d', 'mps-conv2d'):
            plain, bn = nn.Conv2d(cin, cout, (1, K), bias=bias).double(), nn.BatchNorm2d(cout, eps=eps, affine=affine).double()
            x = torch.randn(1, cin, 1, K, dtype=torch.float64)
        else:
            K = 1
            plain, bn = nn.Linear(cin, cout, bias=bias).double(), nn.BatchNorm1d(cout, eps=eps, affine=affine).double()
            x = torch.randn(1, cin, dtype=torch.float64)
        with torch.no_grad():
            bn.running_mean.copy_(torch.randn(cout, dtype=torch.float64))
            bn.running_var.copy_(torch.rand(cout, dtype=torch.float64) * 2 + 0.01)
            if affine:
                bn.weight.copy_(torch.randn(cout, dtype=torch.float64))
                bn.bias.copy_(torch.randn(cout, dtype=torch.float64))
        bn.eval()
        ch = rng.randrange(cout)
        r = float(torch.rsqrt(bn.running_var + bn.eps)[ch])
        w0 = [[float(v) for v in row.reshape(-1)] for row in plain.weight.detach()[ch].reshape(cin, -1)]
        b0 = float(plain.bias.detach()[ch]) if bias else None
        bnrec = '{| m_mean := %s; m_var := %s; m_weight := %s; m_bias := %s; m_eps := %s; m_track := true |}' % (
            _q(bn.running_mean[ch]), _q(bn.running_var[ch]), _oq(bn.weight.detach()[ch] if affine else None), _oq(bn.bias.detach()[ch] if affine else None), _q(bn.eps))
        lin0 = '{| g_w := %s; g_b := %s; g_bn := None; g_fold := %s |}' % (_w(w0), _oq(b0), coq(fold))
        rs = '(fun _ => %s)' % _q(r)
        xs = [[float(v) for v in row.reshape(-1)] for row in x[0].reshape(cin, -1)]
        with torch.no_grad():
            if kind.startswith('mps'):
                lin = copy.deepcopy(plain)
                fuse_bn_inplace(lin, bn)
                y = float(lin(x).reshape(cout, -1)[ch, 0])
                exprs.append('match fuse_bn_inplace_gen %s %s %s with Some L => Some (map qpair (List.concat (g_w L)), qpair (match g_b L with Some v => v | None => 0 end), '
                             'qpair (plain (g_w L) (g_b L) %s), fuse_bn_inplace_ok %s %s %s) | None => None end' % (rs, lin0, bnrec, _w(xs), rs, lin0, bnrec))
            else:
                if kind == 'conv1d':
                    lin = PITConv1d(plain, PITFeaturesMasker(cout), PITTimestepMasker(K), PITDilationMasker(K), fold_bn=fold)
                    fwd = 'pit_conv1d_forward_gen %s L (repeat true %d) true %s' % (rs, K, _w(xs))
                elif kind == 'conv2d':
                    lin = PITConv2d(plain, PITFeaturesMasker(cout), fold_bn=fold)
                    fwd = 'pit_conv2d_forward_gen %s L true %s' % (rs, _w(xs))
                else:
                    lin = PITLinear(plain, PITFeaturesMasker(cout), fold_bn=fold)
                    fwd = 'pit_linear_forward_gen %s L true %s' % (rs, _w(xs))
                lin = lin.double().eval()
                remove_bn_inplace(lin, bn, fold)
                y = float(lin(x).reshape(cout, -1)[ch, 0])
                exprs.append('match remove_bn_inplace_gen %s %s %s %s with Some L => Some (map qpair (List.concat (g_w L)), qpair (match g_b L with Some v => v | None => 0 end), '
                             'qpair (%s), remove_bn_inplace_ok %s %s %s %s) | None => None end' % (rs, lin0, bnrec, coq(fold), fwd, rs, lin0, bnrec, coq(fold)))
            wf = [float(v) for v in lin.weight.detach()[ch].reshape(-1)]
            bf = float(lin.bias.detach()[ch]) if lin.bias is not None else 0.0
        want.append((wf, bf, y))
        info.append({'kind': kind, 'cin': cin, 'cout': cout, 'K': K, 'bias': bias, 'affine': affine, 'fold': fold, 'eps': eps, 'channel': ch})
    vals = ctx.coq_eval_sharded('gdirect', IMPORTS, '', exprs, shard=60)
    out = []
    for (wf, bf, y), v, inf in zip(want, vals, info):
        ctx.corr += len(wf) + 3
        g = v[1] if isinstance(v, tuple) and v and v[0] == 'Some' else None
        ok = g is not None and len(g[0]) == len(wf) and all(close(a, Fraction(p, q), rel=2.0 ** -40) for a, (p, q) in zip(wf, g[0])) \
            and close(bf, Fraction(*g[1]), rel=2.0 ** -36) and close(y, Fraction(*g[2]), rel=2.0 ** -30) and g[3] is True
        if not ok:
            out.append(('generated model vs the real %s on a small layer' % ('fuse_bn_inplace' if inf['kind'].startswith('mps') else 'remove_bn_inplace + forward'),
                        (ctx.seed, dict(inf, method='direct')), {'impl': {'bias': bf, 'y': y, 'w': wf[:6]}, 'generated': str(v)[:300]}))
    ctx.dist['generated-model-direct-cases'] += len(want)
    return out


def report(ctx, rej, built):
    """translator-rejected wording for the final verdict; True if a violation was filed"""
    if built or ctx.violations:
        return False
    if rej:
        ctx.violation('translator-rejected', {'translator': TRANSLATOR, 'source': SOURCE, 'reason': rej, 'theorems': [o[0] for o in ctx.obligations if not o[1]]},
                      'the source of the BatchNorm fusion / folding is outside the subset the translator accepts (%s): no generated model, the C07_generated_* theorems are not established' % rej[:300], no_input=True)
        return True
    return False
