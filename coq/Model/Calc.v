(* Model/Calc.v — C09: input-features annotation of PLiNIO (plinio/graph/annotation.py,
   features_calculation.py, methods/pit/graph.py).  Executable definitions only, no proofs.

   A network is a list of nodes in topological order; node i refers to earlier nodes by index; the
   network output is the last node.  Every per-node quantity is computed by a left-to-right fold that
   appends one result per node (`build`), so all theorems are inductions over the node list.

   `fixd : bool` selects the repaired code (true) or the pinned upstream behaviour (false):
     - buffer names of Const/Flatten calculators use the prefix (true) or ignore it (false);
     - a features-concat takes its operands from the argument list (true) or from the de-duplicated
       `all_input_nodes` (false);
     - build_shared_features_map freezes components tied to excluded layers / concatenations (true). *)
From Coq Require Import List Bool Arith Lia.
Import ListNotations.

Inductive lkind := Full | Dw.
Inductive ptag := TPlain | TFlatKeep | TSqM | TSqF | TUnsq.   (* propagating op / shape op that keeps axis 1 *)
Inductive ftag := FFlatten | FSqM | FSqF.                      (* shape op that gets a Flatten calculator *)

Inductive node :=
| NIn    (c : nat)
| NLayer (src cout : nat) (k : lkind) (srch : bool)   (* conv / linear; srch = converted to a PIT layer *)
| NBn    (src : nat) (srch : bool)
| NProp  (src : nat) (t : ptag)
| NFlat  (src mult : nat) (t : ftag)
| NJoin  (a b : nat) (time : bool)                    (* add / sub (false), time-axis cat (true) *)
| NCat   (srcs : list nat).

Definition net := list node.

Definition build {A} (f : list A -> node -> A) (nt : net) : list A :=
  fold_left (fun acc nd => acc ++ [f acc nd]) nt [].

Definition src1 (nd : node) : nat :=
  match nd with
  | NIn _ => 0 | NLayer s _ _ _ => s | NBn s _ => s | NProp s _ => s | NFlat s _ _ => s
  | NJoin a _ _ => a | NCat l => hd 0 l
  end.

Definition srcs_of (nd : node) : list nat :=
  match nd with
  | NIn _ => [] | NLayer s _ _ _ => [s] | NBn s _ => [s] | NProp s _ => [s] | NFlat s _ _ => [s]
  | NJoin a b _ => [a; b] | NCat l => l
  end.

(* ---------------------------------------------------------------- static widths, well-formedness *)
Definition width_step (acc : list nat) (nd : node) : nat :=
  let g j := nth j acc 0 in
  match nd with
  | NIn c => c
  | NLayer _ co _ _ => co
  | NBn s _ => g s | NProp s _ => g s
  | NFlat s m _ => g s * m
  | NJoin a _ _ => g a
  | NCat l => list_sum (map g l)
  end.
Definition widths (nt : net) : list nat := build width_step nt.

Definition wf_step (acc : list nat) (nd : node) : bool :=
  let i := length acc in
  let g j := nth j acc 0 in
  forallb (fun j => j <? i) (srcs_of nd) &&
  match nd with
  | NLayer s co Dw _ => co =? g s
  | NJoin a b _ => g a =? g b
  | NCat l => negb (match l with [] => true | _ => false end)
  | _ => true
  end.
Fixpoint wf_from (acc : list nat) (nt : net) : bool :=
  match nt with
  | [] => true
  | nd :: r => wf_step acc nd && wf_from (acc ++ [width_step acc nd]) r
  end.
Definition wf (nt : net) : bool := wf_from [] nt.

(* ---------------------------------------------------------------- (i) ground truth *)
Definition expand (m : nat) (l : list bool) : list bool := flat_map (fun b => repeat b m) l.
Fixpoint map2 {A} (f : A -> A -> A) (x y : list A) : list A :=
  match x, y with a :: x', b :: y' => f a b :: map2 f x' y' | _, _ => [] end.
Definition count (l : list bool) : nat := length (filter (fun b => b) l).

(* ms i = binarized mask of the masker of layer i *)
Definition alive_step (ms : nat -> list bool) (acc : list (list bool)) (nd : node) : list bool :=
  let i := length acc in
  let g j := nth j acc [] in
  match nd with
  | NIn c => repeat true c
  | NLayer _ co Full true => ms i
  | NLayer _ co Full false => repeat true co
  | NLayer s _ Dw true => map2 andb (g s) (ms i)
  | NLayer s _ Dw false => g s
  | NBn s _ => g s | NProp s _ => g s
  | NFlat s m _ => expand m (g s)
  | NJoin a b _ => map2 orb (g a) (g b)
  | NCat l => flat_map g l
  end.
Definition alive (nt : net) (ms : nat -> list bool) : list (list bool) := build (alive_step ms) nt.

(* ---------------------------------------------------------------- (ii) node flags (add_node_properties) *)
(* (features_propagating, features_defining, shared_input_features, flatten, squeeze, unsqueeze, features_concatenate) *)
Definition flags_of (nd : node) : list bool :=
  match nd with
  | NIn _ =>                 [false; true;  false; false; false; false; false]
  | NLayer _ _ Full _ =>     [false; true;  false; false; false; false; false]
  | NLayer _ _ Dw _ =>       [true;  false; false; false; false; false; false]
  | NBn _ _ =>               [true;  false; false; false; false; false; false]
  | NProp _ TPlain =>        [true;  false; false; false; false; false; false]
  | NProp _ TFlatKeep =>     [false; false; false; true;  false; false; false]
  | NProp _ TSqM =>          [false; false; false; false; true;  false; false]
  | NProp _ TSqF =>          [true;  false; false; false; true;  false; false]
  | NProp _ TUnsq =>         [false; false; false; false; false; true;  false]
  | NFlat _ _ FFlatten =>    [false; false; false; true;  false; false; false]
  | NFlat _ _ FSqM =>        [false; false; false; false; true;  false; false]
  | NFlat _ _ FSqF =>        [true;  false; false; false; true;  false; false]
  | NJoin a b _ =>           [true;  false; negb (a =? b); false; false; false; false]
  | NCat _ =>                [true;  false; false; false; false; false; true]
  end.

(* ---------------------------------------------------------------- calculators *)
Inductive calc :=
| CConst (id c : nat)
| CMod   (i : nat)
| CFlat  (id : nat) (p : calc) (m : nat)
| CCat   (cs : list calc).

Definition dedup (l : list nat) : list nat := nodup Nat.eq_dec l.

(* add_features_calculator (+ pit_features_calc): the calculator of the OUTPUT of every node *)
Definition calc_step (fixd : bool) (acc : list calc) (nd : node) : calc :=
  let i := length acc in
  let g j := nth j acc (CConst 0 0) in
  match nd with
  | NIn c => CConst i c
  | NLayer _ _ _ true => CMod i
  | NLayer _ co Full false => CConst i co
  | NLayer s _ Dw false => g s
  | NBn s _ => g s | NProp s _ => g s
  | NFlat s m _ => CFlat i (g s) m
  | NJoin a _ _ => g a
  | NCat l => CCat (map g (if fixd then l else dedup l))
  end.
Definition calcs (fixd : bool) (nt : net) : list calc := build (calc_step fixd) nt.

(* associate_input_features: the node that sets the features of the tensor produced by node i *)
Definition setter_step (acc : list nat) (nd : node) : nat :=
  let i := length acc in
  match nd with
  | NIn _ => i | NLayer _ _ Full _ => i | NFlat _ _ _ => i | NCat _ => i
  | _ => nth (src1 nd) acc 0
  end.
Definition setters (nt : net) : list nat := build setter_step nt.

Definition node_at (nt : net) (i : nat) : node := nth i nt (NIn 0).

(* Conv/Linear-BN fusion (fuse_pit_modules): a BatchNorm directly after a PIT layer disappears *)
Definition fused (nt : net) (i : nat) : bool :=
  match node_at nt i with
  | NBn s _ => match node_at nt s with NLayer _ _ _ true => true | _ => false end
  | _ => false
  end.
(* PIT modules that receive an input_features_calculator *)
Definition consumer (nt : net) (i : nat) : bool :=
  match node_at nt i with
  | NLayer _ _ _ true => true
  | NBn _ true => negb (fused nt i)
  | _ => false
  end.
Definition input_calc (fixd : bool) (nt : net) (i : nat) : calc :=
  nth (nth (src1 (node_at nt i)) (setters nt) 0) (calcs fixd nt) (CConst 0 0).

(* ideal evaluation: constants read from the term itself *)
Fixpoint cmask (ms : nat -> list bool) (c : calc) : list bool :=
  match c with
  | CConst _ n => repeat true n
  | CMod i => ms i
  | CFlat _ p m => expand m (cmask ms p)
  | CCat cs => (fix go (l : list calc) := match l with [] => [] | x :: r => cmask ms x ++ go r end) cs
  end.

(* ---------------------------------------------------------------- register: buffers on the consumer *)
Definition key := (nat * nat * list nat)%type.      (* consumer module, base name (0 const, 1 multiplier), prefix tokens *)
Definition key_eqb (a b : key) : bool :=
  match a, b with (c1, b1, p1), (c2, b2, p2) =>
    (c1 =? c2) && (b1 =? b2) && (if list_eq_dec Nat.eq_dec p1 p2 then true else false) end.
Record rstate := { regs : list (nat * key); store : list (key * nat) }.
Definition lookup_reg (id : nat) (st : rstate) : option key :=
  match find (fun e => fst e =? id) (regs st) with Some e => Some (snd e) | None => None end.
Definition lookup_store (k : key) (st : rstate) : option nat :=
  match find (fun e => key_eqb (fst e) k) (store st) with Some e => Some (snd e) | None => None end.
(* `if self.mod is None:` register once; register_buffer overwrites an existing buffer of that name *)
Definition write (id : nat) (k : key) (v : nat) (st : rstate) : rstate :=
  match lookup_reg id st with
  | Some _ => st
  | None => {| regs := (id, k) :: regs st; store := (k, v) :: store st |}
  end.
(* prefix tokens: 0 = "prev_", S i = "prev_<i>"; prefixes are prepended; Concat accumulates them *)
Fixpoint reg (fixd : bool) (cons : nat) (P : list nat) (c : calc) (st : rstate) : rstate :=
  match c with
  | CConst id n => write id (cons, 0, if fixd then P else []) n st
  | CMod _ => st
  | CFlat id p m => write id (cons, 1, if fixd then P else []) m (reg fixd cons (0 :: P) p st)
  | CCat cs => (fix go (l : list calc) (k : nat) (P : list nat) (st : rstate) :=
                  match l with
                  | [] => st
                  | x :: r => go r (S k) (S k :: P) (reg fixd cons (S k :: P) x st)
                  end) cs 0 P st
  end.
(* register_input_features: consumers in graph order *)
Definition register_all (fixd : bool) (nt : net) : rstate :=
  fold_left (fun st i => if consumer nt i then reg fixd i [] (input_calc fixd nt i) st else st)
            (seq 0 (length nt)) {| regs := []; store := [] |}.

Definition rd (id : nat) (st : rstate) : option nat :=
  match lookup_reg id st with Some k => lookup_store k st | None => None end.

(* `.features_mask` and `.features` as the implementation computes them (through the buffers) *)
Fixpoint smask (st : rstate) (ms : nat -> list bool) (c : calc) : list bool :=
  match c with
  | CConst id _ => match rd id st with Some n => repeat true n | None => [] end
  | CMod i => ms i
  | CFlat id p _ => match rd id st with Some m => expand m (smask st ms p) | None => [] end
  | CCat cs => (fix go (l : list calc) := match l with [] => [] | x :: r => smask st ms x ++ go r end) cs
  end.
Fixpoint sfeat (st : rstate) (ms : nat -> list bool) (c : calc) : nat :=
  match c with
  | CConst id _ => match rd id st with Some n => n | None => 0 end
  | CMod i => count (ms i)
  | CFlat id p _ => match rd id st with Some m => m * sfeat st ms p | None => 0 end
  | CCat cs => (fix go (l : list calc) := match l with [] => 0 | x :: r => sfeat st ms x + go r end) cs
  end.

(* every constant of the term reads back its own value *)
Fixpoint coherent_b (st : rstate) (c : calc) : bool :=
  match c with
  | CConst id n => match rd id st with Some v => v =? n | None => false end
  | CMod _ => true
  | CFlat id p m => (match rd id st with Some v => v =? m | None => false end) && coherent_b st p
  | CCat cs => (fix go (l : list calc) := match l with [] => true | x :: r => coherent_b st x && go r end) cs
  end.
Definition names_ok (fixd : bool) (nt : net) : bool :=
  forallb (fun i => negb (consumer nt i) || coherent_b (register_all fixd nt) (input_calc fixd nt i))
          (seq 0 (length nt)).

(* ---------------------------------------------------------------- (iii) sharing partition *)
Definition is_cut (nd : node) : bool :=
  match nd with NIn _ => true | NLayer _ _ Full _ => true | NCat _ => true | _ => false end.
(* weakly connected components after removing the incoming edges of cut nodes: label per node *)
Definition label_step (acc : list nat) (nd : node) : list nat :=
  let i := length acc in
  match nd with
  | NJoin a b _ =>
      let la := nth a acc 0 in let lb := nth b acc 0 in
      map (fun l => if l =? lb then la else l) acc ++ [la]
  | _ => if is_cut nd then acc ++ [i] else acc ++ [nth (src1 nd) acc 0]
  end.
Definition labels (nt : net) : list nat := fold_left label_step nt [].

Definition is_defining (nd : node) : bool :=
  match nd with NIn _ => true | NLayer _ _ Full _ => true | _ => false end.
Definition is_fixed_module (nd : node) : bool :=
  match nd with NLayer _ _ _ false => true | NBn _ false => true | _ => false end.
Definition is_search_layer (nd : node) : bool :=
  match nd with NLayer _ _ _ true => true | _ => false end.
Definition is_cat (nd : node) : bool := match nd with NCat _ => true | _ => false end.

Definition members (nt : net) (L : nat) : list nat :=
  let ls := labels nt in filter (fun j => nth j ls 0 =? L) (seq 0 (length nt)).
Definition any_member (nt : net) (L : nat) (p : nat -> node -> bool) : bool :=
  existsb (fun j => p j (node_at nt j)) (members nt L).

(* a masker is created for a component that contains a features-defining node *)
Definition has_masker (nt : net) (L : nat) : bool := any_member nt L (fun _ nd => is_defining nd).

Definition feeds_fixed_full (nt : net) (j : nat) : bool :=
  existsb (fun nd => match nd with NLayer s _ Full false => s =? j | _ => false end) nt.

Definition frozen_basic (fixd : bool) (nt : net) (L : nat) : bool :=
  any_member nt L (fun j nd => match nd with NIn _ => true | _ => false end || (S j =? length nt))
  || (fixd && (any_member nt L (fun j nd => is_fixed_module nd || feeds_fixed_full nt j)
               || (any_member nt L (fun _ nd => is_cat nd)
                   && (any_member nt L (fun _ nd => is_search_layer nd)
                       || (1 <? length (filter (fun j => is_cat (node_at nt j)) (members nt L))))))).
(* closure: a pinned component that contains a concatenation pins the components of its operands *)
Definition pin_round (nt : net) (F : list nat) : list nat :=
  let ls := labels nt in
  dedup (F ++ flat_map (fun j => match node_at nt j with
                          | NCat l => if existsb (Nat.eqb (nth j ls 0)) F
                                      then map (fun s => nth s ls 0) l else []
                          | _ => [] end) (seq 0 (length nt))).
Definition pinned (fixd : bool) (nt : net) : list nat :=
  let F0 := filter (frozen_basic fixd nt) (dedup (labels nt)) in
  if fixd then dedup (Nat.iter (length nt) (pin_round nt) F0) else F0.
Definition frozen (fixd : bool) (nt : net) (L : nat) : bool := existsb (Nat.eqb L) (pinned fixd nt).

(* masker of a converted layer: None (pinned upstream: component without a defining node),
   or (class, frozen); class = smallest converted layer of the component *)
Definition masker_of (fixd : bool) (nt : net) (i : nat) : option (nat * bool) :=
  let L := nth i (labels nt) 0 in
  if has_masker nt L || fixd then
    Some (hd i (filter (fun j => is_search_layer (node_at nt j)) (members nt L)),
          frozen fixd nt L || negb (has_masker nt L))
  else None.


(* ---------------------------------------------------------------- what the sharing must guarantee *)
Fixpoint lbeq (x y : list bool) : bool :=
  match x, y with
  | [], [] => true
  | a :: x', b :: y' => Bool.eqb a b && lbeq x' y'
  | _, _ => false
  end.
(* a searchable depthwise layer's own mask is the alive set of its input; both operands of a sum have
   the same alive set; a fixed module (excluded layer, plain BatchNorm) only sees fully alive tensors *)
Definition sound_b (nt : net) (ms : nat -> list bool) : bool :=
  let al j := nth j (alive nt ms) [] in
  let w j := nth j (widths nt) 0 in
  forallb (fun i =>
    match node_at nt i with
    | NLayer s _ Dw true => lbeq (ms i) (al s)
    | NLayer s _ _ false => lbeq (al s) (repeat true (w s))
    | NBn s false => lbeq (al s) (repeat true (w s))
    | NJoin a b _ => lbeq (al a) (al b)
    | _ => true
    end) (seq 0 (length nt)).
(* masks as the maskers produce them: same masker -> same mask, frozen -> all ones, right length *)
Definition consistent_b (fixd : bool) (nt : net) (ms : nat -> list bool) : bool :=
  let L := filter (fun i => is_search_layer (node_at nt i)) (seq 0 (length nt)) in
  forallb (fun i =>
    match masker_of fixd nt i with
    | None => false
    | Some (c, fr) =>
        (length (ms i) =? nth i (widths nt) 0) && (negb fr || lbeq (ms i) (repeat true (length (ms i))))
        && lbeq (ms i) (ms c)
    end) L.

(* ---------------------------------------------------------------- export *)
(* width of the tensor of every node in the exported network *)
Definition xwidth_step (ms : nat -> list bool) (acc : list nat) (nd : node) : nat :=
  let i := length acc in
  let g j := nth j acc 0 in
  match nd with
  | NIn c => c
  | NLayer _ _ _ true => count (ms i)
  | NLayer _ co _ false => co
  | NBn s _ => g s | NProp s _ => g s
  | NFlat s m _ => g s * m
  | NJoin a _ _ => g a
  | NCat l => list_sum (map g l)
  end.
Definition xwidths (nt : net) (ms : nat -> list bool) : list nat := build (xwidth_step ms) nt.
(* in_channels / in_features / num_features the exported layer i is created with *)
Definition export_in (fixd : bool) (nt : net) (ms : nat -> list bool) (i : nat) : nat :=
  if consumer nt i then count (smask (register_all fixd nt) ms (input_calc fixd nt i))
  else nth (src1 (node_at nt i)) (widths nt) 0.

(* decidable shape-consistency of the exported network *)
Definition is_module (nt : net) (i : nat) : bool :=
  match node_at nt i with NLayer _ _ _ _ => true | NBn _ _ => negb (fused nt i) | _ => false end.
Definition shape_ok (fixd : bool) (nt : net) (ms : nat -> list bool) : bool :=
  forallb (fun i =>
    let xw j := nth j (xwidths nt ms) 0 in
    match node_at nt i with
    | NLayer s _ Dw true => (export_in fixd nt ms i =? xw s) && (count (ms i) =? xw s)
    | NLayer s _ _ _ => export_in fixd nt ms i =? xw s
    | NBn s _ => fused nt i || (export_in fixd nt ms i =? xw s)
    | NJoin a b _ => xw a =? xw b
    | _ => true
    end) (seq 0 (length nt)).

(* ---------------------------------------------------------------- helpers evaluated by the harness *)
Fixpoint assoc (l : list (nat * list bool)) (i : nat) : list bool :=
  match l with [] => [] | (j, v) :: r => if j =? i then v else assoc r i end.

Definition run_static (fixd : bool) (nt : net) :=
  (wf nt, map flags_of nt,
   map (fun i => (i, input_calc fixd nt i)) (filter (consumer nt) (seq 0 (length nt))),
   map (fun i => (i, masker_of fixd nt i)) (filter (fun i => is_search_layer (node_at nt i)) (seq 0 (length nt))),
   names_ok fixd nt).

Definition run_masks (fixd : bool) (nt : net) (m : list (nat * list bool)) :=
  let ms := assoc m in
  let st := register_all fixd nt in
  (map (fun i => (i, sfeat st ms (input_calc fixd nt i), smask st ms (input_calc fixd nt i),
                  nth (src1 (node_at nt i)) (alive nt ms) []))
       (filter (consumer nt) (seq 0 (length nt))),
   map (fun i => (i, export_in fixd nt ms i, nth i (xwidths nt ms) 0))
       (filter (is_module nt) (seq 0 (length nt))),
   shape_ok fixd nt ms, sound_b nt ms, consistent_b fixd nt ms).

(* buffer names registered on the consumers: (consumer, base name, prefix tokens), for the harness *)
Definition run_names (fixd : bool) (nt : net) : list key := map fst (store (register_all fixd nt)).
