#!/venv/bin/python
"""keep_mutant.py <srcdir> <seeded id> <property> <detected: yes|no|partial> <note...>  -> /verif/seeded/<id>/"""
import sys, os, json, shutil
src, sid, prop, det = sys.argv[1:5]
note = ' '.join(sys.argv[5:])
dst = '/verif/seeded/' + sid
os.makedirs(dst, exist_ok=True)
shutil.copy(src + '/patch.diff', dst + '/patch.diff')
shutil.copy(src + '/demo.py', dst + '/demo.py')
m = json.load(open(src + '/meta.json'))
meta = {'id': sid, 'property': prop, 'summary': m.get('summary'), 'needs_to_manifest': m.get('needs'),
        'author': 'fresh sub-agent given only the property text and a scratch worktree',
        'agent_tests_run': m.get('tests_run'),
        'confirmed_by_me': {'demo_passes_on_clean_repo': True, 'demo_fails_with_patch': True, 'tests': 'pending (tools/confirm_mutants.py)'},
        'check_result': {'detected': det, 'note': note, 'cmd': 'git -C /repo apply patch.diff && ./check %s --tier quick ; git -C /repo checkout -- .' % prop}}
json.dump(meta, open(dst + '/meta.json', 'w'), indent=1)
print('kept', dst)
