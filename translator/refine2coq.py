"""Translator: plinio/methods/mps/utils.py  ->  coq/Gen/RefineGen.v   (C20)

Reads, with `ast`, the SOURCE of the tree under test and emits Gallina definitions that follow the code statement by
statement over the vocabulary of Model/Reassign.v:

  optimize_prec_assignment, the per-layer block (from `best_cost = copy.deepcopy(base_cost)` to
  `layer.w_mps_quantizer.alpha.data = new_alpha.clone()`)
      sorted_indexes / inverse_indexes / sorted_precisions / _unsorted   -> sorted_indexes_gen, inverse_indexes_gen,
                                                                            sorted_precisions_gen, unsorted_gen
      "Case 1" (for i / for j / while)                                   -> search1_while_cond_gen, search1_while_gen,
                                                                            search1_inner_gen, search1_step_gen, search1_gen
      "Case 2"                                                           -> search2_*_gen, search2_gen
      the block up to the end of the second search                       -> search_gen, refine_gen
      the whole block                                                    -> layer_gen
  _reassign_precisions
      first loop body / loop                                             -> pass1_step_gen, pass1_gen
      second loop body / loop                                            -> pass2_step_gen, pass2_gen
      new_assignment after the two loops                                 -> reassign_abs_gen
      the binary matrix returned                                         -> matrix_step_gen, matrix_gen, reassign_matrix_gen

Proofs/RefineGen.v proves them equal to `search1`, `search2`, `refine`, `pass1_step`, `pass2_step`, `reassign_abs`,
`best_own` of Model/Reassign.v (for EVERY cost function), and sorted_indexes_gen / inverse_indexes_gen / unsorted_gen to be
`own_of` / `pos_of` / `unsort` with `own_of (pos_of p) = p`, so the theorems of Props/C20.v are re-checked against what the
code says NOW.

How the code is read (TRUSTED conventions)
  * Fractions.  `w_theta_alpha_array` (= theta_alpha.mean(dim=1), one-hot theta_alpha after the hard arg-max forward pass
    the function performs first) and every list built from it hold float32 fractions k/C, C = theta_alpha.shape[1] (also
    written alpha.shape[1]); such a list is read as the vector of the integer counts k.  `x[i] -= 1./C` is `pred`,
    `x[j] += 1./C` is `S`, `while x[i] > 0.5 / C` is `0 < count i` (the float drift of the accumulated fractions stays
    far below half a channel; the differential run compares exactly for power-of-two C), `torch.tensor(...)` is the
    identity, `torch.mul(t, C)` turns fractions into counts and `int(round(best[p].item()))` reads a count back: only this
    exact spelling is accepted (`int(...)` alone truncates), and `_reassign_precisions` accepts only a vector that has been
    multiplied by C exactly once.
  * A `while` loop is fuelled recursion (`while_fuel`), fuel = the count being drained at loop entry (as `drain` in the
    model).  Proofs/RefineGen.v proves that the fuel suffices (the loop condition is false when the recursion stops).
  * `_compute_cost(model, layer, X, cost_fn_map, lname, node)` is the abstract `cost_own X`, a function of the count vector
    in the quantizer's OWN order of precisions; `_compute_cost` itself is pinned by a digest of its AST.  Costs (float32
    0-d tensors) are read as rationals, `a < b` as `qlt_bool`, `assert a == b` as `if Qeq_bool a b then ... else None`
    (AssertionError = no result).
  * Values and aliasing.  The elements of the count lists are 0-d tensors updated IN PLACE by `-=` / `+=`, and
    `new_assignment[idx] = v` updates a tensor in place, so a name may be bound to such a value only through a FRESH copy:
    `copy.deepcopy(x)`, the comprehension `[copy.deepcopy(w)[k] for k in perm]`, `t.clone()`.  A plain `a = b`, `list(b)`,
    `b[:]`, `b.copy()`, `copy.copy(b)` shares the elements with a value that is updated later: ALIASING, refused.
  * `print(...)` of read-only expressions and the accumulators `base_model_cost` / `best_model_cost` (they feed the final
    print only) are ignored.
  * `torch.argsort(layer.w_mps_quantizer.precision)` is `argsort_asc prec` (stable insertion sort of the indices; for
    pairwise different precisions every correct argsort returns the same permutation; equal precisions are outside the
    theorems), `[x[k] for k in perm]` is `map (fun k => nth k x 0) perm`.
  * _reassign_precisions: the inputs are read through `cur` = torch.argmax(scores, dim=0) (one row index per channel) and
    `orders` = torch.argsort(scores, dim=1, descending=True) (one ranking of the channels per precision).  TRUSTED about
    torch: argmax returns an index < num_precisions, every row of argsort is a permutation of 0..C-1.  Which maximal /
    equal element comes first (ties) is NOT relied upon: the theorems hold for every in-range `cur` and every tuple of
    permutations; only the channel-by-channel differential comparison uses tie-free matrices.  The arg-max of
    `alpha` taken here and the one the sampler took for theta_alpha are the same function (C10).
    num_precisions = length orders, num_channels = length cur; -1 is `None`; `t[idx] = v` with an index tensor is
    `set_all idx v`; `(t == p).nonzero(as_tuple=True)[0]` is the increasing list of positions; `x[mask]` with a mask computed
    element-wise from the same `x` is `filter`; `torch.isin(x, y)` is membership; `x[n:]` / `x[:n]` are `skipn` / `firstn`
    for a count n (a difference `a - b` is accepted only under the guard `b < a`); indices produced by argsort are in range
    (`set_nth` out of range is the identity in the model, an IndexError in torch).
  * Loops.  `for i in range(a, b)` is `fold_left` over `seq a (b - a)` of the loop body, a function of the variables it
    assigns that exist before it (its state, a tuple in the order in which the function defines them: here
    (best_cost, best configuration, configuration being drained)); values computed before the loop that the body only
    reads are extra parameters of the body; names first assigned inside a body are local to it; `continue` returns the
    state; an `if` joins the variables it assigns.  Python locals are prefixed `v_`.
  * theta_alpha and alpha of a per-channel quantizer have the same shape (precisions x channels).

Fail closed: anything outside this subset raises Reject.  The module may only contain the three functions and the known
imports; `_compute_cost` and the part of optimize_prec_assignment around the translated block (argument checks, the hard
arg-max forward pass, the loop over the layers, which layers are skipped, how w_theta_alpha_array is obtained) are pinned
by a digest of their AST (docstrings excluded).
"""
import ast
import copy as _copy
import hashlib
import os


class Reject(Exception):
    pass


# digests (sha256 of ast.dump, docstrings removed) of the pinned parts at /repo 4e3917e
DIGEST_COMPUTE_COST = '6fe0f66a4cdcf86d8c660eb22f89aea1'
DIGEST_SKELETON = '6676d58779654c117276dc6891e117eb'

BUILTINS_USED = ('range', 'len', 'int', 'round', 'print', 'isinstance', 'copy', 'torch', 'cast',
                 '_compute_cost', '_reassign_precisions', 'optimize_prec_assignment')
COQ_TY = {'Q': 'Q', 'V': 'vec', 'N': 'nat', 'IDXS': 'list nat', 'A': 'assignment', 'MAT': 'list (list bool)', 'OA': 'option nat',
          'W': 'list nat', 'WT': 'list nat', 'WC': 'list nat'}
MUTABLE = ('V', 'A', 'MAT')


def _d(n):
    return ast.dump(n)


def _strip(stmts):
    return [s for s in stmts if not (isinstance(s, ast.Expr) and isinstance(s.value, ast.Constant) and isinstance(s.value.value, str))]


def _nodoc(node):
    node = _copy.deepcopy(node)
    for x in ast.walk(node):
        if isinstance(x, (ast.FunctionDef, ast.ClassDef, ast.Module)):
            x.body = _strip(x.body) or [ast.Pass()]
    return node


def digest(node):
    return hashlib.sha256(ast.dump(_nodoc(node)).encode()).hexdigest()[:32]


def _name(n, s=None):
    return isinstance(n, ast.Name) and (s is None or n.id == s)


def _attr_chain(n):
    """a.b.c -> ['a','b','c'] or None"""
    out = []
    while isinstance(n, ast.Attribute):
        out.append(n.attr)
        n = n.value
    if isinstance(n, ast.Name):
        out.append(n.id)
        return out[::-1]
    return None


def _is_chain(n, *names):
    return _attr_chain(n) == list(names)


def _const(n, v):
    return isinstance(n, ast.Constant) and type(n.value) in (int, float) and n.value == v


def _is_minus1(n):
    return (isinstance(n, ast.UnaryOp) and isinstance(n.op, ast.USub) and _const(n.operand, 1)) or _const(n, -1)


def _call(n, nargs=None, kw=()):
    return isinstance(n, ast.Call) and (nargs is None or len(n.args) == nargs) and sorted(k.arg for k in n.keywords) == sorted(kw)


class Var(object):
    def __init__(self, kind, coq, scope='l', role=None):
        self.kind, self.coq, self.scope, self.role = kind, coq, scope, role


def assigned(stmts):
    """base names stored by the statements (deep), in textual order"""
    out = []

    def tgt(t):
        if isinstance(t, ast.Name):
            out.append(t.id)
        elif isinstance(t, (ast.Tuple, ast.List)):
            for e in t.elts:
                tgt(e)
        elif isinstance(t, (ast.Subscript, ast.Attribute)):
            b = t
            while isinstance(b, (ast.Subscript, ast.Attribute)):
                b = b.value
            if isinstance(b, ast.Name):
                out.append(b.id)

    def walk(ss):
        for s in ss:
            if isinstance(s, ast.Assign):
                for t in s.targets:
                    tgt(t)
            elif isinstance(s, (ast.AugAssign, ast.AnnAssign)):
                tgt(s.target)
            elif isinstance(s, (ast.For, ast.While)):
                if isinstance(s, ast.For):
                    tgt(s.target)
                walk(s.body)
                walk(s.orelse)
            elif isinstance(s, ast.If):
                walk(s.body)
                walk(s.orelse)
            elif isinstance(s, ast.FunctionDef):
                out.append(s.name)
    walk(stmts)
    seen, res = set(), []
    for n in out:
        if n not in seen:
            seen.add(n)
            res.append(n)
    return res


def names_read(stmts):
    return {x.id for s in stmts for x in ast.walk(s) if isinstance(x, ast.Name)}


class Tr(object):
    """translator of one function body / block"""

    def __init__(self, what, params_sig, params_app, loop_names, optional):
        self.what = what
        self.psig, self.papp = params_sig, params_app
        self.loop_names = list(loop_names)
        self.optional = optional            # the main function returns an option (assert)
        self.defs = []                      # hoisted Definitions, in order
        self.roles = {}                     # role -> python name (sorted_indexes, inverse_indexes, ...)
        self.top_loops = 0
        self.final = None

    def rej(self, msg, n=None):
        raise Reject('%s: %s%s' % (self.what, msg, (': ' + _d(n)[:160]) if n is not None else ''))

    # ------------------------------------------------------------------ expressions
    def look(self, name, env):
        if name not in env:
            self.rej('name %r is not defined here (a loop body sees the loop state, the loop indices and values computed before the loop that it does not assign)' % name)
        return env[name]

    def C_expr(self, n):
        """the number of channels"""
        return isinstance(n, ast.Subscript) and _const(n.slice, 1) and \
            (_is_chain(n.value, 'layer', 'w_mps_quantizer', 'theta_alpha', 'shape') or _is_chain(n.value, 'layer', 'w_mps_quantizer', 'alpha', 'shape'))

    def frac(self, n, num):
        return isinstance(n, ast.BinOp) and isinstance(n.op, ast.Div) and _const(n.left, num) and self.C_expr(n.right)

    def is_prec_tuple(self, n):
        return _is_chain(n, 'layer', 'w_mps_quantizer', 'precision')

    def listcomp(self, n):
        """[ELT for k in NAME] -> (elt, k, NAME) or None"""
        if isinstance(n, ast.ListComp) and len(n.generators) == 1:
            g = n.generators[0]
            if not g.ifs and not g.is_async and _name(g.target) and _name(g.iter):
                return n.elt, g.target.id, g.iter.id
        return None

    def ex(self, n, env, facts=()):
        """-> (kind, coq text, fresh)"""
        if isinstance(n, ast.Name):
            v = self.look(n.id, env)
            return v.kind, v.coq, False
        if isinstance(n, ast.Constant) and type(n.value) is int and n.value >= 0:
            return 'N', str(n.value), True
        # ---- copies
        if _call(n, 1) and _is_chain(n.func, 'copy', 'deepcopy') and _name(n.args[0]):
            v = self.look(n.args[0].id, env)
            if v.kind in ('Q', 'V'):
                return v.kind, v.coq, True
            self.rej('copy.deepcopy of a value of kind %s' % v.kind, n)
        if _call(n, 0) and isinstance(n.func, ast.Attribute) and n.func.attr == 'clone' and _name(n.func.value):
            v = self.look(n.func.value.id, env)
            if v.kind == 'CUR':
                return 'A', '(map Some %s)' % v.coq, True
            if v.kind == 'A':
                return 'A', v.coq, True
            self.rej('.clone() of a value of kind %s' % v.kind, n)
        if (_call(n, 1) and ((_name(n.func, 'list')) or _is_chain(n.func, 'copy', 'copy')) and _name(n.args[0])) or \
                (_call(n, 0) and isinstance(n.func, ast.Attribute) and n.func.attr == 'copy' and _name(n.func.value)) or \
                (isinstance(n, ast.Subscript) and _name(n.value) and isinstance(n.slice, ast.Slice) and n.slice.lower is None and n.slice.upper is None and n.slice.step is None):
            self.rej('ALIASING: a shallow copy shares its elements (0-d tensors updated in place by -= / +=) with the original', n)
        # ---- the layer block
        if _call(n, 6) and _name(n.func, '_compute_cost'):
            if [getattr(a, 'id', None) for a in (n.args[0], n.args[1], n.args[3], n.args[4], n.args[5])] != ['model', 'layer', 'cost_fn_map', 'lname', 'node']:
                self.rej('_compute_cost is not called as (model, layer, X, cost_fn_map, lname, node)', n)
            k, c, _ = self.ex(n.args[2], env)
            if k != 'W':
                self.rej('_compute_cost wants a count vector in the quantizer\'s own order of precisions (got kind %s)' % k, n)
            return 'Q', '(cost_own %s)' % c, True
        if _call(n, 1) and _name(n.func) and n.func.id in env and env[n.func.id].kind == 'FUN':
            k, c, _ = self.ex(n.args[0], env)
            if k != 'V':
                self.rej('%s applied to a value of kind %s' % (n.func.id, k), n)
            return 'W', '(%s %s)' % (env[n.func.id].coq, c), True
        lc = self.listcomp(n)
        if lc:
            elt, k, it = lc
            p = self.look(it, env)
            if p.kind != 'PERM':
                self.rej('comprehension over a value of kind %s' % p.kind, n)
            if isinstance(elt, ast.Subscript) and _name(elt.slice, k):
                b = elt.value
                if _call(b, 1) and _is_chain(b.func, 'copy', 'deepcopy') and _name(b.args[0]) and self.look(b.args[0].id, env).kind == 'W':
                    return 'V', '(map (fun k => nth k %s 0) %s)' % (self.look(b.args[0].id, env).coq, p.coq), True
                if self.is_prec_tuple(b):
                    return 'SP', '(map (fun k => nth k prec 0) %s)' % p.coq, True
                if _name(b) and self.look(b.id, env).kind in ('W', 'V'):
                    self.rej('ALIASING: the comprehension takes the elements of %s without copy.deepcopy (0-d tensor views updated in place later)' % b.id, n)
            self.rej('comprehension not in the subset', n)
        if _call(n, 1) and _is_chain(n.func, 'torch', 'argsort'):
            if self.is_prec_tuple(n.args[0]):
                return 'PERM', '(argsort_asc prec)', True
            if _name(n.args[0]) and self.look(n.args[0].id, env).kind == 'PERM':
                return 'PERM', '(argsort_asc %s)' % env[n.args[0].id].coq, True
            self.rej('torch.argsort of something else', n)
        if _call(n, 1) and _is_chain(n.func, 'torch', 'tensor'):
            k, c, _ = self.ex(n.args[0], env)
            if k != 'W':
                self.rej('torch.tensor of a value of kind %s' % k, n)
            return 'WT', c, True
        if _call(n, 2) and _is_chain(n.func, 'torch', 'mul'):
            k, c, _ = self.ex(n.args[0], env)
            if k != 'WT' or not self.C_expr(n.args[1]):
                self.rej('torch.mul is accepted only as torch.mul(<fractions, own order>, <number of channels>)', n)
            return 'WC', c, True
        if _call(n, 2) and _name(n.func, '_reassign_precisions'):
            k, c, _ = self.ex(n.args[0], env)
            if k != 'WC':
                self.rej('_reassign_precisions wants COUNTS in the quantizer\'s own order (fractions multiplied by the number of channels once); got kind %s' % k, n)
            if not _is_chain(n.args[1], 'layer', 'w_mps_quantizer', 'alpha'):
                self.rej('_reassign_precisions is not applied to layer.w_mps_quantizer.alpha', n)
            return 'A', '(reassign_abs_gen cur orders %s)' % c, True
        # ---- _reassign_precisions
        if _call(n, 1, ('dim',)) and _is_chain(n.func, 'torch', 'argmax') and _name(n.args[0]) and self.look(n.args[0].id, env).kind == 'SCORES' \
                and _const(n.keywords[0].value, 0):
            return 'CUR', 'cur', True
        if _call(n, 1, ('descending', 'dim')) and _is_chain(n.func, 'torch', 'argsort') and _name(n.args[0]) and self.look(n.args[0].id, env).kind == 'SCORES':
            kw = {k.arg: k.value for k in n.keywords}
            if _const(kw['dim'], 1) and isinstance(kw['descending'], ast.Constant) and kw['descending'].value is True:
                return 'ORDS', 'orders', True
        if _call(n, 1) and _is_chain(n.func, 'torch', 'zeros_like') and _name(n.args[0]) and self.look(n.args[0].id, env).kind == 'SCORES':
            return 'MAT', '(zeros_mat (length orders) (length cur))', True
        if _call(n, 1) and _name(n.func, 'int') and _call(n.args[0], 1) and _name(n.args[0].func, 'round'):
            it = n.args[0].args[0]
            if _call(it, 0) and isinstance(it.func, ast.Attribute) and it.func.attr == 'item' and isinstance(it.func.value, ast.Subscript) \
                    and _name(it.func.value.value) and self.look(it.func.value.value.id, env).kind == 'BEST':
                k, c, _ = self.ex(it.func.value.slice, env)
                if k == 'N':
                    return 'N', '(nth %s best 0)' % c, True
        if _call(n, 1) and _name(n.func, 'int'):
            self.rej('a count is read back with int(round(best[p].item())) -- int() alone truncates the float', n)
        if _call(n, 1) and _name(n.func, 'len'):
            k, c, _ = self.ex(n.args[0], env)
            if k in ('IDXS', 'SP'):
                return 'N', '(length %s)' % c, True
            self.rej('len of a value of kind %s' % k, n)
        if isinstance(n, ast.BinOp) and isinstance(n.op, ast.Add):
            (k1, c1, _), (k2, c2, _) = self.ex(n.left, env), self.ex(n.right, env)
            if k1 == k2 == 'N':
                if c2 == '1':
                    return 'N', '(S %s)' % c1, True
                if c1 == '1':
                    return 'N', '(S %s)' % c2, True
                return 'N', '(%s + %s)' % (c1, c2), True
        if isinstance(n, ast.BinOp) and isinstance(n.op, ast.Sub):
            (k1, c1, _), (k2, c2, _) = self.ex(n.left, env), self.ex(n.right, env)
            if k1 == k2 == 'N':
                if ('lt', c2, c1) not in facts:
                    self.rej('the difference %s - %s is not under the guard %s < %s (a negative count has another meaning in a slice)' % (c1, c2, c2, c1), n)
                return 'N', '(%s - %s)' % (c1, c2), True
        # (t == p).nonzero(as_tuple=True)[0]
        if isinstance(n, ast.Subscript) and _const(n.slice, 0) and _call(n.value, 0, ('as_tuple',)) and isinstance(n.value.func, ast.Attribute) \
                and n.value.func.attr == 'nonzero' and isinstance(n.value.keywords[0].value, ast.Constant) and n.value.keywords[0].value.value is True:
            m = self.eqmask(n.value.func.value, env)
            if m:
                t, pred = m
                return 'IDXS', '(filter (fun c => %s) (seq 0 (length %s)))' % (pred, t), True
        # (t == p).sum().item()
        if _call(n, 0) and isinstance(n.func, ast.Attribute) and n.func.attr == 'item' and _call(n.func.value, 0) \
                and isinstance(n.func.value.func, ast.Attribute) and n.func.value.func.attr == 'sum':
            cmp_ = n.func.value.func.value
            if isinstance(cmp_, ast.Compare) and len(cmp_.ops) == 1 and isinstance(cmp_.ops[0], ast.Eq) and _name(cmp_.left) \
                    and self.look(cmp_.left.id, env).kind == 'A':
                k, c, _ = self.ex(cmp_.comparators[0], env)
                if k == 'N':
                    return 'N', '(count %s %s)' % (c, env[cmp_.left.id].coq), True
        if isinstance(n, ast.Subscript):
            s = n.slice
            if isinstance(s, ast.Slice) and s.step is None and (s.lower is None) != (s.upper is None):
                k, c, _ = self.ex(n.value, env, facts)
                kn, cn, _ = self.ex(s.lower if s.upper is None else s.upper, env, facts)
                if k == 'IDXS' and kn == 'N':
                    return 'IDXS', '(%s %s %s)' % ('skipn' if s.upper is None else 'firstn', cn, c), True
                self.rej('slice not in the subset', n)
            if not isinstance(s, (ast.Slice, ast.Tuple)):
                kb, cb, _ = self.ex(n.value, env, facts)
                if kb == 'ORDS':
                    k, c, _ = self.ex(s, env)
                    if k == 'N':
                        return 'IDXS', '(nth %s %s [])' % (c, cb), True
                if kb == 'A' and isinstance(s, ast.Name) and self.look(s.id, env).kind == 'N':
                    return 'OA', '(get %s %s)' % (cb, env[s.id].coq), True
                if kb == 'IDXS':
                    pred = self.mask(s, n.value, env)
                    return 'IDXS', '(filter (fun c => %s) %s)' % (pred, cb), True
        self.rej('expression not in the subset', n)

    def eqmask(self, n, env):
        """t == p  /  t == -1  for a per-channel tensor t -> (coq of t, predicate on the channel c)"""
        if isinstance(n, ast.Compare) and len(n.ops) == 1 and isinstance(n.ops[0], ast.Eq) and _name(n.left):
            v = self.look(n.left.id, env)
            r = n.comparators[0]
            if v.kind == 'CUR' and not _is_minus1(r):
                k, c, _ = self.ex(r, env)
                if k == 'N':
                    return v.coq, 'Nat.eqb (nth c %s 0) %s' % (v.coq, c)
            if v.kind == 'A':
                if _is_minus1(r):
                    return v.coq, 'is_none (get %s c)' % v.coq
                k, c, _ = self.ex(r, env)
                if k == 'N':
                    return v.coq, 'is_prec %s (get %s c)' % (c, v.coq)
        return None

    def mask(self, m, x, env):
        """x[m]: m a boolean tensor computed element-wise from the same x -> predicate on the element c"""
        if isinstance(m, ast.Compare) and len(m.ops) == 1 and isinstance(m.ops[0], ast.Eq) and isinstance(m.left, ast.Subscript) \
                and _name(m.left.value) and _d(m.left.slice) == _d(x):
            v = self.look(m.left.value.id, env)
            r = m.comparators[0]
            if v.kind == 'CUR' and not _is_minus1(r):
                k, c, _ = self.ex(r, env)
                if k == 'N':
                    return 'Nat.eqb (nth c %s 0) %s' % (v.coq, c)
            if v.kind == 'A' and _is_minus1(r):
                return 'is_none (get %s c)' % v.coq
        if _call(m, 2) and _is_chain(m.func, 'torch', 'isin') and _d(m.args[0]) == _d(x):
            k, c, _ = self.ex(m.args[1], env)
            if k == 'IDXS':
                return 'existsb (Nat.eqb c) %s' % c
        self.rej('mask not in the subset (it must be computed element-wise from the indexed tensor itself)', m)

    def test(self, n, env):
        """-> (coq bool, facts when true, facts when false)"""
        if isinstance(n, ast.UnaryOp) and isinstance(n.op, ast.Not):
            c, ft, ff = self.test(n.operand, env)
            return '(negb %s)' % c, ff, ft
        if isinstance(n, ast.Compare) and len(n.ops) == 1:
            op, l, r = n.ops[0], n.left, n.comparators[0]
            if isinstance(op, (ast.Gt,)):
                op, l, r = ast.Lt(), r, l
            # sorted_precisions[i] == 0
            for a, b in ((l, r), (r, l)):
                if isinstance(op, (ast.Eq, ast.NotEq)) and isinstance(a, ast.Subscript) and _name(a.value) and a.value.id in env \
                        and env[a.value.id].kind == 'SP' and _const(b, 0):
                    k, c, _ = self.ex(a.slice, env)
                    if k == 'N':
                        t = '(Nat.eqb (nth %s %s 0) 0)' % (c, env[a.value.id].coq)
                        return (t if isinstance(op, ast.Eq) else '(negb %s)' % t), (), ()
            (k1, c1, _), (k2, c2, _) = self.ex(l, env), self.ex(r, env)
            if isinstance(op, ast.Lt) and k1 == k2 == 'Q':
                return '(qlt_bool %s %s)' % (c1, c2), (), ()
            if isinstance(op, ast.Lt) and k1 == k2 == 'N':
                return '(Nat.ltb %s %s)' % (c1, c2), (('lt', c1, c2),), ()
            if isinstance(op, (ast.Eq, ast.NotEq)) and k1 == k2 == 'N':
                t = '(Nat.eqb %s %s)' % (c1, c2)
                return (t if isinstance(op, ast.Eq) else '(negb %s)' % t), (), ()
        self.rej('test not in the subset', n)

    # ------------------------------------------------------------------ statements
    def tuple_of(self, names, env):
        return env[names[0]].coq if len(names) == 1 else '(' + ', '.join(env[x].coq for x in names) + ')'

    def pat(self, names, env):
        return env[names[0]].coq if len(names) == 1 else "'(" + ', '.join(env[x].coq for x in names) + ')'

    def ty_of(self, names, env):
        return ' * '.join(COQ_TY[env[x].kind] for x in names)

    def bind(self, env, name, kind, scope='l', role=None):
        cq = 'v_' + name
        env[name] = Var(kind, cq, scope, role)
        return cq

    def ignorable_print(self, s):
        if not (isinstance(s, ast.Expr) and _call(s.value) and _name(s.value.func, 'print')):
            return False
        for x in ast.walk(s.value):
            if isinstance(x, ast.Call):
                f = x.func
                ok = _name(f, 'print') or _is_chain(f, 'torch', 'stack') or _is_chain(f, 'torch', 'mul') or \
                    (isinstance(f, ast.Attribute) and f.attr in ('tolist', 'format', 'item'))
                if not ok:
                    self.rej('print of an expression that calls something else than torch.stack / torch.mul / tolist / format / item', s)
            elif isinstance(x, (ast.NamedExpr, ast.Lambda, ast.ListComp, ast.GeneratorExp, ast.Await, ast.Yield, ast.Starred)):
                self.rej('print of an expression outside the read-only subset', s)
        return True

    def block(self, stmts, env, k, loop, facts=(), ind=1):
        pad = '  ' * ind
        if not stmts:
            return pad + k(env)
        s, rest = stmts[0], stmts[1:]
        again = lambda: self.block(rest, env, k, loop, facts, ind)
        if isinstance(s, ast.Pass) or self.ignorable_print(s):
            return again()
        if isinstance(s, ast.Continue):
            if loop is None or rest:
                self.rej('continue outside a loop body / followed by statements', s)
            return pad + self.tuple_of(loop, env)
        if isinstance(s, ast.Assert):
            if not self.optional or loop is not None:
                self.rej('assert inside a loop / in a function read as total', s)
            t = s.test
            if isinstance(t, ast.Compare) and len(t.ops) == 1 and isinstance(t.ops[0], ast.Eq):
                (k1, c1, _), (k2, c2, _) = self.ex(t.left, env), self.ex(t.comparators[0], env)
                if k1 == k2 == 'Q':
                    return pad + 'if Qeq_bool %s %s then\n' % (c1, c2) + again() + '\n' + pad + 'else None'
            self.rej('assert not in the subset', s)
        if isinstance(s, ast.FunctionDef):
            return self.nested_def(s, env, pad) + again()
        if isinstance(s, ast.AugAssign):
            return self.augassign(s, env, pad) + again()
        if isinstance(s, ast.Assign):
            done = self.assign(s, rest, env, loop, pad, facts)
            return done + (again() if self.final is None else '')
        if isinstance(s, ast.Return):
            if rest or loop is not None or not _name(s.value):
                self.rej('return not at the end of the function', s)
            v = self.look(s.value.id, env)
            self.final = (v.kind, v.coq)
            return pad + k(env)
        if isinstance(s, ast.If):
            return self.do_if(s, rest, env, k, loop, facts, ind)
        if isinstance(s, ast.For):
            return self.do_for(s, rest, env, k, loop, facts, ind)
        if isinstance(s, ast.While):
            return self.do_while(s, rest, env, k, loop, facts, ind)
        self.rej('statement not in the subset', s)

    def nested_def(self, s, env, pad):
        b = _strip(s.body)
        if s.decorator_list or len(s.args.args) != 1 or s.args.vararg or s.args.kwarg or s.args.kwonlyargs or s.args.defaults or len(b) != 1 \
                or not isinstance(b[0], ast.Return):
            self.rej('nested function not in the subset', s)
        lc = self.listcomp(b[0].value)
        a = s.args.args[0].arg
        if not lc or not (isinstance(lc[0], ast.Subscript) and _name(lc[0].value, a) and _name(lc[0].slice, lc[1])) or lc[2] == a:
            self.rej('nested function is not `return [arg[k] for k in perm]`', s)
        p = self.look(lc[2], env)
        if p.kind != 'PERM':
            self.rej('nested function indexes with a value of kind %s' % p.kind, s)
        self.define_role(env, s.name, 'FUN', 'unsorted', '(sorted_array : vec) : list nat', 'map (fun k => nth k sorted_array 0) %s' % p.coq, s)
        return ''

    def define_role(self, env, pyname, kind, role, sig, body, node):
        if loop_depth(self) or role in self.roles or pyname in env:
            self.rej('%s: second definition of %r / of a value with the role %s, or definition inside a loop' % (pyname, pyname, role), node)
        self.roles[role] = pyname
        # the permutation bookkeeping depends on the precision tuple alone
        self.defs.append('(* %s *)\nDefinition %s_gen (prec : list nat) %s :=\n  %s.\n' % (src_line(node), role, sig, body))
        env[pyname] = Var(kind, '(%s_gen prec)' % role, 'g', role)

    def augassign(self, s, env, pad):
        t = s.target
        if _name(t) and t.id in env and env[t.id].kind == 'ACC':
            k, c, _ = self.ex(s.value, env)
            if k != 'Q' or not isinstance(s.op, ast.Add):
                self.rej('accumulator update not in the subset', s)
            return ''
        if isinstance(t, ast.Subscript) and _name(t.value) and _name(t.slice) and isinstance(s.op, (ast.Add, ast.Sub)):
            v, i = self.look(t.value.id, env), self.look(t.slice.id, env)
            if v.kind == 'V' and v.scope == 'l' and i.kind == 'N' and self.frac(s.value, 1):
                f = 'S' if isinstance(s.op, ast.Add) else 'pred'
                return pad + 'let %s : vec := set_nth %s (%s (nth %s %s 0)) %s in\n' % (v.coq, i.coq, f, i.coq, v.coq, v.coq)
        self.rej('augmented assignment not in the subset (only  x[i] -= 1./C  and  x[j] += 1./C  on a count list)', s)

    def assign(self, s, rest, env, loop, pad, facts):
        if len(s.targets) != 1:
            self.rej('chained assignment', s)
        t, v = s.targets[0], s.value
        # num_precisions, num_channels = scores.size()
        if isinstance(t, ast.Tuple):
            if len(t.elts) == 2 and all(_name(e) for e in t.elts) and _call(v, 0) and isinstance(v.func, ast.Attribute) and v.func.attr == 'size' \
                    and _name(v.func.value) and self.look(v.func.value.id, env).kind == 'SCORES' and loop is None:
                for e, c in zip(t.elts, ('(length orders)', '(length cur)')):
                    if e.id in env:
                        self.rej('second definition of %s' % e.id, s)
                    env[e.id] = Var('N', c, 'g')
                return ''
            self.rej('tuple assignment not in the subset', s)
        # layer.w_mps_quantizer.alpha.data = new_alpha.clone()
        if isinstance(t, ast.Attribute):
            if _is_chain(t, 'layer', 'w_mps_quantizer', 'alpha', 'data') and loop is None and not rest:
                k, c, fresh = self.ex(v, env)
                if k == 'A' and fresh:
                    self.final = ('A', c)
                    return pad + '%s' % (('Some %s' % c) if self.optional else c)
            self.rej('attribute store not in the subset (the block must END with layer.w_mps_quantizer.alpha.data = <new alpha>.clone())', s)
        # t[idx] = v
        if isinstance(t, ast.Subscript) and _name(t.value):
            tv = self.look(t.value.id, env)
            if tv.kind == 'A' and tv.scope == 'l':
                ki, ci, _ = self.ex(t.slice, env, facts)
                if ki == 'IDXS':
                    if _is_minus1(v):
                        val = 'None'
                    else:
                        kv, cv, _ = self.ex(v, env)
                        if kv != 'N':
                            self.rej('value stored in the assignment is not a precision index / -1', s)
                        val = '(Some %s)' % cv
                    return pad + 'let %s : assignment := set_all %s %s %s in\n' % (tv.coq, ci, val, tv.coq)
            if tv.kind == 'MAT' and tv.scope == 'l' and isinstance(t.slice, ast.Tuple) and len(t.slice.elts) == 2 and _const(v, 1):
                (k1, c1, _), (k2, c2, _) = self.ex(t.slice.elts[0], env), self.ex(t.slice.elts[1], env)
                if k1 == k2 == 'N':
                    return pad + 'let %s : list (list bool) := mset %s %s true %s in\n' % (tv.coq, c1, c2, tv.coq)
            self.rej('indexed store not in the subset', s)
        if not _name(t):
            self.rej('assignment target not in the subset', s)
        if t.id in BUILTINS_USED:
            self.rej('assignment to the name %s' % t.id, s)
        if _name(v) and v.id in env and env[v.id].kind in MUTABLE:
            self.rej('ALIASING: `%s = %s` binds a second name to a value that is updated in place (copy.deepcopy / .clone() make a fresh one)' % (t.id, v.id), s)
        k, c, fresh = self.ex(v, env, facts)
        old = env.get(t.id)
        retype = old is not None and old.scope == 'l' and loop is None and (old.kind, k) == ('WT', 'WC')
        if old is not None and (old.scope == 'g' or old.kind != k) and not retype:
            self.rej('%s is assigned a value of another kind (%s, was %s) / a pinned value is reassigned' % (t.id, k, old.kind), s)
        if k in MUTABLE and not fresh:
            self.rej('ALIASING: %s is bound to a value that is not a fresh copy' % t.id, s)
        if k == 'PERM':
            role = 'sorted_indexes' if c == '(argsort_asc prec)' else 'inverse_indexes' if 'sorted_indexes' in self.roles and c == '(argsort_asc %s)' % env[self.roles['sorted_indexes']].coq else None
            if role is None:
                self.rej('a permutation that is neither argsort(precision) nor argsort of it', s)
            self.define_role(env, t.id, 'PERM', role, ': list nat', c[1:-1], s)
            return ''
        if k == 'SP':
            self.define_role(env, t.id, 'SP', 'sorted_precisions', ': list nat', c[1:-1], s)
            return ''
        if k in ('CUR', 'ORDS'):
            if t.id in env or loop is not None:
                self.rej('second definition of %s / definition inside a loop' % t.id, s)
            env[t.id] = Var(k, c, 'g')
            return ''
        if k not in COQ_TY:
            self.rej('a value of kind %s cannot be stored in a local' % k, s)
        if old is None or retype:
            self.bind(env, t.id, k)
        return pad + 'let %s : %s := %s in\n' % (env[t.id].coq, COQ_TY[k], c)

    def has_continue(self, stmts):
        for s in stmts:
            if isinstance(s, ast.Continue):
                return True
            if isinstance(s, ast.If) and (self.has_continue(s.body) or self.has_continue(s.orelse)):
                return True
        return False

    def do_if(self, s, rest, env, k, loop, facts, ind):
        pad = '  ' * ind
        body, orelse = list(s.body), list(s.orelse)
        # `if x != -1:` on the precision of one channel
        t = s.test
        if isinstance(t, ast.Compare) and len(t.ops) == 1 and isinstance(t.ops[0], (ast.NotEq, ast.Eq)) and _name(t.left) and t.left.id in env \
                and env[t.left.id].kind == 'OA' and _is_minus1(t.comparators[0]):
            if isinstance(t.ops[0], ast.Eq):
                body, orelse = orelse, body
            if self.has_continue(body) or self.has_continue(orelse):
                self.rej('continue under a test on -1', s)
            mods = self.mods(body + orelse, env)
            e1, e2 = dict(env), dict(env)
            e1[t.left.id] = Var('N', 'p_' + t.left.id, 'l')
            out = pad + "let %s :=\n" % self.pat(mods, env) + pad + '  match %s with\n' % env[t.left.id].coq + pad + '  | Some p_%s =>\n' % t.left.id + \
                self.block(body, e1, lambda e: self.tuple_of(mods, e), loop, facts, ind + 2) + '\n' + pad + '  | None =>\n' + \
                self.block(orelse, e2, lambda e: self.tuple_of(mods, e), loop, facts, ind + 2) + '\n' + pad + '  end in\n'
            return out + self.block(rest, env, k, loop, facts, ind)
        c, ft, ff = self.test(t, env)
        cb, co = body and isinstance(body[-1], ast.Continue), orelse and isinstance(orelse[-1], ast.Continue)
        if cb or co:
            if loop is None or (cb and co) or self.has_continue(body[:-1] if cb else body) or self.has_continue(orelse[:-1] if co else orelse):
                self.rej('continue not in the subset', s)
            e1, e2 = dict(env), dict(env)
            if cb:
                return pad + 'if %s then\n' % c + self.block(body, e1, k, loop, facts + ft, ind + 1) + '\n' + pad + 'else\n' + \
                    self.block(orelse + rest, e2, k, loop, facts + ff, ind + 1)
            return pad + 'if %s then\n' % c + self.block(body + rest, e1, k, loop, facts + ft, ind + 1) + '\n' + pad + 'else\n' + \
                self.block(orelse, e2, k, loop, facts + ff, ind + 1)
        if self.has_continue(body) or self.has_continue(orelse):
            self.rej('continue not in the subset', s)
        mods = self.mods(body + orelse, env)
        if not mods:
            # nothing that outlives the branches is assigned: only prints may be there
            e1 = dict(env)
            self.block(body + orelse, e1, lambda e: '', loop, facts, ind)
            return self.block(rest, env, k, loop, facts, ind)
        e1, e2 = dict(env), dict(env)
        out = pad + 'let %s :=\n' % self.pat(mods, env) + pad + '  if %s then\n' % c + \
            self.block(body, e1, lambda e: self.tuple_of(mods, e), loop, facts + ft, ind + 2) + '\n' + pad + '  else\n' + \
            self.block(orelse, e2, lambda e: self.tuple_of(mods, e), loop, facts + ff, ind + 2) + ' in\n'
        return out + self.block(rest, env, k, loop, facts, ind)

    def mods(self, stmts, env):
        """the names assigned by the statements that exist before them (the others are local to the statements)"""
        a = assigned(stmts)
        for x in a:
            if x in env and env[x].scope == 'g':
                self.rej('%s is assigned again (it names a pinned input / immutable value; a tensor that is updated in place must be a fresh .clone())' % x)
        return [x for x in env if x in a and env[x].scope == 'l' and env[x].kind in COQ_TY]

    def loop_setup(self, s, env):
        for x in ast.walk(s):
            if isinstance(x, (ast.Break, ast.Return, ast.Try, ast.With, ast.Raise, ast.Global, ast.Nonlocal, ast.Delete, ast.Import, ast.ImportFrom)):
                self.rej('%s inside a loop' % type(x).__name__, s)
        if s.orelse:
            self.rej('loop with an else clause', s)
        state = self.mods(s.body, env)
        for x in assigned(s.body):
            if x in env and env[x].kind == 'ACC':
                self.rej('accumulator updated inside a loop', s)
        if not state:
            self.rej('loop that assigns nothing defined before it', s)
        reads = names_read(s.body) | (names_read([s.test]) if isinstance(s, ast.While) else set())
        captured = [x for x in env if env[x].scope == 'l' and x in reads and x not in state and env[x].kind in COQ_TY]
        return state, captured

    def loop_name(self, kind):
        d = loop_depth(self)
        if d == 0:
            if not self.loop_names:
                self.rej('more top-level loops than expected')
            self.cur_loop = self.loop_names.pop(0)
            self.top_loops += 1
            sfx = '_step'
        else:
            sfx = '_inner' if d == 1 else '_inner%d' % d
        if kind == 'while':
            sfx = '_while' if d else '_step'
        return self.cur_loop + sfx

    def do_for(self, s, rest, env, k, loop, facts, ind):
        pad = '  ' * ind
        it = s.iter
        if not (_name(s.target) and _call(it) and _name(it.func, 'range') and not it.keywords and len(it.args) in (1, 2)):
            self.rej('loop not in the subset (for NAME in range(a[, b]))', s)
        if s.target.id in env:
            self.rej('the loop variable %s is already a name of the function' % s.target.id, s)
        if len(it.args) == 1:
            lo, (kh, hi, _) = '0', self.ex(it.args[0], env)
            cnt = hi
        else:
            (kl, lo, _), (kh, hi, _) = self.ex(it.args[0], env), self.ex(it.args[1], env)
            if kl != 'N':
                self.rej('range bound of kind %s' % kl, s)
            cnt = '(%s - %s)' % (hi, lo)
        if kh != 'N':
            self.rej('range bound of kind %s' % kh, s)
        state, captured = self.loop_setup(s, env)
        name = self.loop_name('for')
        top = loop_depth(self) == 0
        self.depth = loop_depth(self) + 1
        benv = {x: v for x, v in env.items() if v.scope == 'g' or x in state or x in captured}
        idx = self.bind(benv, s.target.id, 'N')
        body = self.block(_strip(s.body), benv, lambda e: self.tuple_of(state, e), state, (), 1)
        self.depth -= 1
        cap_sig = ''.join(' (%s : %s)' % (env[x].coq, COQ_TY[env[x].kind]) for x in captured)
        cap_app = ''.join(' ' + env[x].coq for x in captured)
        st_ty = self.ty_of(state, env)
        self.defs.append('(* body of: %s *)\nDefinition %s_gen %s%s (s : %s) (%s : nat) : %s :=\n  let %s := s in\n%s.\n' % (
            src_line(s), name, self.psig, cap_sig, st_ty, idx, st_ty, self.pat(state, env), body))
        run = 'fold_left (%s_gen %s%s) (seq %s %s)' % (name, self.papp, cap_app, lo, cnt)
        if top:
            # the whole loop as a named function of its state
            self.defs.append('(* %s *)\nDefinition %s_gen %s%s (s : %s) : %s :=\n  %s s.\n' % (
                src_line(s), self.cur_loop, self.psig, cap_sig, st_ty, st_ty, run))
            run = '%s_gen %s%s' % (self.cur_loop, self.papp, cap_app)
        self.last_state = list(state)
        return pad + 'let %s := %s %s in\n' % (self.pat(state, env), run, self.tuple_of(state, env)) + self.block(rest, env, k, loop, facts, ind)

    def do_while(self, s, rest, env, k, loop, facts, ind):
        pad = '  ' * ind
        t = s.test
        ok = isinstance(t, ast.Compare) and len(t.ops) == 1
        if ok:
            op, l, r = t.ops[0], t.left, t.comparators[0]
            if isinstance(op, ast.Lt):
                op, l, r = ast.Gt(), r, l
            ok = isinstance(op, ast.Gt) and isinstance(l, ast.Subscript) and _name(l.value) and _name(l.slice) and self.frac(r, 0.5)
        if not ok:
            self.rej('while loop not in the subset (while x[i] > 0.5 / <number of channels>)', s)
        v, i = self.look(l.value.id, env), self.look(l.slice.id, env)
        if v.kind != 'V' or v.scope != 'l' or i.kind != 'N':
            self.rej('while loop on a value of kind %s' % v.kind, s)
        state, captured = self.loop_setup(s, env)
        if l.value.id not in state:
            self.rej('the while loop does not update the list its condition reads', s)
        if l.slice.id in state:
            self.rej('the while loop assigns the index of its condition', s)
        name = self.loop_name('while')
        self.depth = loop_depth(self) + 1
        benv = {x: vv for x, vv in env.items() if vv.scope == 'g' or x in state or x in captured}
        body = self.block(_strip(s.body), benv, lambda e: self.tuple_of(state, e), state, (), 1)
        self.depth -= 1
        cap_sig = ''.join(' (%s : %s)' % (env[x].coq, COQ_TY[env[x].kind]) for x in captured)
        cap_app = ''.join(' ' + env[x].coq for x in captured)
        st_ty = self.ty_of(state, env)
        cond = 'Nat.ltb 0 (nth %s %s 0)' % (i.coq, v.coq)
        self.defs.append('(* condition of: %s   (0.5 / C < k / C  read as  0 < k) *)\nDefinition %s_cond_gen %s%s (s : %s) : bool :=\n  let %s := s in\n  %s.\n' % (
            src_line(s), name, self.psig, cap_sig, st_ty, self.pat(state, env), cond))
        self.defs.append('(* body of: %s *)\nDefinition %s_gen %s%s (s : %s) : %s :=\n  let %s := s in\n%s.\n' % (
            src_line(s), name, self.psig, cap_sig, st_ty, st_ty, self.pat(state, env), body))
        run = 'while_fuel (%s_cond_gen %s%s) (%s_gen %s%s) (nth %s %s 0)' % (name, self.papp, cap_app, name, self.papp, cap_app, i.coq, v.coq)
        self.last_state = list(state)
        return pad + 'let %s := %s %s in\n' % (self.pat(state, env), run, self.tuple_of(state, env)) + self.block(rest, env, k, loop, facts, ind)


def loop_depth(tr):
    return getattr(tr, 'depth', 0)


_SRC = {}


def src_line(node):
    lines = _SRC.get('lines')
    if not lines or not hasattr(node, 'lineno'):
        return type(node).__name__
    return lines[node.lineno - 1].strip().replace('(*', '( *').replace('*)', '* )')[:150]


# ---------------------------------------------------------------------------------------------- the module
ALLOWED_IMPORTS = {
    ('import', 'copy'), ('import', 'torch'), ('typing', 'Dict'), ('typing', 'cast'),
    ('plinio.cost.cost_spec', 'CostFn'), ('plinio.cost.cost_spec', 'CostSpec'), ('plinio.graph.inspection', 'shapes_dict'),
    ('plinio.methods.mps.mps', 'MPS'), ('plinio.methods.mps.nn.identity', 'MPSIdentity'), ('plinio.methods.mps.nn.module', 'MPSModule'),
    ('plinio.methods.mps.nn.qtz', 'MPSPerChannelQtz'), ('plinio.methods.mps.nn.qtz', 'MPSPerLayerQtz')}
FUNCTIONS = ('optimize_prec_assignment', '_compute_cost', '_reassign_precisions')


def check_module(tree):
    fns = {}
    for n in tree.body:
        if isinstance(n, ast.Import):
            for a in n.names:
                if a.asname is not None or ('import', a.name) not in ALLOWED_IMPORTS:
                    raise Reject('module level: import %s%s' % (a.name, ' as ' + a.asname if a.asname else ''))
        elif isinstance(n, ast.ImportFrom):
            for a in n.names:
                if a.asname is not None or n.level or (n.module, a.name) not in ALLOWED_IMPORTS:
                    raise Reject('module level: from %s import %s' % (n.module, a.name))
        elif isinstance(n, ast.FunctionDef):
            if n.name not in FUNCTIONS or n.name in fns or n.decorator_list:
                raise Reject('module level: function %s (unknown, defined twice or decorated)' % n.name)
            fns[n.name] = n
        elif isinstance(n, ast.Expr) and isinstance(n.value, ast.Constant) and isinstance(n.value.value, str):
            continue
        else:
            raise Reject('module-level statement: ' + _d(n)[:120])
    for f in FUNCTIONS:
        if f not in fns:
            raise Reject('function %s not found' % f)
    # no function rebinds a name the reading relies on (parameters, stores, nested functions)
    for f in fns.values():
        for x in ast.walk(f):
            nm = x.id if isinstance(x, ast.Name) and isinstance(x.ctx, (ast.Store, ast.Del)) else x.arg if isinstance(x, ast.arg) else \
                x.name if isinstance(x, ast.FunctionDef) and x is not f else None
            if nm in BUILTINS_USED:
                raise Reject('%s rebinds the name %s' % (f.name, nm))
            if isinstance(x, (ast.Global, ast.Nonlocal)):
                raise Reject('%s: global / nonlocal' % f.name)
    return fns


def split_layer_block(fn):
    """-> (the statements of the per-layer block, digest of the function with the block replaced by `pass`)"""
    fn2 = _nodoc(fn)
    found = []

    def visit(stmts):
        for idx, s in enumerate(stmts):
            if isinstance(s, ast.If) and _call(s.test, 2) and _name(s.test.func, 'isinstance') and _is_chain(s.test.args[0], 'layer', 'w_mps_quantizer') \
                    and _name(s.test.args[1], 'MPSPerChannelQtz') and len(s.body) == 1 and isinstance(s.body[0], ast.Assign) and _name(s.body[0].targets[0], 'w_theta_alpha_array'):
                found.append((stmts, idx))
            for fld in ('body', 'orelse', 'finalbody'):
                sub = getattr(s, fld, None)
                if isinstance(sub, list) and sub and isinstance(sub[0], ast.stmt):
                    visit(sub)
    visit(fn2.body)
    if len(found) != 1:
        raise Reject('optimize_prec_assignment: the statement `if isinstance(layer.w_mps_quantizer, MPSPerChannelQtz): w_theta_alpha_array = ...` that precedes the per-layer block was not found exactly once')
    stmts, idx = found[0]
    region = stmts[idx + 1:]
    if not region:
        raise Reject('optimize_prec_assignment: empty per-layer block')
    del stmts[idx + 1:]
    stmts.append(ast.Pass())
    return region, hashlib.sha256(ast.dump(fn2).encode()).hexdigest()[:32]


L_SIG = '(cost_own : list nat -> Q) (prec w_theta_alpha_array : list nat) (base_cost : Q)'
L_APP = 'cost_own prec w_theta_alpha_array base_cost'
R_SIG = '(cur : list nat) (orders : list (list nat)) (best : list nat)'
R_APP = 'cur orders best'


def translate_reassign(fn):
    args = [a.arg for a in fn.args.args]
    if args != ['best', 'scores'] or fn.args.vararg or fn.args.kwarg or fn.args.kwonlyargs or fn.args.defaults:
        raise Reject('_reassign_precisions signature: %s' % args)
    tr = Tr('_reassign_precisions', R_SIG, R_APP, ['pass1', 'pass2', 'matrix'], False)
    env = {'best': Var('BEST', 'best', 'g'), 'scores': Var('SCORES', 'scores', 'g')}
    body = _strip(fn.body)
    # the value of new_assignment after the second loop / the matrix returned: split after the second top-level loop
    loops = [k for k, s in enumerate(body) if isinstance(s, (ast.For, ast.While))]
    if len(loops) != 3:
        raise Reject('_reassign_precisions: %d top-level loops (two passes and the construction of the matrix expected)' % len(loops))
    head, tail = body[:loops[1] + 1], body[loops[1] + 1:]
    holder = {}

    def k_head(e):
        st = tr.last_state
        if len(st) != 1 or e[st[0]].kind != 'A':
            tr.rej('the state of the second pass is not the assignment alone')
        holder['a'] = st[0]
        return e[st[0]].coq
    htxt = tr.block(head, env, k_head, None)
    if tr.top_loops != 2:
        tr.rej('statements between the loops not understood')
    a = holder['a']
    tenv = {x: v for x, v in env.items() if v.scope == 'g'}
    tenv[a] = Var('A', 'v_' + a, 'l')
    ttxt = tr.block(tail, tenv, lambda e: tr.final[1] if tr.final else tr.rej('the function does not end with `return <matrix>`'), None)
    if tr.final is None or tr.final[0] != 'MAT':
        tr.rej('the function does not return the binary matrix')
    if tr.loop_names:
        tr.rej('fewer loops than expected')
    out = '\n'.join(tr.defs)
    out += '\n(* new_assignment after the two passes *)\nDefinition reassign_abs_gen %s : assignment :=\n%s.\n' % (R_SIG, htxt)
    out += '\n(* the matrix returned *)\nDefinition reassign_matrix_gen %s : list (list bool) :=\n  let v_%s : assignment := reassign_abs_gen %s in\n%s.\n' % (R_SIG, a, R_APP, ttxt)
    return out


def translate_layer(region):
    tr = Tr('optimize_prec_assignment (per-layer block)', L_SIG, L_APP, ['search1', 'search2'], True)
    env = {'base_cost': Var('Q', 'base_cost', 'g'), 'w_theta_alpha_array': Var('W', 'w_theta_alpha_array', 'g'),
           'base_model_cost': Var('ACC', '', 'g'), 'best_model_cost': Var('ACC', '', 'g')}
    loops = [k for k, s in enumerate(region) if isinstance(s, (ast.For, ast.While))]
    if len(loops) != 2:
        raise Reject('per-layer block: %d top-level loops ("Case 1" and "Case 2" expected)' % len(loops))
    head, tail = region[:loops[1] + 1], region[loops[1] + 1:]
    holder = {}

    def k_head(e):
        holder['state'] = list(tr.last_state)
        holder['env'] = e
        return 'Some ' + tr.tuple_of(tr.last_state, e)
    htxt = tr.block(head, env, k_head, None)
    if tr.top_loops != 2 or 'state' not in holder:
        tr.rej('statements between the searches not understood')
    state, henv = holder['state'], holder['env']
    for r in ('sorted_indexes', 'inverse_indexes', 'sorted_precisions', 'unsorted'):
        if r not in tr.roles:
            tr.rej('no definition with the role %s' % r)
    st_ty = tr.ty_of(state, henv)
    tenv = {x: v for x, v in henv.items() if v.scope == 'g' or x in state}
    # which count list goes on to the reassignment
    used = [x for x in state if henv[x].kind == 'V' and x in names_read(tail)]
    if len(used) != 1:
        tr.rej('the statements after the searches read %d of the count lists (exactly one expected)' % len(used))
    ttxt = tr.block(tail, tenv, lambda e: tr.rej('the block does not end with the store of the new alpha'), None, (), 2)
    if tr.final is None or tr.final[0] != 'A':
        tr.rej('the block does not end with layer.w_mps_quantizer.alpha.data = <result of _reassign_precisions>.clone()')
    out = '\n'.join(tr.defs)
    out += '\n(* the block up to the end of the second search: the loop state %s *)\nDefinition search_gen %s : option (%s) :=\n%s.\n' % (
        tr.tuple_of(state, henv), L_SIG, st_ty, htxt)
    out += '\n(* the count vector (sorted order) the block keeps *)\nDefinition refine_gen %s : option vec :=\n  match search_gen %s with\n  | Some %s => Some %s\n  | None => None\n  end.\n' % (
        L_SIG, L_APP, tr.tuple_of(state, henv), henv[used[0]].coq)
    out += '\n(* the whole block: the new assignment of the layer\'s channels *)\nDefinition layer_gen %s (cur : list nat) (orders : list (list nat)) : option assignment :=\n' \
           '  match search_gen %s with\n  | Some %s =>\n%s\n  | None => None\n  end.\n' % (L_SIG, L_APP, tr.tuple_of(state, henv), ttxt)
    return out


HEADER = '''(* GENERATED by translator/refine2coq.py from plinio/methods/mps/utils.py of the tree under test -- do not edit.
   optimize_prec_assignment (the per-layer block) and _reassign_precisions, statement by statement. *)
From Coq Require Import QArith ZArith List Bool Arith.
Import ListNotations.
Require Import Plinio.Base.Qx Plinio.Model.Reassign.
Local Open Scope nat_scope.

(* ---- vocabulary (fixed text) *)
(* `while c: body`, the fuel bounding the number of iterations *)
Fixpoint while_fuel {S : Type} (cond : S -> bool) (body : S -> S) (fuel : nat) (s : S) : S :=
  match fuel with
  | O => s
  | S f => if cond s then while_fuel cond body f (body s) else s
  end.
(* torch.argsort of a tuple of integers: stable insertion sort of the indices *)
Fixpoint insert_asc (key : nat -> nat) (c : nat) (l : list nat) : list nat :=
  match l with
  | [] => [c]
  | d :: t => if Nat.leb (key c) (key d) then c :: l else d :: insert_asc key c t
  end.
Definition argsort_asc (l : list nat) : list nat :=
  fold_right (fun c acc => insert_asc (fun i => nth i l 0) c acc) [] (seq 0 (length l)).
(* torch.zeros_like(scores) and m[p, c] = 1 *)
Definition zeros_mat (P C : nat) : list (list bool) := repeat (repeat false C) P.
Definition mset (p c : nat) (x : bool) (m : list (list bool)) : list (list bool) := set_nth p (set_nth c x (nth p m [])) m.

'''

FOOTER = '''
(* ---- correspondence helpers (fixed text) *)
(* w_theta_alpha_array = layer.w_mps_quantizer.theta_alpha.mean(dim=1)  (pinned statement of optimize_prec_assignment):
   the fraction of channels whose selected precision has own index p, read as their number *)
Definition own_counts (P : nat) (cur : list nat) : list nat := map (cc cur) (seq 0 P).
Definition layer_run_gen (cost_own : list nat -> Q) (prec : list nat) (base_cost : Q) (cur : list nat) (orders : list (list nat)) : option assignment :=
  layer_gen cost_own prec (own_counts (length prec) cur) base_cost cur orders.
Definition run_reassign_gen (scores : list (list Q)) (best : list nat) : list Z :=
  code_assign (reassign_abs_gen (map (col_argmax scores) (seq 0 (ncols scores))) (map argsort_desc scores) best).
Definition run_matrix_gen (scores : list (list Q)) (best : list nat) : list (list bool) :=
  reassign_matrix_gen (map (col_argmax scores) (seq 0 (ncols scores))) (map argsort_desc scores) best.
(* the cost table is indexed by count vectors in SORTED order (as Model.run_pipeline); `precs` is the precision tuple in
   the quantizer's own order.  -> (channels per precision after the block, in sorted order; new own index of every
   channel).  A failed assert gives ([], []) *)
Definition run_pipeline_gen (tbl : list (vec * Q)) (precs : list nat) (scores : list (list Q)) : vec * list Z :=
  let P := length scores in
  let cur := map (col_argmax scores) (seq 0 (ncols scores)) in
  let own := argsort_asc precs in
  let cost_own := fun u : list nat => lookup_cost tbl (map (fun k => nth k u 0) own) in
  let w := own_counts P cur in
  match layer_gen cost_own precs w (cost_own w) cur (map argsort_desc scores) with
  | Some a => (map (fun k => count k a) own, code_assign a)
  | None => ([], [])
  end.
'''


def translate_source(src):
    tree = ast.parse(src)
    _SRC['lines'] = src.splitlines()
    fns = check_module(tree)
    if digest(fns['_compute_cost']) != DIGEST_COMPUTE_COST:
        raise Reject('_compute_cost is not the pinned function (digest %s): the candidate evaluator is read as the abstract cost of a count vector' % digest(fns['_compute_cost']))
    region, sk = split_layer_block(fns['optimize_prec_assignment'])
    if sk != DIGEST_SKELETON:
        raise Reject('optimize_prec_assignment outside the per-layer block is not the pinned text (digest %s)' % sk)
    r = translate_reassign(fns['_reassign_precisions'])
    l = translate_layer(region)
    return r, l


def emit(src):
    r, l = translate_source(src)
    return HEADER + '(* ================================================================== _reassign_precisions *)\n' + r + \
        '\n(* ================================================================== optimize_prec_assignment, per-layer block *)\n' + l + FOOTER


def translate_repo(repo):
    src = open(os.path.join(repo, 'plinio', 'methods', 'mps', 'utils.py')).read()
    try:
        return emit(src)
    except (Reject, SyntaxError):
        raise
    except Exception as e:      # an AST shape the translator did not anticipate: refused, never a crash that looks like a pass
        raise Reject('unexpected shape (%s: %s)' % (type(e).__name__, e))


if __name__ == '__main__':
    import sys
    print(translate_repo(sys.argv[1] if len(sys.argv) > 1 else '/repo'))
