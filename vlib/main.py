"""./check Cxx [--tier quick|thorough] [--replay FILE]"""
import sys, os, argparse, importlib, json, traceback
from . import common


def main():
    ap = argparse.ArgumentParser()
    ap.add_argument('prop')
    ap.add_argument('--tier', default=os.environ.get('VERIF_TIER', 'quick'), choices=['quick', 'thorough'])
    ap.add_argument('--replay', default=None)
    a = ap.parse_args()
    seed = int(os.environ.get('VERIF_SEED', '0') or 0)
    mod = importlib.import_module('vlib.' + a.prop.lower())
    if a.replay:
        r = json.load(open(a.replay))
        sys.exit(mod.replay(r))
    ctx = common.Ctx(a.prop, a.tier, seed)
    try:
        mod.run(ctx)
    except Exception:
        # a crash of the machinery is never silently a pass
        tb = traceback.format_exc()
        print(tb, flush=True)
        ctx.violation('harness-crash', {'traceback': tb}, 'the check itself crashed: ' + tb.strip().split('\n')[-1], no_input=True)
    sys.exit(ctx.finish())


if __name__ == '__main__':
    main()
