(* refutations of the pinned upstream behaviour (fixd = false) by evaluation, with the witness networks *)
From Coq Require Import List Bool Arith Lia.
Import ListNotations.
Require Import Plinio.Model.Calc.

(* row 6: cat(x, excluded_conv(x)) feeding a searchable layer: 10 input features instead of 8 *)
Definition w_const : net := [NIn 3; NLayer 0 5 Full false; NCat [0; 1]; NLayer 2 4 Full true; NLayer 3 2 Full true].
Definition m_const := assoc [(3, [true; false; true; true]); (4, [true; true])].
Lemma calc_sound_refuted :
  wf w_const = true /\ sound_b w_const m_const = true /\
  sfeat (register_all false w_const) m_const (input_calc false w_const 3) = 10 /\
  count (nth 2 (alive w_const m_const) []) = 8 /\ names_ok false w_const = false /\
  (* repaired naming *)
  sfeat (register_all true w_const) m_const (input_calc true w_const 3) = 8 /\ names_ok true w_const = true.
Proof. vm_compute. repeat split. Qed.

(* two flattened tensors with different spatial sizes concatenated: the multipliers collide *)
Definition w_flat : net := [NIn 3; NLayer 0 2 Full true; NFlat 1 25 FFlatten; NLayer 1 3 Full true; NProp 3 TPlain; NFlat 4 1 FFlatten; NCat [2; 5]; NLayer 6 2 Full true].
Definition m_flat := assoc [(1, [true; true]); (3, [true; true; true]); (7, [true; true])].
Lemma flatten_names_refuted :
  wf w_flat = true /\ sfeat (register_all false w_flat) m_flat (input_calc false w_flat 7) <> count (nth 6 (alive w_flat m_flat) []) /\
  sfeat (register_all true w_flat) m_flat (input_calc true w_flat 7) = count (nth 6 (alive w_flat m_flat) []).
Proof. vm_compute. repeat split; discriminate. Qed.

(* the same tensor twice in a cat: all_input_nodes de-duplicates *)
Definition w_dup : net := [NIn 3; NLayer 0 2 Full true; NLayer 1 3 Full true; NCat [2; 1; 1]; NLayer 3 3 Full true; NLayer 4 2 Full true].
Definition m_dup := assoc [(1, [true; true]); (2, [true; false; true]); (4, [true; true; true]); (5, [true; true])].
Lemma dup_cat_refuted :
  wf w_dup = true /\ sound_b w_dup m_dup = true /\
  length (smask (register_all false w_dup) m_dup (input_calc false w_dup 4)) = 5 /\
  length (nth 3 (alive w_dup m_dup) []) = 7 /\
  smask (register_all true w_dup) m_dup (input_calc true w_dup 4) = nth 3 (alive w_dup m_dup) [].
Proof. vm_compute. repeat split. Qed.

(* row 7: residual add with a cat operand: masks that are consistent with the upstream sharing
   give an exported network that is not shape-consistent; the repaired sharing freezes all three layers *)
Definition w_addcat : net := [NIn 3; NLayer 0 2 Full true; NLayer 0 3 Full true; NCat [1; 2]; NLayer 0 5 Full true; NJoin 3 4 false; NLayer 5 3 Full true; NLayer 6 2 Full true].
Definition m_addcat := assoc [(1, [false; true]); (2, [true; true; true]); (4, [true; false; false; true; true]); (6, [true; true; true]); (7, [true; true])].
Lemma add_of_cat_refuted :
  wf w_addcat = true /\ consistent_b false w_addcat m_addcat = true /\
  sound_b w_addcat m_addcat = false /\ shape_ok false w_addcat m_addcat = false /\
  consistent_b true w_addcat m_addcat = false /\
  map (masker_of true w_addcat) [1; 2; 4] = [Some (1, true); Some (2, true); Some (4, true)].
Proof. vm_compute. repeat split. Qed.

(* depthwise directly after a cat: upstream creates no masker for the depthwise layer *)
Definition w_dwcat : net := [NIn 3; NLayer 0 2 Full true; NLayer 0 3 Full true; NCat [1; 2]; NLayer 3 5 Dw true; NLayer 4 3 Full true; NLayer 5 2 Full true].
Lemma dw_after_cat_refuted :
  wf w_dwcat = true /\ masker_of false w_dwcat 4 = None /\
  map (masker_of true w_dwcat) [1; 2; 4] = [Some (1, true); Some (2, true); Some (4, true)].
Proof. vm_compute. repeat split. Qed.

(* an excluded layer downstream of a searchable one / summed with a searchable one *)
Definition w_excl : net := [NIn 3; NLayer 0 4 Full true; NProp 1 TPlain; NLayer 2 3 Full false; NLayer 3 3 Full true; NLayer 4 2 Full true].
Definition m_excl := assoc [(1, [true; false; false; true]); (4, [true; true; true]); (5, [true; true])].
Lemma excluded_downstream_refuted :
  wf w_excl = true /\ consistent_b false w_excl m_excl = true /\ shape_ok false w_excl m_excl = false /\
  masker_of true w_excl 1 = Some (1, true) /\ consistent_b true w_excl m_excl = false.
Proof. vm_compute. repeat split. Qed.
