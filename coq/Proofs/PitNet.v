(* Soundness of export for channel-pruned networks (model: PitNet.v):
   the masked (PIT) and the exported evaluation agree on all alive channels of every node. *)
From Coq Require Import List Arith Bool Lia ZArith Setoid Morphisms.
Import ListNotations.
Require Import Plinio.Model.Conv.
Require Import Plinio.Model.PitNet.

(* ================================================================ pure list lemmas *)
Lemma filter_map_comm {A B} (p : B -> bool) (f : A -> B) l :
  filter p (map f l) = map f (filter (fun x => p (f x)) l).
Proof. induction l; simpl; auto. destruct (p (f a)); simpl; congruence. Qed.

Lemma kept_cons b m : kept (b :: m) = (if b then [0] else []) ++ map S (kept m).
Proof.
  unfold kept. simpl length. rewrite <- cons_seq. simpl filter.
  rewrite <- seq_shift, filter_map_comm. simpl. destruct b; reflexivity.
Qed.

Lemma kept_In j m : In j (kept m) -> j < length m /\ nth j m false = true.
Proof. unfold kept. rewrite filter_In, in_seq. intros [H1 H2]. split; [lia|auto]. Qed.

Lemma select_nil_r {A} m : @select A m [] = [].
Proof. destruct m; reflexivity. Qed.

Lemma select_map {A B} (f : A -> B) m l : select m (map f l) = map f (select m l).
Proof.
  revert l; induction m; intros [|x l]; simpl; auto. destruct a; simpl; rewrite IHm; auto.
Qed.

Lemma select_seq m : select m (seq 0 (length m)) = kept m.
Proof.
  induction m; simpl; auto. rewrite kept_cons, <- seq_shift, select_map, IHm.
  destruct a; reflexivity.
Qed.

Lemma select_as_kept {A} (d : A) m l :
  length l = length m -> select m l = map (fun j => nth j l d) (kept m).
Proof.
  revert l; induction m; intros [|x l] H; simpl in *; try discriminate; auto.
  rewrite kept_cons, map_app, map_map. rewrite (IHm l) by lia.
  destruct a; reflexivity.
Qed.

Lemma select_app {A} m1 m2 (l1 l2 : list A) :
  length m1 = length l1 -> select (m1 ++ m2) (l1 ++ l2) = select m1 l1 ++ select m2 l2.
Proof.
  revert l1; induction m1; intros [|x l1] H; simpl in *; try discriminate; auto.
  destruct a; simpl; rewrite IHm1 by lia; auto.
Qed.

Lemma select_all_true {A} (l : list A) : select (repeat true (length l)) l = l.
Proof. induction l; simpl; congruence. Qed.

Lemma select_repeat_false {A} k (l : list A) : select (repeat false k) l = [].
Proof. revert l; induction k; intros [|x l]; simpl; auto. Qed.

Lemma select_forall_true {A} m (l : list A) :
  length l = length m -> Forall (fun b => b = true) m -> select m l = l.
Proof.
  revert l; induction m; intros [|x l] H F; simpl in *; try discriminate; auto.
  inversion F; subst. rewrite IHm by (auto; lia). reflexivity.
Qed.

Lemma select_expand {A B} (E : A -> list B) mult m l :
  (forall s, length (E s) = mult) ->
  select (flat_map (fun b : bool => repeat b mult) m) (flat_map E l) = flat_map E (select m l).
Proof.
  intros HE. revert l; induction m; intros [|x l]; simpl; auto.
  - apply select_nil_r.
  - rewrite select_app by (rewrite repeat_length, HE; auto). rewrite IHm.
    destruct a; simpl.
    + rewrite <- (HE x), select_all_true. reflexivity.
    + rewrite select_repeat_false. reflexivity.
Qed.

Lemma map_as_seq {A B} (g : A -> B) (d : A) l :
  map g l = map (fun i => g (nth i l d)) (seq 0 (length l)).
Proof.
  induction l; simpl; auto. rewrite <- seq_shift, map_map. f_equal. exact IHl.
Qed.

Lemma nth_map_seq {A} (g : nat -> A) d n c : c < n -> nth c (map g (seq 0 n)) d = g c.
Proof.
  intros H. rewrite (nth_indep _ d (g 0)) by (rewrite map_length, seq_length; auto).
  rewrite (map_nth g (seq 0 n) 0 c), seq_nth; auto.
Qed.

Lemma Forall2_nth {A B} (R : A -> B -> Prop) l1 l2 d1 d2 :
  Forall2 R l1 l2 -> forall j, j < length l1 -> R (nth j l1 d1) (nth j l2 d2).
Proof.
  induction 1; simpl; intros j Hj; [lia|]. destruct j; auto. apply IHForall2. lia.
Qed.

Lemma Forall2_len {A B} (R : A -> B -> Prop) l1 l2 : Forall2 R l1 l2 -> length l1 = length l2.
Proof. induction 1; simpl; auto. Qed.

Lemma Forall2_map_same {A B} (R : B -> B -> Prop) (g h : A -> B) l :
  (forall a, In a l -> R (g a) (h a)) -> Forall2 R (map g l) (map h l).
Proof. induction l; simpl; intros H; constructor; auto. Qed.

Lemma Forall2_map2 {A B} (R : B -> B -> Prop) (g h : A -> B) (Q : A -> A -> Prop) l1 l2 :
  (forall a a', Q a a' -> R (g a) (h a')) -> Forall2 Q l1 l2 -> Forall2 R (map g l1) (map h l2).
Proof. intros H; induction 1; simpl; constructor; auto. Qed.

(* ================================================================ the soundness proof *)
Section Proofs.
Variable S : Type.
Variable eqS : S -> S -> Prop.
Variable zeroS : S.
Variable addS : S -> S -> S.
Hypothesis eqS_equiv : Equivalence eqS.
Hypothesis addS_proper : forall a a' b b', eqS a a' -> eqS b b' -> eqS (addS a b) (addS a' b').
Hypothesis addS_0_l : forall s, eqS (addS zeroS s) s.

Notation sumS := (sumS S zeroS addS).
Notation gate := (gate S zeroS).
Notation zipadd := (zipadd S addS).
Notation node := (node S).
Notation respects := (respects S eqS).

Local Instance eqS_Equivalence : Equivalence eqS := eqS_equiv.

Definition Inv (a : list bool) (tp te : list S) : Prop :=
  length tp = length a /\
  (forall c, c < length a -> nth c a true = false -> eqS (nth c tp zeroS) zeroS) /\
  Forall2 eqS te (select a tp).

(* dead channels are zero, as a Forall2 *)
Definition dead (b : bool) (s : S) : Prop := b = false -> eqS s zeroS.

Lemma dead_iff a tp :
  Forall2 dead a tp <->
  (length tp = length a /\
   forall c, c < length a -> nth c a true = false -> eqS (nth c tp zeroS) zeroS).
Proof.
  split.
  - induction 1; simpl.
    + split; auto. intros; lia.
    + destruct IHForall2 as [HL HD]. split; [lia|]. intros [|c] Hc Hn; auto. apply HD; auto; lia.
  - revert tp; induction a; intros [|s tp] [HL HD]; simpl in *; try discriminate; constructor.
    + intros Hb. apply (HD 0); auto; lia.
    + apply IHa. split; [lia|]. intros c Hc Hn. apply (HD (Datatypes.S c)); auto; lia.
Qed.

Lemma Inv_iff a tp te : Inv a tp te <-> Forall2 dead a tp /\ Forall2 eqS te (select a tp).
Proof. unfold Inv. rewrite dead_iff. tauto. Qed.

(* reading an exported tensor: channel j of te is channel (kept a)[j] of tp *)
Lemma Inv_nth a tp te :
  Inv a tp te ->
  length te = length (kept a) /\
  forall j, j < length (kept a) -> eqS (nth j te zeroS) (nth (nth j (kept a) 0) tp zeroS).
Proof.
  intros (HL & _ & HF). rewrite (select_as_kept zeroS) in HF by auto.
  split.
  - rewrite (Forall2_len _ _ _ HF), map_length. reflexivity.
  - intros j Hj.
    assert (Hj' : j < length te) by (rewrite (Forall2_len _ _ _ HF), map_length; auto).
    pose proof (Forall2_nth _ _ _ zeroS zeroS HF j Hj') as H.
    rewrite (nth_indep (map (fun j => nth j tp zeroS) (kept a)) zeroS (nth 0 tp zeroS)) in H
      by (rewrite map_length; auto).
    rewrite (map_nth (fun j => nth j tp zeroS) (kept a) 0 j) in H.
    exact H.
Qed.
Lemma Forall2_eqS_refl l : Forall2 eqS l l.
Proof. induction l; constructor; auto. reflexivity. Qed.

(* ---------------------------------------------------------------- sums *)
Lemma sumS_ext (g h : nat -> S) l :
  (forall j, In j l -> eqS (g j) (h j)) -> eqS (sumS (map g l)) (sumS (map h l)).
Proof. induction l; simpl; intros H; [reflexivity|]. apply addS_proper; auto. Qed.

Lemma sumS_Forall2 l1 l2 : Forall2 eqS l1 l2 -> eqS (sumS l1) (sumS l2).
Proof. induction 1; simpl; [reflexivity|]. apply addS_proper; auto. Qed.

(* terms that are zero can be dropped from a sum *)
Lemma sumS_filter (p : nat -> bool) (g : nat -> S) l :
  (forall j, In j l -> p j = false -> eqS (g j) zeroS) ->
  eqS (sumS (map g l)) (sumS (map g (filter p l))).
Proof.
  induction l; simpl; intros H; [reflexivity|].
  destruct (p a) eqn:E; simpl.
  - apply addS_proper; [reflexivity|auto].
  - transitivity (addS zeroS (sumS (map g l))).
    + apply addS_proper; [auto|reflexivity].
    + etransitivity; [apply addS_0_l|auto].
Qed.

Lemma sumS_kept (g : nat -> S) a n :
  length a = n -> (forall j, j < n -> nth j a true = false -> eqS (g j) zeroS) ->
  eqS (sumS (map g (seq 0 n))) (sumS (map g (kept a))).
Proof.
  intros <- H. unfold kept. apply sumS_filter. intros j Hj Hd. apply in_seq in Hj.
  apply H; [lia|]. rewrite (nth_indep a true false) by lia. exact Hd.
Qed.

(* ---------------------------------------------------------------- one step lemma per node kind *)
Lemma step_input x : Inv (repeat true (length x)) x x.
Proof.
  apply Inv_iff. split.
  - induction x; simpl; constructor; auto. intro; discriminate.
  - rewrite select_all_true. apply Forall2_eqS_refl.
Qed.

Lemma step_full a xp xe cin cout (T : nat -> nat -> S -> S) (b : nat -> S) (post : nat -> S -> S) m :
  Inv a xp xe -> length m = cout -> length a = cin ->
  (forall co ci, eqS (T co ci zeroS) zeroS) ->
  (forall co ci, respects (T co ci)) -> (forall co, respects (post co)) ->
  Inv m
    (map (fun co => gate (nth co m false)
            (post co (addS (b co) (sumS (map (fun ci => T co ci (nth ci xp zeroS)) (seq 0 cin))))))
         (seq 0 cout))
    (map (fun co => post co (addS (b co)
            (sumS (map (fun j => T co (nth j (kept a) 0) (nth j xe zeroS)) (seq 0 (length (kept a)))))))
         (kept m)).
Proof.
  intros HI Hm Ha HT0 HT Hp. subst cout. split; [|split].
  - rewrite map_length, seq_length; auto.
  - intros c Hc Hn. rewrite nth_map_seq by auto.
    rewrite (nth_indep m true false) in Hn by auto. rewrite Hn. reflexivity.
  - rewrite select_map, select_seq. apply Forall2_map_same. intros co Hco.
    apply kept_In in Hco as [_ Hco]. rewrite Hco. simpl.
    apply Hp. apply addS_proper; [reflexivity|]. symmetry.
    etransitivity.
    + apply (sumS_kept _ a cin Ha). intros j Hj Hd. destruct HI as (HL & HD & _).
      etransitivity; [apply HT, HD; auto; lia|apply HT0].
    + rewrite (map_as_seq _ 0 (kept a)). apply sumS_ext. intros j Hj. apply in_seq in Hj.
      apply HT. symmetry. apply (proj2 (Inv_nth _ _ _ HI)). lia.
Qed.

Lemma step_dw m xp xe c (T : nat -> S -> S) (b : nat -> S) (post : nat -> S -> S) :
  Inv m xp xe -> length m = c ->
  (forall co, respects (T co)) -> (forall co, respects (post co)) ->
  Inv m
    (map (fun co => gate (nth co m false) (post co (addS (b co) (T co (nth co xp zeroS))))) (seq 0 c))
    (map (fun i => let co := nth i (kept m) 0 in post co (addS (b co) (T co (nth i xe zeroS))))
         (seq 0 (length (kept m)))).
Proof.
  intros HI Hm HT Hp. subst c. split; [|split].
  - rewrite map_length, seq_length; auto.
  - intros c Hc Hn. rewrite nth_map_seq by auto.
    rewrite (nth_indep m true false) in Hn by auto. rewrite Hn. reflexivity.
  - rewrite select_map, select_seq, (map_as_seq _ 0 (kept m)). apply Forall2_map_same.
    intros i Hi. apply in_seq in Hi. cbv zeta.
    assert (Hin : In (nth i (kept m) 0) (kept m)) by (apply nth_In; lia).
    apply kept_In in Hin as [_ Hin]. rewrite Hin. simpl.
    apply Hp. apply addS_proper; [reflexivity|]. apply HT.
    apply (proj2 (Inv_nth _ _ _ HI)). lia.
Qed.

Lemma step_chan a xp xe (f : S -> S) :
  Inv a xp xe -> eqS (f zeroS) zeroS -> respects f -> Inv a (map f xp) (map f xe).
Proof.
  rewrite !Inv_iff. intros [HD HF] H0 Hf. split.
  - clear HF. induction HD; simpl; constructor; auto.
    intros Hb. etransitivity; [apply Hf, H, Hb|apply H0].
  - rewrite select_map. eapply Forall2_map2; [|exact HF]. auto.
Qed.

Lemma dead_expand1 b s mult (f : nat -> S -> S) st :
  (forall p, eqS (f p zeroS) zeroS) -> (forall p, respects (f p)) -> dead b s ->
  Forall2 dead (repeat b mult) (map (fun p => f p s) (seq st mult)).
Proof.
  intros H0 Hf H. revert st. induction mult; intros st; simpl; constructor; auto.
  intros Hb. etransitivity; [apply Hf, H, Hb|apply H0].
Qed.

Lemma step_expand a xp xe mult (f : nat -> S -> S) :
  Inv a xp xe -> (forall p, eqS (f p zeroS) zeroS) -> (forall p, respects (f p)) ->
  Inv (flat_map (fun b : bool => repeat b mult) a)
      (flat_map (expand1 S mult f) xp) (flat_map (expand1 S mult f) xe).
Proof.
  rewrite !Inv_iff. intros [HD HF] H0 Hf. split.
  - clear HF. induction HD; simpl; [constructor|]. apply Forall2_app; auto.
    apply dead_expand1; auto.
  - rewrite select_expand by (intros; unfold expand1; rewrite map_length, seq_length; auto).
    clear HD. induction HF; simpl; [constructor|]. apply Forall2_app; auto.
    unfold expand1. apply Forall2_map_same. intros p _. apply Hf; auto.
Qed.

Lemma select_zipadd A pa pb :
  length pa = length A -> length pb = length A ->
  select A (zipadd pa pb) = zipadd (select A pa) (select A pb).
Proof.
  revert pa pb; induction A; intros [|x pa] [|y pb] Ha Hb; simpl in *; try discriminate; auto.
  destruct a; simpl; rewrite IHA by lia; auto.
Qed.

Lemma dead_zipadd A pa pb :
  Forall2 dead A pa -> Forall2 dead A pb -> Forall2 dead A (zipadd pa pb).
Proof.
  intros Ha; revert pb. induction Ha as [|b x A pa Hbx Ha IH]; intros pb Hb;
    inversion Hb as [|b' y A' pb' Hby Hb']; subst; simpl; constructor; auto.
  intros E. etransitivity; [apply addS_proper; [apply Hbx|apply Hby]; exact E|apply addS_0_l].
Qed.

Lemma Forall2_zipadd ea sa eb sb :
  Forall2 eqS ea sa -> Forall2 eqS eb sb -> Forall2 eqS (zipadd ea eb) (zipadd sa sb).
Proof.
  intros Ha; revert eb sb. induction Ha; intros eb sb Hb; destruct Hb; simpl; constructor; auto.
Qed.

Lemma step_add A pa ea pb eb :
  Inv A pa ea -> Inv A pb eb -> Inv A (zipadd pa pb) (zipadd ea eb).
Proof.
  rewrite !Inv_iff. intros [HDa HFa] [HDb HFb]. split.
  - apply dead_zipadd; auto.
  - rewrite select_zipadd by (symmetry; eapply Forall2_len; eauto).
    apply Forall2_zipadd; auto.
Qed.

Lemma Inv_nil : Inv [] [] [].
Proof. apply Inv_iff. split; constructor. Qed.

Lemma Inv_app a1 p1 e1 a2 p2 e2 :
  Inv a1 p1 e1 -> Inv a2 p2 e2 -> Inv (a1 ++ a2) (p1 ++ p2) (e1 ++ e2).
Proof.
  rewrite !Inv_iff. intros [HD1 HF1] [HD2 HF2]. split.
  - apply Forall2_app; auto.
  - rewrite select_app by (eapply Forall2_len; eauto). apply Forall2_app; auto.
Qed.

Lemma step_cat (al : list (list bool)) (P E : list (list S)) srcs :
  Forall (fun s => Inv (nth s al []) (nth s P []) (nth s E [])) srcs ->
  Inv (flat_map (fun s => nth s al []) srcs) (flat_map (fun s => nth s P []) srcs)
      (flat_map (fun s => nth s E []) srcs).
Proof. induction 1; simpl; [apply Inv_nil|apply Inv_app; auto]. Qed.

(* ---------------------------------------------------------------- whole network *)
Definition Good (al : list (list bool)) (P E : list (list S)) : Prop :=
  length P = length al /\ length E = length al /\
  forall i, i < length al -> Inv (nth i al []) (nth i P []) (nth i E []).

Lemma node_sound n x al P E nd :
  length x = n -> Good al P E -> wf_node S eqS zeroS n al nd ->
  Inv (alive_node S al nd) (pit_node S zeroS addS x P nd) (exp_node S zeroS addS x al E nd).
Proof.
  intros Hx (HP & HE & HI) Hwf. destruct nd; simpl in *.
  - subst c n. apply step_input.
  - destruct Hwf as (Hs & Hm & Ha & HT0 & HT & Hp). apply step_full; auto.
  - destruct Hwf as (Hs & Hm & Hc & HT & Hp). apply step_dw; auto. subst m. auto.
  - destruct Hwf as (Hs & H0 & Hf). apply step_chan; auto.
  - destruct Hwf as (Hs & H0 & Hf). apply step_expand; auto.
  - destruct Hwf as (Ha & Hb & Hab). apply step_add; auto. rewrite Hab. auto.
  - apply step_cat. eapply Forall_impl; [|exact Hwf]. simpl. auto.
Qed.

Lemma Good_snoc al P E a p e : Good al P E -> Inv a p e -> Good (al ++ [a]) (P ++ [p]) (E ++ [e]).
Proof.
  intros (HP & HE & HI) Hi. unfold Good. rewrite !app_length. simpl. split; [lia|split; [lia|]].
  intros i Hlt. destruct (Nat.eq_dec i (length al)) as [->|Hne].
  - rewrite nth_middle. rewrite <- HP at 1. rewrite nth_middle. rewrite <- HE. rewrite nth_middle.
    exact Hi.
  - rewrite !app_nth1 by lia. apply HI. lia.
Qed.

Lemma run_sound n x net : length x = n -> forall al P E,
  Good al P E -> wf_acc S eqS zeroS n al net ->
  Good (alive_acc S al net) (pit_acc S zeroS addS x P net) (exp_acc S zeroS addS x al E net) /\
  length (alive_acc S al net) = length al + length net.
Proof.
  intros Hx. induction net as [|nd net IH]; simpl; intros al P E HG Hwf.
  - split; auto.
  - destruct Hwf as [Hnd Hwf].
    destruct (IH _ _ _ (Good_snoc _ _ _ _ _ _ HG (node_sound _ _ _ _ _ _ Hx HG Hnd)) Hwf) as [H1 H2].
    split; auto. rewrite H2, app_length. simpl. lia.
Qed.

Theorem export_sound : forall n net x, wf S eqS zeroS n net -> length x = n ->
  let al := alive_net S net in
  let P := eval_pit S zeroS addS net x in
  let E := eval_exp S zeroS addS net x in
  length al = length net /\ length P = length net /\ length E = length net /\
  forall i, i < length net -> Inv (nth i al []) (nth i P []) (nth i E []).
Proof.
  intros n net x Hwf Hx. cbv zeta. unfold alive_net, eval_pit, eval_exp.
  assert (G0 : Good [] [] []).
  { split; [reflexivity|split; [reflexivity|]]. simpl. intros i Hi. inversion Hi. }
  destruct (run_sound n x net Hx [] [] [] G0 Hwf) as [(HP & HE & HI) HL]. simpl in HL.
  rewrite HP, HE, HL. split; [|split; [|split]]; auto. intros i Hi. apply HI. lia.
Qed.

(* frozen output layers: all channels alive => the two networks give the same tensor *)
Corollary export_sound_output : forall n net x, wf S eqS zeroS n net -> length x = n ->
  let al := alive_net S net in
  let P := eval_pit S zeroS addS net x in
  let E := eval_exp S zeroS addS net x in
  forall i, i < length net -> Forall (fun b => b = true) (nth i al []) ->
  Forall2 eqS (nth i E []) (nth i P []).
Proof.
  intros n net x Hwf Hx al P E i Hi Hall.
  destruct (export_sound n net x Hwf Hx) as (_ & _ & _ & HI).
  destruct (HI i Hi) as (HL & _ & HF). fold al P E in HL, HF.
  rewrite select_forall_true in HF; auto.
Qed.
End Proofs.

Print Assumptions export_sound.

(* ================================================================ concrete instance: integer signals *)
Definition eqZ (f g : Z -> Z) : Prop := forall t, f t = g t.
Definition zeroZ : Z -> Z := fun _ => 0%Z.
Definition addZ (f g : Z -> Z) : Z -> Z := fun t => (f t + g t)%Z.

Lemma eqZ_equiv : Equivalence eqZ.
Proof.
  split; unfold eqZ.
  - intros f t; reflexivity.
  - intros f g H t; symmetry; auto.
  - intros f g h H1 H2 t; rewrite H1; auto.
Qed.

Lemma addZ_proper : forall a a' b b', eqZ a a' -> eqZ b b' -> eqZ (addZ a b) (addZ a' b').
Proof. unfold eqZ, addZ. intros a a' b b' H1 H2 t. rewrite H1, H2. reflexivity. Qed.

Lemma addZ_0_l : forall s, eqZ (addZ zeroZ s) s.
Proof. unfold eqZ, addZ, zeroZ. intros s t. reflexivity. Qed.

Theorem export_sound_Zsignal : forall n net x, wf (Z -> Z) eqZ zeroZ n net -> length x = n ->
  let al := alive_net (Z -> Z) net in
  let P := eval_pit (Z -> Z) zeroZ addZ net x in
  let E := eval_exp (Z -> Z) zeroZ addZ net x in
  length al = length net /\ length P = length net /\ length E = length net /\
  forall i, i < length net -> Inv (Z -> Z) eqZ zeroZ (nth i al []) (nth i P []) (nth i E []).
Proof. exact (export_sound (Z -> Z) eqZ zeroZ addZ eqZ_equiv addZ_proper addZ_0_l). Qed.

Corollary export_sound_output_Zsignal : forall n net x, wf (Z -> Z) eqZ zeroZ n net -> length x = n ->
  let al := alive_net (Z -> Z) net in
  let P := eval_pit (Z -> Z) zeroZ addZ net x in
  let E := eval_exp (Z -> Z) zeroZ addZ net x in
  forall i, i < length net -> Forall (fun b => b = true) (nth i al []) ->
  Forall2 eqZ (nth i E []) (nth i P []).
Proof. exact (export_sound_output (Z -> Z) eqZ zeroZ addZ eqZ_equiv addZ_proper addZ_0_l). Qed.

Print Assumptions export_sound_Zsignal.
Print Assumptions export_sound_output_Zsignal.
