(* C12 -- second tie, by translation, for the MIXTURE sentences (SuperNet, MPS), obtained by COMPOSITION with the
   translators of C06 (translator/sncost2coq.py -> Gen/SnCostGen.v, Proofs/SnCostGen.v) and C05 (translator/mpscost2coq.py ->
   Gen/MpsCostGen.v, Proofs/MpsCostGen.v).  Statements only (bridge and proofs: Proofs/CostGradBridgeMix.v).

   C12's mixture model (Model/CostGrad.v): mix_cost theta c = sum theta_i * c_i (SuperNetCombiner.get_cost),
   mps_layer_cost thin thw c = sum_i sum_j thin_i * thw_j * c_ij (MPS layers + torch.sum), sm_cost g alpha c = the mixture
   under the softmax coefficients g(alpha_i) / sum g(alpha_k), exp = an abstract positive strictly increasing g.
   The sentences below are about the functions GENERATED from the code as it is now:
     SuperNet: `comb_get_cost_gen` (one combiner), `dnas_get_cost_gen ... (live nt cs0 full0 ops) name` (get_cost(name) of the
               wrapper built for network nt, specification cs0, full_cost full0, after the later assignments ops);
     MPS:      `gen_get_cost dim1 t self cf out_shape` (get_cost of a Conv1d / Conv2d / Linear MPS layer object),
               `mps_get_single_cost_gen (gmps_of dim1 net lays names) (cs_of dim1 shared cf) ...` (MPS._get_single_cost).
   The two sides reuse short names (qsum, dot, upd, ...): each part imports its side inside a Section. *)
From Coq Require Import QArith ZArith List Bool.
From Coq Require String.
Import ListNotations.
Require Import Plinio.Base.Qx.
Require Plinio.Model.CostGrad Plinio.Proofs.CostGrad Plinio.Model.Sampler.
Require Plinio.Model.SuperNet Plinio.Proofs.SuperNet Plinio.Gen.SnCostGen Plinio.Proofs.SnCostGen.
Require Plinio.Model.MpsNet Plinio.Model.MpsCost Plinio.Model.MpsCostNet Plinio.Gen.MpsCostGen Plinio.Proofs.MpsCostGen.
Require Import Plinio.Proofs.CostGradBridgeMix.
Open Scope Q_scope.

(* the coefficients Model/Sampler.v's softmax produces (C10's hand model, tied to the samplers' source by sampler2coq) give
   C12's sm_cost with g(x / T) for exp *)
Theorem C12_bridge_softmax_is_sm_cost : forall (g : Q -> Q) T a c,
  CG.mix_cost (SA.softmax g T a) c == CG.sm_cost (fun x => g (x / T)) a c.
Proof. exact mix_softmax. Qed.

(* ================================================================ SuperNet *)
Section Sn.
Import Plinio.Model.SuperNet Plinio.Proofs.SuperNet Plinio.Gen.SnCostGen Plinio.Proofs.SnCostGen.

(* the generated SuperNetCombiner.get_cost IS mix_cost (theta, costs of the branches) *)
Theorem C12_generated_sn_combiner_is_mix : forall costv theta b brs c self, sn_ulm self = guniq (gleaves [NChoice b brs]) ->
  comb_get_cost_gen costv theta (comb_of b brs) c (sn_single_cost_fn_map_gen self c) ==
  CG.mix_cost (theta b) (map (branch_cost (cost_of costv c)) brs).
Proof. exact sn_combiner_is_mix. Qed.

(* get_cost(name) = one mix_cost per combiner entry + the fixed layers (full_cost as it is NOW) *)
Theorem C12_generated_sn_cost_is_mix : forall costv theta nt cs0 full0 ops name c, cs_wf cs0 -> Forall op_wf ops ->
  resolve (last_spec cs0 ops) name = Some c ->
  exists v, dnas_get_cost_gen costv theta (live nt cs0 full0 ops) name = Some v /\
    v == sn_mix_part (cost_of costv c) theta (target_list (sp_shared c) nt)
         + (if last_full full0 ops then fixed_cost (cost_of costv c) (sp_shared c) nt else 0).
Proof. exact sn_gen_cost_is_mix. Qed.

(* C12_mix_cost_affine transferred: affine in every element of every block's coefficient vector; the derivative
   (sn_slope) is the cost of that branch, once per entry of the block in the list the specification sums over *)
Theorem C12_generated_sn_cost_affine : forall costv theta nt cs0 full0 ops name c b i h, cs_wf cs0 -> Forall op_wf ops ->
  resolve (last_spec cs0 ops) name = Some c -> (i < length (theta b))%nat -> block_shaped theta b (target_list (sp_shared c) nt) ->
  exists v v', dnas_get_cost_gen costv theta (live nt cs0 full0 ops) name = Some v /\
               dnas_get_cost_gen costv (theta_bump theta b i h) (live nt cs0 full0 ops) name = Some v' /\
               v' == v + h * sn_slope (cost_of costv c) b i (target_list (sp_shared c) nt).
Proof. exact sn_gen_cost_affine. Qed.

(* C12_mix_cost_nonneg transferred *)
Theorem C12_generated_sn_cost_nonneg : forall costv theta nt cs0 full0 ops name c, cs_wf cs0 -> Forall op_wf ops ->
  resolve (last_spec cs0 ops) name = Some c ->
  (forall b, Forall (fun x => 0 <= x) (theta b)) -> (forall i s, 0 <= cost_of costv c i s) ->
  exists v, dnas_get_cost_gen costv theta (live nt cs0 full0 ops) name = Some v /\ 0 <= v.
Proof. exact sn_gen_cost_nonneg. Qed.

(* C12_sm_cost_raise transferred: with theta = softmax(alpha / T), raising alpha_j raises the generated combiner cost exactly
   when branch j costs more than the combiner does now, lowers it exactly when it costs less *)
Theorem C12_generated_sn_softmax_sign : forall (g : Q -> Q) T costv theta theta' alpha b brs c self j h,
  (forall x, 0 < g x) -> (forall x y, x < y -> g x < g y) -> 0 < T ->
  sn_ulm self = guniq (gleaves [NChoice b brs]) ->
  length alpha = length brs -> (j < length alpha)%nat -> 0 < h ->
  theta b = SA.softmax g T alpha -> theta' b = SA.softmax g T (CG.upd alpha j (nth j alpha 0 + h)) ->
  let cost_now := comb_get_cost_gen costv theta (comb_of b brs) c (sn_single_cost_fn_map_gen self c) in
  let cost_after := comb_get_cost_gen costv theta' (comb_of b brs) c (sn_single_cost_fn_map_gen self c) in
  let cost_j := nth j (map (branch_cost (cost_of costv c)) brs) 0 in
  (cost_now < cost_after <-> cost_now < cost_j) /\ (cost_after < cost_now <-> cost_j < cost_now).
Proof. exact sn_combiner_softmax_sign. Qed.
(* non-vacuity: a fixed layer, a block of three branches (two layers / one layer / identity) invoked at TWO call sites, another
   fixed layer; per-invocation specification, full_cost on; cost of module i at call site s = i + s *)
Example C12_generated_sn_example :
  let nt := [NFixed (Mod 10); NChoice 1 [[Mod 1; Mod 2]; [Mod 3]; []]; NChoice 1 [[Mod 1; Mod 2]; [Mod 3]; []]; NFixed (Mod 11)] in
  let costv := fun (_ _ _ i : Z) (s : nat) => inject_Z i + inject_Z (Z.of_nat s) in
  let c := mkSpec 0 false in
  let theta := fun _ : Z => [1#2; 1#4; 1#4] in
  let get := fun th => option_map qpair (dnas_get_cost_gen costv th (live nt (CSingle c) true []) None) in
  get theta = Some (qpair (sn_mix_part (cost_of costv c) theta (target_list false nt) + fixed_cost (cost_of costv c) false nt)) /\
  get theta = Some (51, 2)%Z /\
  sn_slope (cost_of costv c) 1 0 (target_list false nt) = 2 * 3 /\
  get (theta_bump theta 1 0 (1#2)) = Some (qpair ((51#2) + (1#2) * sn_slope (cost_of costv c) 1 0 (target_list false nt))).
Proof. vm_compute. repeat split. Qed.
End Sn.

(* ================================================================ MPS *)
Section Mps.
Import Coq.Strings.String.
Import Plinio.Model.MpsNet Plinio.Model.MpsCost Plinio.Model.MpsCostNet Plinio.Gen.MpsCostGen Plinio.Proofs.MpsCostGen.
Notation llen := List.length.

(* the hand model's table cost is C12's mps_layer_cost *)
Theorem C12_bridge_mps_models_agree : forall cf v pin tin pw tw,
  layer_cost cf v pin tin pw tw == CG.mps_layer_cost tin tw (cost_matrix cf v pin pw tw).
Proof. exact mps_layer_cost_is_mix. Qed.

(* the generated get_cost of EVERY layer object (per-layer or per-channel weight search), reduced by torch.sum *)
Theorem C12_generated_mps_layer_is_mps_layer_cost : forall dim1 t self cf out_shape, reads cf anykey ->
  tsum (gen_get_cost dim1 t self cf out_shape) ==
  CG.mps_layer_cost (iq_theta_alpha (gl_in self)) (tw_of_w (gl_w self))
    (cost_matrix cf (base_spec (ltype_base t) self out_shape) (iq_precision (gl_in self)) (wq_precision (gl_w self)) (tw_of_w (gl_w self))).
Proof. exact mps_gen_layer_is_mps_layer_cost. Qed.

(* per-layer weight search + a cost function that does not read the coefficient (theta_blind; params_bit, ops_bit): the
   branch-cost table pl_table does not depend on any coefficient *)
Theorem C12_generated_mps_layer_per_layer : forall dim1 t vars ein pin tin pw tw cf out_shape, reads cf anykey -> theta_blind cf -> llen tw = llen pw ->
  tsum (gen_get_cost dim1 t (pl_obj vars ein pin tin pw tw) cf out_shape) ==
  CG.mps_layer_cost tin tw (pl_table t cf vars ein out_shape pin pw).
Proof. exact mps_gen_layer_per_layer. Qed.
Theorem C12_generated_mps_bit_costs_blind : forall t, theta_blind (params_bit t) /\ theta_blind (ops_bit t).
Proof. intro t. split; [apply params_bit_blind|apply ops_bit_blind]. Qed.

(* C12_mps_layer_cost_affine_w transferred: affine in the weight-precision coefficients, derivative = sum_i thin_i * c_ij *)
Theorem C12_generated_mps_layer_affine_w : forall dim1 t vars ein pin tin pw tw cf out_shape j h, reads cf anykey -> theta_blind cf ->
  llen tw = llen pw -> llen tin = llen pin -> (j < llen tw)%nat ->
  tsum (gen_get_cost dim1 t (pl_obj vars ein pin tin pw (CG.upd tw j (nth j tw 0 + h))) cf out_shape) ==
  tsum (gen_get_cost dim1 t (pl_obj vars ein pin tin pw tw) cf out_shape) +
  h * CG.mix_cost tin (map (fun row => nth j row 0) (pl_table t cf vars ein out_shape pin pw)).
Proof. exact mps_gen_layer_affine_w. Qed.

(* ... and in the input-precision coefficients, derivative = sum_j thw_j * c_ij  (C12_mix_cost_affine) *)
Theorem C12_generated_mps_layer_affine_in : forall dim1 t vars ein pin tin pw tw cf out_shape i h, reads cf anykey -> theta_blind cf ->
  llen tw = llen pw -> llen tin = llen pin -> (i < llen tin)%nat ->
  tsum (gen_get_cost dim1 t (pl_obj vars ein pin (CG.upd tin i (nth i tin 0 + h)) pw tw) cf out_shape) ==
  tsum (gen_get_cost dim1 t (pl_obj vars ein pin tin pw tw) cf out_shape) +
  h * nth i (map (fun row => CG.mix_cost tw row) (pl_table t cf vars ein out_shape pin pw)) 0.
Proof. exact mps_gen_layer_affine_in. Qed.

(* C12_mps_layer_cost_nonneg transferred *)
Theorem C12_generated_mps_layer_nonneg : forall dim1 t vars ein pin tin pw tw cf out_shape, reads cf anykey -> theta_blind cf -> llen tw = llen pw ->
  Forall (fun x => 0 <= x) tin -> Forall (fun x => 0 <= x) tw ->
  Forall (fun row => Forall (fun x => 0 <= x) row) (pl_table t cf vars ein out_shape pin pw) ->
  0 <= tsum (gen_get_cost dim1 t (pl_obj vars ein pin tin pw tw) cf out_shape).
Proof. exact mps_gen_layer_nonneg. Qed.

(* C12_sm_cost_raise transferred, input-precision selector: with thin = softmax(alpha / T), raising alpha_i raises the generated
   layer cost exactly when input precision i (mixed over the weight precisions) costs more than the layer does now *)
Theorem C12_generated_mps_softmax_in_sign : forall (g : Q -> Q) T dim1 t vars ein pin alpha pw tw cf out_shape i h,
  (forall x, 0 < g x) -> (forall x y, x < y -> g x < g y) -> 0 < T ->
  reads cf anykey -> theta_blind cf -> llen tw = llen pw -> llen alpha = llen pin -> (i < llen alpha)%nat -> 0 < h ->
  let cost_of_alpha := fun a => tsum (gen_get_cost dim1 t (pl_obj vars ein pin (SA.softmax g T a) pw tw) cf out_shape) in
  let cost_i := nth i (map (fun row => CG.mix_cost tw row) (pl_table t cf vars ein out_shape pin pw)) 0 in
  (cost_of_alpha alpha < cost_of_alpha (CG.upd alpha i (nth i alpha 0 + h)) <-> cost_of_alpha alpha < cost_i) /\
  (cost_of_alpha (CG.upd alpha i (nth i alpha 0 + h)) < cost_of_alpha alpha <-> cost_i < cost_of_alpha alpha).
Proof. exact mps_gen_layer_softmax_in_sign. Qed.

(* network level: the generated MPS._get_single_cost is the sum over the layers of mps_layer_cost of (input coefficients, weight
   coefficients or row means, the layer's table at its effective sizes); a re-invoked module counts once for a shared spec *)
Theorem C12_generated_mps_net_cost_is_mix : forall dim1 net lays names shared cf,
  names_okb net lays names = true -> no_unit_conv net -> (forall t, reads (cf t) costkey) ->
  mps_get_single_cost_gen (gmps_of dim1 net lays names) (cs_of dim1 shared cf)
                          (mps_single_cost_fn_map_gen (gmps_of dim1 net lays names) (cs_of dim1 shared cf))
  == MK.qsum (map (fun i => if shared && l_reuse (lay_at lays i) then 0 else mps_node_mix cf net lays i) (seq 0 (llen net))).
Proof. exact mps_gen_net_cost_is_mix. Qed.
Theorem C12_generated_mps_net_cost_nonneg : forall dim1 net lays names shared cf,
  names_okb net lays names = true -> no_unit_conv net -> (forall t, reads (cf t) costkey) ->
  (forall i, Forall (fun x => 0 <= x) (l_tin (lay_at lays i)) /\ Forall (fun x => 0 <= x) (tw_of (lay_at lays i) (mps_chan net i)) /\
             Forall (fun row => Forall (fun x => 0 <= x) row) (mps_node_table cf net lays i)) ->
  0 <= mps_get_single_cost_gen (gmps_of dim1 net lays names) (cs_of dim1 shared cf)
                               (mps_single_cost_fn_map_gen (gmps_of dim1 net lays names) (cs_of dim1 shared cf)).
Proof. exact mps_gen_net_cost_nonneg. Qed.

(* non-vacuity: a Conv2d layer object 4 -> 6, 3x3, output 5x5, input precisions (2, 8) with coefficients (1/4, 3/4), weight
   precisions (2, 4, 8) with coefficients (1/2, 1/4, 1/4), ops_bit: generated cost = mps_layer_cost on the constant table; the
   derivative w.r.t. the coefficient of the 8-bit weights is the cost of that column *)
Example C12_generated_mps_example :
  let vars := [("in_channels"%string, 4); ("out_channels"%string, 6); ("kh"%string, 3); ("kw"%string, 3)] in
  let o := fun tw => pl_obj vars 4 [2; 8] [1#4; 3#4] [2; 4; 8] tw in
  let tab := pl_table LConv (ops_bit LConv) vars 4 (shape_of 5 5) [2; 8] [2; 4; 8] in
  qpair (tsum (gen_get_cost false LConv (o [1#2; 1#4; 1#4]) (ops_bit LConv) (shape_of 5 5))) = qpair (CG.mps_layer_cost [1#4; 3#4] [1#2; 1#4; 1#4] tab) /\
  qlt_bool 0 (tsum (gen_get_cost false LConv (o [1#2; 1#4; 1#4]) (ops_bit LConv) (shape_of 5 5))) = true /\
  qpair (tsum (gen_get_cost false LConv (o [1#2; 1#4; (1#4) + 1]) (ops_bit LConv) (shape_of 5 5))) =
  qpair (tsum (gen_get_cost false LConv (o [1#2; 1#4; 1#4]) (ops_bit LConv) (shape_of 5 5)) + 1 * CG.mix_cost [1#4; 3#4] (map (fun row => nth 2 row 0) tab)).
Proof. vm_compute. repeat split. Qed.
End Mps.

Print Assumptions C12_bridge_softmax_is_sm_cost.
Print Assumptions C12_generated_sn_combiner_is_mix.
Print Assumptions C12_generated_sn_cost_is_mix.
Print Assumptions C12_generated_sn_cost_affine.
Print Assumptions C12_generated_sn_cost_nonneg.
Print Assumptions C12_generated_sn_softmax_sign.
Print Assumptions C12_generated_sn_example.
Print Assumptions C12_bridge_mps_models_agree.
Print Assumptions C12_generated_mps_layer_is_mps_layer_cost.
Print Assumptions C12_generated_mps_layer_per_layer.
Print Assumptions C12_generated_mps_bit_costs_blind.
Print Assumptions C12_generated_mps_layer_affine_w.
Print Assumptions C12_generated_mps_layer_affine_in.
Print Assumptions C12_generated_mps_layer_nonneg.
Print Assumptions C12_generated_mps_softmax_in_sign.
Print Assumptions C12_generated_mps_net_cost_is_mix.
Print Assumptions C12_generated_mps_net_cost_nonneg.
Print Assumptions C12_generated_mps_example.
