(* Proofs about Model/Conv.v: slicing lemmas, masked tap sums, layer-level export equalities (C01). *)
From Coq Require Import QArith ZArith List Bool Arith Lia.
Import ListNotations.
Require Import Plinio.Model.Masks Plinio.Model.Conv Plinio.Proofs.Masks.
Local Open Scope nat_scope.

(* ---------------------------------------------------------------- kept / select *)
Lemma filter_map_comm {A B} (f : A -> B) (p : B -> bool) l : filter p (map f l) = map f (filter (fun x => p (f x)) l).
Proof. induction l as [|x l IH]; [reflexivity|]. cbn. destruct (p (f x)); cbn; rewrite IH; reflexivity. Qed.

Lemma kept_cons b m : kept (b :: m) = (if b then [0] else []) ++ map S (kept m).
Proof.
  unfold kept. cbn [length seq filter nth]. rewrite <- seq_shift, filter_map_comm. cbn [nth].
  destruct b; reflexivity.
Qed.

Lemma kept_length m : length (kept m) = count_true m.
Proof.
  unfold count_true. induction m as [|b m IH]; [reflexivity|]. rewrite kept_cons, app_length, map_length, IH.
  destruct b; reflexivity.
Qed.

Lemma kept_spec m j : In j (kept m) <-> j < length m /\ nth j m false = true.
Proof. unfold kept. rewrite filter_In, in_seq. intuition lia. Qed.

Lemma kept_nth_alive m i : i < length (kept m) -> nth (nth i (kept m) 0) m false = true /\ nth i (kept m) 0 < length m.
Proof. intro H. pose proof (nth_In (kept m) 0 H) as Hin. apply kept_spec in Hin. tauto. Qed.

Lemma select_as_kept {A} (m : list bool) (l : list A) d : length l = length m -> select m l = map (fun j => nth j l d) (kept m).
Proof.
  revert l. induction m as [|b m IH]; intros [|x l] H; try discriminate; [reflexivity|].
  cbn [select]. rewrite kept_cons, map_app, map_map. cbn [nth]. rewrite <- (IH l) by (cbn in H; lia).
  destruct b; reflexivity.
Qed.

Lemma select_length {A} (m : list bool) (l : list A) : length l = length m -> length (select m l) = count_true m.
Proof.
  intro H. destruct l as [|x l]; [destruct m; [reflexivity|discriminate]|].
  rewrite (select_as_kept m (x :: l) x) by exact H. rewrite map_length. apply kept_length.
Qed.

Lemma select_nth {A} (m : list bool) (l : list A) d i : length l = length m -> i < count_true m ->
  nth i (select m l) d = nth (nth i (kept m) 0) l d.
Proof.
  intros H Hi. rewrite (select_as_kept m l d H). rewrite <- kept_length in Hi.
  rewrite (nth_indep _ d (nth 0 l d)) by (rewrite map_length; exact Hi).
  rewrite (map_nth (fun j => nth j l d) (kept m) 0 i). reflexivity.
Qed.

Lemma select_map {A B} (f : A -> B) m l : select m (map f l) = map f (select m l).
Proof. revert l. induction m as [|b m IH]; intros [|x l]; try reflexivity. cbn. destruct b; cbn; rewrite IH; reflexivity. Qed.

Lemma select_all_true {A} (l : list A) : select (all_true (length l)) l = l.
Proof. induction l as [|x l IH]; [reflexivity|]. cbn. f_equal. exact IH. Qed.

Lemma nth_map_in {A B} (f : A -> B) l i dA dB : i < length l -> nth i (map f l) dB = f (nth i l dA).
Proof. intro H. rewrite (nth_indep _ dB (f dA)) by (rewrite map_length; exact H). apply map_nth. Qed.

Lemma nth_map_seq0 {A} (f : nat -> A) n j d : j < n -> nth j (map f (seq 0 n)) d = f j.
Proof. intro H. rewrite (nth_map_in f (seq 0 n) j 0 d) by (rewrite seq_length; exact H). rewrite seq_nth by exact H. reflexivity. Qed.

Lemma map_seq_ext {A} (f g : nat -> A) n : (forall i, i < n -> f i = g i) -> map f (seq 0 n) = map g (seq 0 n).
Proof. intro H. apply map_ext_in. intros i Hi. apply in_seq in Hi. apply H. lia. Qed.

(* re-indexing a map over a list of indices by positions *)
Lemma map_by_position {A} (g : nat -> A) (L : list nat) : map g L = map (fun i => g (nth i L 0)) (seq 0 (length L)).
Proof.
  apply (nth_ext _ _ (g 0) (g 0)); [rewrite !map_length, seq_length; reflexivity|].
  intros i Hi. rewrite map_length in Hi. rewrite (nth_map_in g L i 0) by exact Hi. rewrite nth_map_seq0 by exact Hi. reflexivity.
Qed.

Section RingProofs.
Variable R : Type.
Variables (r0 r1 : R) (radd rmul : R -> R -> R).
Hypothesis radd_0_l : forall x, radd r0 x = x.
Hypothesis rmul_0_l : forall x, rmul r0 x = r0.
Hypothesis rmul_0_r : forall x, rmul x r0 = r0.
Hypothesis rmul_1_l : forall x, rmul r1 x = x.
Hypothesis rmul_1_r : forall x, rmul x r1 = x.

Notation rsum := (rsum r0 radd).
Notation bit := (bit r0 r1).

Lemma rsum_filter {A} (f : A -> R) (p : A -> bool) l :
  (forall j, In j l -> p j = false -> f j = r0) -> rsum (map f l) = rsum (map f (filter p l)).
Proof.
  induction l as [|x l IH]; intro H; [reflexivity|]. cbn [map filter]. destruct (p x) eqn:E.
  - cbn [map Conv.rsum fold_right]. f_equal. apply IH. intros j Hj. apply H. right. exact Hj.
  - cbn [Conv.rsum fold_right]. rewrite (H x (or_introl eq_refl) E), radd_0_l. apply IH. intros j Hj. apply H. right. exact Hj.
Qed.

Lemma rsum_zero {A} (f : A -> R) l : (forall j, In j l -> f j = r0) -> rsum (map f l) = r0.
Proof.
  induction l as [|x l IH]; intro H; [reflexivity|]. cbn [map Conv.rsum fold_right].
  rewrite (H x (or_introl eq_refl)), radd_0_l. apply IH. intros j Hj. apply H. right. exact Hj.
Qed.

(* sum over all indices of terms that vanish off the mask = sum over the kept indices *)
Lemma rsum_kept (f : nat -> R) m n : length m = n ->
  (forall j, j < n -> nth j m false = false -> f j = r0) -> rsum (map f (seq 0 n)) = rsum (map f (kept m)).
Proof.
  intros <- H. unfold kept. apply rsum_filter. intros j Hj E. apply in_seq in Hj. apply H; [lia|exact E].
Qed.

(* T1: the masked tap sum is the sum over the kept taps *)
Theorem masked_sum_filter (m : list bool) (w X : nat -> R) K : length m = K ->
  rsum (map (fun j => rmul (rmul (bit (nth j m false)) (w j)) (X j)) (seq 0 K)) = rsum (map (fun j => rmul (w j) (X j)) (kept m)).
Proof.
  intro HK. rewrite (rsum_kept _ m K HK).
  - f_equal. apply map_ext_in. intros j Hj. apply kept_spec in Hj. destruct Hj as [_ E]. rewrite E. cbn. rewrite rmul_1_l. reflexivity.
  - intros j _ E. rewrite E. cbn. rewrite !rmul_0_l. reflexivity.
Qed.

Lemma nth_masked_time tm (wk : list R) j : length tm = length wk ->
  nth j (map (fun p => rmul (bit (fst p)) (snd p)) (combine tm wk)) r0 = rmul (bit (nth j tm false)) (nth j wk r0).
Proof.
  intro H. destruct (Nat.lt_ge_cases j (length wk)) as [Hj|Hj].
  - rewrite (nth_map_in _ (combine tm wk) j (false, r0) r0) by (rewrite combine_length; lia).
    rewrite combine_nth by exact H. reflexivity.
  - rewrite nth_overflow by (rewrite map_length, combine_length; lia).
    rewrite (nth_overflow wk) by exact Hj. rewrite rmul_0_r. reflexivity.
Qed.

(* T2: time axis.  A causally padded kernel of K taps (dilation d) whose taps are masked by tm computes the
   same thing as the kernel made of the kept taps with K' taps, dilation sp*d and padding (K'-1)*sp*d, as soon as the
   kept taps form the progression that Masks.kept_taps_progression_64 establishes. *)
Theorem taps_export_eq (tm : list bool) (wk : list R) (K K' sp d : nat) (x : Z -> R) (u : Z) :
  length tm = K -> length wk = K -> kept_lags K tm = export_lags K' sp ->
  taps r0 radd rmul (map (fun p => rmul (bit (fst p)) (snd p)) (combine tm wk)) K (Z.of_nat d) (padl ((K - 1) * d) x) u
  = taps r0 radd rmul (select tm wk) K' (Z.of_nat (sp * d)) (padl ((K' - 1) * (sp * d)) x) u.
Proof.
  intros Htm Hwk Hl. subst K. unfold taps.
  assert (Hl' : map (fun j => length tm - 1 - j) (kept tm) = map (fun i => (K' - 1 - i) * sp) (seq 0 K')) by exact Hl.
  assert (Hk : length (kept tm) = count_true tm) by apply kept_length.
  assert (HK' : length (kept tm) = K').
  { apply (f_equal (@length nat)) in Hl'. rewrite !map_length, seq_length in Hl'. exact Hl'. }
  transitivity (rsum (map (fun j => rmul (nth j wk r0) (x (u - Z.of_nat ((length tm - 1 - j) * d))%Z)) (kept tm))).
  - rewrite <- (masked_sum_filter tm (fun j => nth j wk r0) (fun j => x (u - Z.of_nat ((length tm - 1 - j) * d))%Z) (length tm) eq_refl).
    apply f_equal. apply map_ext_in. intros j Hj. apply in_seq in Hj. rewrite nth_masked_time by lia.
    unfold padl. f_equal. f_equal.
    assert (E : (length tm - 1) * d = (length tm - 1 - j) * d + j * d) by (rewrite <- Nat.mul_add_distr_r; f_equal; lia).
    rewrite E, Nat2Z.inj_add, (Nat2Z.inj_mul j d). lia.
  - rewrite (map_by_position _ (kept tm)), HK'. apply f_equal. apply map_seq_ext. intros i Hi.
    rewrite (select_nth tm wk r0 i) by lia.
    f_equal. unfold padl. f_equal.
    assert (E : length tm - 1 - nth i (kept tm) 0 = (K' - 1 - i) * sp).
    { apply (f_equal (fun l => nth i l 0)) in Hl'. rewrite nth_map_seq0 in Hl' by exact Hi.
      rewrite (nth_map_in _ (kept tm) i 0 0) in Hl' by lia. exact Hl'. }
    assert (E2 : (K' - 1) * (sp * d) = (K' - 1 - i) * sp * d + i * (sp * d)).
    { rewrite <- Nat.mul_assoc, <- Nat.mul_add_distr_r. f_equal. lia. }
    rewrite E, E2, Nat2Z.inj_add, (Nat2Z.inj_mul i (sp * d)). lia.
Qed.

(* T3: channel axis.  Summing over all input channels, dead ones contributing nothing, = summing over the kept
   ones with the sliced weights *)
Lemma chan_slice {A B} (f : A -> B) (termP : A -> nat -> R) (termE : B -> nat -> R) (wc : list A) (min : list bool) cin dA dB :
  length wc = cin -> length min = cin ->
  (forall ci, ci < cin -> nth ci min false = false -> termP (nth ci wc dA) ci = r0) ->
  (forall ci, ci < cin -> nth ci min false = true -> termP (nth ci wc dA) ci = termE (f (nth ci wc dA)) ci) ->
  rsum (map (fun ci => termP (nth ci wc dA) ci) (seq 0 cin))
  = rsum (map (fun i => termE (nth i (map f (select min wc)) dB) (nth i (kept min) 0)) (seq 0 (count_true min))).
Proof.
  intros Hw Hm Hdead Halive. rewrite (rsum_kept _ min cin Hm Hdead).
  rewrite (map_by_position _ (kept min)), kept_length. apply f_equal. apply map_seq_ext. intros i Hi.
  assert (Hi' : i < length (kept min)) by (rewrite kept_length; exact Hi).
  destruct (kept_nth_alive min i Hi') as [Ea Hlt].
  rewrite Halive by (lia || exact Ea).
  rewrite (nth_map_in f (select min wc) i dA dB) by (rewrite select_length; lia).
  rewrite (select_nth min wc dA i) by lia. reflexivity.
Qed.

Lemma bn_slice_commutes (bn : option (list R * list R)) (mout : list bool) co' y :
  (forall a sh, bn = Some (a, sh) -> length a = length mout /\ length sh = length mout) -> co' < count_true mout ->
  bn_at r0 radd rmul (slice_bn mout bn) co' y = bn_at r0 radd rmul bn (nth co' (kept mout) 0) y.
Proof.
  intros H Hc. destruct bn as [[a sh]|]; [|reflexivity]. destruct (H a sh eq_refl) as [Ha Hs]. cbn.
  rewrite !select_nth by assumption. reflexivity.
Qed.

Lemma addbias_slice (b : option (list R)) (mout : list bool) co' acc :
  (forall bl, b = Some bl -> length bl = length mout) -> co' < count_true mout ->
  addbias r0 radd (export_bias mout b) co' acc = addbias r0 radd b (nth co' (kept mout) 0) acc.
Proof. intros H Hc. destruct b as [bl|]; [|reflexivity]. cbn. rewrite select_nth by (auto). reflexivity. Qed.

(* shape predicates *)
Definition shape3 (w : w3 R) (cout cin K : nat) : Prop :=
  length w = cout /\ (forall co, co < cout -> length (nth co w []) = cin) /\ (forall co ci, co < cout -> ci < cin -> length (w3at w co ci) = K).
Definition bias_ok (b : option (list R)) (cout : nat) : Prop := forall bl, b = Some bl -> length bl = cout.
Definition bn_ok (bn : option (list R * list R)) (cout : nat) : Prop := forall a sh, bn = Some (a, sh) -> length a = cout /\ length sh = cout.

Lemma w3at_time tm (w : w3 R) co ci cout cin : length w = cout -> co < cout -> length (nth co w []) = cin -> ci < cin ->
  w3at (mask_w3_time r0 r1 rmul tm w) co ci = map (fun p => rmul (bit (fst p)) (snd p)) (combine tm (w3at w co ci)).
Proof.
  intros Hw Hco Hc Hci. unfold w3at, mask_w3_time.
  rewrite (nth_map_in _ w co [] []) by lia. rewrite (nth_map_in _ (nth co w []) ci [] []) by lia. reflexivity.
Qed.

Lemma w3at_export_full tm mout min (w : w3 R) co' i cout cin : length w = cout -> length mout = cout -> length min = cin ->
  (forall co, co < cout -> length (nth co w []) = cin) -> co' < count_true mout -> i < count_true min ->
  w3at (export_w3 false mout min tm w) co' i = nth i (map (select tm) (select min (nth (nth co' (kept mout) 0) w []))) [].
Proof.
  intros Hw Hmo Hmi Hc Hco Hi. unfold w3at, export_w3.
  rewrite (nth_map_in _ (select mout w) co' [] []) by (rewrite select_length; lia).
  rewrite (select_nth mout w [] co') by lia. reflexivity.
Qed.

(* ---- conv1d, full convolution, core (no BN, no gate): masked taps + causal pad + dead inputs vs the exported layer *)
Lemma conv1d_core_full (w : w3 R) b cout cin K K' sp d s mout min tm (x : nat -> Z -> R) co' t :
  shape3 w cout cin K -> bias_ok b cout -> length mout = cout -> length min = cin -> length tm = K ->
  kept_lags K tm = export_lags K' sp ->
  (forall ci, ci < cin -> nth ci min false = false -> forall u, x ci u = r0) ->
  co' < count_true mout ->
  conv1d_at r0 radd rmul false (mask_w3_time r0 r1 rmul tm w) b cin K (Z.of_nat d) s (fun ci => padl ((K - 1) * d) (x ci)) (nth co' (kept mout) 0) t
  = conv1d_at r0 radd rmul false (export_w3 false mout min tm w) (export_bias mout b) (count_true min) K' (Z.of_nat (sp * d)) s
      (fun i => padl ((K' - 1) * (sp * d)) (x (nth i (kept min) 0))) co' t.
Proof.
  intros (Hw & Hc & Hk) Hb Hmo Hmi Htm Hl Hdead Hco.
  assert (Hco' : co' < length (kept mout)) by (rewrite kept_length; exact Hco).
  destruct (kept_nth_alive mout co' Hco') as [_ Hlt]. set (co := nth co' (kept mout) 0) in *. rewrite Hmo in Hlt.
  unfold conv1d_at. rewrite (addbias_slice b mout co') by (try exact Hco; intros bl E; rewrite (Hb bl E); lia). fold co. f_equal.
  transitivity (rsum (map (fun ci => taps r0 radd rmul (map (fun p => rmul (bit (fst p)) (snd p)) (combine tm (nth ci (nth co w []) []))) K (Z.of_nat d) (padl ((K - 1) * d) (x ci)) (s * t)%Z) (seq 0 cin))).
  { apply f_equal. apply map_seq_ext. intros ci Hci. rewrite (w3at_time tm w co ci cout cin) by (auto). reflexivity. }
  rewrite (chan_slice (select tm)
             (fun wk ci => taps r0 radd rmul (map (fun p => rmul (bit (fst p)) (snd p)) (combine tm wk)) K (Z.of_nat d) (padl ((K - 1) * d) (x ci)) (s * t)%Z)
             (fun wk' ci => taps r0 radd rmul wk' K' (Z.of_nat (sp * d)) (padl ((K' - 1) * (sp * d)) (x ci)) (s * t)%Z)
             (nth co w []) min cin [] []); auto.
  - apply f_equal. apply map_seq_ext. intros i Hi. rewrite (w3at_export_full tm mout min w co' i cout cin) by auto. reflexivity.
  - intros ci Hci E. unfold taps. apply rsum_zero. intros j _. unfold padl. rewrite (Hdead ci Hci E). apply rmul_0_r.
  - intros ci Hci E. apply taps_export_eq; auto. specialize (Hk co ci Hlt Hci). exact Hk.
Qed.

(* ---- depthwise core: the layer shares its feature mask with its producer (min = mout) *)
Lemma w3at_export_dw tm mout min (w : w3 R) co' cout : length w = cout -> length mout = cout ->
  (forall co, co < cout -> length (nth co w []) = 1) -> co' < count_true mout ->
  w3at (export_w3 true mout min tm w) co' 0 = select tm (w3at w (nth co' (kept mout) 0) 0).
Proof.
  intros Hw Hmo Hc Hco. unfold w3at, export_w3.
  rewrite (nth_map_in _ (select mout w) co' [] []) by (rewrite select_length; lia).
  rewrite (select_nth mout w [] co') by lia.
  assert (Hco' : co' < length (kept mout)) by (rewrite kept_length; exact Hco).
  destruct (kept_nth_alive mout co' Hco') as [_ Hlt]. rewrite Hmo in Hlt.
  rewrite (nth_map_in _ _ 0 [] []) by (rewrite Hc; lia). reflexivity.
Qed.

Lemma conv1d_core_dw (w : w3 R) b c K K' sp d s mout min tm (x : nat -> Z -> R) co' t :
  shape3 w c 1 K -> bias_ok b c -> length mout = c -> length tm = K ->
  kept_lags K tm = export_lags K' sp -> co' < count_true mout ->
  conv1d_at r0 radd rmul true (mask_w3_time r0 r1 rmul tm w) b c K (Z.of_nat d) s (fun ci => padl ((K - 1) * d) (x ci)) (nth co' (kept mout) 0) t
  = conv1d_at r0 radd rmul true (export_w3 true mout min tm w) (export_bias mout b) (count_true min) K' (Z.of_nat (sp * d)) s
      (fun i => padl ((K' - 1) * (sp * d)) (x (nth i (kept mout) 0))) co' t.
Proof.
  intros (Hw & Hc & Hk) Hb Hmo Htm Hl Hco.
  assert (Hco' : co' < length (kept mout)) by (rewrite kept_length; exact Hco).
  destruct (kept_nth_alive mout co' Hco') as [_ Hlt]. set (co := nth co' (kept mout) 0) in *. rewrite Hmo in Hlt.
  unfold conv1d_at. rewrite (addbias_slice b mout co') by (try exact Hco; intros bl E; rewrite (Hb bl E); lia). fold co. f_equal.
  rewrite (w3at_time tm w co 0 c 1) by (auto). rewrite (w3at_export_dw tm mout min w co' c) by auto. fold co.
  apply taps_export_eq; auto.
Qed.

(* ---- dead output channels *)
Lemma gate_dead y mout co : nth co mout false = false -> rmul y (bit (nth co mout false)) = r0.
Proof. intros ->. apply rmul_0_r. Qed.
Lemma gate_alive y mout co : nth co mout false = true -> rmul y (bit (nth co mout false)) = y.
Proof. intros ->. apply rmul_1_r. Qed.

Theorem dead_out_zero_conv1d maskbias dw w b bn cin K d s mout tm x co t : nth co mout false = false ->
  pit_conv1d_at r0 r1 radd rmul maskbias false dw w b bn cin K d s mout tm x co t = r0.
Proof. intro H. unfold pit_conv1d_at. apply gate_dead. exact H. Qed.
Theorem dead_out_zero_conv2d maskbias dw w b bn cin kh kw d s ph pw mout x co h v : nth co mout false = false ->
  pit_conv2d_at r0 r1 radd rmul maskbias false dw w b bn cin kh kw d s ph pw mout x co h v = r0.
Proof. intro H. unfold pit_conv2d_at. apply gate_dead. exact H. Qed.
Theorem dead_out_zero_linear maskbias w b bn cin mout x co : nth co mout false = false ->
  pit_linear_at r0 r1 radd rmul maskbias false w b bn cin mout x co = r0.
Proof. intro H. unfold pit_linear_at. apply gate_dead. exact H. Qed.

(* ---- conv1d, fold_bn = false : the statement of the property at layer level *)
Theorem conv1d_export_eq_full maskbias (w : w3 R) b bn cout cin K K' sp d s mout min tm (x : nat -> Z -> R) co' t :
  shape3 w cout cin K -> bias_ok b cout -> bn_ok bn cout -> length mout = cout -> length min = cin -> length tm = K ->
  kept_lags K tm = export_lags K' sp ->
  (forall ci, ci < cin -> nth ci min false = false -> forall u, x ci u = r0) ->
  co' < count_true mout ->
  pit_conv1d_at r0 r1 radd rmul maskbias false false w b bn cin K (Z.of_nat d) s mout tm (fun ci => padl ((K - 1) * d) (x ci)) (nth co' (kept mout) 0) t
  = bn_at r0 radd rmul (slice_bn mout bn) co'
      (conv1d_at r0 radd rmul false (export_w3 false mout min tm w) (export_bias mout b) (count_true min) K' (Z.of_nat (sp * d)) s
         (fun i => padl ((K' - 1) * (sp * d)) (x (nth i (kept min) 0))) co' t).
Proof.
  intros Hs Hb Hbn Hmo Hmi Htm Hl Hdead Hco. unfold pit_conv1d_at.
  assert (Hco' : co' < length (kept mout)) by (rewrite kept_length; exact Hco).
  destruct (kept_nth_alive mout co' Hco') as [Ea _]. rewrite gate_alive by exact Ea.
  rewrite bn_slice_commutes by (try exact Hco; intros a sh E; destruct (Hbn a sh E); lia).
  f_equal. eapply conv1d_core_full; eauto.
Qed.

Theorem conv1d_export_eq_dw maskbias (w : w3 R) b bn c K K' sp d s mout min tm (x : nat -> Z -> R) co' t :
  shape3 w c 1 K -> bias_ok b c -> bn_ok bn c -> length mout = c -> length tm = K ->
  kept_lags K tm = export_lags K' sp -> co' < count_true mout ->
  pit_conv1d_at r0 r1 radd rmul maskbias false true w b bn c K (Z.of_nat d) s mout tm (fun ci => padl ((K - 1) * d) (x ci)) (nth co' (kept mout) 0) t
  = bn_at r0 radd rmul (slice_bn mout bn) co'
      (conv1d_at r0 radd rmul true (export_w3 true mout min tm w) (export_bias mout b) (count_true min) K' (Z.of_nat (sp * d)) s
         (fun i => padl ((K' - 1) * (sp * d)) (x (nth i (kept mout) 0))) co' t).
Proof.
  intros Hs Hb Hbn Hmo Htm Hl Hco. unfold pit_conv1d_at.
  assert (Hco' : co' < length (kept mout)) by (rewrite kept_length; exact Hco).
  destruct (kept_nth_alive mout co' Hco') as [Ea _]. rewrite gate_alive by exact Ea.
  rewrite bn_slice_commutes by (try exact Hco; intros a sh E; destruct (Hbn a sh E); lia).
  f_equal. eapply conv1d_core_dw; eauto.
Qed.


(* ---- conv2d / linear: only the channel axes are sliced *)
Definition shape4 (w : w4 R) (cout cin : nat) : Prop := length w = cout /\ (forall co, co < cout -> length (nth co w []) = cin).

Lemma w4at_export_full mout min (w : w4 R) co' i cout cin : shape4 w cout cin -> length mout = cout -> length min = cin ->
  co' < count_true mout -> i < count_true min ->
  w4at (export_w4 false mout min w) co' i = nth i (map (fun a => a) (select min (nth (nth co' (kept mout) 0) w []))) [].
Proof.
  intros (Hw & Hc) Hmo Hmi Hco Hi. unfold w4at, export_w4.
  rewrite (nth_map_in _ (select mout w) co' [] []) by (rewrite select_length; lia).
  rewrite (select_nth mout w [] co') by lia. rewrite map_id. reflexivity.
Qed.

Lemma taps2_zero wk kh kw d (x : Z -> Z -> R) u v : (forall a b, x a b = r0) -> taps2 r0 radd rmul wk kh kw d x u v = r0.
Proof. intro H. unfold taps2. apply rsum_zero. intros a _. apply rsum_zero. intros b _. rewrite H. apply rmul_0_r. Qed.

Theorem conv2d_export_eq_full maskbias (w : w4 R) b bn cout cin kh kw d s ph pw mout min (x : nat -> Z -> Z -> R) co' h v :
  shape4 w cout cin -> bias_ok b cout -> bn_ok bn cout -> length mout = cout -> length min = cin ->
  (forall ci, ci < cin -> nth ci min false = false -> forall a c, x ci a c = r0) ->
  co' < count_true mout ->
  pit_conv2d_at r0 r1 radd rmul maskbias false false w b bn cin kh kw d s ph pw mout x (nth co' (kept mout) 0) h v
  = bn_at r0 radd rmul (slice_bn mout bn) co'
      (conv2d_at r0 radd rmul false (export_w4 false mout min w) (export_bias mout b) (count_true min) kh kw d s ph pw
         (fun i => x (nth i (kept min) 0)) co' h v).
Proof.
  intros Hs Hb Hbn Hmo Hmi Hdead Hco. unfold pit_conv2d_at.
  assert (Hco' : co' < length (kept mout)) by (rewrite kept_length; exact Hco).
  destruct (kept_nth_alive mout co' Hco') as [Ea Hlt]. rewrite gate_alive by exact Ea.
  rewrite bn_slice_commutes by (try exact Hco; intros a sh E; destruct (Hbn a sh E); lia).
  f_equal. unfold conv2d_at.
  rewrite (addbias_slice b mout co') by (try exact Hco; intros bl E; rewrite (Hb bl E); lia). f_equal.
  set (co := nth co' (kept mout) 0) in *. destruct Hs as (Hw & Hc). rewrite Hmo in Hlt.
  unfold w4at at 1.
  rewrite (chan_slice (fun a => a)
             (fun wk ci => taps2 r0 radd rmul wk kh kw d (x ci) (s * h - ph)%Z (s * v - pw)%Z)
             (fun wk ci => taps2 r0 radd rmul wk kh kw d (x ci) (s * h - ph)%Z (s * v - pw)%Z)
             (nth co w []) min cin [] []); auto.
  - apply f_equal. apply map_seq_ext. intros i Hi. rewrite (w4at_export_full mout min w co' i cout cin) by (auto; split; auto). reflexivity.
  - intros ci Hci E. apply taps2_zero. intros a c. apply (Hdead ci Hci E).
Qed.

Theorem conv2d_export_eq_dw maskbias (w : w4 R) b bn c kh kw d s ph pw mout min (x : nat -> Z -> Z -> R) co' h v :
  shape4 w c 1 -> bias_ok b c -> bn_ok bn c -> length mout = c -> co' < count_true mout ->
  pit_conv2d_at r0 r1 radd rmul maskbias false true w b bn c kh kw d s ph pw mout x (nth co' (kept mout) 0) h v
  = bn_at r0 radd rmul (slice_bn mout bn) co'
      (conv2d_at r0 radd rmul true (export_w4 true mout min w) (export_bias mout b) (count_true min) kh kw d s ph pw
         (fun i => x (nth i (kept mout) 0)) co' h v).
Proof.
  intros (Hw & Hc) Hb Hbn Hmo Hco. unfold pit_conv2d_at.
  assert (Hco' : co' < length (kept mout)) by (rewrite kept_length; exact Hco).
  destruct (kept_nth_alive mout co' Hco') as [Ea Hlt]. rewrite gate_alive by exact Ea.
  rewrite bn_slice_commutes by (try exact Hco; intros a sh E; destruct (Hbn a sh E); lia).
  f_equal. unfold conv2d_at.
  rewrite (addbias_slice b mout co') by (try exact Hco; intros bl E; rewrite (Hb bl E); lia). f_equal.
  unfold w4at, export_w4. rewrite (nth_map_in _ (select mout w) co' [] []) by (rewrite select_length; lia).
  rewrite (select_nth mout w [] co') by lia. reflexivity.
Qed.

Definition shape2 (w : list (list R)) (cout cin : nat) : Prop := length w = cout /\ (forall co, co < cout -> length (nth co w []) = cin).

Theorem linear_export_eq maskbias (w : list (list R)) b bn cout cin mout min (x : nat -> R) co' :
  shape2 w cout cin -> bias_ok b cout -> bn_ok bn cout -> length mout = cout -> length min = cin ->
  (forall ci, ci < cin -> nth ci min false = false -> x ci = r0) ->
  co' < count_true mout ->
  pit_linear_at r0 r1 radd rmul maskbias false w b bn cin mout x (nth co' (kept mout) 0)
  = bn_at r0 radd rmul (slice_bn mout bn) co'
      (linear_at r0 radd rmul (export_w2 mout min w) (export_bias mout b) (count_true min) (fun i => x (nth i (kept min) 0)) co').
Proof.
  intros (Hw & Hc) Hb Hbn Hmo Hmi Hdead Hco. unfold pit_linear_at.
  assert (Hco' : co' < length (kept mout)) by (rewrite kept_length; exact Hco).
  destruct (kept_nth_alive mout co' Hco') as [Ea Hlt]. rewrite gate_alive by exact Ea.
  rewrite bn_slice_commutes by (try exact Hco; intros a sh E; destruct (Hbn a sh E); lia).
  f_equal. unfold linear_at.
  rewrite (addbias_slice b mout co') by (try exact Hco; intros bl E; rewrite (Hb bl E); lia). f_equal.
  set (co := nth co' (kept mout) 0) in *. rewrite Hmo in Hlt.
  rewrite (chan_slice (fun a => a) (fun a ci => rmul a (x ci)) (fun a ci => rmul a (x ci)) (nth co w []) min cin r0 r0); auto.
  - apply f_equal. apply map_seq_ext. intros i Hi. unfold export_w2.
    rewrite (nth_map_in _ (select mout w) co' [] []) by (rewrite select_length; lia).
    rewrite (select_nth mout w [] co') by lia. fold co. rewrite map_id. reflexivity.
  - intros ci Hci E. rewrite (Hdead ci Hci E). apply rmul_0_r.
Qed.

(* ---- fold_bn = true: weights (and, in the repaired code, the bias) are multiplied by the output mask *)
Lemma combine_nil_r {A B} (l : list A) : combine l (@nil B) = [].
Proof. destruct l; reflexivity. Qed.

Lemma w3at_time' tm (w : w3 R) co ci :
  w3at (mask_w3_time r0 r1 rmul tm w) co ci = map (fun p => rmul (bit (fst p)) (snd p)) (combine tm (w3at w co ci)).
Proof.
  unfold w3at, mask_w3_time.
  set (h := fun wk : list R => map (fun p => rmul (bit (fst p)) (snd p)) (combine tm wk)).
  change (@nil (list R)) with (map h []) at 1. rewrite map_nth.
  replace (@nil R) with (h []) at 1 by (unfold h; rewrite combine_nil_r; reflexivity). rewrite map_nth. reflexivity.
Qed.

Lemma w3at_out mout (w : w3 R) co ci : length mout = length w ->
  w3at (mask_w3_out r0 r1 rmul mout w) co ci = map (fun x => rmul x (bit (nth co mout false))) (w3at w co ci).
Proof.
  intro H. unfold w3at, mask_w3_out. destruct (Nat.lt_ge_cases co (length w)) as [Hco|Hco].
  - rewrite (nth_map_in _ (combine mout w) co (false, []) []) by (rewrite combine_length; lia).
    rewrite combine_nth by exact H. cbn [fst snd].
    set (g := map (fun x => rmul x (bit (nth co mout false)))).
    change (@nil R) with (g []) at 1. rewrite map_nth. reflexivity.
  - rewrite (nth_overflow (map _ (combine mout w))) by (rewrite map_length, combine_length; lia).
    rewrite (nth_overflow w) by exact Hco. destruct ci; reflexivity.
Qed.

Lemma nth_mask_bias mout (bl : list R) co : length bl = length mout ->
  nth co (map (fun p => rmul (snd p) (bit (fst p))) (combine mout bl)) r0 = rmul (nth co bl r0) (bit (nth co mout false)).
Proof.
  intro H. destruct (Nat.lt_ge_cases co (length bl)) as [Hj|Hj].
  - rewrite (nth_map_in _ (combine mout bl) co (false, r0) r0) by (rewrite combine_length; lia).
    rewrite combine_nth by lia. reflexivity.
  - rewrite nth_overflow by (rewrite map_length, combine_length; lia).
    rewrite (nth_overflow bl) by exact Hj. rewrite rmul_0_l. reflexivity.
Qed.

Lemma conv1d_at_ext dw (w w' : w3 R) b b' cin K d s x co t :
  (forall ci, w3at w co ci = w3at w' co ci) -> (forall acc, addbias r0 radd b co acc = addbias r0 radd b' co acc) ->
  conv1d_at r0 radd rmul dw w b cin K d s x co t = conv1d_at r0 radd rmul dw w' b' cin K d s x co t.
Proof.
  intros Hw Hb. unfold conv1d_at. rewrite Hb. f_equal. destruct dw; [rewrite Hw; reflexivity|].
  apply f_equal. apply map_ext. intro ci. rewrite Hw. reflexivity.
Qed.

(* alive channel: the folded forward is the plain masked-taps convolution *)
Lemma fold_alive_conv1d maskbias dw (w : w3 R) b bn cin K d s mout tm x co t :
  length mout = length w -> bias_ok b (length mout) -> nth co mout false = true ->
  pit_conv1d_at r0 r1 radd rmul maskbias true dw w b bn cin K d s mout tm x co t
  = conv1d_at r0 radd rmul dw (mask_w3_time r0 r1 rmul tm w) b cin K d s x co t.
Proof.
  intros Hl Hb Ea. unfold pit_conv1d_at. apply conv1d_at_ext.
  - intro ci. rewrite !w3at_time', w3at_out by exact Hl. rewrite Ea. cbn [Conv.bit].
    rewrite (map_ext _ (fun x => x)) by (intro; apply rmul_1_r). rewrite map_id. reflexivity.
  - intro acc. destruct maskbias; [|reflexivity]. destruct b as [bl|]; [|reflexivity]. cbn.
    rewrite nth_mask_bias by (apply Hb; reflexivity). rewrite Ea. cbn. rewrite rmul_1_r. reflexivity.
Qed.

Lemma taps_zero wk K d (x : Z -> R) u : (forall j, nth j wk r0 = r0) -> taps r0 radd rmul wk K d x u = r0.
Proof. intro H. unfold taps. apply rsum_zero. intros j _. rewrite H. apply rmul_0_l. Qed.

(* dead channel under fold_bn, REPAIRED code (maskbias = true): exactly zero *)
Theorem dead_out_zero_conv1d_fold dw (w : w3 R) b bn cin K d s mout tm x co t :
  length mout = length w -> bias_ok b (length mout) -> nth co mout false = false ->
  pit_conv1d_at r0 r1 radd rmul true true dw w b bn cin K d s mout tm x co t = r0.
Proof.
  intros Hl Hb Ed. unfold pit_conv1d_at, conv1d_at.
  assert (Hz : forall ci j, nth j (w3at (mask_w3_time r0 r1 rmul tm (mask_w3_out r0 r1 rmul mout w)) co ci) r0 = r0).
  { intros ci j. rewrite w3at_time', w3at_out by exact Hl. rewrite Ed. cbn [Conv.bit].
    set (z := map (fun x0 : R => rmul x0 r0) (w3at w co ci)).
    destruct (Nat.lt_ge_cases j (length (combine tm z))) as [Hj|Hj].
    - rewrite (nth_map_in _ (combine tm z) j (false, r0) r0) by exact Hj.
      destruct (nth j (combine tm z) (false, r0)) as [a bb] eqn:E.
      assert (Hin : In (a, bb) (combine tm z)) by (rewrite <- E; apply nth_In; exact Hj).
      apply in_combine_r in Hin. unfold z in Hin. apply in_map_iff in Hin. destruct Hin as [x0 [Hx _]].
      cbn [fst snd]. rewrite <- Hx, rmul_0_r. apply rmul_0_r.
    - apply nth_overflow. rewrite map_length. exact Hj. }
  assert (Hacc : (if dw then taps r0 radd rmul (w3at (mask_w3_time r0 r1 rmul tm (mask_w3_out r0 r1 rmul mout w)) co 0) K d (x co) (s * t)%Z
                  else rsum (map (fun ci => taps r0 radd rmul (w3at (mask_w3_time r0 r1 rmul tm (mask_w3_out r0 r1 rmul mout w)) co ci) K d (x ci) (s * t)%Z) (seq 0 cin))) = r0).
  { destruct dw; [apply taps_zero; apply Hz|]. apply rsum_zero. intros ci _. apply taps_zero. apply Hz. }
  rewrite Hacc. destruct b as [bl|]; [|reflexivity]. cbn.
  rewrite nth_mask_bias by (apply Hb; reflexivity). rewrite Ed. cbn. rewrite rmul_0_r. apply radd_0_l.
Qed.

Theorem conv1d_export_eq_fold_full maskbias (w : w3 R) b bn cout cin K K' sp d s mout min tm (x : nat -> Z -> R) co' t :
  shape3 w cout cin K -> bias_ok b cout -> length mout = cout -> length min = cin -> length tm = K ->
  kept_lags K tm = export_lags K' sp ->
  (forall ci, ci < cin -> nth ci min false = false -> forall u, x ci u = r0) ->
  co' < count_true mout ->
  pit_conv1d_at r0 r1 radd rmul maskbias true false w b bn cin K (Z.of_nat d) s mout tm (fun ci => padl ((K - 1) * d) (x ci)) (nth co' (kept mout) 0) t
  = conv1d_at r0 radd rmul false (export_w3 false mout min tm w) (export_bias mout b) (count_true min) K' (Z.of_nat (sp * d)) s
      (fun i => padl ((K' - 1) * (sp * d)) (x (nth i (kept min) 0))) co' t.
Proof.
  intros Hs Hb Hmo Hmi Htm Hl Hdead Hco.
  assert (Hco' : co' < length (kept mout)) by (rewrite kept_length; exact Hco).
  destruct (kept_nth_alive mout co' Hco') as [Ea _].
  rewrite fold_alive_conv1d; [|destruct Hs as (Hw & _); lia|rewrite Hmo; exact Hb|exact Ea].
  eapply conv1d_core_full; eauto.
Qed.

Theorem conv1d_export_eq_fold_dw maskbias (w : w3 R) b bn c K K' sp d s mout min tm (x : nat -> Z -> R) co' t :
  shape3 w c 1 K -> bias_ok b c -> length mout = c -> length tm = K ->
  kept_lags K tm = export_lags K' sp -> co' < count_true mout ->
  pit_conv1d_at r0 r1 radd rmul maskbias true true w b bn c K (Z.of_nat d) s mout tm (fun ci => padl ((K - 1) * d) (x ci)) (nth co' (kept mout) 0) t
  = conv1d_at r0 radd rmul true (export_w3 true mout min tm w) (export_bias mout b) (count_true min) K' (Z.of_nat (sp * d)) s
      (fun i => padl ((K' - 1) * (sp * d)) (x (nth i (kept mout) 0))) co' t.
Proof.
  intros Hs Hb Hmo Htm Hl Hco.
  assert (Hco' : co' < length (kept mout)) by (rewrite kept_length; exact Hco).
  destruct (kept_nth_alive mout co' Hco') as [Ea _].
  rewrite fold_alive_conv1d; [|destruct Hs as (Hw & _); lia|rewrite Hmo; exact Hb|exact Ea].
  eapply conv1d_core_dw; eauto.
Qed.

(* ---- fold_bn = true for Conv2d / Linear *)
Lemma nth_map_rzero (l : list R) j : nth j (map (fun x => rmul x r0) l) r0 = r0.
Proof.
  destruct (Nat.lt_ge_cases j (length l)) as [H|H].
  - rewrite (nth_map_in _ l j r0 r0) by exact H. apply rmul_0_r.
  - apply nth_overflow. rewrite map_length. exact H.
Qed.

Lemma map_rone (l : list R) : map (fun x => rmul x r1) l = l.
Proof. rewrite (map_ext _ (fun x => x)) by (intro; apply rmul_1_r). apply map_id. Qed.

Lemma w4at_out mout (w : w4 R) co ci : length mout = length w ->
  w4at (mask_w4_out r0 r1 rmul mout w) co ci = map (map (fun x => rmul x (bit (nth co mout false)))) (w4at w co ci).
Proof.
  intro H. unfold w4at, mask_w4_out. destruct (Nat.lt_ge_cases co (length w)) as [Hco|Hco].
  - rewrite (nth_map_in _ (combine mout w) co (false, []) []) by (rewrite combine_length; lia).
    rewrite combine_nth by exact H. cbn [fst snd].
    set (g := map (map (fun x => rmul x (bit (nth co mout false))))).
    change (@nil (list R)) with (g []) at 1. rewrite map_nth. reflexivity.
  - rewrite (nth_overflow (map _ (combine mout w))) by (rewrite map_length, combine_length; lia).
    rewrite (nth_overflow w) by exact Hco. destruct ci; reflexivity.
Qed.

Lemma conv2d_at_ext dw (w w' : w4 R) b b' cin kh kw d s ph pw x co h v :
  (forall ci, w4at w co ci = w4at w' co ci) -> (forall acc, addbias r0 radd b co acc = addbias r0 radd b' co acc) ->
  conv2d_at r0 radd rmul dw w b cin kh kw d s ph pw x co h v = conv2d_at r0 radd rmul dw w' b' cin kh kw d s ph pw x co h v.
Proof.
  intros Hw Hb. unfold conv2d_at. rewrite Hb. f_equal. destruct dw; [rewrite Hw; reflexivity|].
  apply f_equal. apply map_ext. intro ci. rewrite Hw. reflexivity.
Qed.

Lemma mask_bias_alive maskbias mout (b : option (list R)) co acc : bias_ok b (length mout) -> nth co mout false = true ->
  addbias r0 radd (mask_bias r0 r1 rmul maskbias mout b) co acc = addbias r0 radd b co acc.
Proof.
  intros Hb Ea. destruct maskbias; [|reflexivity]. destruct b as [bl|]; [|reflexivity]. cbn.
  rewrite nth_mask_bias by (apply Hb; reflexivity). rewrite Ea. cbn. rewrite rmul_1_r. reflexivity.
Qed.
Lemma mask_bias_dead mout (b : option (list R)) co : bias_ok b (length mout) -> nth co mout false = false ->
  addbias r0 radd (mask_bias r0 r1 rmul true mout b) co r0 = r0.
Proof.
  intros Hb Ed. destruct b as [bl|]; [|reflexivity]. cbn.
  rewrite nth_mask_bias by (apply Hb; reflexivity). rewrite Ed. cbn. rewrite rmul_0_r. apply radd_0_l.
Qed.

Lemma fold_alive_conv2d maskbias dw (w : w4 R) b bn cin kh kw d s ph pw mout x co h v :
  length mout = length w -> bias_ok b (length mout) -> nth co mout false = true ->
  pit_conv2d_at r0 r1 radd rmul maskbias true dw w b bn cin kh kw d s ph pw mout x co h v
  = conv2d_at r0 radd rmul dw w b cin kh kw d s ph pw x co h v.
Proof.
  intros Hl Hb Ea. unfold pit_conv2d_at. apply conv2d_at_ext.
  - intro ci. rewrite w4at_out by exact Hl. rewrite Ea. cbn [Conv.bit].
    rewrite (map_ext _ (fun l => l)) by (intro; apply map_rone). apply map_id.
  - intro acc. apply mask_bias_alive; assumption.
Qed.

Lemma taps2_wzero (wk : list (list R)) kh kw d (x : Z -> Z -> R) u v : (forall a b, nth b (nth a wk []) r0 = r0) -> taps2 r0 radd rmul wk kh kw d x u v = r0.
Proof. intro H. unfold taps2. apply rsum_zero. intros a _. apply rsum_zero. intros b _. rewrite H. apply rmul_0_l. Qed.

Theorem dead_out_zero_conv2d_fold dw (w : w4 R) b bn cin kh kw d s ph pw mout x co h v :
  length mout = length w -> bias_ok b (length mout) -> nth co mout false = false ->
  pit_conv2d_at r0 r1 radd rmul true true dw w b bn cin kh kw d s ph pw mout x co h v = r0.
Proof.
  intros Hl Hb Ed. unfold pit_conv2d_at, conv2d_at.
  assert (Hz : forall ci a c, nth c (nth a (w4at (mask_w4_out r0 r1 rmul mout w) co ci) []) r0 = r0).
  { intros ci a c. rewrite w4at_out by exact Hl. rewrite Ed. cbn [Conv.bit].
    set (g := map (fun x0 : R => rmul x0 r0)). change (@nil R) with (g []) at 1. rewrite map_nth. apply nth_map_rzero. }
  match goal with |- addbias _ _ _ _ ?acc = _ => assert (Hacc : acc = r0) end.
  { destruct dw; [apply taps2_wzero; apply Hz|]. apply rsum_zero. intros ci _. apply taps2_wzero. apply Hz. }
  rewrite Hacc. apply mask_bias_dead; assumption.
Qed.

Theorem conv2d_export_eq_fold_full maskbias (w : w4 R) b bn cout cin kh kw d s ph pw mout min (x : nat -> Z -> Z -> R) co' h v :
  shape4 w cout cin -> bias_ok b cout -> length mout = cout -> length min = cin ->
  (forall ci, ci < cin -> nth ci min false = false -> forall a c, x ci a c = r0) ->
  co' < count_true mout ->
  pit_conv2d_at r0 r1 radd rmul maskbias true false w b bn cin kh kw d s ph pw mout x (nth co' (kept mout) 0) h v
  = conv2d_at r0 radd rmul false (export_w4 false mout min w) (export_bias mout b) (count_true min) kh kw d s ph pw
      (fun i => x (nth i (kept min) 0)) co' h v.
Proof.
  intros Hs Hb Hmo Hmi Hdead Hco.
  assert (Hco' : co' < length (kept mout)) by (rewrite kept_length; exact Hco).
  destruct (kept_nth_alive mout co' Hco') as [Ea _].
  rewrite fold_alive_conv2d; [|destruct Hs as (Hw & _); lia|rewrite Hmo; exact Hb|exact Ea].
  pose proof (conv2d_export_eq_full maskbias w b None cout cin kh kw d s ph pw mout min x co' h v Hs Hb) as E.
  unfold pit_conv2d_at in E. cbn [bn_at slice_bn option_map] in E. rewrite gate_alive in E by exact Ea.
  apply E; auto. intros a sh F. discriminate.
Qed.

Theorem conv2d_export_eq_fold_dw maskbias (w : w4 R) b bn c kh kw d s ph pw mout min (x : nat -> Z -> Z -> R) co' h v :
  shape4 w c 1 -> bias_ok b c -> length mout = c -> co' < count_true mout ->
  pit_conv2d_at r0 r1 radd rmul maskbias true true w b bn c kh kw d s ph pw mout x (nth co' (kept mout) 0) h v
  = conv2d_at r0 radd rmul true (export_w4 true mout min w) (export_bias mout b) (count_true min) kh kw d s ph pw
      (fun i => x (nth i (kept mout) 0)) co' h v.
Proof.
  intros Hs Hb Hmo Hco.
  assert (Hco' : co' < length (kept mout)) by (rewrite kept_length; exact Hco).
  destruct (kept_nth_alive mout co' Hco') as [Ea _].
  rewrite fold_alive_conv2d; [|destruct Hs as (Hw & _); lia|rewrite Hmo; exact Hb|exact Ea].
  pose proof (conv2d_export_eq_dw maskbias w b None c kh kw d s ph pw mout min x co' h v Hs Hb) as E.
  unfold pit_conv2d_at in E. cbn [bn_at slice_bn option_map] in E. rewrite gate_alive in E by exact Ea.
  apply E; auto. intros a sh F. discriminate.
Qed.

Lemma w2_out mout (w : list (list R)) co ci : length mout = length w ->
  nth ci (nth co (mask_w2_out r0 r1 rmul mout w) []) r0 = rmul (nth ci (nth co w []) r0) (bit (nth co mout false)).
Proof.
  intro H. unfold mask_w2_out. destruct (Nat.lt_ge_cases co (length w)) as [Hco|Hco].
  - rewrite (nth_map_in _ (combine mout w) co (false, []) []) by (rewrite combine_length; lia).
    rewrite combine_nth by exact H. cbn [fst snd].
    destruct (Nat.lt_ge_cases ci (length (nth co w []))) as [Hci|Hci].
    + rewrite (nth_map_in _ _ ci r0 r0) by exact Hci. reflexivity.
    + rewrite nth_overflow by (rewrite map_length; exact Hci). rewrite (nth_overflow (nth co w [])) by exact Hci.
      rewrite rmul_0_l. reflexivity.
  - rewrite (nth_overflow (map _ (combine mout w))) by (rewrite map_length, combine_length; lia).
    rewrite (nth_overflow w) by exact Hco. destruct ci; cbn; rewrite rmul_0_l; reflexivity.
Qed.

Lemma fold_alive_linear maskbias (w : list (list R)) b bn cin mout x co :
  length mout = length w -> bias_ok b (length mout) -> nth co mout false = true ->
  pit_linear_at r0 r1 radd rmul maskbias true w b bn cin mout x co = linear_at r0 radd rmul w b cin x co.
Proof.
  intros Hl Hb Ea. unfold pit_linear_at, linear_at. rewrite mask_bias_alive by assumption. f_equal.
  apply f_equal. apply map_ext. intro ci. rewrite w2_out by exact Hl. rewrite Ea. cbn. rewrite rmul_1_r. reflexivity.
Qed.

Theorem dead_out_zero_linear_fold (w : list (list R)) b bn cin mout x co :
  length mout = length w -> bias_ok b (length mout) -> nth co mout false = false ->
  pit_linear_at r0 r1 radd rmul true true w b bn cin mout x co = r0.
Proof.
  intros Hl Hb Ed. unfold pit_linear_at, linear_at.
  rewrite (rsum_zero _ (seq 0 cin)).
  - apply mask_bias_dead; assumption.
  - intros ci _. rewrite w2_out by exact Hl. rewrite Ed. cbn. rewrite rmul_0_r. apply rmul_0_l.
Qed.

Theorem linear_export_eq_fold maskbias (w : list (list R)) b bn cout cin mout min (x : nat -> R) co' :
  shape2 w cout cin -> bias_ok b cout -> length mout = cout -> length min = cin ->
  (forall ci, ci < cin -> nth ci min false = false -> x ci = r0) ->
  co' < count_true mout ->
  pit_linear_at r0 r1 radd rmul maskbias true w b bn cin mout x (nth co' (kept mout) 0)
  = linear_at r0 radd rmul (export_w2 mout min w) (export_bias mout b) (count_true min) (fun i => x (nth i (kept min) 0)) co'.
Proof.
  intros Hs Hb Hmo Hmi Hdead Hco.
  assert (Hco' : co' < length (kept mout)) by (rewrite kept_length; exact Hco).
  destruct (kept_nth_alive mout co' Hco') as [Ea _].
  rewrite fold_alive_linear; [|destruct Hs as (Hw & _); lia|rewrite Hmo; exact Hb|exact Ea].
  pose proof (linear_export_eq maskbias w b None cout cin mout min x co' Hs Hb) as E.
  unfold pit_linear_at in E. cbn [bn_at slice_bn option_map] in E. rewrite gate_alive in E by exact Ea.
  apply E; auto. intros a sh F. discriminate.
Qed.

End RingProofs.


(* ================================================================ packaged statements (carrier laws as one premise) *)
Definition laws {R} (r0 r1 : R) (radd rmul : R -> R -> R) : Prop :=
  (forall x, radd r0 x = x) /\ (forall x, rmul r0 x = r0) /\ (forall x, rmul x r0 = r0) /\ (forall x, rmul r1 x = x) /\ (forall x, rmul x r1 = x).
Lemma laws_Z : laws 0%Z 1%Z Z.add Z.mul.
Proof. repeat split; intro x; lia. Qed.
Require Import Coq.QArith.Qcanon.
Close Scope Qc_scope.
Lemma laws_Qc : laws 0%Qc 1%Qc Qcplus Qcmult.
Proof.
  repeat split; intro x.
  - apply Qcplus_0_l.
  - apply Qcmult_0_l.
  - apply Qcmult_0_r.
  - apply Qcmult_1_l.
  - apply Qcmult_1_r.
Qed.

Ltac use_laws thm := intros R r0 r1 radd rmul (H1 & H2 & H3 & H4 & H5); apply (thm R r0 r1 radd rmul); assumption.

Lemma L_masked_sum_filter : forall R r0 r1 radd rmul, @laws R r0 r1 radd rmul -> forall (m : list bool) (w X : nat -> R) K, length m = K ->
  rsum r0 radd (map (fun j => rmul (rmul (bit r0 r1 (nth j m false)) (w j)) (X j)) (seq 0 K)) = rsum r0 radd (map (fun j => rmul (w j) (X j)) (kept m)).
Proof. use_laws masked_sum_filter. Qed.

Lemma L_taps_export_eq : forall R r0 r1 radd rmul, @laws R r0 r1 radd rmul -> forall (tm : list bool) (wk : list R) (K K' sp d : nat) (x : Z -> R) (u : Z),
  length tm = K -> length wk = K -> kept_lags K tm = export_lags K' sp ->
  taps r0 radd rmul (map (fun p => rmul (bit r0 r1 (fst p)) (snd p)) (combine tm wk)) K (Z.of_nat d) (padl ((K - 1) * d) x) u
  = taps r0 radd rmul (select tm wk) K' (Z.of_nat (sp * d)) (padl ((K' - 1) * (sp * d)) x) u.
Proof. use_laws taps_export_eq. Qed.

Lemma time_mask_length K beta gamma : length beta = K -> length (time_mask true K beta gamma) = K.
Proof.
  intro H. unfold time_mask. rewrite map_length, combine_length.
  assert (E1 : length (theta_gamma true K gamma) = K) by (unfold theta_gamma; rewrite map_length, seq_length; reflexivity).
  assert (E2 : length (theta_beta beta) = K) by (unfold theta_beta; rewrite map_length, seq_length; exact H).
  rewrite E1, E2. lia.
Qed.

(* the layer-level statement of C01 for a full 1-D convolution, fold_bn off / on, over the REAL mask parameters *)
Definition conv1d_export_statement {R} (r0 r1 : R) radd rmul (fold : bool) :=
  forall maskbias (w : w3 R) b bn cout cin K d0 s beta gamma mout min (x : nat -> Z -> R) co' t,
  1 <= K -> length beta = K -> length gamma = gamma_len K ->
  shape3 R w cout cin K -> bias_ok R b cout -> bn_ok R bn cout -> length mout = cout -> length min = cin ->
  (forall ci, ci < cin -> nth ci min false = false -> forall u, x ci u = r0) ->
  co' < count_true mout ->
  let tm := time_mask true K beta gamma in
  let K' := kernel_size_opt true K beta gamma in
  let d' := dilation_opt true K d0 gamma in
  pit_conv1d_at r0 r1 radd rmul maskbias fold false w b bn cin K (Z.of_nat d0) s mout tm (fun ci => padl ((K - 1) * d0) (x ci)) (nth co' (kept mout) 0) t
  = bn_at r0 radd rmul (if fold then None else slice_bn mout bn) co'
      (conv1d_at r0 radd rmul false (export_w3 false mout min tm w) (export_bias mout b) (count_true min) K' (Z.of_nat d') s
         (fun i => padl ((K' - 1) * d') (x (nth i (kept min) 0))) co' t).

Theorem conv1d_export_eq : forall R r0 r1 radd rmul, @laws R r0 r1 radd rmul -> forall fold, conv1d_export_statement r0 r1 radd rmul fold.
Proof.
  intros R r0 r1 radd rmul (H1 & H2 & H3 & H4 & H5) fold. unfold conv1d_export_statement.
  intros maskbias w b bn cout cin K d0 s beta gamma mout min x co' t HK Hb Hg Hs Hbi Hbn Hmo Hmi Hdead Hco.
  destruct (kept_taps_progression K d0 beta gamma HK Hb Hg) as (v & _ & Hd & Hl & _). cbv zeta. rewrite Hd.
  destruct fold.
  - cbn [bn_at]. eapply conv1d_export_eq_fold_full; eauto using time_mask_length.
  - eapply conv1d_export_eq_full; eauto using time_mask_length.
Qed.

(* depthwise: the layer's mask is its producer's (shared masker): the exported input is the tensor sliced by mout *)
Definition dw_export_statement {R} (r0 r1 : R) radd rmul (fold : bool) :=
  forall maskbias (w : w3 R) b bn c K d0 s beta gamma mout min (x : nat -> Z -> R) co' t,
  1 <= K -> length beta = K -> length gamma = gamma_len K ->
  shape3 R w c 1 K -> bias_ok R b c -> bn_ok R bn c -> length mout = c -> co' < count_true mout ->
  let tm := time_mask true K beta gamma in
  let K' := kernel_size_opt true K beta gamma in
  let d' := dilation_opt true K d0 gamma in
  pit_conv1d_at r0 r1 radd rmul maskbias fold true w b bn c K (Z.of_nat d0) s mout tm (fun ci => padl ((K - 1) * d0) (x ci)) (nth co' (kept mout) 0) t
  = bn_at r0 radd rmul (if fold then None else slice_bn mout bn) co'
      (conv1d_at r0 radd rmul true (export_w3 true mout min tm w) (export_bias mout b) (count_true min) K' (Z.of_nat d') s
         (fun i => padl ((K' - 1) * d') (x (nth i (kept mout) 0))) co' t).

Theorem dw_export_eq : forall R r0 r1 radd rmul, @laws R r0 r1 radd rmul -> forall fold, dw_export_statement r0 r1 radd rmul fold.
Proof.
  intros R r0 r1 radd rmul (H1 & H2 & H3 & H4 & H5) fold. unfold dw_export_statement.
  intros maskbias w b bn c K d0 s beta gamma mout min x co' t HK Hb Hg Hs Hbi Hbn Hmo Hco.
  destruct (kept_taps_progression K d0 beta gamma HK Hb Hg) as (v & _ & Hd & Hl & _). cbv zeta. rewrite Hd.
  destruct fold.
  - cbn [bn_at]. eapply conv1d_export_eq_fold_dw; eauto using time_mask_length.
  - eapply conv1d_export_eq_dw; eauto using time_mask_length.
Qed.

(* frozen time maskers (stride <> 1): all-ones time mask, kernel / dilation / padding unchanged *)
Lemma kept_all_true n : kept (all_true n) = seq 0 n.
Proof.
  induction n as [|n IH]; [reflexivity|]. unfold all_true in *. cbn [repeat]. rewrite kept_cons, IH. cbn [app seq].
  rewrite seq_shift. reflexivity.
Qed.
Lemma frozen_lags K : kept_lags K (all_true K) = export_lags K 1.
Proof.
  unfold kept_lags, export_lags. pose proof (kept_all_true K) as H. unfold kept, all_true in H. rewrite repeat_length in H.
  unfold all_true. rewrite H. apply map_ext. intro j. lia.
Qed.

Lemma L_conv1d_export_eq_frozen : forall R r0 r1 radd rmul, @laws R r0 r1 radd rmul ->
  forall maskbias (w : w3 R) b bn cout cin K d s mout min (x : nat -> Z -> R) co' t,
  shape3 R w cout cin K -> bias_ok R b cout -> bn_ok R bn cout -> length mout = cout -> length min = cin ->
  (forall ci, ci < cin -> nth ci min false = false -> forall u, x ci u = r0) -> co' < count_true mout ->
  pit_conv1d_at r0 r1 radd rmul maskbias false false w b bn cin K (Z.of_nat d) s mout (all_true K) (fun ci => padl ((K - 1) * d) (x ci)) (nth co' (kept mout) 0) t
  = bn_at r0 radd rmul (slice_bn mout bn) co'
      (conv1d_at r0 radd rmul false (export_w3 false mout min (all_true K) w) (export_bias mout b) (count_true min) K (Z.of_nat (1 * d)) s
         (fun i => padl ((K - 1) * (1 * d)) (x (nth i (kept min) 0))) co' t).
Proof.
  intros R r0 r1 radd rmul (H1 & H2 & H3 & H4 & H5). intros.
  eapply conv1d_export_eq_full; eauto using frozen_lags. unfold all_true. apply repeat_length.
Qed.

Lemma L_conv2d_export_eq : forall R r0 r1 radd rmul, @laws R r0 r1 radd rmul ->
  forall maskbias (w : w4 R) b bn cout cin kh kw d s ph pw mout min (x : nat -> Z -> Z -> R) co' h v,
  shape4 R w cout cin -> bias_ok R b cout -> bn_ok R bn cout -> length mout = cout -> length min = cin ->
  (forall ci, ci < cin -> nth ci min false = false -> forall a c, x ci a c = r0) ->
  co' < count_true mout ->
  pit_conv2d_at r0 r1 radd rmul maskbias false false w b bn cin kh kw d s ph pw mout x (nth co' (kept mout) 0) h v
  = bn_at r0 radd rmul (slice_bn mout bn) co'
      (conv2d_at r0 radd rmul false (export_w4 false mout min w) (export_bias mout b) (count_true min) kh kw d s ph pw
         (fun i => x (nth i (kept min) 0)) co' h v).
Proof. use_laws conv2d_export_eq_full. Qed.

Lemma L_conv2d_export_eq_dw : forall R r0 r1 radd rmul, @laws R r0 r1 radd rmul ->
  forall maskbias (w : w4 R) b bn c kh kw d s ph pw mout min (x : nat -> Z -> Z -> R) co' h v,
  shape4 R w c 1 -> bias_ok R b c -> bn_ok R bn c -> length mout = c -> co' < count_true mout ->
  pit_conv2d_at r0 r1 radd rmul maskbias false true w b bn c kh kw d s ph pw mout x (nth co' (kept mout) 0) h v
  = bn_at r0 radd rmul (slice_bn mout bn) co'
      (conv2d_at r0 radd rmul true (export_w4 true mout min w) (export_bias mout b) (count_true min) kh kw d s ph pw
         (fun i => x (nth i (kept mout) 0)) co' h v).
Proof. use_laws conv2d_export_eq_dw. Qed.

Lemma L_linear_export_eq : forall R r0 r1 radd rmul, @laws R r0 r1 radd rmul ->
  forall maskbias (w : list (list R)) b bn cout cin mout min (x : nat -> R) co',
  shape2 R w cout cin -> bias_ok R b cout -> bn_ok R bn cout -> length mout = cout -> length min = cin ->
  (forall ci, ci < cin -> nth ci min false = false -> x ci = r0) ->
  co' < count_true mout ->
  pit_linear_at r0 r1 radd rmul maskbias false w b bn cin mout x (nth co' (kept mout) 0)
  = bn_at r0 radd rmul (slice_bn mout bn) co'
      (linear_at r0 radd rmul (export_w2 mout min w) (export_bias mout b) (count_true min) (fun i => x (nth i (kept min) 0)) co').
Proof. use_laws linear_export_eq. Qed.

Lemma L_dead_out_zero : forall R r0 r1 radd rmul, @laws R r0 r1 radd rmul ->
  (forall maskbias dw w b bn cin K d s mout tm x co t, nth co mout false = false ->
     pit_conv1d_at r0 r1 radd rmul maskbias false dw w b bn cin K d s mout tm x co t = r0) /\
  (forall maskbias dw w b bn cin kh kw d s ph pw mout x co h v, nth co mout false = false ->
     pit_conv2d_at r0 r1 radd rmul maskbias false dw w b bn cin kh kw d s ph pw mout x co h v = r0) /\
  (forall maskbias w b bn cin mout x co, nth co mout false = false ->
     pit_linear_at r0 r1 radd rmul maskbias false w b bn cin mout x co = r0) /\
  (* fold_bn = true, repaired code *)
  (forall dw (w : w3 R) b bn cin K d s mout tm x co t, length mout = length w -> bias_ok R b (length mout) -> nth co mout false = false ->
     pit_conv1d_at r0 r1 radd rmul true true dw w b bn cin K d s mout tm x co t = r0).
Proof.
  intros R r0 r1 radd rmul (H1 & H2 & H3 & H4 & H5). repeat split; intros.
  - apply (dead_out_zero_conv1d R r0 r1 radd rmul); assumption.
  - apply (dead_out_zero_conv2d R r0 r1 radd rmul); assumption.
  - apply (dead_out_zero_linear R r0 r1 radd rmul); assumption.
  - apply (dead_out_zero_conv1d_fold R r0 r1 radd rmul); assumption.
Qed.

Lemma L_bn_slice_commutes : forall R (r0 : R) radd rmul (bn : option (list R * list R)) (mout : list bool) co' y,
  bn_ok R bn (length mout) -> co' < count_true mout ->
  bn_at r0 radd rmul (slice_bn mout bn) co' y = bn_at r0 radd rmul bn (nth co' (kept mout) 0) y.
Proof. intros. apply bn_slice_commutes; assumption. Qed.

(* the pinned upstream commit does not mask the bias under fold_bn: a pruned channel outputs its bias *)
Theorem fold_bias_refuted : exists (w : w3 Z) b mout tm (x : nat -> Z -> Z) co t,
  length mout = length w /\ nth co mout false = false /\
  pit_conv1d_at 0%Z 1%Z Z.add Z.mul false true false w b None 1 1 1%Z 1%Z mout tm x co t <> 0%Z.
Proof.
  exists [[[1%Z]]; [[1%Z]]], (Some [5%Z; 7%Z]), [false; true], [true], (fun _ _ => 0%Z), 0, 0%Z.
  repeat split. vm_compute. discriminate.
Qed.

(* ---------------------------------------------------------------- zero-preserving channel-wise operators *)
Lemma relu_zero : relu 0 = 0%Z. Proof. reflexivity. Qed.
Lemma relu6_zero : relu6 0 = 0%Z. Proof. reflexivity. Qed.
Lemma padl_zero {R} (r0 : R) P t : padl P (fun _ => r0) t = r0. Proof. reflexivity. Qed.

Lemma chunks_forall {A} (P : A -> Prop) fuel k l : Forall P l -> Forall (Forall P) (chunks fuel k l).
Proof.
  revert l. induction fuel as [|f IH]; intros l H; [constructor|]. cbn [chunks].
  destruct (length l <? k); [constructor|].
  rewrite <- (firstn_skipn k l) in H. apply Forall_app in H. destruct H as [Ha Hb].
  constructor; [exact Ha|apply IH; exact Hb].
Qed.
Lemma zsum_zero l : Forall (fun x => x = 0%Z) l -> zsum l = 0%Z.
Proof. induction 1 as [|x l Hx Hl IH]; [reflexivity|]. cbn. rewrite Hx. exact IH. Qed.
Lemma zmax_zero l : Forall (fun x => x = 0%Z) l -> zmax l = 0%Z.
Proof.
  destruct 1 as [|x l Hx Hl]; [reflexivity|]. cbn. subst x.
  induction Hl as [|y l Hy Hl IH]; [reflexivity|]. cbn. rewrite Hy, IH. reflexivity.
Qed.
Lemma pool_forall (red : list Z -> Z) k l : (forall c, Forall (fun x => x = 0%Z) c -> red c = 0%Z) ->
  Forall (fun x => x = 0%Z) l -> Forall (fun x => x = 0%Z) (map red (chunks (length l) k l)).
Proof.
  intros Hr H. apply Forall_forall. intros y Hy. apply in_map_iff in Hy. destruct Hy as [c [<- Hc]].
  apply Hr. pose proof (chunks_forall _ (length l) k l H) as Hf. rewrite Forall_forall in Hf. apply Hf. exact Hc.
Qed.
Theorem zero_preserving_pool1d k l : Forall (fun x => x = 0%Z) l ->
  Forall (fun x => x = 0%Z) (maxpool1d k l) /\ Forall (fun x => x = 0%Z) (sumpool1d k l).
Proof. intro H. split; apply pool_forall; auto using zmax_zero, zsum_zero. Qed.
Theorem zero_preserving_act l : Forall (fun x => x = 0%Z) l ->
  Forall (fun x => x = 0%Z) (map relu l) /\ Forall (fun x => x = 0%Z) (map relu6 l).
Proof. intro H. split; apply Forall_forall; intros y Hy; apply in_map_iff in Hy; destruct Hy as [x [<- Hx]]; rewrite Forall_forall in H; rewrite (H x Hx); reflexivity. Qed.
(* a channel-wise operator commutes with channel slicing *)
Theorem channelwise_commutes_with_slicing {A B} (f : A -> B) m l : select m (map f l) = map f (select m l).
Proof. apply select_map. Qed.

(* ---- fold_bn = true, Conv2d / Linear (repaired code: bias masked) *)
Lemma L_conv2d_export_eq_fold : forall R r0 r1 radd rmul, @laws R r0 r1 radd rmul ->
  forall maskbias (w : w4 R) b bn cout cin kh kw d s ph pw mout min (x : nat -> Z -> Z -> R) co' h v,
  shape4 R w cout cin -> bias_ok R b cout -> length mout = cout -> length min = cin ->
  (forall ci, ci < cin -> nth ci min false = false -> forall a c, x ci a c = r0) ->
  co' < count_true mout ->
  pit_conv2d_at r0 r1 radd rmul maskbias true false w b bn cin kh kw d s ph pw mout x (nth co' (kept mout) 0) h v
  = conv2d_at r0 radd rmul false (export_w4 false mout min w) (export_bias mout b) (count_true min) kh kw d s ph pw
      (fun i => x (nth i (kept min) 0)) co' h v.
Proof. use_laws conv2d_export_eq_fold_full. Qed.

Lemma L_conv2d_export_eq_fold_dw : forall R r0 r1 radd rmul, @laws R r0 r1 radd rmul ->
  forall maskbias (w : w4 R) b bn c kh kw d s ph pw mout min (x : nat -> Z -> Z -> R) co' h v,
  shape4 R w c 1 -> bias_ok R b c -> length mout = c -> co' < count_true mout ->
  pit_conv2d_at r0 r1 radd rmul maskbias true true w b bn c kh kw d s ph pw mout x (nth co' (kept mout) 0) h v
  = conv2d_at r0 radd rmul true (export_w4 true mout min w) (export_bias mout b) (count_true min) kh kw d s ph pw
      (fun i => x (nth i (kept mout) 0)) co' h v.
Proof. use_laws conv2d_export_eq_fold_dw. Qed.

Lemma L_linear_export_eq_fold : forall R r0 r1 radd rmul, @laws R r0 r1 radd rmul ->
  forall maskbias (w : list (list R)) b bn cout cin mout min (x : nat -> R) co',
  shape2 R w cout cin -> bias_ok R b cout -> length mout = cout -> length min = cin ->
  (forall ci, ci < cin -> nth ci min false = false -> x ci = r0) ->
  co' < count_true mout ->
  pit_linear_at r0 r1 radd rmul maskbias true w b bn cin mout x (nth co' (kept mout) 0)
  = linear_at r0 radd rmul (export_w2 mout min w) (export_bias mout b) (count_true min) (fun i => x (nth i (kept min) 0)) co'.
Proof. use_laws linear_export_eq_fold. Qed.

Lemma L_dead_out_zero_fold : forall R r0 r1 radd rmul, @laws R r0 r1 radd rmul ->
  (forall dw (w : w3 R) b bn cin K d s mout tm x co t, length mout = length w -> bias_ok R b (length mout) -> nth co mout false = false ->
     pit_conv1d_at r0 r1 radd rmul true true dw w b bn cin K d s mout tm x co t = r0) /\
  (forall dw (w : w4 R) b bn cin kh kw d s ph pw mout x co h v, length mout = length w -> bias_ok R b (length mout) -> nth co mout false = false ->
     pit_conv2d_at r0 r1 radd rmul true true dw w b bn cin kh kw d s ph pw mout x co h v = r0) /\
  (forall (w : list (list R)) b bn cin mout x co, length mout = length w -> bias_ok R b (length mout) -> nth co mout false = false ->
     pit_linear_at r0 r1 radd rmul true true w b bn cin mout x co = r0).
Proof.
  intros R r0 r1 radd rmul (H1 & H2 & H3 & H4 & H5). repeat split; intros.
  - apply (dead_out_zero_conv1d_fold R r0 r1 radd rmul); assumption.
  - apply (dead_out_zero_conv2d_fold R r0 r1 radd rmul); assumption.
  - apply (dead_out_zero_linear_fold R r0 r1 radd rmul); assumption.
Qed.

(* ---- 2-D pooling preserves all-zero maps *)
Definition zeros (l : list Z) : Prop := Forall (fun x => x = 0%Z) l.
Lemma nth_zeros l j : zeros l -> nth j l 0%Z = 0%Z.
Proof. intro H. revert j. induction H as [|x l Hx Hl IH]; intro j; destruct j; cbn; auto. Qed.
Lemma concat_zeros ll : Forall zeros ll -> zeros (concat ll).
Proof. induction 1 as [|l ll Hl Hll IH]; [constructor|]. cbn. apply Forall_app. split; assumption. Qed.
Lemma transpose_zeros rows : Forall zeros rows -> Forall zeros (transpose_k rows).
Proof.
  intro H. unfold transpose_k. destruct rows as [|r rows]; [constructor|].
  apply Forall_forall. intros col Hc. apply in_map_iff in Hc. destruct Hc as [j [<- _]].
  apply Forall_forall. intros y Hy. apply in_map_iff in Hy. destruct Hy as [row [<- Hr]].
  apply nth_zeros. rewrite Forall_forall in H. apply H. exact Hr.
Qed.
Theorem zero_preserving_pool2d (red : list Z -> Z) k x : (forall c, zeros c -> red c = 0%Z) ->
  Forall zeros x -> Forall zeros (pool2d red k x).
Proof.
  intros Hr H. unfold pool2d. apply Forall_forall. intros row Hrow. apply in_map_iff in Hrow. destruct Hrow as [grp [<- Hg]].
  pose proof (chunks_forall _ (length x) k x H) as Hgs. rewrite Forall_forall in Hgs. specialize (Hgs grp Hg).
  apply Forall_forall. intros y Hy. apply in_map_iff in Hy. destruct Hy as [cols [<- Hc]].
  apply Hr. apply concat_zeros.
  pose proof (chunks_forall _ (length (transpose_k grp)) k (transpose_k grp) (transpose_zeros grp Hgs)) as Hcs.
  rewrite Forall_forall in Hcs. apply Hcs. exact Hc.
Qed.
Corollary zero_preserving_maxsum_pool2d k x : Forall zeros x -> Forall zeros (maxpool2d k x) /\ Forall zeros (sumpool2d k x).
Proof. intro H. split; apply zero_preserving_pool2d; auto using zmax_zero, zsum_zero. Qed.
