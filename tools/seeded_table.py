#!/venv/bin/python
"""prints the markdown table of seeded changes (seeded/*/meta.json) for DESIGN.md §13.2"""
import json, os, glob
rows = []
for f in sorted(glob.glob('/verif/seeded/*/meta.json')):
    m = json.load(open(f))
    cr = m.get('check_result', {})
    rows.append('| %s | %s | %s | %s | %s |' % (m['id'], m['property'], (m.get('summary') or '')[:150].replace('|', '/').replace('\n', ' '), cr.get('detected', '?'), (cr.get('note') or '')[:140].replace('|', '/').replace('\n', ' ')))
print('| id | property | change (abridged) | detected | how |\n|---|---|---|---|---|')
print('\n'.join(rows))
