(* Proofs about Model/MpsCost.v (C05). *)
From Coq Require Import String List Arith Bool QArith Lia Lqa.
Import ListNotations.
Require Import Plinio.Base.Qx Plinio.Model.MpsNet Plinio.Model.MpsCost.
Open Scope Q_scope.

Lemma qsum_map_ext : forall A (f g : A -> Q) l, (forall x, f x == g x) -> qsum (map f l) == qsum (map g l).
Proof. induction l; intros; simpl; [reflexivity|]. rewrite H, IHl by assumption. reflexivity. Qed.
Lemma qsum_map_zero : forall A (f : A -> Q) l, (forall x, f x == 0) -> qsum (map f l) == 0.
Proof. induction l; intros; simpl; [reflexivity|]. rewrite H, IHl by assumption. ring. Qed.

Definition coefQ (k : nat) := fun i : nat => if Nat.eqb i k then 1 else 0.

Lemma qsum_onehot_gen : forall A (h : A -> Q -> Q) (d : A), (forall x, h x 0 == 0) ->
  forall l k a, qsum (map (fun xt => h (fst xt) (snd xt)) (combine l (map (coefQ k) (seq a (length l)))))
   == if ((a <=? k) && (k <? a + length l))%nat then h (nth (k - a) l d) 1 else 0.
Proof.
  intros A h d H0. induction l as [|x r IH]; intros k a.
  - simpl. destruct (Nat.leb_spec a k), (Nat.ltb_spec k (a + 0)); simpl; try reflexivity; lia.
  - simpl. rewrite IH. unfold coefQ at 1. destruct (Nat.eqb_spec a k) as [E|E].
    + subst. destruct (Nat.leb_spec (S k) k); [lia|]. simpl.
      destruct (Nat.leb_spec k k); [|lia]. destruct (Nat.ltb_spec k (k + S (length r))); [|lia]. simpl.
      rewrite Nat.sub_diag. ring.
    + rewrite H0.
      destruct (Nat.leb_spec (S a) k), (Nat.ltb_spec k (S a + length r)), (Nat.leb_spec a k), (Nat.ltb_spec k (a + S (length r))); simpl; try lia; try ring.
      replace (k - a)%nat with (S (k - S a)) by lia. simpl. ring.
Qed.

Lemma qsum_onehot : forall A (h : A -> Q -> Q) (d : A), (forall x, h x 0 == 0) ->
  forall l k, (k < length l)%nat ->
  qsum (map (fun xt => h (fst xt) (snd xt)) (combine l (onehotQ k (length l)))) == h (nth k l d) 1.
Proof.
  intros. unfold onehotQ, onehot. change (fun i : nat => if Nat.eqb i k then 1 else 0) with (coefQ k).
  rewrite (qsum_onehot_gen A h d H l k 0%nat).
  destruct (Nat.leb_spec 0 k); [|lia]. destruct (Nat.ltb_spec k (0 + length l)); [|lia]. simpl. rewrite Nat.sub_0_r. reflexivity.
Qed.

Lemma nth_onehotQ : forall k n, (k < n)%nat -> nth k (onehotQ k n) 0 = 1.
Proof. intros. unfold onehotQ, onehot.
  set (f := fun i : nat => if Nat.eqb i k then 1 else 0).
  rewrite (nth_indep _ 0 (f 0%nat)) by (rewrite map_length, seq_length; lia).
  rewrite map_nth. rewrite seq_nth by lia. unfold f. simpl. rewrite Nat.eqb_refl. reflexivity.
Qed.
Lemma onehotQ_length : forall k n, length (onehotQ k n) = n.
Proof. intros. unfold onehotQ, onehot. rewrite map_length, seq_length. reflexivity. Qed.

(* one-hot coefficient vectors collapse the cost matrix to the selected entry *)
Theorem table_cost_onehot : forall m ki kw nw, (ki < length m)%nat -> length (nth ki m []) = nw -> (kw < nw)%nat ->
  table_cost m (onehotQ ki (length m)) (onehotQ kw nw) == nth kw (nth ki m []) 0.
Proof.
  intros m ki kw nw Hi Hn Hw. unfold table_cost.
  set (tw := onehotQ kw nw).
  set (h := fun (row : list Q) (ti : Q) => qsum (map (fun et => ti * snd et * fst et) (combine row tw))).
  change (qsum (map (fun rt => h (fst rt) (snd rt)) (combine m (onehotQ ki (length m)))) == nth kw (nth ki m []) 0).
  rewrite (qsum_onehot _ h []) by (try assumption; intros x; unfold h; apply qsum_map_zero; intros; ring).
  unfold h. subst tw. rewrite <- Hn.
  set (row := nth ki m []).
  change (qsum (map (fun et => (fun e t => 1 * t * e) (fst et) (snd et)) (combine row (onehotQ kw (length row)))) == nth kw row 0).
  rewrite (qsum_onehot _ (fun e t => 1 * t * e) 0) by (try (intros; ring); subst row; lia).
  ring.
Qed.

Theorem mps_cost_onehot : forall cf v pin pw ki kw, (ki < length pin)%nat -> (kw < length pw)%nat ->
  layer_cost cf v pin (onehotQ ki (length pin)) pw (onehotQ kw (length pw))
  == entry cf v (nth ki pin 0) (nth kw pw 0) 1.
Proof.
  intros cf v pin pw ki kw Hi Hw. unfold layer_cost.
  set (tw := onehotQ kw (length pw)).
  assert (Lm : length (cost_matrix cf v pin pw tw) = length pin) by (unfold cost_matrix; apply map_length).
  assert (Ltw : length tw = length pw) by apply onehotQ_length.
  assert (Row : nth ki (cost_matrix cf v pin pw tw) [] = map (fun wt => entry cf v (nth ki pin 0) (fst wt) (snd wt)) (combine pw tw)).
  { unfold cost_matrix. set (f := fun ip => map (fun wt => entry cf v ip (fst wt) (snd wt)) (combine pw tw)).
    rewrite (nth_indep _ [] (f 0)) by (rewrite map_length; lia).
    rewrite map_nth. reflexivity. }
  rewrite <- Lm. subst tw. rewrite (table_cost_onehot _ ki kw (length pw)); try lia.
  - rewrite Row.
    set (g := fun wt : Q * Q => entry cf v (nth ki pin 0) (fst wt) (snd wt)).
    rewrite (nth_indep _ 0 (g (0, 0))) by (rewrite map_length, combine_length; lia).
    rewrite map_nth. unfold g. rewrite combine_nth by lia. simpl. rewrite nth_onehotQ by lia. reflexivity.
  - rewrite Row. rewrite map_length, combine_length. lia.
Qed.

(* ------------------------------------------------------------------ exact bit costs, per-layer search *)
Definition weights_of (t : ltype) (kh kw ein eout : Q) : Q :=
  match t with LConv => kh * kw * ein * eout | LDw => kh * kw * eout | LLin => ein * eout end.
Definition macs_of (t : ltype) (kh kw oh ow ein eout : Q) : Q :=
  match t with LConv => kh * kw * ein * eout * oh * ow | LDw => kh * kw * eout * oh * ow | LLin => ein * eout end.

Lemma entry_params : forall t cin cout kh kw oh ow ein eout ip wp tw,
  entry (params_bit t) (modified_vars true t (static_vars t cin cout kh kw oh ow) ein eout) ip wp tw
  == weights_of t kh kw ein eout * wp.
Proof. intros. destruct t; unfold entry, params_bit, modified_vars, static_vars, upd, getk, weights_of; simpl; ring. Qed.
Lemma entry_ops : forall t cin cout kh kw oh ow ein eout ip wp tw,
  entry (ops_bit t) (modified_vars true t (static_vars t cin cout kh kw oh ow) ein eout) ip wp tw
  == macs_of t kh kw oh ow ein eout * wp * ip.
Proof. intros. destruct t; unfold entry, ops_bit, modified_vars, static_vars, upd, getk, macs_of; simpl; ring. Qed.

Theorem params_bit_exact : forall t cin cout kh kw oh ow ein eout pin pw ki kw', (ki < length pin)%nat -> (kw' < length pw)%nat ->
  layer_cost (params_bit t) (modified_vars true t (static_vars t cin cout kh kw oh ow) ein eout)
             pin (onehotQ ki (length pin)) pw (onehotQ kw' (length pw))
  == weights_of t kh kw ein eout * nth kw' pw 0.
Proof. intros. rewrite mps_cost_onehot by assumption. apply entry_params. Qed.

Theorem ops_bit_exact : forall t cin cout kh kw oh ow ein eout pin pw ki kw', (ki < length pin)%nat -> (kw' < length pw)%nat ->
  layer_cost (ops_bit t) (modified_vars true t (static_vars t cin cout kh kw oh ow) ein eout)
             pin (onehotQ ki (length pin)) pw (onehotQ kw' (length pw))
  == macs_of t kh kw oh ow ein eout * nth kw' pw 0 * nth ki pin 0.
Proof. intros. rewrite mps_cost_onehot by assumption. apply entry_ops. Qed.

(* ------------------------------------------------------------------ spec keys *)
Theorem spec_keys_by_type : forall t st ein eout,
  lookup (in_key t) (modified_vars true t st ein eout) = Some ein /\
  lookup (out_key t) (modified_vars true t st ein eout) = Some eout.
Proof. intros. destruct t; split; reflexivity. Qed.

(* unchanged MPSLinear.get_modified_vars: the Linear cost function still sees the static in_features *)
Theorem spec_keys_linear_refuted : exists st ein eout,
  lookup (in_key LLin) (modified_vars false LLin st ein eout) <> Some ein /\
  lookup (out_key LLin) (modified_vars false LLin st ein eout) <> Some eout.
Proof. exists (static_vars LLin 8 4 1 1 1 1), 5, 3. split; vm_compute; discriminate. Qed.
Theorem spec_keys_conv_any : forall fixed t st ein eout, t <> LLin ->
  lookup (in_key t) (modified_vars fixed t st ein eout) = Some ein /\
  lookup (out_key t) (modified_vars fixed t st ein eout) = Some eout.
Proof. intros. destruct t; try congruence; destruct fixed; split; reflexivity. Qed.

(* pruning channels of the producer (smaller effective input features) lowers the consumer's cost,
   whatever its type (depthwise layers do not read the input count: their own channels follow) *)
Theorem producer_pruning_lowers_consumer : forall t cin cout kh kw oh ow ein ein' eout ip wp tw, t <> LDw ->
  0 < kh -> 0 < kw -> 0 < oh -> 0 < ow -> 0 < eout -> 0 < wp -> 0 < ip -> ein' < ein ->
  entry (params_bit t) (modified_vars true t (static_vars t cin cout kh kw oh ow) ein' eout) ip wp tw
  < entry (params_bit t) (modified_vars true t (static_vars t cin cout kh kw oh ow) ein eout) ip wp tw /\
  entry (ops_bit t) (modified_vars true t (static_vars t cin cout kh kw oh ow) ein' eout) ip wp tw
  < entry (ops_bit t) (modified_vars true t (static_vars t cin cout kh kw oh ow) ein eout) ip wp tw.
Proof.
  intros t cin cout kh kw oh ow ein ein' eout ip wp tw Ht Hkh Hkw Hoh How Heo Hwp Hip Hlt.
  rewrite !entry_params, !entry_ops.
  assert (D : 0 < ein - ein') by lra.
  destruct t; try congruence; unfold weights_of, macs_of.
  - assert (P1 : 0 < kh * kw * eout * wp) by (repeat apply Qmult_lt_0_compat; assumption).
    assert (P2 : 0 < kh * kw * eout * oh * ow * wp * ip) by (repeat apply Qmult_lt_0_compat; assumption).
    pose proof (Qmult_lt_0_compat _ _ P1 D). pose proof (Qmult_lt_0_compat _ _ P2 D). split; lra.
  - assert (P1 : 0 < eout * wp) by (repeat apply Qmult_lt_0_compat; assumption).
    assert (P2 : 0 < eout * wp * ip) by (repeat apply Qmult_lt_0_compat; assumption).
    pose proof (Qmult_lt_0_compat _ _ P1 D). pose proof (Qmult_lt_0_compat _ _ P2 D). split; lra.
Qed.

(* unchanged tree: the cost of a Linear consumer does not move when its producer is pruned *)
Theorem producer_pruning_linear_refuted : exists cin cout ein ein' eout ip wp tw,
  ein' < ein /\
  entry (params_bit LLin) (modified_vars false LLin (static_vars LLin cin cout 1 1 1 1) ein' eout) ip wp tw
  == entry (params_bit LLin) (modified_vars false LLin (static_vars LLin cin cout 1 1 1 1) ein eout) ip wp tw.
Proof. exists 8, 4, 8, 5, 4, 8, 4, 1. split; vm_compute; reflexivity. Qed.

(* ------------------------------------------------------------------ per-channel weight search *)
Lemma dot_scale : forall (K C : Q) pw ns, ~ C == 0 ->
  qsum (map (fun et => 1 * snd et * fst et) (combine (map (fun wt => K * fst wt) (combine pw (map (fun n => n / C) ns))) (map (fun n => n / C) ns)))
  == K / C * dot ns pw.
Proof.
  intros K C pw ns HC. revert ns. induction pw as [|p r IH]; intros ns; simpl.
  - unfold dot. destruct ns; simpl; field; exact HC.
  - destruct ns as [|n ns]; simpl.
    + unfold dot. simpl. field; exact HC.
    + rewrite IH. unfold dot. simpl. field. exact HC.
Qed.

Lemma qsum_combine_ext : forall l1 l2, Forall2 Qeq l1 l2 -> forall tws,
  qsum (map (fun et => 1 * snd et * fst et) (combine l1 tws)) == qsum (map (fun et => 1 * snd et * fst et) (combine l2 tws)).
Proof. induction 1; intros; simpl; [reflexivity|]. destruct tws; simpl; [reflexivity|]. rewrite H, IHForall2. reflexivity. Qed.

(* what the code computes for a conv layer in eval / hard mode with per-channel weight selection:
   ns_j = number of channels that selected precision j (row sums of the one-hot matrix) *)
Theorem perchannel_cost_formula : forall cin cout kh kw oh ow ein eout C pin pw ns ki, (ki < length pin)%nat -> ~ C == 0 ->
  layer_cost (params_bit LConv) (modified_vars true LConv (static_vars LConv cin cout kh kw oh ow) ein eout)
             pin (onehotQ ki (length pin)) pw (map (fun n => n / C) ns)
  == eout / C * (kh * kw * ein * dot ns pw).
Proof.
  intros cin cout kh kw oh ow ein eout C pin pw ns ki Hi HC. unfold layer_cost, table_cost.
  set (tw := map (fun n => n / C) ns).
  set (h := fun (row : list Q) (ti : Q) => qsum (map (fun et => ti * snd et * fst et) (combine row tw))).
  set (m := cost_matrix _ _ pin pw tw).
  assert (Lm : length m = length pin) by (unfold m, cost_matrix; apply map_length).
  change (qsum (map (fun rt => h (fst rt) (snd rt)) (combine m (onehotQ ki (length pin)))) == eout / C * (kh * kw * ein * dot ns pw)).
  rewrite <- Lm. rewrite (qsum_onehot _ h []) by (try lia; intros x; unfold h; apply qsum_map_zero; intros; ring).
  unfold m, cost_matrix.
  set (f := fun ip => map (fun wt => entry (params_bit LConv) (modified_vars true LConv (static_vars LConv cin cout kh kw oh ow) ein eout) ip (fst wt) (snd wt)) (combine pw tw)).
  rewrite (nth_indep _ [] (f 0)) by (rewrite map_length; lia).
  rewrite map_nth. unfold f, h.
  transitivity (qsum (map (fun et => 1 * snd et * fst et) (combine (map (fun wt => (kh * kw * ein * eout) * fst wt) (combine pw tw)) tw))).
  - (* entries in closed form *)
    assert (E : forall l, Forall2 Qeq
        (map (fun wt => entry (params_bit LConv) (modified_vars true LConv (static_vars LConv cin cout kh kw oh ow) ein eout) (nth ki pin 0) (fst wt) (snd wt)) l)
        (map (fun wt => (kh * kw * ein * eout) * fst wt) l)).
    { induction l; cbn [map]; constructor; try assumption. rewrite entry_params; unfold weights_of; ring. }
    apply qsum_combine_ext. apply E.
  - subst tw. rewrite dot_scale by exact HC. field. exact HC.
Qed.

(* without the 0-bit row the effective output features are all C channels: exact bit cost *)
Corollary perchannel_exact_nozero : forall cin cout kh kw oh ow ein C pin pw ns ki, (ki < length pin)%nat -> ~ C == 0 ->
  layer_cost (params_bit LConv) (modified_vars true LConv (static_vars LConv cin cout kh kw oh ow) ein C)
             pin (onehotQ ki (length pin)) pw (map (fun n => n / C) ns)
  == kh * kw * ein * dot ns pw.
Proof. intros. rewrite perchannel_cost_formula by assumption. field. assumption. Qed.

(* with the 0-bit row: n0 pruned channels => the code returns the exact cost scaled by (C - n0)/C *)
Corollary perchannel_zero_scaled : forall cin cout kh kw oh ow ein C n0 pin pw ns ki, (ki < length pin)%nat -> ~ C == 0 ->
  layer_cost (params_bit LConv) (modified_vars true LConv (static_vars LConv cin cout kh kw oh ow) ein (C - n0))
             pin (onehotQ ki (length pin)) pw (map (fun n => n / C) ns)
  == (C - n0) / C * (kh * kw * ein * dot ns pw).
Proof. intros. apply perchannel_cost_formula; assumption. Qed.

Theorem perchannel_zero_refuted : exists cin cout kh kw ein C n0 pin pw ns ki,
  (ki < length pin)%nat /\ nth 0 pw 1 == 0 /\ nth 0 ns 0 == n0 /\ qsum ns == C /\
  ~ layer_cost (params_bit LConv) (modified_vars true LConv (static_vars LConv cin cout kh kw 1 1) ein (C - n0))
             pin (onehotQ ki (length pin)) pw (map (fun n => n / C) ns)
    == kh * kw * ein * dot ns pw.
Proof.
  exists 3, 8, 3, 3, 3, 8, 4, [8], [0; 2; 8], [4; 1; 3], 0%nat.
  repeat split; try (vm_compute; reflexivity); try (simpl; lia).
  vm_compute. discriminate.
Qed.
