"""C02 — MPS export is bit-identical to the eval-mode mixed-precision model (DESIGN.md §C10/C02/C05).

Theorems: coq/Props/C02.v over coq/Model/MpsNet.v (one-hot mixtures, network-level export soundness over
abstract tensors, sharing partition / input-quantizer wiring by induction over the node list).

Cases: grammar networks (vlib/mps_gen.py; Conv2d, 1 in 5 Conv1d) x activation / weight precision tuples from {2,4,8} (1..3
candidates, any order) x random coefficients with arg-max margin >= 0.05 x temperature in [0.05,20] x
gumbel / hard / disable_shared_quantizers flags x optional training-mode forward before eval.
Oracle (implementation only): torch.equal(MPS.eval()(x), MPS.export().eval()(x)) on the first pass AND on 2-3 further passes through
the same exported model (same batch again, new batches of other sizes, eval()->train()->eval() toggles in between); every exported Quant*
layer carries the precisions summary() reports; input precision of every exported layer = output precision
of the exported layer that produced the tensor it consumes (walk over the exported fx graph).
Correspondence: Model/MpsNet.v `run_wiring` (which quantizer object every layer holds as input / output /
weight quantizer: partition compared with object identities of the implementation, incl. the un-quantized
output group) and `run_summary` (arg-max precisions from the raw coefficients) evaluated in Coq.
"""
import os, glob, json, math
from concurrent.futures import ProcessPoolExecutor
import multiprocessing as mp
from .common import *
from . import mps_gen as G
from . import c02_gen
from .c02_gen import regenerate      # setup.sh regenerates Gen/MpsNetGen.v (and the Gen files it imports) through this name

PRECS = [2, 4, 8]
# qinfo without 'input_default' + depthwise conv / add fed by the raw network input: on /repo the consumer keeps a Dummy input
# quantizer (register_in_mps_quantizers returns early when input_features_set_by is the placeholder) -> in_precision -1 vs producer
# out_precision; repaired by the proposed commit on branch wp/C02-r8; set to True once that is merged
ALLOW_NOINQ_REQUANT = True


def gen_case(rng, idx, first=None):
    ru = rng.random() < 0.15        # one conv / linear module invoked twice (same or other resolution)
    noinq = rng.random() < 0.12     # qinfo without 'input_default': the network input is not quantized
    linfirst = noinq and rng.random() < 0.6      # ... and a Linear is the first searchable layer
    while True:
        nodes = G.gen_spec(rng, first='reuse2' if (ru and rng.random() < 0.7) else first, dim=1 if rng.random() < 0.2 else 2,
                           padmodes=True, reuse=ru and not noinq, evenk=True, linfirst=linfirst)     # 1 in 5: Conv1d network
        # without input quantizer: not combined with a layer invoked twice; a depthwise conv / add in the network-input group is
        # generated only once the repair of register_in_mps_quantizers covers it (see ALLOW_NOINQ_REQUANT)
        if noinq and (G.has_reuse(nodes) or (G.input_group_requantized(nodes) and not ALLOW_NOINQ_REQUANT)):
            first = None
            continue
        break
    if rng.random() < 0.6:        # biased depthwise / residual pairs (shared weight quantizer) must occur often
        for nd in nodes:
            if nd['k'] in ('conv', 'dw'):
                nd['bias'] = True
    r = rng.random()
    T = 0.05 if r < 0.12 else 20.0 if r < 0.24 else round(math.exp(rng.uniform(math.log(0.05), math.log(20))), 4)
    if linfirst:
        for nd in nodes:
            if nd['k'] == 'lin':
                nd['bias'] = True
    cand = G.qlayer_candidates(nodes)
    qlayers = sorted(rng.sample(cand, min(len(cand), rng.randint(1, 2)))) if (cand and rng.random() < 0.4) else []
    return {'nodes': nodes, 'noinq': noinq, 'qlayers': qlayers, 'tinybn': rng.random() < 0.15,
            'seed': rng.randrange(1 << 30), 'aseed': rng.randrange(1 << 30),
            'ap': rng.sample(PRECS, rng.randint(1, 3)), 'wp': rng.sample(PRECS, rng.randint(1, 3)),
            'T': T, 'gumbel': rng.random() < 0.4, 'hard': rng.random() < 0.3, 'dsq': rng.random() < 0.25,
            'pretrain': rng.random() < 0.25, 'adversarial': True, 'idx': idx,
            # when summary() / export() are called: after an eval forward (default); right after TRAINING-mode forwards with
            # Gumbel sampling (the sampled coefficients are noisy); after the coefficients were changed with no forward since
            'seq': rng.choice(['eval', 'eval', 'gumbel-train', 'alpha-update', 'as-returned', 'as-returned']),
            # mode of the float model handed to MPS(): every sub-module of the wrapper must come back in that mode.  'as-returned':
            # handed in in eval mode and used exactly as MPS() returns it (no .eval()/.train() call before the comparison)
            'handin': rng.choice(['eval', 'eval', 'train']),
            # learned quantizer parameters (PACT clip values) moved away from their initial value before summary()/export()
            'clip': rng.choice([None, 'copy_', 'copy_', 'sgd']),
            # export() called again (1-2 more times) on the same MPS object after coefficient / weight changes written in several ways
            'rounds': [{'what': rng.choice(['alpha', 'alpha', 'weight', 'both']), 'fwd': rng.random() < 0.4,
                        'how': rng.choice(['copy_', 'data=', 'data.copy_', 'data[i]=', 'optimizer', 'load_state_dict'])} for _ in range(rng.choice([0, 0, 1, 1, 2]))],
            # 1 in 3: the model under test is a deepcopy / pickle round trip of the MPS model taken right after construction,
            # in training mode, or after a coefficient change without forward; its coefficients are changed afterwards
            'copy': ({'at': rng.choice(['construct', 'train', 'after-alpha']), 'how': rng.choice(['deepcopy', 'deepcopy', 'pickle'])} if rng.random() < 0.34 else None),
            # successive passes through the SAME exported model after the first one: same batch again / a new batch
            # (other batch size) / eval()->train()->eval() toggle of both models
            'passes': rng.choice([['same', 'new'], ['new', 'same'], ['same', 'toggle', 'same', 'new'], ['new', 'toggle', 'new'], ['same', 'same', 'new']])}


def _producer(gm, n, attr):
    """nearest call_module node upstream of n (first inputs) whose module has `attr`"""
    cur = n
    while True:
        ins = cur.all_input_nodes
        if not ins:
            return None
        cur = ins[0]
        if cur.op == 'call_module' and hasattr(gm.get_submodule(str(cur.target)), attr):
            return cur


def run_case(c):
    """implementation side of one case; returns JSON-able observations"""
    import random
    torch = setup_torch()
    obs = {'exc': None}
    stage = 'build'
    try:
        from plinio.methods import MPS
        from plinio.methods.mps import MPSType, get_default_qinfo
        from plinio.methods.mps.nn.qtz import MPSPerLayerQtz
        nodes = c['nodes']
        m = G.build(nodes, c['seed'])
        if c.get('tinybn'):           # BatchNorm with huge running variance: the folded weights (and the bias scale s_in * s_w) get tiny
            import torch.nn as nn_
            with torch.no_grad():
                for k_, md_ in enumerate(md for md in m.modules() if isinstance(md, (nn_.BatchNorm1d, nn_.BatchNorm2d))):
                    if k_ % 2 == 0:
                        md_.running_var.fill_(10.0 ** (8 + (c['seed'] + k_) % 3))
        ishape = G.input_shape(nodes)
        stage = 'convert'
        handin_train = c.get('handin') == 'train' and c.get('seq') != 'as-returned'
        m.train(handin_train)
        p = MPS(m, input_shape=ishape, qinfo=G.make_qinfo(nodes, c['wp'], c['ap'], c.get('qlayers', ()), not c.get('noinq')),
                temperature=c['T'], gumbel_softmax=c['gumbel'], hard_softmax=c['hard'],
                disable_shared_quantizers=c['dsq'])
        obs['mode_mismatch'] = sorted(n_ or '<root>' for n_, md_ in p.named_modules() if md_.training != handin_train)[:8]
        rng = random.Random(c['aseed'])
        cp = c.get('copy') if c.get('seq') != 'as-returned' else None
        orig = orig_state = None
        if cp:
            # snapshot of the MPS model (copy.deepcopy / pickle round trip) taken when its sampled coefficients are NOT
            # the one-hot of the coefficients the copy is evaluated with; everything below runs on the COPY
            import copy as _copy, pickle as _pickle
            stage = 'copy'
            x0 = torch.rand((2,) + ishape, generator=torch.Generator().manual_seed(c['seed'] ^ 0x77)) * 1.3 - 0.1
            if cp['at'] == 'train':
                G.set_alphas(rng, p)
                p.train()
                with torch.no_grad():
                    p(x0)
            elif cp['at'] == 'after-alpha':
                p.eval()
                with torch.no_grad():
                    p(x0)
                G.set_alphas(rng, p)
            orig = p
            if cp['how'] == 'pickle':
                try:
                    p = _pickle.loads(_pickle.dumps(orig))
                except Exception as ex_:        # not picklable (fx graph module / lambdas): observation, fall back
                    obs['pickle'] = 'EXC:' + type(ex_).__name__
                    p = _copy.deepcopy(orig)
            else:
                p = _copy.deepcopy(orig)
            orig_state = {k: v.clone() for k, v in orig.state_dict().items()}
            stage = 'convert'
        G.set_alphas(rng, p)            # (the copy's coefficients change after the copy was taken)
        # quantizer parameters as after some training: every learned clip value (PACT) moved away from its initial value
        cl = c.get('clip')
        if cl:
            crng = random.Random(c['aseed'] ^ 0xc11b)
            clips = [(n_, q_) for n_, q_ in p.named_parameters() if n_.endswith('clip_val')]
            seen_c = set()
            clips = [(n_, q_) for n_, q_ in clips if not (id(q_) in seen_c or seen_c.add(id(q_)))]
            if not clips:
                cl = 'copy_'
            tgt = [torch.full_like(q_, round(crng.uniform(0.5, 10.0), 3)) for _, q_ in clips]
            if cl == 'sgd':
                opt = torch.optim.SGD([q_ for _, q_ in clips], lr=0.5)
                for _ in range(2):          # two optimizer steps that together reach the target
                    opt.zero_grad()
                    for (_, q_), t_ in zip(clips, tgt):
                        q_.grad = (q_.detach() - t_)
                    opt.step()
                for (_, q_), t_ in zip(clips, tgt):
                    q_.data.copy_(t_)
            else:
                with torch.no_grad():
                    for (_, q_), t_ in zip(clips, tgt):
                        q_.copy_(t_)
            obs['clips_set'] = len(clips)
        L = G.mps_layers(nodes, p)
        seed = p.seed
        name2node = {str(n.target): n for n in seed.graph.nodes if n.op == 'call_module'}
        # adversarial coefficients: where a layer's input quantizer is not the object that quantized the
        # tensor it consumes, make the two select different precisions (any coefficient value is legal)
        if c.get('adversarial') and len(c['ap']) >= 2:
            with torch.no_grad():
                for i, (name, mod) in L.items():
                    pn = _producer(seed, name2node[name], 'out_mps_quantizer')
                    if pn is None or nodes[i]['k'] == 'in':
                        continue
                    pq = seed.get_submodule(str(pn.target)).out_mps_quantizer
                    if mod.in_mps_quantizer is not pq and len(pq.alpha) >= 2 and len(mod.in_mps_quantizer.alpha) >= 2:
                        a = torch.full_like(pq.alpha, -1.0)
                        a[0] = 1.0
                        pq.alpha.copy_(a)
                        b = torch.full_like(mod.in_mps_quantizer.alpha, -1.0)
                        b[1] = 1.0
                        mod.in_mps_quantizer.alpha.copy_(b)
        g = torch.Generator().manual_seed(c['seed'] ^ 0x5bd1)
        x = torch.rand((2,) + ishape, generator=g) * 1.3 - 0.1
        stage = 'forward'
        seq = c.get('seq', 'eval')
        if seq == 'gumbel-train':
            p.update_softmax_options(gumbel=True, hard=c['hard'])
            p.train()
            torch.manual_seed(c['aseed'])
            with torch.no_grad():
                p(x)
                p(x)
        elif seq == 'as-returned':
            pass            # no mode call at all: the wrapper is used as MPS() returned it
        else:
            if c['pretrain']:
                p.train()
                with torch.no_grad():
                    p(x)
            p.eval()
            with torch.no_grad():
                p(x)
            if seq == 'alpha-update':          # e.g. optimizer step / load_state_dict: no forward pass afterwards
                G.set_alphas(random.Random(c['aseed'] ^ 0x2a2a), p)
        stage = 'summary'
        summ = p.summary()
        stage = 'export'
        e = p.export()
        if seq != 'as-returned':
            p.eval()
        with torch.no_grad():
            y = p(x)
        stage = 'export-forward'
        e.eval()
        with torch.no_grad():
            ye = e(x)
        # the MPS model itself must be unaffected by export (second forward)
        with torch.no_grad():
            y2 = p(x)
        # further passes through the same two models: every one must be bit-identical again
        stage = 'repeated-forward'
        later = []
        for k_, what in enumerate(c.get('passes', ['same', 'new'])):
            if what == 'toggle':
                e.train(); e.eval()
                p.train(); p.eval()
                continue
            xk = x if what == 'same' else torch.rand((1 + (c['seed'] + k_) % 3,) + ishape, generator=g) * 1.3 - 0.1
            with torch.no_grad():
                yek = e(xk)
                yk = p(xk)
            later.append({'pass': k_ + 2, 'input': what, 'equal': bool(torch.equal(yk, yek)), 'maxdiff': float((yk - yek).abs().max()),
                          'same_as_first': bool(torch.equal(yk, y)) if what == 'same' else None})
        obs['later'] = later
        if orig is not None:
            st2 = orig.state_dict()
            obs['orig_changed'] = sorted(k for k, v in orig_state.items() if not torch.equal(v, st2[k]))[:6]
            obs['copy_shares_params'] = any(a is b for a, b in zip(orig.parameters(), p.parameters()))
        obs['equal'] = bool(torch.equal(y, ye))
        obs['finite'] = bool(torch.isfinite(y).all())
        obs['maxdiff'] = float((y - ye).abs().max()) if y.shape == ye.shape else -1.0
        obs['stable'] = bool(torch.equal(y, y2))
        obs['y0'] = [float(v) for v in y.flatten()[:4]]
        stage = 'observe'
        # quantizer objects -> small ids; alphas / precision tuples per object
        ids = {}

        def qid_(q):
            if q is None or not isinstance(q, MPSPerLayerQtz):
                return None
            return ids.setdefault(id(q), len(ids))
        qinfo = {}
        layers = {}
        for i, (name, mod) in sorted(L.items()):
            ent = {'name': name, 'type': type(mod).__name__, 'kind': nodes[i]['k']}
            for slot, attr in (('out', 'out_mps_quantizer'), ('in', 'in_mps_quantizer'), ('w', 'w_mps_quantizer')):
                q = getattr(mod, attr, None)
                k = qid_(q)
                ent[slot] = k
                if k is not None and k not in qinfo:
                    am = int(torch.argmax(q.alpha))
                    th = [float(v) for v in q.theta_alpha]
                    qinfo[k] = {'alpha': [float(v) for v in q.alpha], 'prec': [int(v) for v in q.precision],
                                'theta_onehot_at_argmax': th == [1.0 if j == am else 0.0 for j in range(len(th))],
                                'dummy': type(q.qtz_funcs[0]).__name__ == 'DummyQuantizer'}
            ent['summary'] = {k: v for k, v in summ.get(name, {}).items() if k != 'type'}
            ex = e.get_submodule(name)
            ent['etype'] = type(ex).__name__
            ep, same = {}, {}
            for slot, eattr, mattr in (('in', 'in_quantizer', 'in_mps_quantizer'), ('out', 'out_quantizer', 'out_mps_quantizer'), ('w', 'w_quantizer', 'w_mps_quantizer')):
                if hasattr(ex, eattr) and hasattr(mod, mattr):
                    eq = getattr(ex, eattr)
                    ep[slot] = int(eq.precision)
                    mq = getattr(mod, mattr)
                    same[slot] = eq is mq.qtz_funcs[int(torch.argmax(mq.alpha))]
            ent['exported'] = ep
            ent['reused'] = same
            layers[i] = ent
        # exported graph: input precision of a layer vs output precision of the producer of its tensor
        prod = {}
        ename2node = {str(n.target): n for n in e.graph.nodes if n.op == 'call_module'}
        for i, ent in layers.items():
            ex = e.get_submodule(ent['name'])
            if hasattr(ex, 'in_quantizer'):
                pn = _producer(e, ename2node[ent['name']], 'out_quantizer')
                if pn is not None:
                    pm = e.get_submodule(str(pn.target))
                    prod[i] = {'producer': str(pn.target), 'producer_out': int(pm.out_quantizer.precision),
                               'in': int(ex.in_quantizer.precision), 'same_object': ex.in_quantizer is pm.out_quantizer}
        obs.update(layers={str(k): v for k, v in layers.items()}, quantizers={str(k): v for k, v in qinfo.items()},
                   producer={str(k): v for k, v in prod.items()}, n_summary=len(summ))
        # export() again on the SAME MPS object after the coefficients / weights were changed, written in several ways;
        # each export must equal the eval-mode model and summary() at that moment
        rounds = []
        for k_, rd in enumerate([] if G.has_reuse(nodes) else c.get('rounds', [])):
            stage = 'round-%d-change' % (k_ + 1)
            # (targets are computed without touching any parameter)
            tg = G.alpha_targets(random.Random(c['aseed'] + 7919 * (k_ + 1)), p)
            params = [(n_, q_) for n_, q_, _ in tg]
            targets = [t_ for _, _, t_ in tg]
            todo = []
            if rd['what'] in ('alpha', 'both'):
                todo += list(zip(params, targets))
            if rd['what'] in ('weight', 'both'):
                wl = [(nm + '.weight', md.weight) for i_, (nm, md) in sorted(L.items()) if hasattr(md, 'weight')]
                wn, wp_ = wl[(c['aseed'] + k_) % len(wl)]
                todo.append((('seed.' + wn, wp_), wp_.detach() * 1.5 + 0.01))
            how = rd['how']
            if how == 'load_state_dict':
                sd = p.state_dict()
                for (n_, q_), t_ in todo:
                    key_ = [kk for kk, vv in sd.items() if vv.data_ptr() == q_.data_ptr() and vv.shape == q_.shape][0]
                    sd[key_] = t_.clone()
                p.load_state_dict(sd)
            elif how == 'optimizer':
                opt = torch.optim.SGD([q_ for (_, q_), _ in todo], lr=1.0)
                opt.zero_grad()
                for (_, q_), t_ in todo:
                    q_.grad = (q_.detach() - t_)
                opt.step()
            else:
                for (_, q_), t_ in todo:
                    if how == 'copy_':
                        with torch.no_grad():
                            q_.copy_(t_)
                    elif how == 'data=':
                        q_.data = t_.clone()
                    elif how == 'data.copy_':
                        q_.data.copy_(t_)
                    elif how == 'data[i]=':
                        flat_t = t_.reshape(-1)
                        for j_ in range(flat_t.numel()):
                            q_.data.view(-1)[j_] = flat_t[j_]
            if rd.get('fwd'):
                p.eval()
                with torch.no_grad():
                    p(x)
            stage = 'round-%d-export' % (k_ + 1)
            s2 = p.summary()
            e2 = p.export()
            p.eval()
            e2.eval()
            with torch.no_grad():
                y_ = p(x)
                ye_ = e2(x)
            bad = []
            for i_, (nm, md) in sorted(L.items()):
                ex_ = e2.get_submodule(nm)
                for slot, eattr, key in (('in', 'in_quantizer', 'in_precision'), ('out', 'out_quantizer', 'out_precision'), ('w', 'w_quantizer', 'w_precision')):
                    if key in s2.get(nm, {}) and hasattr(ex_, eattr):
                        mq = getattr(md, eattr.replace('_quantizer', '_mps_quantizer'))
                        am = int(mq.precision[int(torch.argmax(mq.alpha))])
                        if int(getattr(ex_, eattr).precision) != s2[nm][key] or s2[nm][key] != am:
                            bad.append('%s %s: summary() %r, exported %r, arg-max alpha %r' % (nm, key, s2[nm][key], int(getattr(ex_, eattr).precision), am))
            rounds.append({'round': k_ + 1, 'what': rd['what'], 'how': how, 'fwd': bool(rd.get('fwd')), 'equal': bool(torch.equal(y_, ye_)),
                           'maxdiff': float((y_ - ye_).abs().max()), 'changed_output': not torch.equal(y_, y), 'bad': bad[:4], 'same_module_as_before': e2 is e})
        obs['rounds'] = rounds
    except Exception as ex:  # observation, not a crash
        import traceback
        obs['exc'] = 'EXC:%s:%s:%s' % (stage, type(ex).__name__, str(ex)[:200])
        obs['tb'] = traceback.format_exc()[-1500:]
    return obs


REUSE_KEY = 'eval-differs-from-export:first-forward-after-coefficient-change:layer-invoked-twice'


def oracle(c, o):
    """the sentences of the property on the implementation's observations -> list of (key, what)"""
    out = []
    if o['exc']:
        return [('mps-raises:' + o['exc'].split(':')[1], o['exc'])]
    if not o['finite']:
        return []       # outside the quantifier (non-finite activations); never produced by the generator
    if not o['equal']:
        out.append(('eval-differs-from-export', 'MPS.eval()(x) != MPS.export().eval()(x) (max abs diff %g)' % o['maxdiff']))
    for rd in o.get('rounds', []):
        desc = 'export() no. %d on the same MPS object after changing %s via %s%s' % (rd['round'] + 1, {'alpha': 'the selection coefficients', 'weight': 'a weight tensor', 'both': 'coefficients and a weight tensor'}[rd['what']], rd['how'], ' (+ forward)' if rd['fwd'] else '')
        if not rd['equal']:
            out.append(('eval-differs-from-export:re-export-after-change', '%s: MPS.eval()(x) != export()(x) (max abs diff %g)' % (desc, rd['maxdiff'])))
        if rd['bad']:
            out.append(('exported-precision-differs-from-summary:re-export-after-change', '%s: %s' % (desc, '; '.join(rd['bad']))))
    for lp in o.get('later', []):
        if not lp['equal']:
            out.append(('eval-differs-from-export:repeated-forward', 'forward pass no. %d through the same exported model (%s batch): MPS.eval()(x) != export(x) (max abs diff %g); the first pass was %s'
                        % (lp['pass'], lp['input'], lp['maxdiff'], 'identical' if o['equal'] else 'different too')))
            break
    for lp in o.get('later', []):
        if lp['same_as_first'] is False:
            out.append(('mps-eval-not-repeatable', 'MPS.eval()(x) on the same batch differs between pass 1 and pass %d' % lp['pass']))
            break
    if o.get('mode_mismatch'):
        out.append(('mps-wrapper-mode-differs-from-model-handed-in', 'float model handed to MPS() in %s mode, but these sub-modules of the wrapper have the other mode: %r'
                    % ('train' if (c.get('handin') == 'train' and c.get('seq') != 'as-returned') else 'eval', o['mode_mismatch'])))
    if o.get('orig_changed') or o.get('copy_shares_params'):
        out.append(('copy-of-mps-model-not-independent', 'working with a %s of the MPS model changed the original: %r (shared parameters: %r)'
                    % (c['copy']['how'], o.get('orig_changed'), o.get('copy_shares_params'))))
    if not o['stable']:
        out.append(('export-changes-the-mps-model', 'MPS.eval()(x) differs before / after export()'))
    nodes = c['nodes']
    if G.has_reuse(nodes) and (not o['equal'] or not o['stable'] or any(lp['same_as_first'] is False for lp in o.get('later', []))) \
            and o.get('later') and all(lp['equal'] for lp in o['later']):
        # one call site: a module invoked twice has ONE input quantizer (registered for its last call site; here its own output
        # quantizer), whose sampled coefficients are refreshed only at the end of the module's forward: the first forward after a
        # coefficient change quantizes the bias with the stale input scale; from the second forward on eval == export again
        out = [(k, w) for k, w in out if k not in ('eval-differs-from-export', 'export-changes-the-mps-model', 'mps-eval-not-repeatable')]
        out.append((REUSE_KEY, 'network with a layer invoked twice, summary()/export() %s%s: the FIRST eval forward differs from the exported model (max abs diff %g), every later pass is bit-identical'
                    % (c.get('seq', 'eval'), ', model = copy taken at ' + c['copy']['at'] if c.get('copy') else '', o['maxdiff'])))
    for i, ent in o['layers'].items():
        s, ep = ent['summary'], ent['exported']
        for slot, key in (('in', 'in_precision'), ('out', 'out_precision'), ('w', 'w_precision')):
            if key in s and slot in ep and s[key] != ep[slot]:
                out.append(('exported-precision-differs-from-summary:' + slot,
                            'layer %s: summary() %s=%r, exported %s precision %r' % (ent['name'], key, s[key], slot, ep[slot])))
            if key in s and slot not in ep and ent['etype'] != 'QuantList':
                out.append(('exported-layer-lacks-quantizer:' + slot, 'layer %s (%s)' % (ent['name'], ent['etype'])))
    name2i = {ent['name']: i for i, ent in o['layers'].items()}
    for i, ent in o['layers'].items():
        s = ent['summary']
        for slot, key in (('in', 'in_precision'), ('out', 'out_precision'), ('w', 'w_precision')):
            q = ent.get(slot)
            if key in s and q is not None:
                qi = o['quantizers'][str(q)]
                am = max(range(len(qi['alpha'])), key=lambda j: qi['alpha'][j])
                if s[key] != qi['prec'][am]:
                    out.append(('summary-differs-from-argmax-alpha:' + slot, 'layer %s: summary() %s=%r but the arg-max of its selection coefficients %r picks %r bits (summary()/export() called %s)'
                                % (ent['name'], key, s[key], qi['alpha'], qi['prec'][am], {'eval': 'after an eval forward', 'as-returned': 'on the wrapper as returned by MPS() for a model in eval mode', 'gumbel-train': 'right after training-mode Gumbel forwards', 'alpha-update': 'after a coefficient update, no forward since'}[c.get('seq', 'eval')])))
    for i, pr in o['producer'].items():
        pi = name2i.get(pr['producer'])
        if pi is not None and 'in_precision' in o['layers'][i]['summary'] and o['layers'][i]['summary']['in_precision'] != o['layers'][pi]['summary'].get('out_precision'):
            out.append(('summary-in-precision-differs-from-producer-out', 'summary(): layer %s in_precision=%r, its producer %s out_precision=%r'
                        % (o['layers'][i]['name'], o['layers'][i]['summary']['in_precision'], pr['producer'], o['layers'][pi]['summary'].get('out_precision'))))
    for i, pr in o['producer'].items():
        if pr['in'] != pr['producer_out']:
            # classify the call site: what lies between the layer and the features-defining producer
            chain = []
            j = nodes[int(i)]['src']
            while True:
                k = G.kind(G.resolve(nodes, nodes[j]))
                chain.append(k)
                if k in ('in', 'conv', 'lin'):
                    break
                j = nodes[j]['src'][0] if k == 'add' else nodes[j]['src']
            site = 'dw-or-add-on-network-input' if chain[-1] == 'in' and any(k in ('dw', 'add') for k in chain) else '-'.join(chain)
            out.append(('in-precision-differs-from-producer-out:' + site,
                        'layer %s: exported input precision %d but the tensor it consumes was quantized by %s at %d bits'
                        % (o['layers'][i]['name'], pr['in'], pr['producer'], pr['producer_out'])))
    return out


def model_exprs(c, fixed):
    return 'run_wiring %s %s %s' % (coq(fixed), coq(not c['dsq']), coq(G.coq_ir(c['nodes'])))


def compare_model(c, o, val, fixed):
    """partition of quantizer objects / out group / precision tuples: model vs implementation.
    returns (n comparisons, list of mismatch strings, map impl id -> model code)"""
    mism = []
    wfv, rows, outcls = val
    n = 0
    if wfv is not True:
        return 1, ['model says the generated network is not well-formed'], {}
    nodes = c['nodes']
    slots = []     # (node, slot, impl id or None, model code)
    for i, ent in o['layers'].items():
        i = int(i)
        mo, mi, mw = [tuple(t) for t in rows[i]]
        slots += [(i, 'out', ent['out'], mo), (i, 'in', ent['in'], mi), (i, 'w', ent['w'], mw)]
    mp_ = {}
    for a in range(len(slots)):
        ia, sa, qa, ma = slots[a]
        n += 1
        if ma[0] == 4:          # model: no shared object (fresh dummy / absent)
            if sa == 'w' and qa is not None:
                mism.append('node %d: implementation has a weight quantizer, model none' % ia)
            if sa == 'in' and qa is not None and any(qb == qa for (ib, sb, qb, mb) in slots if (ib, sb) != (ia, sa)):
                mism.append('node %d: input quantizer shared with another slot, model says a private dummy' % ia)
            if sa == 'in' and qa is not None and not o['quantizers'][str(qa)]['dummy']:
                mism.append('node %d: input quantizer is not the dummy' % ia)
            continue
        if qa is None:
            mism.append('node %d slot %s: model %r, implementation has no MPS quantizer' % (ia, sa, ma))
            continue
        mp_.setdefault(qa, ma)
        for b in range(a + 1, len(slots)):
            ib, sb, qb, mb = slots[b]
            if mb[0] == 4 or qb is None:
                continue
            n += 1
            if (qa == qb) != (ma == mb):
                mism.append('slots (%d,%s) / (%d,%s): same object in implementation %s, in model %s (%r vs %r)' % (ia, sa, ib, sb, qa == qb, ma == mb, ma, mb))
    # precision tuples: out-group dummy (-1), activations, weights (per-layer search)
    for q, code in mp_.items():
        n += 1
        exp = list(c['wp']) if code[0] in (2, 3) else ([-1] if (code[0] == 1 and code[1] == outcls) else list(c['ap']))
        if code[0] == 3 and code[1] in c.get('qlayers', []):      # own weight quantizer (disable_shared_quantizers): its own qinfo entry counts
            exp = G.qlayer_wp(c['nodes'], c['wp'], code[1])
        got = o['quantizers'][str(q)]['prec']
        if got != exp:
            mism.append('quantizer %r: precision tuple %r, model %r' % (code, got, exp))
    return n, mism[:5], mp_


def run(ctx):
    gen_rejected = c02_gen.regenerate(ctx)
    built = ctx.build()
    ctx.extra['generated_model'] = c02_gen.status(gen_rejected, built)
    ctx.rule = ('grammar networks of vlib/mps_gen.py (1..4 blocks of conv / conv-BN / depthwise / residual add of (x, conv x), of two convs, of a depthwise chain with its source / pooling, head pool-flatten-linear(-BN)-linear; '
                'depthwise / residual blocks forced first in half of the cases, all conv biases on in 60%) x precision tuples from {2,4,8} (1..3, any order) for activations and weights x random alpha with arg-max margin >= 0.05 '
                'x temperature in [0.05,20] (both ends forced) x gumbel/hard/disable_shared_quantizers/pre-training-forward flags x conv padding_mode {zeros, circular, reflect, replicate} with padding > 0, paddings int / same / valid, same-padding with even and mixed kernels (2, 4, (2,3), (3,2)) x dilation 1..3 (also inside residual adds) x model under test {the MPS model, a copy.deepcopy / pickle round trip of it taken after construction / in training mode / after a coefficient change, coefficients of the copy changed afterwards; original must stay untouched} x export() repeated 0-2 more times on the same object after coefficient / weight changes written via copy_, .data=, .data.copy_, .data[i]=, an optimizer step or load_state_dict x qinfo {default, + layer-specific entries named after depthwise layers / residual addends inside a sharing group, without input_default (network input not quantized; a biased Linear as first searchable layer in 60% of those)} x BatchNorm running_var 1e8..1e10 in 15% (tiny folded weights / bias scales) x learned PACT clip values {initial, moved to random values in [0.5,10] by copy_ / optimizer steps} x mode of the float model handed in {eval, train}: every sub-module must come back in that mode x moment of summary()+export() {on the wrapper exactly as returned for an eval-mode model (no .eval()/.train() call), after an eval forward, right after training-mode Gumbel forwards, after a coefficient update without forward} x schedule of 2-3 further forward passes (same / new batch, mode toggles) through the same exported model; where a layer input quantizer is not its producer output quantizer object the two are made to select different precisions. '
                'one case = one network with one coefficient assignment; distinct by (architecture, precisions, selected indices); non-trivial = at least two candidate precisions somewhere and at least 2 searchable layers')
    n = 260 if ctx.quick else 2600
    cases = []
    for f in sorted(glob.glob(os.path.join(VERIF, 'corpus', 'C02', '*.json'))):
        try:
            cc = json.load(open(f))
            cases.append(dict(cc.get('case', cc), corpus=os.path.basename(f)))
        except Exception:
            ctx.notes.append('unreadable corpus file ' + f)
    forced = ['dw', 'addin', 'dwres', 'res2', 'res']
    for i in range(n):
        cases.append(gen_case(ctx.rng, i, first=forced[i % 5] if i % 2 == 0 else None))
    with ProcessPoolExecutor(min(NPROC, 8), mp_context=mp.get_context('fork')) as ex:
        obs = list(ex.map(run_case, cases, chunksize=8))

    fixed_wiring = None   # which wiring model the tree under test follows is decided by the oracle below
    fails = []
    for c, o in zip(cases, obs):
        kinds = [nd['k'] for nd in c['nodes']]
        sel = tuple((k, tuple(v['alpha'])) for k, v in sorted(o.get('quantizers', {}).items()))
        key = (tuple(json.dumps(nd, sort_keys=True) for nd in c['nodes']), tuple(c['ap']), tuple(c['wp']), sel)
        nl = sum(1 for k in kinds if k in ('conv', 'dw', 'lin'))
        ctx.case(key, nontrivial=(len(c['ap']) > 1 or len(c['wp']) > 1) and nl >= 2,
                 kind='exc' if o['exc'] else 'ok',
                 sample={'nodes': kinds, 'ap': c['ap'], 'wp': c['wp'], 'T': c['T'], 'gumbel': c['gumbel'], 'equal': o.get('equal'), 'y0': o.get('y0')})
        for k in set(kinds):
            ctx.dist['node:' + k] += 1
        ctx.dist['nprec_a:%d' % len(c['ap'])] += 1
        ctx.dist['conv%dd' % c['nodes'][0].get('dim', 2)] += 1
        ctx.dist['seq:' + c.get('seq', 'eval')] += 1
        if c.get('noinq'):
            ctx.dist['no-input-quantizer' + (':linear-first' if c['nodes'][1]['k'] in ('flatten', 'pool') else '')] += 1
        if c.get('qlayers'):
            ctx.dist['layer-specific-qinfo-entries'] += 1
        if c.get('tinybn') and any(nd['k'] == 'bn' for nd in c['nodes']):
            ctx.dist['bn-with-running-var-1e8..1e10'] += 1
        ctx.dist['clip-values:%s' % (c.get('clip') or 'initial')] += 1
        if c.get('clip') and any(nd['k'] == 'add' for nd in c['nodes']):
            ctx.dist['moved-clip-values-with-residual-add'] += 1
        for rd in o.get('rounds', []):
            ctx.dist['re-export:%s:%s' % (rd['what'], rd['how'])] += 1
        for nd in c['nodes']:
            if nd['k'] in ('conv', 'dw') and nd.get('pad') == 'same' and (isinstance(nd['ks'], list) or nd['ks'] % 2 == 0):
                ctx.dist['same-padding-even-kernel:dil%d' % nd.get('dil', 1)] += 1
        if G.has_reuse(c['nodes']):
            ctx.dist['layer-invoked-twice'] += 1
        if c.get('copy'):
            ctx.dist['copy:%s:%s%s' % (c['copy']['at'], c['copy']['how'], ':not-picklable' if o.get('pickle') else '')] += 1
        for nd in c['nodes']:
            if nd['k'] in ('conv', 'dw') and G.pad_of(nd) > 0:
                ctx.dist['padding_mode:' + nd.get('pm', 'zeros')] += 1
            if nd['k'] in ('conv', 'dw') and isinstance(nd.get('pad'), str):
                ctx.dist['padding:' + nd['pad']] += 1
        ctx.dist['T:%s' % ('0.05' if c['T'] == 0.05 else '20' if c['T'] == 20 else 'mid')] += 1
        for fl in ('gumbel', 'hard', 'dsq', 'pretrain'):
            ctx.dist['%s:%s' % (fl, c[fl])] += 1
        for key_, what in oracle(c, o):
            fails.append((key_, what, c, o))
    for key_, what, c, o in fails:
        ctx.violation(key_, {'case': c, 'observed': {k: v for k, v in o.items() if k not in ('tb',)}, 'requires': 'eval == export bit-identically; exported precisions == summary(); input precision == producer output precision'}, what)
    def shared_biased_pairs(c, o):
        by = {}
        for i, ent in o.get('layers', {}).items():
            nd = c['nodes'][int(i)]
            fused_bn = any(m['k'] == 'bn' and m['src'] == int(i) for m in c['nodes']) and (nd['k'] == 'lin' or c['nodes'][0].get('dim', 2) == 2)
            if ent.get('w') is not None and (nd.get('bias') or fused_bn):
                by.setdefault(ent['w'], []).append(int(i))
        return sum(1 for v in by.values() if len(v) >= 2)
    ctx.extra['cases_with_biased_layers_sharing_a_weight_quantizer'] = sum(1 for c, o in zip(cases, obs) if shared_biased_pairs(c, o) > 0)
    ctx.extra['forward_passes_compared'] = sum(1 + len(o.get('later', [])) for o in obs if not o['exc'])
    ctx.extra['theta_checked'] = sum(len(o.get('quantizers', {})) for o in obs)
    ctx.extra['theta_not_onehot_at_argmax'] = sum(1 for o in obs for q in o.get('quantizers', {}).values() if not q['theta_onehot_at_argmax'])

    # ---------------- model in Coq
    mism = []
    model_ok = built
    if built:
        try:
            # (the wiring model has no notion of one module at two call sites: such networks are checked by the oracle only)
            good = [(c, o) for c, o in zip(cases, obs) if not o['exc'] and not G.has_reuse(c['nodes']) and not c.get('noinq')]    # (NIn of the IR = placeholder + input quantizer)
            # the tree follows the repaired wiring iff no producer mismatch was observed at object level
            old_sites = any(not pr['same_object'] for c, o in good for pr in o['producer'].values())
            fixed = not old_sites
            ctx.extra['wiring_model'] = 'repaired (data path)' if fixed else 'unchanged (features-defining producer)'
            ex = [model_exprs(c, fixed) for c, o in good]
            vals = ctx.coq_eval_sharded('cases', ['Plinio.Model.MpsNet'], '', ex, shard=200)
            sumex, sumidx = [], []
            for k, ((c, o), v) in enumerate(zip(good, vals)):
                nc, mm, mp_ = compare_model(c, o, v, fixed)
                ctx.corr += nc
                if mm:
                    mism.append((mm, c, o))
                    continue
                for i, ent in o['layers'].items():
                    for slot in ('in', 'out', 'w'):
                        if slot in ent['reused']:
                            ctx.corr += 1
                            if not ent['reused'][slot]:
                                mism.append((['layer %s: exported %s quantizer is not the selected trained quantizer object' % (ent['name'], slot)], c, o))
                al = [(tuple(Nat(t) for t in code), [Fraction(a) for a in o['quantizers'][str(q)]['alpha']]) for q, code in mp_.items()]
                pl = [(tuple(Nat(t) for t in code), o['quantizers'][str(q)]['prec']) for q, code in mp_.items()]
                sumex.append('run_summary %s %s %s %s %s' % (coq(fixed), coq(not c['dsq']), coq(G.coq_ir(c['nodes'])), coq(al), coq(pl)))
                sumidx.append(k)
            svals = ctx.coq_eval_sharded('summ', ['Plinio.Model.MpsNet'], '', sumex, shard=200)
            # the model GENERATED from the MPS layers / selectors / exported layers on this run, on the same cases
            gvals = ctx.coq_eval_sharded('gsumm', c02_gen.IMPORTS, '', c02_gen.gen_exprs(sumex, [good[k][0]['nodes'][0].get('dim', 2) == 1 for k in sumidx]), shard=200)
            ctx.corr += len(gvals)
            for mm, j in c02_gen.differences(sumex, svals, gvals):
                mism.append((mm, good[sumidx[j]][0], good[sumidx[j]][1]))
            for k, sv in zip(sumidx, svals):
                c, o = good[k]
                for i, ent in o['layers'].items():
                    mi, mo, mw = sv[int(i)]
                    s = ent['summary']
                    for key_, mv in (('in_precision', mi), ('out_precision', mo), ('w_precision', mw)):
                        if key_ in s:
                            ctx.corr += 1
                            if s[key_] != mv:
                                mism.append((['layer %s: summary() %s = %r, model %r' % (ent['name'], key_, s[key_], mv)], c, o))
        except RuntimeError as e:
            model_ok = False
            ctx.notes.append('model evaluation failed: ' + str(e)[-800:])
    ctx.extra['model_impl_mismatches'] = len(mism)
    ctx.assumptions += ['tensors are abstract in the theorems: 0*v=0, 1*v=v, 0+v=v, v+0=v are premises (IEEE floats: finite v, sign of zero ignored by torch.equal)',
                        'eval-mode coefficients = one-hot at arg-max alpha is a premise of C02_export_sound_argmax (property C10); observed on every quantizer of every case (theta_not_onehot_at_argmax)',
                        'disable_sampling=True is outside the quantifier (C10 finding) and never generated']

    if not ctx.violations:   # a printed KNOWN-FINDING must not hide a broken proof / model / correspondence
        if c02_gen.report(ctx, gen_rejected, built):
            pass
        elif not built:
            ctx.violation('proof-broken', {'theorems': [o_[0] for o_ in ctx.obligations if not o_[1]], 'log': getattr(ctx, 'broken_log', '')[-3000:]}, 'Props/C02.v no longer checks', no_input=True)
        elif not model_ok:
            ctx.violation('model-eval-broken', {'notes': ctx.notes}, 'the model could not be evaluated', no_input=True)
        elif mism:
            mm, c, o = mism[0]
            ctx.violation('correspondence-broken', {'what': mm, 'case': c, 'observed': {k: v for k, v in o.items() if k != 'tb'}, 'n_mismatches': len(mism), 'correspondence': 'Model/MpsNet.v run_wiring/run_summary vs plinio MPS wiring'},
                          'model and implementation disagree on %d cases (first: %s) but the property oracle found no failing input' % (len(mism), '; '.join(mm)[:600]), no_input=True)


def replay(r):
    c = r.get('case')
    if not c:
        print(json.dumps(r, indent=1)[:3000])
        print('no concrete input in this replay file (%s)' % r.get('key'))
        return 1
    o = run_case(c)
    print('network:', [nd['k'] for nd in c['nodes']])
    print('model under test:', ('%s of the MPS model taken at: %s' % (c['copy']['how'], c['copy']['at'])) if c.get('copy') else 'the MPS model itself')
    print('PACT clip values:', c.get('clip') or 'initial', '| input quantizer:', not c.get('noinq'), '| layer-specific qinfo entries for nodes', c.get('qlayers'), '| huge BN variance:', bool(c.get('tinybn')))
    print('summary()/export() called:', c.get('seq', 'eval'), '| padding modes:', sorted({nd.get('pm', 'zeros') for nd in c['nodes'] if nd['k'] in ('conv', 'dw')}))
    print('activation precisions', c['ap'], 'weight precisions', c['wp'], 'T', c['T'], 'gumbel', c['gumbel'], 'hard', c['hard'], 'disable_shared_quantizers', c['dsq'])
    print('property requires: MPS.eval()(x) == MPS.export().eval()(x) bit for bit; exported precisions == summary(); input precision of a layer == output precision of the producer of its input')
    if o['exc']:
        print('observed:', o['exc'])
        print(o.get('tb', ''))
    else:
        print('observed: equal=%s maxdiff=%g' % (o['equal'], o['maxdiff']))
        for i, ent in sorted(o['layers'].items(), key=lambda t: int(t[0])):
            print('  node %s %-28s summary %s exported %s producer %s' % (i, ent['name'], ent['summary'], ent['exported'], o['producer'].get(i)))
    fails = oracle(c, o)
    for k, w in fails:
        print('FAILS', k, '-', w)
    print('property holds on this input' if not fails else 'property violated on this input')
    return 0 if not fails else 1
