(* C18 — Export, summary and cost are observers: they do not change the model.
   Statements only (proofs: Proofs/Observers.v; model: Model/Observers.v).
   [step fixed c s o] is one call on a NAS wrapper (PIT / MPS / SuperNet, configuration [c]) in the
   abstract state [s]; [run] folds it over a history, [trace] collects the observations.  [veq] is
   equality of everything the property talks about (parameters, BatchNorm statistics, training flags of
   wrapper / seed / layers / the separately handled sub-set S of modules (frozen BatchNorm, Dropout, samplers;
   [OFlip] flips them), sampled coefficients, sampling options (disable_sampling / hard / gumbel / temperature, [OSetOpt]), requires_grad mode ([OSetTrain]), position of the random stream, cost specification);
   the only other component, [polluted] (shape keys that a cost call leaves in a plain layer's
   __dict__), influences no observation (C18_step_respects_visible).
   All statements quantify over every configuration, every state and every (unbounded) history. *)
From Coq Require Import ZArith List Bool String.
Import ListNotations.
Require Import Plinio.Model.Observers Plinio.Proofs.Observers.
Local Open Scope Z_scope.

Theorem C18_step_respects_visible : forall v c o s1 s2, veq s1 s2 ->
  veq (fst (step v c s1 o)) (fst (step v c s2 o)) /\ snd (step v c s1 o) = snd (step v c s2 o).
Proof. exact step_congr. Qed.

Theorem C18_observer_step_id : forall c s o, is_observer o = true -> veq (fst (step fixed c s o)) s.
Proof. exact observer_step_id. Qed.

Theorem C18_observers_preserve : forall c ops s, forallb is_observer ops = true -> veq (run fixed c s ops) s.
Proof. exact observers_preserve. Qed.

Theorem C18_later_observation_same : forall c ops s o, forallb is_observer ops = true ->
  snd (step fixed c (run fixed c s ops) o) = snd (step fixed c s o).
Proof. exact later_observation_same. Qed.

Theorem C18_continuation_same : forall c ops rest s, forallb is_observer ops = true ->
  trace fixed c (run fixed c s ops) rest = trace fixed c s rest
  /\ veq (run fixed c (run fixed c s ops) rest) (run fixed c s rest).
Proof. exact continuation_same. Qed.

(* arbitrary interleaving: the observers can be erased from any history *)
Theorem C18_erase_observers : forall c ops s,
  trace_mut fixed c s ops = trace fixed c s (erase ops) /\ veq (run fixed c s ops) (run fixed c s (erase ops)).
Proof. exact erase_observers. Qed.

(* instance: an observer between backward() and optimizer.step(), then eval() and an inference *)
Theorem C18_between_backward_and_step : forall c s o, is_observer o = true ->
  trace_mut fixed c s [OBackward; o; OStep; OSetMode false; OForward] = trace fixed c s [OBackward; OStep; OSetMode false; OForward]
  /\ veq (run fixed c s [OBackward; o; OStep; OSetMode false; OForward]) (run fixed c s [OBackward; OStep; OSetMode false; OForward]).
Proof. exact between_backward_and_step. Qed.

Theorem C18_set_spec_roundtrip : forall c s sp ops, forallb is_observer ops = true ->
  veq (run fixed c s (OSetSpec sp :: ops ++ [OSetSpec (spec s)])) s.
Proof. exact set_spec_roundtrip. Qed.

Theorem C18_set_spec_roundtrip_costs : forall c s sp ops o, forallb is_observer ops = true ->
  snd (step fixed c (run fixed c s (OSetSpec sp :: ops ++ [OSetSpec (spec s)])) o) = snd (step fixed c s o).
Proof. exact set_spec_roundtrip_costs. Qed.

Theorem C18_export_deterministic : forall v c s1 s2, veq s1 s2 ->
  snd (step v c s1 OExport) = snd (step v c s2 OExport).
Proof. exact export_deterministic. Qed.

Theorem C18_export_repeatable : forall c s ops, forallb is_observer ops = true ->
  snd (step fixed c (run fixed c s ops) OExport) = snd (step fixed c s OExport).
Proof. exact export_repeatable. Qed.

(* the pinned upstream revision (before the three repairs) violates the statement *)
Theorem C18_upstream_export_mode_refuted : exists c s,
  tr_wrap s = true /\ tr_seed s = true /\
  let s' := fst (step upstream c s OExport) in tr_wrap s' = true /\ tr_seed s' = false /\ tr_leaf s' = false.
Proof. exact upstream_export_mode_refuted. Qed.

Theorem C18_upstream_export_cost_refuted : exists c s,
  snd (step upstream c (fst (step upstream c s OExport)) OCost) <> snd (step upstream c s OCost).
Proof. exact upstream_export_cost_refuted. Qed.

Theorem C18_upstream_export_rng_refuted : exists c s, rng (fst (step upstream c s OExport)) <> rng s.
Proof. exact upstream_export_rng_refuted. Qed.

Theorem C18_upstream_summary_refuted : exists c s,
  snd (step upstream c (fst (step upstream c s OSummary)) OCost) <> snd (step upstream c s OCost)
  /\ rng (fst (step upstream c s OSummary)) <> rng s.
Proof. exact upstream_summary_refuted. Qed.

(* restoring only "the mode" (self.train(self.training)) after export() un-freezes a frozen BatchNorm *)
Theorem C18_mode_only_restore_refuted : exists c s,
  let v := mkVer RMode true true true in
  tr_sub s = false /\ tr_sub (fst (step v c s OExport)) = true /\
  bv (run v c s [OExport; OForward]) <> bv (run v c s [OForward]).
Proof. exact mode_only_restore_refuted. Qed.

(* an export() that ends with update_softmax_options(disable_sampling=False) instead of the previous value *)
Theorem C18_export_resetting_options_refuted : exists c s,
  let v := mkVer RAll true true false in
  o_disabled (opt s) = true /\ o_disabled (opt (fst (step v c s OExport))) = false /\
  snd (step v c (run v c s [OExport; OForward]) OCost) <> snd (step v c (run v c s [OForward]) OCost).
Proof. exact export_resetting_options_refuted. Qed.

Theorem C18_each_fix_needed :
  (exists c s, ~ veq (fst (step (mkVer RNo true true true) c s OExport)) s) /\
  (exists c s, ~ veq (fst (step (mkVer RMode true true true) c s OExport)) s) /\
  (exists c s, ~ veq (fst (step (mkVer RAll false true true) c s OExport)) s) /\
  (exists c s, ~ veq (fst (step (mkVer RAll true false true) c s OSummary)) s).
Proof. exact each_fix_needed. Qed.

(* a concrete non-trivial history: SuperNet with Gumbel sampling in training, two forwards, one search
   step, two specification switches, BatchNorm/Dropout frozen on the way, eight observer calls (both orders of
   get_cost); the upstream model fails on the same history *)
Example C18_example :
  trace_mut fixed cfg_sn_g (init cfg_sn_g true false SingleA) ex_ops = trace fixed cfg_sn_g (init cfg_sn_g true false SingleA) (erase ex_ops)
  /\ List.length (erase ex_ops) = 6%nat
  /\ rng (run fixed cfg_sn_g (init cfg_sn_g true false SingleA) ex_ops) = 35
  /\ trace_mut upstream cfg_sn_g (init cfg_sn_g true false SingleA) ex_ops <> trace upstream cfg_sn_g (init cfg_sn_g true false SingleA) (erase ex_ops).
Proof. exact example_history. Qed.

Print Assumptions C18_step_respects_visible.
Print Assumptions C18_observer_step_id.
Print Assumptions C18_observers_preserve.
Print Assumptions C18_later_observation_same.
Print Assumptions C18_continuation_same.
Print Assumptions C18_erase_observers.
Print Assumptions C18_between_backward_and_step.
Print Assumptions C18_set_spec_roundtrip.
Print Assumptions C18_set_spec_roundtrip_costs.
Print Assumptions C18_export_deterministic.
Print Assumptions C18_export_repeatable.
Print Assumptions C18_upstream_export_mode_refuted.
Print Assumptions C18_upstream_export_cost_refuted.
Print Assumptions C18_upstream_export_rng_refuted.
Print Assumptions C18_upstream_summary_refuted.
Print Assumptions C18_mode_only_restore_refuted.
Print Assumptions C18_export_resetting_options_refuted.
Print Assumptions C18_each_fix_needed.
