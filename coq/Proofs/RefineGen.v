(* C20: the model GENERATED from the source of plinio/methods/mps/utils.py (Gen/RefineGen.v, rewritten by
   translator/refine2coq.py on every run) computes the same functions as the hand-written model (Model/Reassign.v) the
   theorems of Props/C20.v are proved about.  These equalities are the obligations that tie the theorems to the code
   as it is now. *)
From Coq Require Import QArith ZArith List Bool Arith Lia Permutation Sorted.
Import ListNotations.
Require Import Plinio.Base.Qx Plinio.Model.Reassign Plinio.Gen.RefineGen.
Require Import Plinio.Proofs.Reassign Plinio.Proofs.ReassignGen Plinio.Proofs.ReassignPromote.
Local Open Scope nat_scope.

(* ================================================================== general facts *)
Lemma fold_left_rel {A B X} (R : A -> B -> Prop) (f : A -> X -> A) (g : B -> X -> B) (l : list X) :
  (forall a b x, In x l -> R a b -> R (f a x) (g b x)) -> forall a b, R a b -> R (fold_left f l a) (fold_left g l b).
Proof.
  induction l as [|x l IH]; intros H a b Hab; cbn [fold_left]; [exact Hab|].
  apply IH; [intros; apply H; [right|]; assumption|]. apply H; [left; reflexivity|exact Hab].
Qed.

Lemma set_all_nil x a : set_all [] x a = a.
Proof. reflexivity. Qed.

(* storing the same value at two index lists with the same elements *)
Lemma set_all_same_elements l1 l2 x a : (forall c, In c l1 <-> In c l2) -> set_all l1 x a = set_all l2 x a.
Proof.
  intro H. apply (nth_ext _ _ None None); [rewrite !length_set_all; reflexivity|].
  intros c Hc. rewrite length_set_all in Hc. change (get (set_all l1 x a) c = get (set_all l2 x a) c).
  destruct (in_dec Nat.eq_dec c l1) as [K|K].
  - rewrite !get_set_all_in; [reflexivity| |exact Hc| |exact Hc]; left; [apply H|]; exact K.
  - rewrite !get_set_all_notin; [reflexivity| |exact K]. intro K'. apply K, H, K'.
Qed.

Lemma length_zero_nil {A} (l : list A) : Nat.ltb 0 (length l) = false -> l = [].
Proof. destruct l; [reflexivity|discriminate]. Qed.

Lemma set_nth_comm {A} n m (x y : A) l : n <> m -> set_nth n x (set_nth m y l) = set_nth m y (set_nth n x l).
Proof.
  intro H. destruct l as [|d0 l0] eqn:El; [destruct n, m; reflexivity|]. rewrite <- El. clear El l0.
  apply (nth_ext _ _ d0 d0); [rewrite !length_set_nth; reflexivity|].
  intros k _. destruct (Nat.eq_dec k n) as [E1|E1]; destruct (Nat.eq_dec k m) as [E2|E2]; subst; try congruence.
  - destruct (Nat.lt_ge_cases n (length l)) as [Hn|Hn].
    + rewrite gnth_set_nth_same by (rewrite length_set_nth; exact Hn).
      rewrite gnth_set_nth_other by (intro; subst; congruence). rewrite gnth_set_nth_same by exact Hn. reflexivity.
    + rewrite (set_nth_overflow n x (set_nth m y l)) by (rewrite length_set_nth; exact Hn).
      rewrite (set_nth_overflow n x l) by exact Hn. reflexivity.
  - destruct (Nat.lt_ge_cases m (length l)) as [Hm|Hm].
    + rewrite gnth_set_nth_other by (intro; subst; congruence). rewrite !gnth_set_nth_same; [reflexivity| |exact Hm].
      rewrite length_set_nth. exact Hm.
    + rewrite (set_nth_overflow m y (set_nth n x l)) by (rewrite length_set_nth; exact Hm).
      rewrite (set_nth_overflow m y l) by exact Hm. reflexivity.
  - rewrite !gnth_set_nth_other by (intro; subst; congruence). reflexivity.
Qed.

(* ================================================================== _reassign_precisions *)
Section ReassignEq.
Variables (cur : list nat) (orders : list (list nat)) (best : list nat).

(* the first loop body.  With a target of zero the code takes the channels of the precision in index order, the model in
   score order: the same channels, all marked -1 *)
Theorem pass1_step_gen_eq : forall (a : assignment) (p : nat),
  Permutation (nth p orders []) (seq 0 (length cur)) ->
  pass1_step_gen cur orders best a p = pass1_step cur a p (nth p orders []) (nth p best 0).
Proof.
  intros a p Hperm. unfold pass1_step_gen, pass1_step. cbv zeta.
  destruct (Nat.eqb (nth p best 0) 0) eqn:E0; cbn [negb]; [apply Nat.eqb_eq in E0; rewrite E0; cbn [skipn]|];
    repeat match goal with |- context [if ?b then _ else _] => destruct b eqn:? end;
    repeat match goal with H : Nat.ltb 0 (length _) = false |- _ => apply length_zero_nil in H; rewrite H end;
    try reflexivity.
  all: apply set_all_same_elements; intro c; rewrite !filter_In; split; intros [H1 H2]; (split; [|exact H2]).
  all: first [apply (Permutation_in _ (Permutation_sym Hperm)); exact H1 | apply (Permutation_in _ Hperm); exact H1].
Qed.

Lemma mem_unassigned (a : assignment) c : c < length a ->
  existsb (Nat.eqb c) (filter (fun c0 => is_none (get a c0)) (seq 0 (length a))) = is_none (get a c).
Proof.
  intro Hc. destruct (is_none (get a c)) eqn:E.
  - apply existsb_exists. exists c. split; [|apply Nat.eqb_refl]. apply filter_In. split; [apply in_seq; lia|exact E].
  - destruct (existsb _ _) eqn:K; [|reflexivity]. apply existsb_exists in K as [x [Hx Ex]]. apply Nat.eqb_eq in Ex. subst x.
    apply filter_In in Hx as [_ Hx]. congruence.
Qed.

(* the second loop body: `torch.isin(order, unassigned)` is `new_assignment[order] == -1` *)
Theorem pass2_step_gen_eq : forall (a : assignment) (p : nat),
  Forall (fun c => c < length a) (nth p orders []) ->
  pass2_step_gen cur orders best a p = pass2_step a p (nth p orders []) (nth p best 0).
Proof.
  intros a p Hr. unfold pass2_step_gen, pass2_step. cbv zeta.
  assert (E : filter (fun c => existsb (Nat.eqb c) (filter (fun c0 => is_none (get a c0)) (seq 0 (length a)))) (nth p orders [])
              = filter (fun c => is_none (get a c)) (nth p orders [])).
  { apply filter_ext_in. intros c Hc. apply mem_unassigned. rewrite Forall_forall in Hr. apply Hr, Hc. }
  repeat match goal with |- context [if ?b then _ else _] => destruct b eqn:? end; rewrite ?E; reflexivity.
Qed.

(* `for prec in range(num_precisions)` reading best[prec], sorted_indices[prec]  vs  the model's simultaneous recursion *)
Lemma fold_prec_seq (f : assignment -> nat -> list nat -> nat -> assignment) : forall (os : list (list nat)) (ts : list nat) a s,
  length ts = length os ->
  fold_prec f a s os ts = fold_left (fun a p => f a p (nth (p - s) os []) (nth (p - s) ts 0)) (seq s (length os)) a.
Proof.
  induction os as [|o os IH]; intros ts a s Hl; destruct ts as [|t ts]; try discriminate; [reflexivity|].
  cbn [fold_prec length seq fold_left]. rewrite Nat.sub_diag. cbn [nth]. rewrite IH by (cbn in Hl; lia).
  apply (fold_left_rel (fun x y => x = y)); [|reflexivity].
  intros x y q Hq E. subst y. apply in_seq in Hq. replace (q - s) with (S (q - S s)) by lia. reflexivity.
Qed.

Hypothesis Hbest : length best = length orders.
Hypothesis Hperm : Forall (fun o => Permutation o (seq 0 (length cur))) orders.

Lemma order_at p : p < length orders -> Permutation (nth p orders []) (seq 0 (length cur)).
Proof. intro Hp. rewrite Forall_forall in Hperm. apply Hperm, nth_In, Hp. Qed.

Lemma pass1_gen_eq : forall a, pass1_gen cur orders best a = fold_prec (pass1_step cur) a 0 orders best.
Proof.
  intro a. unfold pass1_gen. rewrite fold_prec_seq by exact Hbest.
  apply (fold_left_rel (fun x y => x = y)); [|reflexivity].
  intros x y p Hp E. subst y. apply in_seq in Hp. rewrite Nat.sub_0_r. apply pass1_step_gen_eq, order_at. lia.
Qed.

Lemma length_pass2_step a p o t : length (pass2_step a p o t) = length a.
Proof. unfold pass2_step. destruct (Nat.ltb _ _); [apply length_set_all|reflexivity]. Qed.

Lemma pass2_gen_eq : forall a, length a = length cur -> pass2_gen cur orders best a = fold_prec pass2_step a 0 orders best.
Proof.
  intros a Ha. unfold pass2_gen. rewrite fold_prec_seq by exact Hbest.
  assert (K : (fun x y => x = y /\ length y = length cur)
                (fold_left (pass2_step_gen cur orders best) (seq 0 (length orders)) a)
                (fold_left (fun a p => pass2_step a p (nth (p - 0) orders []) (nth (p - 0) best 0)) (seq 0 (length orders)) a)).
  { apply (fold_left_rel (fun x y => x = y /\ length y = length cur)); [|split; [reflexivity|exact Ha]].
    intros x y p Hp [E Hl]. subst y. apply in_seq in Hp. rewrite Nat.sub_0_r. split.
    - apply pass2_step_gen_eq. apply Forall_forall. intros c Hc.
      apply (Permutation_in _ (order_at p ltac:(lia))) in Hc. apply in_seq in Hc. lia.
    - rewrite length_pass2_step. exact Hl. }
  exact (proj1 K).
Qed.

Lemma length_fold_prec_pass1 : forall os ts a s, length (fold_prec (pass1_step cur) a s os ts) = length a.
Proof.
  induction os as [|o os IH]; intros ts a s; destruct ts as [|t ts]; try reflexivity.
  cbn [fold_prec]. rewrite IH. unfold pass1_step. apply length_set_all.
Qed.

(* new_assignment after the two loops is the model's reassign_abs *)
Theorem reassign_abs_gen_eq : reassign_abs_gen cur orders best = reassign_abs cur orders best.
Proof.
  unfold reassign_abs_gen, reassign_abs. cbv zeta. rewrite pass1_gen_eq. apply pass2_gen_eq.
  rewrite length_fold_prec_pass1, map_length. reflexivity.
Qed.
End ReassignEq.

(* ================================================================== the two searches *)
(* what the code calls on a count vector in sorted order, which precisions it skips, where it starts *)
Definition gcost (cost_own : list nat -> Q) (prec : list nat) : vec -> Q := fun v => cost_own (unsorted_gen prec v).
Definition gskip (prec : list nat) : nat -> bool := fun i => Nat.eqb (nth i (sorted_precisions_gen prec) 0) 0.
Definition ginit (prec w : list nat) : vec := map (fun k => nth k w 0) (sorted_indexes_gen prec).

Lemma qlt_bool_eq_r a b b' : (b == b')%Q -> qlt_bool a b = qlt_bool a b'.
Proof.
  intro E. destruct (qlt_bool a b) eqn:H1, (qlt_bool a b') eqn:H2; try reflexivity.
  - apply qlt_bool_iff in H1. rewrite E in H1. apply qlt_bool_iff in H1. congruence.
  - apply qlt_bool_iff in H2. rewrite <- E in H2. apply qlt_bool_iff in H2. congruence.
Qed.

Lemma triple_eta {A B C} (x : A * B * C) : (let '(a, b, c) := x in (a, b, c)) = x.
Proof. destruct x as [[a b] c]. reflexivity. Qed.

Lemma fold_left_map {A B S} (f : S -> B -> S) (g : A -> B) (l : list A) (s : S) :
  fold_left f (map g l) s = fold_left (fun s x => f s (g x)) l s.
Proof. revert s. induction l as [|x l IH]; intro s; [reflexivity|]. cbn [map fold_left]. apply IH. Qed.

(* the state of the loops of the code: (best_cost, best configuration, configuration being drained) *)
Definition st : Type := (Q * vec * vec)%type.
Definition best_of (s : st) : vec := snd (fst s).
Definition tmp_of (s : st) : vec := snd s.

Section SearchEq.
Variable cost_own : list nat -> Q.
Variables (prec w : list nat) (base : Q).
Local Notation cost' := (gcost cost_own prec).
Local Notation skip' := (gskip prec).
Local Notation init := (ginit prec w).

(* best_cost is the cost of the best configuration *)
Definition sinv (s : st) : Prop := (fst (fst s) == cost' (best_of s))%Q.

(* ---- one `while` loop is one `drain`, whatever function has the body the two generated bodies have *)
Section Drain.
Variables (cond : st -> bool) (body : st -> st) (i j : nat).
Hypothesis Hcond : forall bc best tmp, cond (bc, best, tmp) = Nat.ltb 0 (nth i tmp 0).
Hypothesis Hbody : forall bc best tmp, body (bc, best, tmp) =
  (if qlt_bool (cost' (move i j tmp)) bc then cost' (move i j tmp) else bc,
   if qlt_bool (cost' (move i j tmp)) bc then move i j tmp else best,
   move i j tmp).

Lemma while_drain : forall fuel s, sinv s ->
  sinv (while_fuel cond body fuel s) /\
  (tmp_of (while_fuel cond body fuel s), best_of (while_fuel cond body fuel s)) = drain cost' fuel i j (tmp_of s) (best_of s).
Proof.
  induction fuel as [|f IH]; intros [[bc best] tmp] Hs; cbn [while_fuel drain]; [split; [exact Hs|reflexivity]|].
  rewrite Hcond. unfold tmp_of, best_of in *. cbn [fst snd] in *. destruct (Nat.ltb 0 (nth i tmp 0)); [|split; [exact Hs|reflexivity]].
  rewrite Hbody. unfold sinv, best_of in Hs. cbn [fst snd] in Hs.
  rewrite <- (qlt_bool_eq_r (cost' (move i j tmp)) bc (cost' best) Hs).
  apply IH. unfold sinv, best_of. cbn [fst snd]. destruct (qlt_bool (cost' (move i j tmp)) bc); [reflexivity|exact Hs].
Qed.
End Drain.

(* the generated loop bodies have that form (i <> j: the first update does not change the entry the second reads) *)
Ltac body_eq H :=
  cbv beta iota zeta; rewrite ?nth_set_nth_other by (first [exact H | let E := fresh in intro E; apply H; symmetry; exact E]);
  match type of H with ?i <> ?j => try (rewrite (set_nth_comm i j _ _ _ H)) end;
  unfold gcost, move; match goal with |- context [qlt_bool ?a ?b] => destruct (qlt_bool a b) end; reflexivity.

Lemma search1_while_form i j : i <> j -> forall bc best tmp,
  search1_while_gen cost_own prec w base i j (bc, best, tmp) =
  (if qlt_bool (cost' (move i j tmp)) bc then cost' (move i j tmp) else bc,
   if qlt_bool (cost' (move i j tmp)) bc then move i j tmp else best,
   move i j tmp).
Proof. intros H bc best tmp. unfold search1_while_gen. body_eq H. Qed.

Lemma search2_while_form i j : i <> j -> forall bc best tmp,
  search2_while_gen cost_own prec w base i j (bc, best, tmp) =
  (if qlt_bool (cost' (move i j tmp)) bc then cost' (move i j tmp) else bc,
   if qlt_bool (cost' (move i j tmp)) bc then move i j tmp else best,
   move i j tmp).
Proof. intros H bc best tmp. unfold search2_while_gen. body_eq H. Qed.

(* ---- Case 1: every pair (i, j) restarts from the initial vector *)
Lemma search1_inner_eq i j s : i <> j -> sinv s ->
  sinv (search1_inner_gen cost_own prec w base i s j) /\
  best_of (search1_inner_gen cost_own prec w base i s j) = snd (drain cost' (nth i init 0) i j init (best_of s)).
Proof.
  intros Hij Hs. destruct s as [[bc best] tmp]. unfold search1_inner_gen. cbv beta iota zeta. rewrite triple_eta.
  fold init.
  destruct (while_drain (search1_while_cond_gen cost_own prec w base i j) (search1_while_gen cost_own prec w base i j) i j (fun _ _ _ => eq_refl) (search1_while_form i j Hij) (nth i init 0) (bc, best, init) Hs) as [H1 H2].
  split; [exact H1|]. change (tmp_of (bc, best, init)) with init in H2. change (best_of (bc, best, init)) with best in H2.
  change (best_of (bc, best, tmp)) with best. rewrite <- H2. reflexivity.
Qed.

Lemma length_sorted_precisions : length (sorted_precisions_gen prec) = length init.
Proof. unfold sorted_precisions_gen, ginit. rewrite !map_length. reflexivity. Qed.

Definition pairs_of (n : nat) (i : nat) : list (nat * nat) := if skip' i then [] else map (fun j => (i, j)) (seq (S i) (n - S i)).

Lemma search1_step_eq s i : sinv s ->
  sinv (search1_step_gen cost_own prec w base s i) /\
  best_of (search1_step_gen cost_own prec w base s i) =
  fold_left (fun b ij => snd (drain cost' (nth (fst ij) init 0) (fst ij) (snd ij) init b)) (pairs_of (length init) i) (best_of s).
Proof.
  intro Hs. destruct s as [[bc best] tmp]. unfold search1_step_gen, pairs_of. cbv beta iota zeta.
  rewrite ?triple_eta. rewrite length_sorted_precisions. fold (skip' i).
  destruct (skip' i); cbn [negb]; [split; [exact Hs|reflexivity]|].
  rewrite fold_left_map. cbn [fst snd].
  apply (fold_left_rel (fun s b => sinv s /\ best_of s = b)); [|split; [exact Hs|reflexivity]].
  intros s b j Hj [H1 H2]. subst b. apply in_seq in Hj. apply search1_inner_eq; [lia|exact H1].
Qed.

Theorem search1_gen_eq s : sinv s ->
  sinv (search1_gen cost_own prec w base s) /\
  best_of (search1_gen cost_own prec w base s) = search1 cost' skip' init (best_of s).
Proof.
  intro Hs. unfold search1_gen, search1, pairs. rewrite fold_flat_map, length_sorted_precisions.
  apply (fold_left_rel (fun s b => sinv s /\ best_of s = b)); [|split; [exact Hs|reflexivity]].
  intros s' b i _ [H1 H2]. subst b. apply (search1_step_eq s' i H1).
Qed.

(* ---- Case 2: the same vector is drained through all pairs *)
Lemma search2_inner_eq i j s : i <> j -> sinv s ->
  sinv (search2_inner_gen cost_own prec w base i s j) /\
  (tmp_of (search2_inner_gen cost_own prec w base i s j), best_of (search2_inner_gen cost_own prec w base i s j)) =
  drain cost' (nth i (tmp_of s) 0) i j (tmp_of s) (best_of s).
Proof.
  intros Hij Hs. destruct s as [[bc best] tmp]. unfold search2_inner_gen. cbv beta iota zeta. rewrite triple_eta.
  apply (while_drain (search2_while_cond_gen cost_own prec w base i j) (search2_while_gen cost_own prec w base i j) i j (fun _ _ _ => eq_refl) (search2_while_form i j Hij) (nth i tmp 0) (bc, best, tmp) Hs).
Qed.

Definition step2m (tb : vec * vec) (ij : nat * nat) : vec * vec :=
  drain cost' (nth (fst ij) (fst tb) 0) (fst ij) (snd ij) (fst tb) (snd tb).

Lemma search2_step_eq s i : sinv s ->
  sinv (search2_step_gen cost_own prec w base s i) /\
  (tmp_of (search2_step_gen cost_own prec w base s i), best_of (search2_step_gen cost_own prec w base s i)) =
  fold_left step2m (pairs_of (length init) i) (tmp_of s, best_of s).
Proof.
  intro Hs. destruct s as [[bc best] tmp]. unfold search2_step_gen, pairs_of. cbv beta iota zeta.
  rewrite ?triple_eta. rewrite length_sorted_precisions. fold (skip' i).
  destruct (skip' i); cbn [negb]; [split; [exact Hs|reflexivity]|].
  rewrite fold_left_map.
  apply (fold_left_rel (fun s tb => sinv s /\ (tmp_of s, best_of s) = tb)); [|split; [exact Hs|reflexivity]].
  intros s tb j Hj [H1 H2]. subst tb. apply in_seq in Hj. unfold step2m. cbn [fst snd].
  apply search2_inner_eq; [lia|exact H1].
Qed.

Lemma search2_rows b : search2 cost' skip' init b =
  snd (fold_left (fun tb i => fold_left step2m (pairs_of (length init) i) tb) (seq 0 (length init)) (init, b)).
Proof. unfold search2, pairs. rewrite fold_flat_map. reflexivity. Qed.

Theorem search2_gen_eq s : sinv s -> tmp_of s = init ->
  sinv (search2_gen cost_own prec w base s) /\
  best_of (search2_gen cost_own prec w base s) = search2 cost' skip' init (best_of s).
Proof.
  intros Hs Ht. rewrite search2_rows. unfold search2_gen. rewrite length_sorted_precisions.
  assert (K : (fun s tb => sinv s /\ (tmp_of s, best_of s) = tb)
                (fold_left (search2_step_gen cost_own prec w base) (seq 0 (length init)) s)
                (fold_left (fun tb i => fold_left step2m (pairs_of (length init) i) tb) (seq 0 (length init)) (init, best_of s))).
  { apply (fold_left_rel (fun s tb => sinv s /\ (tmp_of s, best_of s) = tb)); [|split; [exact Hs|rewrite Ht; reflexivity]].
    intros s' tb i _ [H1 H2]. subst tb. apply (search2_step_eq s' i H1). }
  destruct K as [K1 K2]. split; [exact K1|]. rewrite <- K2. reflexivity.
Qed.

(* ---- the block up to the end of the second search.  The assert compares the cost of the layer as it is with the cost
   _compute_cost gives for its own count vector; un-sorting the sorted vector must give that vector back (Hround,
   discharged below from the permutation bookkeeping) *)
Hypothesis Hround : unsorted_gen prec init = w.

Theorem refine_gen_eq :
  refine_gen cost_own prec w base = if Qeq_bool (cost_own w) base then Some (refine cost' skip' init) else None.
Proof.
  unfold refine_gen, search_gen. cbv beta zeta. destruct (Qeq_bool (cost_own w) base) eqn:E; [|reflexivity].
  apply Qeq_bool_iff in E. fold init.
  assert (H0 : sinv (base, init, init)).
  { unfold sinv, best_of, gcost. cbn [fst snd]. rewrite Hround. symmetry. exact E. }
  destruct (search1_gen_eq _ H0) as [H1 H2].
  destruct (search1_gen cost_own prec w base (base, init, init)) as [[bc1 b1] t1] eqn:E1.
  unfold best_of in H2. cbn [fst snd] in H2.
  assert (H1' : sinv (bc1, b1, init)) by exact H1.
  destruct (search2_gen_eq _ H1' eq_refl) as [H3 H4].
  destruct (search2_gen cost_own prec w base (bc1, b1, init)) as [[bc2 b2] t2] eqn:E2.
  unfold best_of in H4. cbn [fst snd] in H4. rewrite H4, H2. reflexivity.
Qed.

(* the fuel suffices: when a generated `while` stops, its condition is false (the count being drained is 0) *)
Lemma drain_exhausts (cost : vec -> Q) : forall fuel i j tmp best, i <> j -> j < length tmp -> nth i tmp 0 <= fuel ->
  nth i (fst (drain cost fuel i j tmp best)) 0 = 0.
Proof.
  induction fuel as [|f IH]; intros i j tmp best Hij Hj Hf; cbn [drain fst]; [lia|].
  destruct (Nat.ltb 0 (nth i tmp 0)) eqn:E; [|apply Nat.ltb_ge in E; cbn [fst]; lia].
  apply Nat.ltb_lt in E. destruct (Nat.lt_ge_cases i (length tmp)) as [Hi|Hi]; [|rewrite nth_overflow in E by exact Hi; lia].
  apply IH; [exact Hij|rewrite move_length; exact Hj|]. rewrite nth_move_i by assumption. lia.
Qed.

Theorem search1_while_exits i j s : i <> j -> j < length init -> sinv s ->
  search1_while_cond_gen cost_own prec w base i j
    (while_fuel (search1_while_cond_gen cost_own prec w base i j) (search1_while_gen cost_own prec w base i j) (nth i init 0)
       (fst s, init)) = false.
Proof.
  intros Hij Hj Hs. destruct s as [[bc best] tmp].
  destruct (while_drain (search1_while_cond_gen cost_own prec w base i j) (search1_while_gen cost_own prec w base i j) i j (fun _ _ _ => eq_refl) (search1_while_form i j Hij) (nth i init 0) (bc, best, init) Hs) as [_ H2].
  cbn [fst]. destruct (while_fuel _ _ _ _) as [[bc' best'] tmp']. unfold tmp_of, best_of in H2. cbn [fst snd] in H2.
  unfold search1_while_cond_gen. cbv beta iota. apply Nat.ltb_ge.
  replace tmp' with (fst (drain cost' (nth i init 0) i j init best)) by (rewrite <- H2; reflexivity).
  rewrite drain_exhausts; [lia|exact Hij|exact Hj|lia].
Qed.

Theorem search2_while_exits i j s : i <> j -> j < length (tmp_of s) -> sinv s ->
  search2_while_cond_gen cost_own prec w base i j
    (while_fuel (search2_while_cond_gen cost_own prec w base i j) (search2_while_gen cost_own prec w base i j) (nth i (tmp_of s) 0) s) = false.
Proof.
  intros Hij Hj Hs. destruct s as [[bc best] tmp]. unfold tmp_of in *. cbn [snd] in *.
  destruct (while_drain (search2_while_cond_gen cost_own prec w base i j) (search2_while_gen cost_own prec w base i j) i j (fun _ _ _ => eq_refl) (search2_while_form i j Hij) (nth i tmp 0) (bc, best, tmp) Hs) as [_ H2].
  destruct (while_fuel _ _ _ _) as [[bc' best'] tmp']. unfold tmp_of, best_of in H2. cbn [fst snd] in H2.
  unfold search2_while_cond_gen. cbv beta iota. apply Nat.ltb_ge.
  replace tmp' with (fst (drain cost' (nth i tmp 0) i j tmp best)) by (rewrite <- H2; reflexivity).
  rewrite drain_exhausts; [lia|exact Hij|exact Hj|lia].
Qed.
End SearchEq.

(* ================================================================== the permutation bookkeeping *)
Lemma insert_asc_perm key c l : Permutation (insert_asc key c l) (c :: l).
Proof.
  induction l as [|d l IH]; cbn [insert_asc]; [apply Permutation_refl|].
  destruct (Nat.leb (key c) (key d)); [apply Permutation_refl|].
  eapply Permutation_trans; [apply perm_skip; exact IH|apply perm_swap].
Qed.

Lemma argsort_asc_perm l : Permutation (argsort_asc l) (seq 0 (length l)).
Proof.
  unfold argsort_asc. generalize (seq 0 (length l)) as s.
  induction s as [|c s IH]; cbn [fold_right]; [apply Permutation_refl|].
  eapply Permutation_trans; [apply insert_asc_perm|apply perm_skip; exact IH].
Qed.

Lemma argsort_asc_length l : length (argsort_asc l) = length l.
Proof. rewrite (Permutation_length (argsort_asc_perm l)). apply seq_length. Qed.

Lemma insert_asc_sorted key c l : StronglySorted (fun a b => key a <= key b) l -> StronglySorted (fun a b => key a <= key b) (insert_asc key c l).
Proof.
  induction l as [|d l IH]; intro H; cbn [insert_asc]; [constructor; constructor|].
  inversion H as [|d' l' Hl Hd]; subst. destruct (Nat.leb (key c) (key d)) eqn:E.
  - apply Nat.leb_le in E. constructor; [exact H|]. constructor; [exact E|].
    rewrite Forall_forall in *. intros x Hx. specialize (Hd x Hx). lia.
  - apply Nat.leb_gt in E. constructor; [apply IH; exact Hl|].
    rewrite Forall_forall in *. intros x Hx. apply (Permutation_in _ (insert_asc_perm key c l)) in Hx.
    destruct Hx as [Hx|Hx]; [subst x; lia|apply Hd; exact Hx].
Qed.

Lemma argsort_asc_sorted l : StronglySorted le (map (fun i => nth i l 0) (argsort_asc l)).
Proof.
  assert (H : StronglySorted (fun a b => nth a l 0 <= nth b l 0) (argsort_asc l)).
  { unfold argsort_asc. generalize (seq 0 (length l)) as s.
    induction s as [|c s IH]; cbn [fold_right]; [constructor|]. apply insert_asc_sorted. exact IH. }
  induction H as [|a t Ht IH Ha]; cbn [map]; constructor; [exact IH|].
  rewrite Forall_forall in *. intros x Hx. apply in_map_iff in Hx as [y [E Hy]]. subst x. apply Ha, Hy.
Qed.

(* the keys in sorted order are a rearrangement of the keys *)
Lemma argsort_asc_keys l : Permutation (map (fun i => nth i l 0) (argsort_asc l)) l.
Proof.
  eapply Permutation_trans; [apply Permutation_map, argsort_asc_perm|]. rewrite map_nth_seq. apply Permutation_refl.
Qed.

Lemma sorted_nth (L : list nat) : StronglySorted le L -> forall i j, i < j -> j < length L -> nth i L 0 <= nth j L 0.
Proof.
  induction 1 as [|a t Ht IH Ha]; intros i j Hij Hj; [cbn in Hj; lia|].
  destruct j as [|j]; [lia|]. cbn [length] in Hj. destruct i as [|i]; cbn [nth].
  - rewrite Forall_forall in Ha. apply Ha, nth_In. lia.
  - apply IH; lia.
Qed.

Lemma sorted_perm_seq : forall n s K, StronglySorted le K -> Permutation K (seq s n) -> K = seq s n.
Proof.
  induction n as [|n IH]; intros s K Hs Hp; cbn [seq] in *.
  - apply Permutation_sym, Permutation_nil in Hp. exact Hp.
  - destruct K as [|x K]; [apply Permutation_nil in Hp; discriminate|].
    inversion Hs as [|x' K' HK Hx]; subst.
    assert (x = s).
    { assert (H1 : In s (x :: K)) by (apply (Permutation_in _ (Permutation_sym Hp)); left; reflexivity).
      assert (H2 : In x (s :: seq (S s) n)) by (apply (Permutation_in _ Hp); left; reflexivity).
      destruct H2 as [H2|H2]; [congruence|]. apply in_seq in H2.
      destruct H1 as [H1|H1]; [exact H1|]. rewrite Forall_forall in Hx. specialize (Hx s H1). lia. }
    subst x. f_equal. apply IH; [exact HK|]. apply Permutation_cons_inv in Hp. exact Hp.
Qed.

(* argsort of a permutation is its inverse *)
Lemma argsort_asc_inverse l : Permutation l (seq 0 (length l)) ->
  forall p, p < length l -> nth p (argsort_asc l) 0 < length l /\ nth (nth p (argsort_asc l) 0) l 0 = p.
Proof.
  intros Hl p Hp. split.
  - assert (H : In (nth p (argsort_asc l) 0) (seq 0 (length l))).
    { apply (Permutation_in _ (argsort_asc_perm l)). apply nth_In. rewrite argsort_asc_length. exact Hp. }
    apply in_seq in H. lia.
  - assert (E : map (fun i => nth i l 0) (argsort_asc l) = seq 0 (length l)).
    { apply sorted_perm_seq; [apply argsort_asc_sorted|]. eapply Permutation_trans; [apply argsort_asc_keys|exact Hl]. }
    assert (E2 : nth p (map (fun i => nth i l 0) (argsort_asc l)) 0 = p) by (rewrite E; rewrite seq_nth by exact Hp; reflexivity).
    rewrite (nth_indep _ 0 ((fun i => nth i l 0) 0)) in E2 by (rewrite map_length, argsort_asc_length; exact Hp).
    rewrite (map_nth (fun i => nth i l 0)) in E2. exact E2.
Qed.

(* own_of = sorted_indexes, pos_of = inverse_indexes, as functions *)
Definition own_of_gen (prec : list nat) (k : nat) : nat := nth k (sorted_indexes_gen prec) 0.
Definition pos_of_gen (prec : list nat) (p : nat) : nat := nth p (inverse_indexes_gen prec) 0.

Section Bookkeeping.
Variable prec : list nat.
Local Notation P := (length prec).

Lemma length_sorted_indexes : length (sorted_indexes_gen prec) = P.
Proof. unfold sorted_indexes_gen. apply argsort_asc_length. Qed.
Lemma length_inverse_indexes : length (inverse_indexes_gen prec) = P.
Proof. unfold inverse_indexes_gen. rewrite argsort_asc_length. apply length_sorted_indexes. Qed.
Lemma sorted_indexes_perm : Permutation (sorted_indexes_gen prec) (seq 0 P).
Proof. unfold sorted_indexes_gen. apply argsort_asc_perm. Qed.

Lemma own_of_lt k : k < P -> own_of_gen prec k < P.
Proof.
  intro Hk. assert (H : In (own_of_gen prec k) (seq 0 P)).
  { apply (Permutation_in _ sorted_indexes_perm). apply nth_In. rewrite length_sorted_indexes. exact Hk. }
  apply in_seq in H. lia.
Qed.

(* inverse_indexes is the inverse of sorted_indexes *)
Theorem inverse_indexes_inverse : forall p, p < P -> pos_of_gen prec p < P /\ own_of_gen prec (pos_of_gen prec p) = p.
Proof.
  intros p Hp. unfold pos_of_gen, own_of_gen, inverse_indexes_gen.
  pose proof (argsort_asc_inverse (sorted_indexes_gen prec)) as H. rewrite length_sorted_indexes in H.
  apply H; [apply sorted_indexes_perm|exact Hp].
Qed.

(* _unsorted is the model's unsort *)
Theorem unsorted_gen_eq v : unsorted_gen prec v = unsort (pos_of_gen prec) P v.
Proof.
  unfold unsorted_gen, unsort. transitivity (map (fun k => nth k v 0) (map (fun p => nth p (inverse_indexes_gen prec) 0) (seq 0 (length (inverse_indexes_gen prec))))).
  - rewrite map_nth_seq. reflexivity.
  - rewrite map_map, length_inverse_indexes. reflexivity.
Qed.

Lemma ginit_as_map w : ginit prec w = map (fun k => nth (own_of_gen prec k) w 0) (seq 0 P).
Proof.
  unfold ginit. rewrite <- (map_nth_seq (sorted_indexes_gen prec)) at 1. rewrite map_map, length_sorted_indexes. reflexivity.
Qed.

(* the comprehension over sorted_indexes, applied to the own counts of the layer, is the model's init_sorted *)
Theorem ginit_eq cur : ginit prec (own_counts P cur) = init_sorted cur P (own_of_gen prec).
Proof.
  rewrite ginit_as_map. unfold init_sorted, own_counts. apply map_ext_in. intros k Hk. apply in_seq in Hk.
  apply nth_map_seq. apply own_of_lt. lia.
Qed.

(* un-sorting the sorted vector gives the vector back *)
Theorem unsorted_sorted w : length w = P -> unsorted_gen prec (ginit prec w) = w.
Proof.
  intro Hw. rewrite unsorted_gen_eq, ginit_as_map. unfold unsort.
  transitivity (map (fun p => nth p w 0) (seq 0 (length w))); [|apply map_nth_seq]. rewrite Hw. apply map_ext_in. intros p Hp. apply in_seq in Hp.
  destruct (inverse_indexes_inverse p ltac:(lia)) as [H1 H2]. rewrite nth_map_seq by exact H1. rewrite H2. reflexivity.
Qed.

(* ---- precisions that differ pairwise: the sorted tuple is strictly increasing *)
Hypothesis Hnodup : NoDup prec.

Lemma sorted_precisions_strict i j : i < j -> j < P -> nth i (sorted_precisions_gen prec) 0 < nth j (sorted_precisions_gen prec) 0.
Proof.
  intros Hij Hj. unfold sorted_precisions_gen, sorted_indexes_gen.
  assert (Hlen : length (map (fun k => nth k prec 0) (argsort_asc prec)) = P) by (rewrite map_length; apply argsort_asc_length).
  pose proof (sorted_nth _ (argsort_asc_sorted prec) i j Hij ltac:(lia)) as Hle.
  assert (Hnd : NoDup (map (fun k => nth k prec 0) (argsort_asc prec))).
  { apply (Permutation_NoDup (Permutation_sym (argsort_asc_keys prec))). exact Hnodup. }
  assert (Hne : nth i (map (fun k => nth k prec 0) (argsort_asc prec)) 0 <> nth j (map (fun k => nth k prec 0) (argsort_asc prec)) 0).
  { intro E. apply (proj1 (NoDup_nth _ 0) Hnd) in E; lia. }
  lia.
Qed.

Lemma sorted_precisions_at p : p < P -> nth (pos_of_gen prec p) (sorted_precisions_gen prec) 0 = nth p prec 0.
Proof.
  intro Hp. destruct (inverse_indexes_inverse p Hp) as [H1 H2]. unfold sorted_precisions_gen.
  rewrite (nth_indep _ 0 ((fun k => nth k prec 0) 0)) by (rewrite map_length, length_sorted_indexes; exact H1).
  rewrite (map_nth (fun k => nth k prec 0)). fold (own_of_gen prec (pos_of_gen prec p)). rewrite H2. reflexivity.
Qed.

(* a higher sorted position is a higher bit-width *)
Theorem pos_of_monotone p q : p < P -> q < P -> pos_of_gen prec p < pos_of_gen prec q -> nth p prec 0 < nth q prec 0.
Proof.
  intros Hp Hq H. rewrite <- (sorted_precisions_at p Hp), <- (sorted_precisions_at q Hq).
  apply sorted_precisions_strict; [exact H|]. apply inverse_indexes_inverse. exact Hq.
Qed.

(* only the lowest sorted position can hold the 0-bit precision *)
Theorem gskip_only_zero i : i < P -> gskip prec i = true -> i = 0.
Proof.
  intros Hi H. unfold gskip in H. apply Nat.eqb_eq in H. destruct i as [|i]; [reflexivity|].
  pose proof (sorted_precisions_strict 0 (S i) ltac:(lia) Hi). lia.
Qed.
End Bookkeeping.

(* the searches consult `skip` below the number of precisions only *)
Lemma pairs_ext n (s1 s2 : nat -> bool) : (forall i, i < n -> s1 i = s2 i) -> pairs n s1 = pairs n s2.
Proof.
  intro H. unfold pairs. replace n with (0 + n) in H by reflexivity. generalize dependent 0. generalize n at 2 4 as m.
  induction n as [|n IH]; intros m s H; cbn [seq flat_map]; [reflexivity|].
  rewrite (H s) by lia. f_equal. apply IH. intros i Hi. apply H. lia.
Qed.

Lemma refine_skip_ext cost (s1 s2 : nat -> bool) init : (forall i, i < length init -> s1 i = s2 i) -> refine cost s1 init = refine cost s2 init.
Proof. intro H. unfold refine, search1, search2. rewrite (pairs_ext _ s1 s2 H). reflexivity. Qed.

(* ================================================================== the whole per-layer block *)
Lemma layer_gen_as_refine cost_own prec w base cur orders :
  layer_gen cost_own prec w base cur orders =
  match refine_gen cost_own prec w base with
  | Some b => Some (reassign_abs_gen cur orders (unsorted_gen prec b))
  | None => None
  end.
Proof. unfold layer_gen, refine_gen. destruct (search_gen cost_own prec w base) as [[[bc b] t]|]; reflexivity. Qed.

Lemma total_perm (u v : list nat) : Permutation u v -> total_of u = total_of v.
Proof. unfold total_of. induction 1; cbn [fold_right]; lia. Qed.

Lemma total_reindex (idx v : list nat) : Permutation idx (seq 0 (length v)) -> total_of (map (fun k => nth k v 0) idx) = total_of v.
Proof.
  intro H. rewrite (total_perm _ _ (Permutation_map (fun k => nth k v 0) H)). rewrite map_nth_seq. reflexivity.
Qed.

(* the searches, for a count vector w in the quantizer's own order *)
Section RefineGenFacts.
Variable cost_own : list nat -> Q.
Variables (prec w : list nat) (base : Q).
Local Notation P := (length prec).
Hypothesis Hw : length w = P.

Theorem refine_gen_is_refine :
  refine_gen cost_own prec w base =
  if Qeq_bool (cost_own w) base then Some (refine (gcost cost_own prec) (gskip prec) (ginit prec w)) else None.
Proof. apply refine_gen_eq. apply unsorted_sorted. exact Hw. Qed.

Lemma length_ginit : length (ginit prec w) = P.
Proof. unfold ginit. rewrite map_length. apply length_sorted_indexes. Qed.

(* cost not higher: what _compute_cost gives for the configuration kept is at most base_cost *)
Theorem gen_cost_not_higher r : refine_gen cost_own prec w base = Some r -> (cost_own (unsorted_gen prec r) <= base)%Q.
Proof.
  rewrite refine_gen_is_refine. destruct (Qeq_bool (cost_own w) base) eqn:E; [|discriminate]. intro H. inversion H; subst r.
  apply Qeq_bool_iff in E. rewrite <- E.
  pose proof (refine_cost_le (gcost cost_own prec) (gskip prec) (ginit prec w)) as K. unfold gcost at 1 3 in K.
  rewrite (unsorted_sorted prec w Hw) in K. exact K.
Qed.

(* only upward moves *)
Theorem gen_only_upward r : refine_gen cost_own prec w base = Some r -> up (ginit prec w) r.
Proof.
  rewrite refine_gen_is_refine. destruct (Qeq_bool (cost_own w) base); [|discriminate]. intro H. inversion H. apply refine_up.
Qed.

(* every precision that gains channels lies above every precision that loses channels *)
Theorem gen_separates r : NoDup prec -> refine_gen cost_own prec w base = Some r -> sep (ginit prec w) r.
Proof.
  intro Hnd. rewrite refine_gen_is_refine. destruct (Qeq_bool (cost_own w) base); [|discriminate]. intro H. inversion H.
  rewrite (refine_skip_ext _ (gskip prec) (fun i => Nat.ltb i P && gskip prec i)).
  - apply refine_sep. intros i Hi. apply andb_prop in Hi as [Hlt Hsk]. apply Nat.ltb_lt in Hlt. apply (gskip_only_zero prec Hnd i Hlt Hsk).
  - intros i Hi. rewrite length_ginit in Hi. apply Nat.ltb_lt in Hi. rewrite Hi. reflexivity.
Qed.

Theorem gen_total_kept r : refine_gen cost_own prec w base = Some r -> length r = P /\ total_of (unsorted_gen prec r) = total_of w.
Proof.
  intro H. pose proof (gen_only_upward r H) as Hup.
  assert (Hl : length r = P) by (rewrite (up_length _ _ Hup); apply length_ginit).
  split; [exact Hl|]. unfold unsorted_gen. rewrite total_reindex.
  - rewrite (up_total _ _ Hup). unfold ginit. apply total_reindex. rewrite Hw. apply sorted_indexes_perm.
  - rewrite Hl. unfold inverse_indexes_gen. rewrite <- (length_sorted_indexes prec). apply argsort_asc_perm.
Qed.
End RefineGenFacts.

(* the block applied to a layer: cur = arg-max of its alpha per channel, orders = arg-sort per precision *)
Section LayerEq.
Variable cost_own : list nat -> Q.
Variables (prec : list nat) (base : Q) (cur : list nat) (orders : list (list nat)).
Local Notation P := (length prec).
Local Notation C := (length cur).
Hypothesis Hord : length orders = P.
Hypothesis Hperm : Forall (fun o => Permutation o (seq 0 C)) orders.

Lemma length_own_counts : length (own_counts P cur) = P.
Proof. unfold own_counts. rewrite map_length, seq_length. reflexivity. Qed.

Theorem layer_run_gen_eq :
  layer_run_gen cost_own prec base cur orders =
  if Qeq_bool (cost_own (own_counts P cur)) base
  then Some (reassign_abs cur orders (best_own (gcost cost_own prec) (gskip prec) P cur (own_of_gen prec) (pos_of_gen prec)))
  else None.
Proof.
  unfold layer_run_gen. rewrite layer_gen_as_refine, (refine_gen_is_refine _ _ _ _ length_own_counts).
  destruct (Qeq_bool _ _); [|reflexivity]. f_equal. rewrite reassign_abs_gen_eq.
  - unfold best_own. rewrite unsorted_gen_eq, ginit_eq. reflexivity.
  - unfold unsorted_gen. rewrite map_length, length_inverse_indexes. symmetry. exact Hord.
  - exact Hperm.
Qed.

Hypothesis Hcur : Forall (fun p => p < P) cur.

(* counts met: every channel has one precision and every precision the number of channels the search kept *)
Theorem gen_counts_met a r :
  layer_run_gen cost_own prec base cur orders = Some a -> refine_gen cost_own prec (own_counts P cur) base = Some r ->
  reassign_ok a (unsorted_gen prec r) = true.
Proof.
  unfold layer_run_gen. rewrite layer_gen_as_refine. intros Ha Hr. rewrite Hr in Ha. inversion Ha; subst a. clear Ha.
  destruct (gen_total_kept _ _ _ _ length_own_counts r Hr) as [Hl Ht].
  assert (Hlb : length (unsorted_gen prec r) = P) by (unfold unsorted_gen; rewrite map_length; apply length_inverse_indexes).
  rewrite reassign_abs_gen_eq; [|rewrite Hlb; symmetry; exact Hord|exact Hperm].
  apply (reassign_total P C cur orders _ eq_refl Hcur Hord Hperm Hlb).
  change (total_of (unsorted_gen prec r) = C). rewrite Ht.
  apply (counts_total P C cur orders eq_refl Hcur Hord Hperm).
Qed.

(* no channel demoted: a channel keeps its precision or moves to one of strictly higher BIT-WIDTH, whatever the order
   in which the quantizer lists its (pairwise different) precisions *)
Theorem gen_no_channel_demoted a : NoDup prec ->
  layer_run_gen cost_own prec base cur orders = Some a ->
  forall c x, c < C -> get a c = Some x -> x = nth c cur 0 \/ nth (nth c cur 0) prec 0 < nth x prec 0.
Proof.
  intros Hnd Ha c x Hc Hx. rewrite layer_run_gen_eq in Ha. destruct (Qeq_bool _ _); [|discriminate]. inversion Ha; subst a. clear Ha.
  assert (Hcc : nth c cur 0 < P) by (rewrite Forall_forall in Hcur; apply Hcur, nth_In, Hc).
  unfold best_own in Hx.
  rewrite (refine_skip_ext _ (gskip prec) (fun i => Nat.ltb i P && gskip prec i)) in Hx.
  2:{ intros i Hi. unfold init_sorted in Hi. rewrite map_length, seq_length in Hi. apply Nat.ltb_lt in Hi. rewrite Hi. reflexivity. }
  destruct (refine_reassign_promotes (gcost cost_own prec) (fun i => Nat.ltb i P && gskip prec i)
              (fun i Hi => match andb_prop _ _ Hi with conj H1 H2 => gskip_only_zero prec Hnd i (proj1 (Nat.ltb_lt _ _) H1) H2 end)
              P C cur orders eq_refl Hcur Hord Hperm (own_of_gen prec) (pos_of_gen prec) (inverse_indexes_inverse prec) c x Hc Hx) as [E|E];
    [left; exact E|right].
  destruct (Nat.lt_ge_cases x P) as [Hxp|Hxp].
  - apply (pos_of_monotone prec Hnd _ _ Hcc Hxp E).
  - unfold pos_of_gen at 2 in E. rewrite (nth_overflow (inverse_indexes_gen prec)) in E by (rewrite length_inverse_indexes; exact Hxp). lia.
Qed.
End LayerEq.

(* ================================================================== the binary matrix returned by _reassign_precisions *)
Section Matrix.
Variables (cur : list nat) (orders : list (list nat)) (best : list nat) (a : assignment).
Local Notation P := (length orders).
Local Notation C := (length cur).

Definition minv (n : nat) (m : list (list bool)) : Prop :=
  length m = P /\ (forall p, p < P -> length (nth p m []) = C) /\
  forall p c, p < P -> c < C -> nth c (nth p m []) false = Nat.ltb c n && is_prec p (get a c).

Lemma minv_zeros : minv 0 (zeros_mat P C).
Proof.
  unfold zeros_mat. split; [apply repeat_length|]. split.
  - intros p Hp. rewrite (nth_indep _ [] (repeat false C)) by (rewrite repeat_length; exact Hp). rewrite nth_repeat. apply repeat_length.
  - intros p c Hp Hc. rewrite (nth_indep _ [] (repeat false C)) by (rewrite repeat_length; exact Hp). rewrite !nth_repeat. reflexivity.
Qed.

Lemma ltb_succ c n : Nat.ltb c (S n) = Nat.ltb c n || Nat.eqb c n.
Proof. destruct (Nat.ltb c n) eqn:E1, (Nat.eqb c n) eqn:E2, (Nat.ltb c (S n)) eqn:E3; try reflexivity;
  rewrite ?Nat.ltb_lt, ?Nat.ltb_ge, ?Nat.eqb_eq, ?Nat.eqb_neq in *; lia. Qed.

Lemma minv_step n m : n < C -> minv n m -> minv (S n) (matrix_step_gen cur orders best a m n).
Proof.
  intros Hn (H1 & H2 & H3). unfold matrix_step_gen. cbv zeta. destruct (get a n) as [q|] eqn:Eq.
  - destruct (Nat.lt_ge_cases q P) as [Hq|Hq].
    + unfold mset. split; [rewrite length_set_nth; exact H1|]. split.
      * intros p Hp. destruct (Nat.eq_dec q p) as [E|E].
        -- subst q. rewrite gnth_set_nth_same by (rewrite H1; exact Hp). rewrite length_set_nth. apply H2, Hp.
        -- rewrite gnth_set_nth_other by exact E. apply H2, Hp.
      * intros p c Hp Hc. rewrite ltb_succ. destruct (Nat.eq_dec q p) as [E|E].
        -- subst q. rewrite gnth_set_nth_same by (rewrite H1; exact Hp). destruct (Nat.eq_dec n c) as [E'|E'].
           ++ subst c. rewrite gnth_set_nth_same by (rewrite H2 by exact Hp; exact Hn). rewrite Eq. cbn [is_prec].
              rewrite !Nat.eqb_refl. rewrite orb_true_r. reflexivity.
           ++ rewrite gnth_set_nth_other by exact E'. rewrite H3 by assumption.
              replace (Nat.eqb c n) with false by (symmetry; apply Nat.eqb_neq; lia). rewrite orb_false_r. reflexivity.
        -- rewrite gnth_set_nth_other by exact E. rewrite H3 by assumption. destruct (Nat.eqb c n) eqn:E'.
           ++ apply Nat.eqb_eq in E'. subst c. rewrite Eq. cbn [is_prec].
              replace (Nat.eqb p q) with false by (symmetry; apply Nat.eqb_neq; lia). rewrite !andb_false_r. reflexivity.
           ++ rewrite orb_false_r. reflexivity.
    + unfold mset. rewrite (set_nth_overflow q _ m) by (rewrite H1; exact Hq). split; [exact H1|]. split; [exact H2|].
      intros p c Hp Hc. rewrite H3 by assumption. rewrite ltb_succ. destruct (Nat.eqb c n) eqn:E'.
      * apply Nat.eqb_eq in E'. subst c. rewrite Eq. cbn [is_prec].
        replace (Nat.eqb p q) with false by (symmetry; apply Nat.eqb_neq; lia). rewrite !andb_false_r. reflexivity.
      * rewrite orb_false_r. reflexivity.
  - split; [exact H1|]. split; [exact H2|]. intros p c Hp Hc. rewrite H3 by assumption. rewrite ltb_succ.
    destruct (Nat.eqb c n) eqn:E'; [|rewrite orb_false_r; reflexivity].
    apply Nat.eqb_eq in E'. subst c. rewrite Eq. cbn [is_prec]. rewrite !andb_false_r. reflexivity.
Qed.

Lemma minv_fold : forall k n m, n + k <= C -> minv n m -> minv (n + k) (fold_left (matrix_step_gen cur orders best a) (seq n k) m).
Proof.
  induction k as [|k IH]; intros n m Hk Hm; cbn [seq fold_left]; [rewrite Nat.add_0_r; exact Hm|].
  replace (n + S k) with (S n + k) by lia. apply IH; [lia|]. apply minv_step; [lia|exact Hm].
Qed.
End Matrix.

(* row p, column c of the matrix is 1 exactly when channel c was given precision p: one 1 per column for a total
   assignment, so the arg-max over the rows reads the assignment back *)
Theorem reassign_matrix_gen_spec cur orders best p c : p < length orders -> c < length cur ->
  nth c (nth p (reassign_matrix_gen cur orders best) []) false = is_prec p (get (reassign_abs_gen cur orders best) c).
Proof.
  intros Hp Hc. unfold reassign_matrix_gen, matrix_gen. cbv zeta.
  destruct (minv_fold cur orders best (reassign_abs_gen cur orders best) (length cur) 0 _ (Nat.le_refl _)
              (minv_zeros cur orders (reassign_abs_gen cur orders best))) as (_ & _ & H).
  cbn [plus] in H. rewrite H by assumption. apply Nat.ltb_lt in Hc. rewrite Hc. reflexivity.
Qed.
