(* C16 — Built-in cost models are finite, non-negative and monotone in layer size.  (first slice) *)
From Coq Require Import QArith Qround ZArith List.
Import ListNotations.
Require Import Plinio.Base.Qx Plinio.Base.Expr.
Open Scope Q_scope.

Theorem C16_expr_mono_nonneg : forall e, okb e = true ->
  forall r r', (forall i, 0 <= r i) -> (forall i, r i <= r' i) -> 0 <= eval r e /\ eval r e <= eval r' e.
Proof. exact expr_mono_nonneg. Qed.

Theorem C16_expr_positive : forall lo e, posb lo e = true ->
  forall r r', (forall i, lo i <= r i) -> (forall i, r i <= r' i) -> 0 < eval r e /\ eval r e <= eval r' e.
Proof. exact expr_pos. Qed.

Print Assumptions C16_expr_mono_nonneg.
Print Assumptions C16_expr_positive.
