"""C10 — what is evaluated, reported and exported is the same choice (DESIGN.md §C10).
Theorems: coq/Props/C10.v over coq/Model/Sampler.v (exp abstract: positive, strictly increasing).

Correspondence: real MPSPerLayerQtz / MPSPerChannelQtz objects (stand-alone and inside real MPS models)
and real SuperNetCombiner objects inside real SuperNet models, driven through
  (a) a configuration sweep: coefficient vectors of length 1..8 / matrices up to 8x16 with pairwise gaps
      >= 0.05, temperatures {0.05,0.1,0.5,1,2,5,20}, every combination of hard / gumbel /
      disable_sampling, train and eval;
  (b) the breadth-first closure of the abstract sampler state under the full op alphabet
      (update_softmax_options with every combination of optional arguments, train, eval, forward,
      optimizer step);
  (c) random longer op sequences, also through MPS.update_softmax_options on whole models.
Every op is executed on the real object; sampler function, hard flag, training flag, temperature and
theta_alpha after EVERY step are compared inside Coq (vm_compute) with Model/Sampler.v.  exp enters the
model as a finite table holding the implementation's own float arguments (exact fractions, float64
exponentials); Gumbel noise is regenerated with the primitive F.gumbel_softmax uses after re-seeding
torch and handed to the model.  Oracle: the sentences of the property on the implementation; summary() and export() must report / materialise
the arg-max alternative of the CURRENT raw coefficients (also right after an alpha update, before any forward) and agree.
Forward passes run in all three autograd modes (normal, torch.no_grad(), torch.inference_mode()); alpha is replaced by
in-place copy_, `.data =` and load_state_dict, also between two forwards without any mode / option call in between.
"""
import math, itertools, json
import time
from .common import *
from . import c10_gen
from .c10_gen import regenerate      # setup.sh regenerates Gen/SamplerGen.v through this name

TEMPS = [0.05, 0.1, 0.5, 1.0, 2.0, 5.0, 20.0]
COMB_TEMPS = TEMPS + [0.25, 0.9, 1.5, 2.5]      # also non-integer values around 1 (a temperature kept in an integer container would truncate them)
PRECS = (2, 3, 4, 5, 6, 7, 8, 16)
KSIZES = (1, 3, 5, 7, 9, 11, 13, 15)
TOL = Fraction(1, 2 ** 20)
NAMES = {'sample_alpha_sm': 0, 'sample_alpha_gs': 1, 'sample_alpha_none': 2}
_CACHE = {}


def f32(x):
    import struct
    return struct.unpack('f', struct.pack('f', x))[0]


NONFINITE = Fraction(1 << 40)      # stands for nan / +-inf in an observation: fails every sentence (not in [0,1], sums are off)


def frac(x):
    """exact rational value of a python / torch float; nan and +-inf become the sentinel NONFINITE (an observation
    such as a NaN coefficient must reach the oracle, not crash the harness)"""
    x = float(x)
    if x != x or x in (float('inf'), float('-inf')):
        return -NONFINITE if x == float('-inf') else NONFINITE
    return Fraction(x)


def z30(v):
    """value on the 2^-30 grid (coefficients are exact there; noise / observed theta are rounded, 2^-31 << tolerance)"""
    return int(round(Fraction(v) * (1 << 30)))


def me30(v):
    """float -> (m, e) with v ~ m * 2^e, 30-bit mantissa"""
    if v != v or v in (float('inf'), float('-inf')):
        return (1, 60)
    f, e = math.frexp(v)
    return (int(round(f * (1 << 30))), e - 30)


GRAD_MODES = ('grad', 'no_grad', 'inference')
ROUTES = ('copy', 'data', 'load')


def grad_ctx(mode):
    """autograd mode a forward pass runs in: normal / torch.no_grad() / torch.inference_mode()"""
    import contextlib
    torch = _torch()
    return torch.no_grad() if mode == 'no_grad' else torch.inference_mode() if mode == 'inference' else contextlib.nullcontext()


def set_alpha(param_owner, new, route):
    """alpha := new by one of the three routes real code uses: in-place copy_ (optimizer step), `.data =`
    (plinio/methods/mps/utils.py), load_state_dict (checkpoint)"""
    torch = _torch()
    if route == 'data':
        param_owner.alpha.data = new.clone()
    elif route == 'load':
        param_owner.load_state_dict({'alpha': new.clone()}, strict=False)
    else:
        with torch.no_grad():
            param_owner.alpha.copy_(new)


def pytorch_inference_limit(ex):
    """PyTorch forbids using / updating a tensor created under torch.inference_mode() in autograd afterwards; a
    sequence that runs into this restriction is cut there (counted), it says nothing about the property"""
    seen = 0
    while ex is not None and seen < 6:          # fx.Interpreter / ShapeProp re-raise with the original as cause / context
        if isinstance(ex, RuntimeError) and 'nference tensor' in str(ex):
            return True
        ex = ex.__cause__ or ex.__context__
        seen += 1
    return False


def sexp(z):
    """exp of an implementation-side float argument; non-finite / overflowing arguments give inf (-> me30 sentinel)"""
    try:
        return math.exp(z)
    except (OverflowError, ValueError):
        return float('inf')


def _torch():
    if 'torch' not in _CACHE:
        _CACHE['torch'] = setup_torch()
    return _CACHE['torch']


# ----------------------------------------------------------------------------- generators
def gen_col(rng, n):
    """n coefficients in [-2,2] with pairwise gaps >= 0.05 (dyadic 1/16 grid, or the 0.05 grid)"""
    if rng.random() < 0.5:
        ks = rng.sample(range(-32, 33), n)
        return [k / 16.0 for k in ks]
    ks = rng.sample(range(-40, 41), n)
    return [f32(k * 0.05) for k in ks]


def gen_alpha(rng, n, c):
    return [gen_col(rng, n) for _ in range(c)]


# ----------------------------------------------------------------------------- objects under test
class Obj:
    """one sampler of the implementation; kind: 'layer' | 'chan' (stand-alone MPS selectors),
    'comb' (SuperNetCombiner inside a real SuperNet, driven through the SuperNet API)"""

    def __init__(self, spec):
        torch = _torch()
        self.kind = spec['kind']
        self.n, self.c = spec['n'], spec.get('c', 1)
        T, h, g, d = spec['ctor']
        if self.kind in ('layer', 'chan'):
            from plinio.methods.mps.nn.qtz import MPSPerLayerQtz, MPSPerChannelQtz
            from plinio.methods.mps.quant.quantizers import PACTAct, MinMaxWeight
            if self.kind == 'layer':
                self.q = MPSPerLayerQtz(PRECS[:self.n], PACTAct, {}, T, h, g, d)
                self.x = torch.rand(1, 2, 3, 3)
            else:
                self.q = MPSPerChannelQtz(PRECS[:self.n], MinMaxWeight, {'cout': self.c}, T, h, g, d)
                self.x = torch.randn(self.c, 2, 1, 1)
            self.top = self.q
        else:
            calls = int(spec.get('calls', 1))          # how many times the SuperNetModule is applied per forward pass
            self.calls = calls
            key = ('sn', self.n, bool(g), bool(spec.get('fresh')), calls)
            if spec.get('fresh') or key not in _CACHE:
                import torch.nn as nn
                from plinio.methods import SuperNet
                from plinio.methods.supernet import SuperNetModule
                n = self.n

                class SN(nn.Module):
                    def __init__(s):
                        super().__init__()
                        s.b = SuperNetModule([nn.Conv2d(3, 3, k, padding=k // 2) for k in KSIZES[:n]], gumbel_softmax=bool(g))
                        s.l = nn.Conv2d(3, 2, 1)

                    def forward(s, x):
                        for _ in range(calls):
                            x = s.b(x)
                        return s.l(x)
                net = SN()
                sn = SuperNet(net, input_shape=(3, 8, 8))
                sn._c10_net = net
                if not spec.get('fresh'):
                    _CACHE[key] = sn
            else:
                sn = _CACHE[key]
            self.top = sn
            self.q = [m for m in sn.seed.modules() if type(m).__name__ == 'SuperNetCombiner'][0]
            self.x = torch.rand(1, 3, 8, 8)
            sn.train()
            sn.update_softmax_options(temperature=T, hard=h)
        with torch.no_grad():
            a = torch.tensor(spec['alpha'], dtype=torch.float32)      # columns
            self.q.alpha.copy_(a.t() if self.kind == 'chan' else a[0])
        if self.kind == 'comb':
            torch.manual_seed(12345)
            self.top(self.x)         # detaches theta_alpha from its construction-time alias of alpha
        if spec.get('mode') == 'eval':
            self.top.eval()

    # -- observations (everything as exact fractions)
    def cols(self, t):
        t = t.detach()
        if self.kind == 'chan':
            return [[frac(v) for v in t[:, j].tolist()] for j in range(t.shape[1])]
        return [[frac(v) for v in t.tolist()]]

    def T(self):
        return float(self.q.temperature) if self.kind != 'comb' else self.q.softmax_temperature

    def obs(self):
        return {'name': self.q.sample_alpha.__name__, 'hard': bool(self.q.hard_softmax), 'training': bool(self.q.training),
                'T': frac(self.T()), 'theta': self.cols(self.q.theta_alpha), 'alpha': self.cols(self.q.alpha)}

    def apply(self, op, tab):
        """execute one op; returns the op as the model sees it (with the regenerated noise)"""
        torch = _torch()
        if op[0] == 'upd':
            _, t, h, g, d = op
            if self.kind == 'comb':
                kw = {}
                if g is not None:
                    kw['gumbel'] = g
                if d is not None:
                    kw['disable_sampling'] = d
                self.top.update_softmax_options(temperature=t, hard=h, **kw)   # TypeError is an observation
                return ['upd', None if t is None else frac(t), h, g, d]
            self.q.update_softmax_options(temperature=t, hard=h, gumbel=g, disable_sampling=d)
            return ['upd', None if t is None else frac(f32(t)), h, g, d]
        if op[0] == 'train':
            self.top.train()
            return ['train']
        if op[0] == 'eval':
            self.top.eval()
            return ['eval']
        if op[0] == 'opt':
            a = torch.tensor(op[1], dtype=torch.float32)
            set_alpha(self.q, a.t().contiguous() if self.kind == 'chan' else a[0], op[2] if len(op) > 2 else 'copy')
            return ['opt', [[frac(v) for v in col] for col in op[1]]]
        if op[0] == 'fwd':
            seed = op[1]
            al = self.q.alpha.detach()
            Timpl = self.q.temperature.item() if self.kind != 'comb' else self.q.softmax_temperature
            torch.manual_seed(seed)
            uses_noise = self.q.sample_alpha.__name__ == 'sample_alpha_gs' and self.q.training
            for _ in range(getattr(self, 'calls', 1) if uses_noise else 1):
                noise = -torch.empty_like(al).exponential_().log()
            Tq = frac(Timpl)
            flat = (lambda t: (t.t() if t.dim() == 2 else t).flatten().tolist())
            z = al / Timpl
            tab.append((Tq, [z30(a_) for a_ in flat(al)], [me30(sexp(z_)) for z_ in flat(z)]))
            if uses_noise:
                zg = (al + noise) / Timpl
                tab.append((Tq, [z30(a_) + z30(n_) for a_, n_ in zip(flat(al), flat(noise))], [me30(sexp(z_)) for z_ in flat(zg)]))
            torch.manual_seed(seed)
            with grad_ctx(op[2] if len(op) > 2 else 'grad'):
                self.top(self.x)
            nz = self.cols(noise) if uses_noise else []
            margin = None
            if uses_noise:
                zz = zg if zg.dim() == 2 else zg.unsqueeze(1)
                if zz.shape[0] > 1:
                    top2 = zz.topk(2, dim=0).values
                    margin = float((top2[0] - top2[1]).min())
            return ['fwd', nz, margin]
        if op[0] == 'snap':
            # copy.deepcopy of the selector (of the whole SuperNet for a combiner): every later op acts on the COPY
            import copy
            self.original = (self.q, self.obs())
            if self.kind == 'comb':
                self.top = copy.deepcopy(self.top)
                self.q = [m for m in self.top.seed.modules() if type(m).__name__ == 'SuperNetCombiner'][0]
            else:
                self.q = copy.deepcopy(self.q)
                self.top = self.q
            return None
        raise ValueError(op)


def is_prob(col, tol=1e-5):
    return all(v >= 0 for v in col) and abs(float(sum(col)) - 1.0) <= tol


def argmax_first(col):
    return max(range(len(col)), key=lambda i: (col[i], -i))


def onehot_pos(col, tol=0.0):
    """index of the 1 if col is a one-hot (within tol), else None"""
    idx = [i for i, v in enumerate(col) if abs(float(v) - 1.0) <= tol]
    if len(idx) == 1 and all(abs(float(v)) <= tol for i, v in enumerate(col) if i != idx[0]):
        return idx[0]
    return None


def oracle_forward(kind, before, after):
    """the sentences of the property for ONE forward pass; `before` = options in force, `after` = theta"""
    fails = []
    th, al = after['theta'], before['alpha']
    name, hard, tr = before['name'], before['hard'], before['training']
    who = 'supernet' if kind == 'comb' else 'mps'
    must_argmax = (not tr) or (hard and name == 'sample_alpha_sm')
    if name == 'sample_alpha_none':
        if not all(is_prob(c) for c in th):
            # a stand-alone selector CONSTRUCTED with disable_sampling=True never samples (open finding); a whole MPS model
            # built or switched with disable_sampling=True has sampled at construction and must hold a probability vector
            fails.append(('disable-sampling:coefficients-not-a-probability-vector' + (':mps-model' if kind == 'mps-model' else ''),
                          'theta_alpha after forward is not a probability vector' + (' (whole MPS model, sampling disabled through MPS(...) / update_softmax_options)' if kind == 'mps-model' else '')))
        elif must_argmax and [onehot_pos(c) for c in th] != [argmax_first(a) for a in al]:
            fails.append(('disable-sampling:stale-not-onehot-at-argmax', 'theta_alpha after forward is not the one-hot at argmax(alpha)'))
        return fails
    if not all(is_prob(c) for c in th):
        fails.append(('%s:theta-not-a-probability-vector' % who, 'a column of theta_alpha is negative or does not sum to 1'))
    if must_argmax:
        if [onehot_pos(c) for c in th] != [argmax_first(a) for a in al]:
            mode = 'eval' if not tr else 'hard-train'
            soft = 'soft' if not hard else 'hard'
            fails.append(('%s:%s-%s-not-onehot-at-argmax' % (who, mode, soft), 'theta_alpha after forward is not the one-hot at argmax(alpha) (mode %s, hard=%s, sampler %s)' % (mode, hard, name)))
    elif hard and any(onehot_pos(c, 1e-6) is None for c in th):
        fails.append(('%s:gumbel-hard-not-onehot' % who, 'hard Gumbel sample is not a one-hot'))
    return fails


def exec_case(spec):
    """run one op sequence on a fresh (or reset) real object; returns observations, the exp table, oracle failures"""
    torch = _torch()
    res = {'spec': spec, 'fails': [], 'steps': [], 'mops': [], 'margins': []}
    try:
        o = Obj(spec)
    except Exception as ex:
        res['fails'].append(('object-construction-raised', 'EXC:%s %s' % (type(ex).__name__, str(ex)[:200]), 0))
        res['init'] = None
        return res
    tab = []
    st = o.obs()
    T, h, g, d = spec['ctor']
    res['init'] = dict(st, gumbel=bool(g) and o.kind != 'comb' or st['name'] == 'sample_alpha_gs', disabled=st['name'] == 'sample_alpha_none')
    for i, op in enumerate(spec['ops']):
        before = st
        try:
            mop = o.apply(op, tab)
            if mop is None:                 # snapshot: nothing happens for the sampler model, the copy is in the original's state
                if o.obs() != before:
                    res['fails'].append(('%s:snapshot:copy-differs-from-the-original' % ('supernet' if o.kind == 'comb' else 'mps'), 'deep copy holds %r, original %r' % (o.obs(), before), i))
                continue
            st = o.obs()
            res['steps'].append(st)
        except TypeError as ex:
            mop = ['upd', None if op[1] is None else frac(op[1])] + list(op[2:]) if op[0] == 'upd' else [op[0]]
            res['mops'].append(mop)
            res['steps'].append(None)
            if not (o.kind == 'comb' and op[0] == 'upd' and (op[3] is not None or op[4] is not None)):
                res['fails'].append(('op-raised', 'EXC:TypeError %s on %r' % (str(ex)[:150], op), i))
            break
        except Exception as ex:
            if pytorch_inference_limit(ex) or (isinstance(ex, RuntimeError) and 'deepcopy protocol' in str(ex)):
                res['cut'] = i          # PyTorch restrictions (inference tensors in autograd; deepcopy of a tensor with a grad_fn)
                break
            res['mops'].append([op[0]])
            res['steps'].append(None)
            res['fails'].append(('op-raised', 'EXC:%s %s on %r' % (type(ex).__name__, str(ex)[:150], op), i))
            break
        res['mops'].append(mop)
        if op[0] == 'fwd':
            res['margins'].append((i, mop[2]))
            for key, what in oracle_forward(o.kind, before, st):
                res['fails'].append((key, what, i))
    res['tab'] = tab
    res['final'] = st
    if getattr(o, 'original', None) is not None:
        q0, st0 = o.original
        now = {'name': q0.sample_alpha.__name__, 'hard': bool(q0.hard_softmax), 'training': bool(q0.training), 'theta': o.cols(q0.theta_alpha), 'alpha': o.cols(q0.alpha)}
        changed = [k for k in now if now[k] != st0[k]]
        if changed:
            res['fails'].append(('%s:snapshot:ops-on-the-copy-changed-the-original' % ('supernet' if o.kind == 'comb' else 'mps'),
                                 'the ORIGINAL changed (%s) while only its deep copy was used: theta_alpha %r -> %r' % (', '.join(changed), [[float(v) for v in c] for c in st0['theta']], [[float(v) for v in c] for c in now['theta']]), len(spec['ops'])))
    if o.kind == 'comb':
        res['best'] = o.q.best_layer_index()
        if spec.get('export'):
            # summary()/export() against argmax of the CURRENT raw coefficients and against each other; against the
            # evaluated one-hot only if a forward pass happened after the last coefficient update
            import torch.nn as nn
            try:
                best = argmax_first(st['alpha'][0])
                kinds = [op[0] for op in spec['ops'] if op[0] != 'snap'][:len(res['steps'])]
                last_fwd = max([i for i, k_ in enumerate(kinds) if k_ == 'fwd'], default=-1)
                last_opt = max([i for i, k_ in enumerate(kinds) if k_ == 'opt'], default=-2)
                fresh = last_fwd > last_opt
                tag = '' if fresh else ':after-alpha-update-without-forward'
                ev = onehot_pos(st['theta'][0]) if fresh and (not st['training'] or st['hard']) and st['name'] == 'sample_alpha_sm' else None
                sm = o.top.summary()
                vals = [b['alpha'] for b in list(sm.values())[0]['supernet_branches'].values()]
                res['summary_best'] = argmax_first(vals)
                if argmax_first(vals) != best:
                    res['fails'].append(('supernet:summary-largest-is-not-argmax-alpha' + tag, 'summary() reports its largest coefficient at branch %d, argmax(alpha) is %d' % (argmax_first(vals), best), len(spec['ops'])))
                e = o.top.export()
                ks = [m.kernel_size[0] for n_, m in e.named_modules() if isinstance(m, nn.Conv2d) and n_ != 'l']
                res['exported'] = ks
                if ks != [KSIZES[res['summary_best']]]:
                    res['fails'].append(('supernet:summary-differs-from-export' + tag, 'summary() reports branch %d (kernel %d) as the largest, export() kept kernel sizes %r' % (res['summary_best'], KSIZES[res['summary_best']], ks), len(spec['ops'])))
                if ks != [KSIZES[best]] or res['best'] != best:
                    res['fails'].append(('supernet:export-is-not-argmax-alpha' + tag, 'export() kept kernel sizes %r and best_layer_index() = %d; argmax(alpha) = %d has kernel %d' % (ks, res['best'], best, KSIZES[best]), len(spec['ops'])))
                net = getattr(o.top, '_c10_net', None)
                if net is not None:
                    import torch
                    with torch.no_grad():
                        ref = o.x
                        for _ in range(o.calls):
                            ref = net.b.sn_branches[best](ref)
                        ref = net.l(ref)
                        got = e(o.x)
                    if got.shape != ref.shape or not torch.allclose(got, ref, atol=1e-5):
                        res['fails'].append(('supernet:exported-network-is-not-the-argmax-branch' + tag, 'export() does not compute the network made of the arg-max branch %d (applied %d time(s)): max abs difference %s; modules kept: %r' % (
                            best, o.calls, 'shape' if got.shape != ref.shape else '%.4g' % float((got - ref).abs().max()), sorted({type(m).__name__ for m in e.modules()})), len(spec['ops'])))
                if ev is not None and ev != best:
                    res['fails'].append(('supernet:evaluated-onehot-differs-from-export', 'evaluated one-hot at %d, exported %d' % (ev, best), len(spec['ops'])))
            except Exception as ex:
                if pytorch_inference_limit(ex):
                    res['cut'] = len(spec['ops'])
                    return res
                res['fails'].append(('supernet:export-raised', 'EXC:%s %s' % (type(ex).__name__, str(ex)[:200]), len(spec['ops'])))
    return res


# ----------------------------------------------------------------------------- Coq literals
def c30(cols):
    return Raw('(cols30 %s)' % coq([[z30(v) for v in c] for c in cols]))


def q_tab(blocks):
    if not blocks:
        return Raw('[]')
    return Raw('(' + ' ++ '.join('tab_block %s %s %s' % (coq(T), coq(xs), coq(vs)) for T, xs, vs in blocks) + ')')


def q_sampler(st):
    return Raw('(mkS %s %s %s %s %s %s %s)' % (coq(st['hard']), coq(st['gumbel']), coq(st['disabled']), coq(st['T']),
                                               coq(st['training']), coq(c30(st['alpha'])), coq(c30(st['theta']))))


def q_opt(v):
    return Raw('None') if v is None else some(v)


def q_op(m):
    if m[0] == 'upd':
        return Raw('(SUpdate %s %s %s %s)' % tuple(coq(q_opt(v)) for v in m[1:5]))
    if m[0] == 'train':
        return Raw('STrain')
    if m[0] == 'eval':
        return Raw('SEval')
    if m[0] == 'fwd':
        return Raw('(SForward %s)' % coq(c30(m[1])))
    if m[0] == 'opt':
        return Raw('(SOptStep %s)' % coq(c30(m[1])))
    raise ValueError(m)


def q_obs(st):
    if st is None:
        return Raw('None')
    return some((NAMES[st['name']], st['hard'], st['training'], st['T'], c30(st['theta'])))


def trace_expr(r, keep, fixc):
    k = 'KComb' if r['spec']['kind'] == 'comb' else 'KMps'
    # closure family: the prefix is itself a case of the family, only the last transition is compared
    skip = max(0, len(r['steps']) - 1) if r['spec'].get('fam') == 'closure' else 0
    return 'run_trace %s %s %s %s %s %s %s %s %s' % (coq(keep), coq(fixc), k, coq(q_tab(r['tab'])), coq(TOL), coq(q_sampler(r['init'])),
                                                       coq([q_op(m) for m in r['mops']]), coq(Nat(skip)), coq([q_obs(s) for s in r['steps'][skip:]]))


# ----------------------------------------------------------------------------- case families
def specs_config(ctx):
    """(a) configuration sweep, one forward pass each"""
    rng = ctx.rng
    out = []
    sizes_l = list(range(1, 9))
    chan_shapes = [(1, 1), (2, 1), (3, 2), (2, 16), (5, 3), (8, 16), (4, 8), (8, 1), (7, 5), (3, 16)]
    reps = 1 if ctx.quick else 4
    for T in TEMPS:
        for h, g, d, tr in itertools.product((False, True), repeat=4):
            for _ in range(reps):
                n = rng.choice(sizes_l)
                out.append({'fam': 'config', 'kind': 'layer', 'n': n, 'c': 1, 'ctor': (T, h, g, d), 'alpha': gen_alpha(rng, n, 1),
                            'mode': 'train' if tr else 'eval', 'ops': [('fwd', rng.randrange(1 << 30))]})
                n, c = rng.choice(chan_shapes)
                out.append({'fam': 'config', 'kind': 'chan', 'n': n, 'c': c, 'ctor': (T, h, g, d), 'alpha': gen_alpha(rng, n, c),
                            'mode': 'train' if tr else 'eval', 'ops': [('fwd', rng.randrange(1 << 30))]})
            if not d:
                for _ in range(reps):
                    n = rng.choice(sizes_l)
                    out.append({'fam': 'config', 'kind': 'comb', 'n': n, 'c': 1, 'ctor': (T, h, g, False), 'alpha': gen_alpha(rng, n, 1),
                                'mode': 'train' if tr else 'eval', 'ops': [('fwd', rng.randrange(1 << 30))],
                                'export': rng.random() < (0.35 if ctx.quick else 0.5), 'fresh': True})
    # combiners at the non-integer temperatures around 1, set through SuperNet.update_softmax_options
    for T in COMB_TEMPS[len(TEMPS):]:
        for h, g, tr in itertools.product((False, True), repeat=3):
            n = rng.randint(2, 8)
            out.append({'fam': 'config', 'kind': 'comb', 'n': n, 'c': 1, 'ctor': (1.0, h, g, False), 'alpha': gen_alpha(rng, n, 1), 'mode': 'train' if tr else 'eval',
                        'ops': [('upd', T, None, None, None), ('fwd', rng.randrange(1 << 30), 'grad')], 'export': rng.random() < 0.4, 'fresh': True})
    # a SuperNetModule applied more than once per forward pass (same resolution), then summary()/export()
    for T in TEMPS:
        for h, g, tr in itertools.product((False, True), repeat=3):
            n = rng.randint(2, 8)
            out.append({'fam': 'multi-call', 'kind': 'comb', 'n': n, 'c': 1, 'calls': rng.choice([2, 2, 3]), 'ctor': (T, h, g, False), 'alpha': gen_alpha(rng, n, 1),
                        'mode': 'train' if tr else 'eval', 'ops': [('fwd', rng.randrange(1 << 30), rng.choice(GRAD_MODES[:2]))] + ([('opt', gen_alpha(rng, n, 1), rng.choice(ROUTES))] if rng.random() < 0.4 else []),
                        'export': True, 'fresh': True})
    # forward, then alpha := alpha' with the arg-max moved, then summary()/export() with NO forward in between
    for T in TEMPS:
        for h, g, tr in itertools.product((False, True), repeat=3):
            n = rng.randint(2, 8)
            a0 = gen_alpha(rng, n, 1)
            a1 = gen_alpha(rng, n, 1)
            if argmax_first(a1[0]) == argmax_first(a0[0]):
                k, o2 = argmax_first(a1[0]), (argmax_first(a1[0]) + 1 + rng.randrange(n - 1)) % n
                a1[0][k], a1[0][o2] = a1[0][o2], a1[0][k]
            out.append({'fam': 'flip', 'kind': 'comb', 'n': n, 'c': 1, 'ctor': (T, h, g, False), 'alpha': a0, 'mode': 'train' if tr else 'eval',
                        'ops': [('fwd', rng.randrange(1 << 30)), ('opt', a1)], 'export': True, 'fresh': True})
    # forward -> alpha := alpha' (arg-max moved; by copy_ / .data = / load_state_dict) -> forward, all in ONE autograd mode
    # (grad / torch.no_grad() / torch.inference_mode()) and with NO train()/eval()/option call in between
    for gm in GRAD_MODES:
        for route in ROUTES:
            for h, g, tr in itertools.product((False, True), repeat=3):
                for kind in ('layer', 'chan', 'comb'):
                    for rep in range(1 if ctx.quick else 3):
                        n = rng.randint(2, 8)
                        c = rng.choice([1, 2, 3, 8, 16]) if kind == 'chan' else 1
                        if kind == 'chan' and rng.random() < 0.3:
                            c = n                      # square matrix: a transposition error cannot hide behind a shape error
                        a0, a1 = gen_alpha(rng, n, c), gen_alpha(rng, n, c)
                        for j in range(c):
                            if argmax_first(a1[j]) == argmax_first(a0[j]):
                                k, o2 = argmax_first(a1[j]), (argmax_first(a1[j]) + 1 + rng.randrange(n - 1)) % n
                                a1[j][k], a1[j][o2] = a1[j][o2], a1[j][k]
                        ops = [('fwd', rng.randrange(1 << 30), gm)] * rng.randint(1, 2)
                        ops = [('fwd', rng.randrange(1 << 30), gm) for _ in ops] + [('opt', a1, route), ('fwd', rng.randrange(1 << 30), gm)]
                        sp = {'fam': 'stale', 'kind': kind, 'n': n, 'c': c, 'ctor': (rng.choice(TEMPS), h, g, False), 'alpha': a0,
                              'mode': 'train' if tr else 'eval', 'ops': ops}
                        if kind == 'comb':
                            sp.update(export=True, fresh=True)
                        out.append(sp)
    # deep-copied snapshots of a selector / of a SuperNet: copy (after construction or after a no_grad pass), then alpha / mode change on
    # the COPY and it is evaluated; the copy follows ITS coefficients, the original stays untouched
    for kind in ('layer', 'chan', 'comb'):
        for h, g, tr in itertools.product((False, True), repeat=3):
            for variant in range(2 if ctx.quick else 4):
                n = rng.randint(2, 8)
                c = rng.choice([1, 2, 3, 8]) if kind == 'chan' else 1
                a0, a1 = gen_alpha(rng, n, c), gen_alpha(rng, n, c)
                for j in range(c):
                    if argmax_first(a1[j]) == argmax_first(a0[j]):
                        k, o2 = argmax_first(a1[j]), (argmax_first(a1[j]) + 1 + rng.randrange(n - 1)) % n
                        a1[j][k], a1[j][o2] = a1[j][o2], a1[j][k]
                pre = [('fwd', rng.randrange(1 << 30), 'no_grad')] if variant % 2 else []
                post = [('opt', a1, rng.choice(ROUTES))] + ([('eval',) if tr else ('train',)] if rng.random() < 0.5 else []) + \
                       [('fwd', rng.randrange(1 << 30), rng.choice(GRAD_MODES[:2])), ('fwd', rng.randrange(1 << 30), rng.choice(GRAD_MODES[:2]))]
                sp = {'fam': 'snapshot', 'kind': kind, 'n': n, 'c': c, 'ctor': (rng.choice(TEMPS), h, g, False), 'alpha': a0, 'mode': 'train' if tr else 'eval',
                      'ops': pre + [('snap',)] + post}
                if kind == 'comb':
                    sp.update(export=True, fresh=True)
                out.append(sp)
    # every length / the extreme matrix shapes at least once per tier, in eval mode and hard training
    for n in sizes_l:
        for kind, c in (('layer', 1), ('comb', 1), ('chan', 16), ('chan', 1)):
            for (h, tr) in ((False, False), (True, True)):
                sp = {'fam': 'config', 'kind': kind, 'n': n, 'c': c, 'ctor': (rng.choice(TEMPS), h, False, False), 'alpha': gen_alpha(rng, n, c),
                      'mode': 'train' if tr else 'eval', 'ops': [('fwd', rng.randrange(1 << 30))]}
                if kind == 'comb':
                    sp.update(export=True, fresh=True)
                out.append(sp)
    return out


A0 = {'layer': [[0.25, 1.0, -0.5]], 'comb': [[0.25, 1.0, -0.5]], 'chan': [[0.25, 1.0, -0.5], [0.75, 0.0, 0.125]]}
A1 = {'layer': [[1.5, -1.0, 0.5]], 'comb': [[1.5, -1.0, 0.5]], 'chan': [[1.5, -1.0, 0.5], [-0.25, 0.5, 2.0]]}
T0, T1 = 1.0, 0.1


def alphabet(kind, thorough):
    ts = (None, T1, T0) if thorough else (None, T1)
    ops = []
    tf = (None, True, False)
    if kind == 'comb':
        ops += [('upd', t, h, None, None) for t in ts for h in tf]
        ops += [('upd', None, None, True, None), ('upd', None, None, None, True)]
    elif kind == 'chan' and not thorough:
        # quick tier: the per-channel selector shares update_softmax_options with the per-layer one (full alphabet
        # there); here every single-argument update and every fully specified one
        ops += [('upd', T1, None, None, None)] + [('upd', None, b, None, None) for b in (True, False)]
        ops += [('upd', None, None, b, None) for b in (True, False)] + [('upd', None, None, None, b) for b in (True, False)]
        ops += [('upd', T1, h, g, d) for h in (True, False) for g in (True, False) for d in (True, False)]
    elif kind == 'layer':
        # every None/True/False combination of hard, gumbel, disable_sampling without a temperature, and with a new
        # temperature the bare update and the fully specified ones (thorough: also back to the first temperature)
        ops += [('upd', None, h, g, d) for h in tf for g in tf for d in tf if (h, g, d) != (None, None, None)]
        for t in ts[1:]:
            ops += [('upd', t, None, None, None)] + [('upd', t, h, g, d) for h in (True, False) for g in (True, False) for d in (True, False)]
    else:
        ops += [('upd', t, h, g, d) for t in ts for h in tf for g in tf for d in tf]
    ops += [('train',), ('eval',), ('fwd', 0, 'grad'), ('fwd', 0, 'no_grad')] + ([('fwd', 0, 'inference')] if thorough else [])
    ops += [('opt', A0[kind], 'copy'), ('opt', A0[kind], 'load'), ('opt', A1[kind], 'data'), ('opt', A1[kind], 'copy' if not thorough else 'load')]
    return ops


def abs_key(r, fine=False):
    """abstract state after the last op: sampler fn, hard, training, and what theta_alpha holds (initial value /
    one-hot / soft / Gumbel sample, and whether it was computed from the current coefficients and temperature);
    fine=True additionally distinguishes which temperature and which coefficient tensor are installed"""
    if r['init'] is None or (r['steps'] and r['steps'][-1] is None):
        return None
    st = r['final']
    content, stamp, lastmode = 'init', None, None
    cur = r['init']
    for op, s in zip(r['spec']['ops'], r['steps']):
        if op[0] == 'fwd':
            lastmode = None if (len(op) < 3 or op[2] == 'grad') else 'nograd'     # last forward ran without autograd ...
        if op[0] in ('train', 'eval', 'upd'):
            lastmode = None                                                       # ... and no mode / option call since
        if op[0] == 'fwd' and cur['name'] != 'sample_alpha_none':
            if cur['name'] == 'sample_alpha_gs' and cur['training']:
                content = 'gs-hard' if cur['hard'] else 'gs-soft'
            else:
                content = 'oh' if all(onehot_pos(c) is not None for c in s['theta']) else 'sm'
            stamp = (cur['alpha'], cur['T'])
        cur = s
    fresh = stamp is not None and stamp[0] == st['alpha'] and (content == 'oh' or stamp[1] == st['T'])
    key = (st['name'], st['hard'], st['training'], content, fresh or content.startswith('gs'), lastmode)
    if fine:
        key += (float(st['T']), tuple(tuple(float(v) for v in c) for c in st['alpha']),
                None if stamp is None or content.startswith('gs') else (tuple(tuple(float(v) for v in c) for c in stamp[0]), None if content == 'oh' else float(stamp[1])))
    return key


def bfs(ctx, pool, kind, roots, maxdepth):
    """breadth-first closure of the abstract state space; every (state, op) transition is executed"""
    ops = alphabet(kind, not ctx.quick)
    fine = (not ctx.quick) and kind == 'layer'   # thorough: the per-layer closure also distinguishes temperature / coefficients
    results = []
    seen = {}
    frontier = []
    for root in roots:
        r = exec_case(dict(root, ops=[]))
        k = abs_key(r, fine)
        if k not in seen:
            seen[k] = []
            frontier.append((root, []))
    closed = False
    depth = 0
    while frontier and depth < maxdepth:
        depth += 1
        jobs = []
        for root, path in frontier:
            for op in ops:
                o = ('fwd', hash_str(repr((path, depth))) % (1 << 30), op[2]) if op[0] == 'fwd' else op
                jobs.append(dict(root, ops=path + [o], fam='closure'))
        rs = list(pool.map(exec_case, jobs, chunksize=32))
        frontier = []
        for j, r in zip(jobs, rs):
            results.append(r)
            k = abs_key(r, fine)
            if k is not None and k not in seen:
                seen[k] = j['ops']
                frontier.append(({kk: v for kk, v in j.items() if kk not in ('ops',)}, j['ops']))
        if not frontier:
            closed = True
    return results, len(seen), closed, depth


def specs_random(ctx, count):
    rng = ctx.rng
    out = []
    for _ in range(count):
        kind = rng.choice(['layer', 'chan', 'comb'])
        n = rng.randint(1, 8)
        c = rng.choice([1, 2, 3, 5, 8, 16]) if kind == 'chan' else 1
        ops = []
        for _ in range(rng.randint(5, 12)):
            x = rng.random()
            if x < 0.4:
                ops.append(('fwd', rng.randrange(1 << 30), rng.choice(GRAD_MODES)))
            elif x < 0.7:
                t = rng.choice([None, None] + (COMB_TEMPS if kind == 'comb' else TEMPS))
                if kind == 'comb':
                    ops.append(('upd', t, rng.choice([None, True, False]), None, None))
                else:
                    ops.append(('upd', t, rng.choice([None, True, False]), rng.choice([None, True, False]), rng.choice([None, None, True, False])))
            elif x < 0.8:
                ops.append(('train',))
            elif x < 0.9:
                ops.append(('eval',))
            else:
                ops.append(('opt', gen_alpha(rng, n, c), rng.choice(ROUTES)))
        if rng.random() < 0.6:
            ops.append(('fwd', rng.randrange(1 << 30), rng.choice(GRAD_MODES)))
        g = rng.random() < 0.5
        out.append({'fam': 'random', 'kind': kind, 'n': n, 'c': c, 'ctor': (rng.choice(TEMPS), rng.random() < 0.3, g, False if kind == 'comb' else rng.random() < 0.15),
                    'alpha': gen_alpha(rng, n, c), 'mode': 'train', 'ops': ops, 'export': kind == 'comb' and rng.random() < 0.3, 'fresh': True})
        if out[-1]['export'] is False:
            out[-1]['fresh'] = False
    return out


# ----------------------------------------------------------------------------- whole MPS models
def exec_model(spec):
    """a real MPS model: options through MPS(...) / MPS.update_softmax_options, forward, then every selector
    of the model is observed; summary() and export() are compared with the arg-max of the raw coefficients"""
    torch = _torch()
    import random as _r
    import torch.nn as nn
    from plinio.methods import MPS
    from plinio.methods.mps import MPSType, get_default_qinfo
    from plinio.methods.mps.nn.qtz import MPSBaseQtz
    from plinio.methods.mps.nn.module import MPSModule
    rng = _r.Random(spec['seed'])
    torch.manual_seed(spec['seed'])
    res = {'spec': spec, 'fails': [], 'sel': [], 'samples': []}

    class N(nn.Module):
        def __init__(s):
            super().__init__()
            s.c = nn.Conv2d(3, spec['w1'], 3, padding=1)
            s.bn = nn.BatchNorm2d(spec['w1'])
            s.r = nn.ReLU()
            s.c2 = nn.Conv2d(spec['w1'], spec['w2'], 3, padding=1, groups=1)
            s.r2 = nn.ReLU()
            s.p = nn.AdaptiveAvgPool2d(1)
            s.f = nn.Flatten()
            s.l = nn.Linear(spec['w2'], 3)

        def forward(s, x):
            return s.l(s.f(s.p(s.r2(s.c2(s.r(s.bn(s.c(x))))))))
    T, h, g, d = spec['ctor']
    try:
        p = MPS(N(), input_shape=(3, 6, 6), w_search_type=MPSType.PER_CHANNEL if spec['per_channel'] else MPSType.PER_LAYER,
                qinfo=get_default_qinfo(tuple(spec['wprec']), tuple(spec['aprec'])), temperature=T, hard_softmax=h, gumbel_softmax=g, disable_sampling=d)
        qs = {}
        for n_, m in p.seed.named_modules():
            if isinstance(m, MPSBaseQtz):
                qs.setdefault(id(m), (n_, m))
        with torch.no_grad():
            for n_, m in qs.values():
                P = m.alpha.shape[0]
                C = m.alpha.shape[1] if m.alpha.dim() == 2 else 1
                a = torch.tensor(gen_alpha(rng, P, C), dtype=torch.float32)
                m.alpha.copy_(a.t() if m.alpha.dim() == 2 else a[0])
        x = torch.rand(2, 3, 6, 6)
        for op in spec['ops']:
            if op[0] == 'upd':
                p.update_softmax_options(temperature=op[1], hard=op[2], gumbel=op[3], disable_sampling=op[4])
            elif op[0] == 'train':
                p.train()
            elif op[0] == 'eval':
                p.eval()
            elif op[0] == 'fwd':
                with grad_ctx(spec.get('grad_mode', 'grad')):
                    p(x)
        if spec['final_mode'] == 'eval':
            p.eval()
        else:
            p.train()
        before = {}
        for n_, m in qs.values():
            cols = (lambda t: [[frac(v) for v in t[:, j].tolist()] for j in range(t.shape[1])] if t.dim() == 2 else [[frac(v) for v in t.tolist()]])
            before[n_] = {'name': m.sample_alpha.__name__, 'hard': bool(m.hard_softmax), 'training': bool(m.training), 'T': frac(float(m.temperature)),
                          'alpha': cols(m.alpha.detach()), 'theta': cols(m.theta_alpha.detach()), 'prec': [int(v) for v in m.precision.tolist()]}
        def forward_and_judge(phase):
            before = {}
            for n_, m in qs.values():
                before[n_] = {'name': m.sample_alpha.__name__, 'hard': bool(m.hard_softmax), 'training': bool(m.training), 'T': frac(float(m.temperature)),
                              'alpha': cols(m.alpha.detach()), 'theta': cols(m.theta_alpha.detach()), 'prec': [int(v) for v in m.precision.tolist()]}
            with grad_ctx(spec.get('grad_mode', 'grad')):
                p(x)
            for n_, m in qs.values():
                b = before[n_]
                after = dict(b, theta=cols(m.theta_alpha.detach()))
                for key, what in oracle_forward('mps-model', b, after):
                    res['fails'].append((key + phase, '%s: %s' % (n_, what), n_))
                Timpl = m.temperature.item()
                al = m.alpha.detach()
                flat = (lambda t: (t.t() if t.dim() == 2 else t).flatten().tolist())
                tab = [(frac(Timpl), [z30(a_) for a_ in flat(al)], [me30(sexp(z_)) for z_ in flat(al / Timpl)])]
                if not (b['name'] == 'sample_alpha_gs' and b['training']):
                    res['samples'].append({'q': n_, 'state': dict(b, gumbel=b['name'] == 'sample_alpha_gs', disabled=b['name'] == 'sample_alpha_none'),
                                           'tab': tab, 'theta': after['theta']})
            return before
        before = forward_and_judge('')
        def check_selection(phase):
            # summary() / export() against argmax of the CURRENT raw coefficients of the selector each layer uses
            # phase 'after-forward': also against the evaluated one-hot;  phase 'after-alpha-update': the coefficients
            # were replaced (arg-max flipped) and NO forward pass happened since
            tag = '' if phase == 'after-forward' else ':after-alpha-update-without-forward'
            summ = p.summary()
            mode_argmax = not any(b['name'] == 'sample_alpha_none' for b in before.values())
            exp = p.export()
            for lname, layer in p.seed.named_modules():
                if not isinstance(layer, MPSModule):
                    continue
                rec = {'layer': lname, 'phase': phase}
                for role in ('in', 'out', 'w'):
                    q = getattr(layer, role + '_mps_quantizer', None)
                    if q is None or not isinstance(q, MPSBaseQtz) or (role + '_precision') not in summ.get(lname, {}):
                        continue
                    al = q.alpha.detach()
                    acols = [[frac(v) for v in al[:, j].tolist()] for j in range(al.shape[1])] if al.dim() == 2 else [[frac(v) for v in al.tolist()]]
                    prec = [int(v) for v in q.precision.tolist()]
                    want = [prec[argmax_first(c)] for c in acols]
                    th = q.theta_alpha.detach()
                    tcols = [[frac(v) for v in th[:, j].tolist()] for j in range(th.shape[1])] if th.dim() == 2 else [[frac(v) for v in th.tolist()]]
                    got = summ.get(lname, {}).get(role + '_precision')
                    gotl = got if isinstance(got, list) else [got]
                    rec[role] = {'alpha': acols, 'prec': prec, 'summary': gotl}
                    if gotl != want:
                        res['fails'].append(('mps:summary-is-not-argmax-alpha' + tag, '%s.%s_precision: summary() says %r, argmax(alpha) selects %r' % (lname, role, gotl, want), lname))
                    if phase == 'after-forward' and spec['final_mode'] == 'eval' and mode_argmax:
                        ev = [None if onehot_pos(c) is None else prec[onehot_pos(c)] for c in tcols]
                        if role != 'in' and ev != want:
                            res['fails'].append(('mps:evaluated-differs-from-summary', '%s.%s: evaluated one-hot selects %r, summary()/argmax(alpha) %r' % (lname, role, ev, want), lname))
                    # exported module
                    try:
                        em = exp.get_submodule(lname)
                        subs = [m for m in em.modules() if hasattr(m, role + '_quantizer')]
                        if role == 'w':
                            hist = {}
                            for m in subs:
                                hist[int(m.w_quantizer.precision)] = hist.get(int(m.w_quantizer.precision), 0) + int(getattr(m, 'out_channels', getattr(m, 'out_features', 0)))
                            wanth = {}
                            for v in want:
                                wanth[v] = wanth.get(v, 0) + 1
                            if len(want) == 1:
                                okx = list(hist.keys()) == want
                            else:
                                okx = hist == wanth
                            rec[role]['exported'] = hist
                        else:
                            gotp = sorted({int(getattr(m, role + '_quantizer').precision) for m in subs if getattr(m, role + '_quantizer') is not None})
                            okx = gotp == want
                            rec[role]['exported'] = gotp
                        agree = (list(rec[role]['exported'].keys()) == gotl if len(want) == 1 else rec[role]['exported'] == {v: gotl.count(v) for v in set(gotl)}) if role == 'w' else rec[role]['exported'] == gotl
                        if not agree:
                            res['fails'].append(('mps:summary-differs-from-export' + tag, '%s.%s: summary() says %r, export() materialises %r' % (lname, role, gotl, rec[role]['exported']), lname))
                        if not okx:
                            res['fails'].append(('mps:export-is-not-argmax-alpha' + tag, '%s.%s: exported %r, argmax(alpha) selects %r' % (lname, role, rec[role]['exported'], want), lname))
                    except Exception as ex:
                        res['fails'].append(('mps:export-inspection-raised', 'EXC:%s %s' % (type(ex).__name__, str(ex)[:150]), lname))
                res['sel'].append(rec)
        def move_argmax():
            # alpha := alpha' with the arg-max of every decision moved (optimizer step / .data = / load_state_dict)
            with torch.no_grad():
                for n_, m in qs.values():
                    P = m.alpha.shape[0]
                    C = m.alpha.shape[1] if m.alpha.dim() == 2 else 1
                    old = m.alpha.detach()
                    oldc = [old[:, j].tolist() for j in range(C)] if old.dim() == 2 else [old.tolist()]
                    new = gen_alpha(rng, P, C)
                    for j in range(C):
                        if P > 1 and argmax_first(new[j]) == argmax_first(oldc[j]):
                            k, o2 = argmax_first(new[j]), (argmax_first(new[j]) + 1 + rng.randrange(P - 1)) % P
                            new[j][k], new[j][o2] = new[j][o2], new[j][k]
                    a = torch.tensor(new, dtype=torch.float32)
                    set_alpha(m, a.t().contiguous() if m.alpha.dim() == 2 else a[0], spec.get('route', 'copy'))
        if spec.get('direct'):
            # forward -> alpha update -> forward with NOTHING in between (summary()/export() toggle module modes)
            move_argmax()
            before = forward_and_judge(':second-forward-after-alpha-update')
            check_selection('after-forward')
        else:
            check_selection('after-forward')
            # then summary() and export() WITHOUT a forward pass in between
            move_argmax()
            check_selection('after-alpha-update')
            # ... and a forward pass in the same autograd mode: the evaluated coefficients must follow the NEW alpha
            before = forward_and_judge(':second-forward-after-alpha-update')
            check_selection('after-forward')
    except Exception as ex:
        import traceback
        if pytorch_inference_limit(ex):
            res['cut'] = True
            return res
        res['fails'].append(('mps:model-run-raised', 'EXC:%s %s' % (type(ex).__name__, traceback.format_exc()[-400:]), None))
    return res


def specs_models(ctx, count):
    rng = ctx.rng
    out = []
    for i in range(count):
        precs = [2, 4, 8]
        wp = rng.sample(precs, rng.randint(1, 3))
        ap = rng.sample(precs, rng.randint(1, 3))
        ops = []
        for _ in range(rng.randint(0, 4)):
            x = rng.random()
            if x < 0.4:
                ops.append(('upd', rng.choice([None] + TEMPS), rng.choice([None, True, False]), rng.choice([None, True, False]), rng.choice([None, None, None, False])))
            elif x < 0.7:
                ops.append(('fwd',))
            else:
                ops.append((rng.choice(['train', 'eval']),))
        out.append({'seed': rng.randrange(1 << 30), 'w1': rng.choice([2, 4, 6]), 'w2': rng.choice([3, 4, 8]), 'per_channel': rng.random() < 0.5,
                    'wprec': wp, 'aprec': ap, 'ctor': (rng.choice(TEMPS), rng.random() < 0.4, rng.random() < 0.4, False), 'ops': ops,
                    'final_mode': 'eval' if i % 3 else 'train', 'grad_mode': GRAD_MODES[(i // 3) % 3] if i % 3 else rng.choice(GRAD_MODES), 'route': rng.choice(ROUTES), 'direct': i % 2 == 0})
    return out


def probe_keep():
    """does update_softmax_options keep the sampler when gumbel / disable_sampling are left None?"""
    _torch()
    from plinio.methods.mps.nn.qtz import MPSPerLayerQtz
    from plinio.methods.mps.quant.quantizers import DummyQuantizer
    q = MPSPerLayerQtz((2, 4), DummyQuantizer, {}, 1.0, False, True, False)
    q.update_softmax_options(temperature=2.0)
    k1 = q.sample_alpha.__name__ == 'sample_alpha_gs'
    q = MPSPerLayerQtz((2, 4), DummyQuantizer, {}, 1.0, False, False, True)
    q.update_softmax_options(temperature=2.0)
    k2 = q.sample_alpha.__name__ == 'sample_alpha_none'
    return k1 and k2


def probe_comb_eval():
    """does the SuperNetCombiner evaluate the arg-max one-hot in eval mode with soft selection?"""
    torch = _torch()
    from plinio.methods.supernet.nn.combiner import SuperNetCombiner
    c = SuperNetCombiner(3, False, False)
    with torch.no_grad():
        c.alpha.copy_(torch.tensor([0.25, 1.0, -0.5]))
    c.eval()
    c.sample_alpha()
    return c.theta_alpha.tolist() == [0.0, 1.0, 0.0]


def _init_worker():
    _torch()


def run(ctx):
    torch = _torch()
    gen_rejected = c10_gen.regenerate(ctx)
    built = ctx.build()
    ctx.extra['generated_model'] = c10_gen.status(gen_rejected, built)
    keep = probe_keep()
    ctx.extra['update_keeps_sampler_when_args_are_None'] = keep
    fixc = probe_comb_eval()
    ctx.extra['combiner_eval_mode_is_argmax_onehot'] = fixc
    ctx.rule = ('(a) one forward per (temperature of {0.05..20}) x (hard, gumbel, disable_sampling, train/eval) on per-layer vectors (length 1..8), per-channel matrices (up to 8x16) and '
                'SuperNet combiners (length 1..8, inside a real SuperNet) with pairwise coefficient gaps >= 0.05; (b) breadth-first closure of the abstract state '
                '(sampler fn, hard, training, temperature, coefficients, content of theta) under the whole op alphabet (update_softmax_options with every None/True/False combination '
                'of hard, gumbel, disable_sampling and temperature None/new, train, eval, forward, optimizer step); (c) random sequences of 6..13 ops (also ending without a forward) and forward -> alpha := new alpha with the arg-max moved -> summary()/export() with no forward in between; (c2) forward(s) -> alpha := new alpha (arg-max moved, by copy_ / .data = / load_state_dict) -> forward, all in one autograd mode (grad / torch.no_grad() / torch.inference_mode()) with no mode or option call in between; forwards of (b),(c) run with and without autograd, alpha updates use the three routes; (d2) whole MPS models (Conv1d/Conv2d, residual add, Linear, input quantizer) whose options are changed only through MPS.update_softmax_options and the layer-level update_softmax_options of every layer type: on -> off -> forward, all-falsy off-only calls, each option False alone, on/off through different paths, random mixes; one model trace per selector, SUpdate applied to exactly the selectors a call reaches; (d3) checkpoint round trips: searched model -> torch.save(state_dict()) -> NEW wrapper with sampling disabled -> load_state_dict -> eval forward (coefficients, outputs, summary(), export() of the re-loaded model against the saved one); (d) whole MPS models: summary()/export() after a forward and again after replacing every alpha (arg-max moved) without a forward, '
                'against argmax(alpha) and the evaluated one-hot.  non-trivial = at least one forward pass with more than one alternative; distinct = distinct (object kind, initial state, op sequence)')
    from concurrent.futures import ProcessPoolExecutor
    import multiprocessing as mp
    results = []
    with ProcessPoolExecutor(NPROC, mp_context=mp.get_context('fork'), initializer=_init_worker) as pool:
        cfgs = specs_config(ctx)
        results += list(pool.map(exec_case, cfgs, chunksize=8))
        closure = {}
        maxdepth = 6 if ctx.quick else 9
        for kind, roots in (('layer', [{'kind': 'layer', 'n': 3, 'c': 1, 'ctor': (T0, False, False, False), 'alpha': A0['layer'], 'mode': 'train'}]),
                            ('chan', [{'kind': 'chan', 'n': 3, 'c': 2, 'ctor': (T0, False, False, False), 'alpha': A0['chan'], 'mode': 'train'}]),
                            ('comb', [{'kind': 'comb', 'n': 3, 'c': 1, 'ctor': (T0, False, g, False), 'alpha': A0['comb'], 'mode': 'train'} for g in (False, True)])):
            md = maxdepth + 2 if kind == 'comb' else maxdepth
            rs, nstates, closed, depth = bfs(ctx, pool, kind, roots, md)
            results += rs
            closure[kind] = {'abstract_states': nstates, 'transitions_executed': len(rs), 'closed': closed, 'depth': depth}
        ctx.extra['closure'] = closure
        results += list(pool.map(exec_case, specs_random(ctx, 100 if ctx.quick else 800), chunksize=8))
        mres = list(pool.map(exec_model, specs_models(ctx, 32 if ctx.quick else 160), chunksize=2))
        from . import c10_net
        nres = list(pool.map(c10_net.exec_net, c10_net.specs_net(ctx, keep), chunksize=2))
        nres += list(pool.map(c10_net.exec_ckpt, c10_net.specs_ckpt(ctx), chunksize=2))
    ctx.extra['t_impl_s'] = round(time.time() - ctx.t0, 1)
    ctx.exhaustive = all(c['closed'] for c in closure.values())
    ctx.extra['exhaustive_part'] = 'the closure of the abstract sampler state space (b) when closed=true for every kind; vectors, temperatures and noise are sampled'

    # ---- bookkeeping + oracle failures
    fails = []
    for r in results:
        sp = r['spec']
        nontriv = sp['n'] > 1 and any(o[0] == 'fwd' for o in sp['ops'])
        ctx.case((sp['kind'], sp['n'], sp.get('c'), sp['ctor'], sp['alpha'], sp.get('mode'), sp['ops']), nontrivial=nontriv, kind='%s:%s' % (sp.get('fam'), sp['kind']),
                 sample={'kind': sp['kind'], 'ctor(T,hard,gumbel,disable)': sp['ctor'], 'alpha_columns': sp['alpha'], 'ops': sp['ops'],
                         'theta_after_last_op': None if not r.get('final') else [[float(v) for v in c] for c in r['final']['theta']]} if sp.get('fam') == 'random' else None)
        for o in sp['ops']:
            ctx.dist['op:' + o[0]] += 1
        for key, what, step in r['fails']:
            fails.append((key, what, {'family': 'sequence', 'spec': sp, 'failing_step': step}))
    for r in mres:
        ctx.case(('model', r['spec']), nontrivial=True, kind='model:' + ('per-channel' if r['spec']['per_channel'] else 'per-layer'))
        for key, what, where in r['fails']:
            fails.append((key, what, {'family': 'model', 'spec': r['spec'], 'where': where}))
    for r in nres:
        ctx.case(('net', r['spec']), nontrivial=True, kind='%s:%dd%s' % (r['spec'].get('fam', 'net'), r['spec']['dim'], ':residual' if r['spec']['residual'] else ''))
        for o in r['spec']['ops']:
            ctx.dist['netop:' + o[0]] += 1
        for key, what, step in r['fails']:
            fails.append((key, what, {'family': 'net', 'spec': r['spec'], 'failing_step': step}))
    for key, what, rep in fails:
        ctx.violation(key, rep, what)

    # ---- model evaluation in Coq
    mism = []
    model_ok = built
    boundary = 0
    if built:
        try:
            todo = [r for r in results if r.get('init') is not None]
            exprs = [trace_expr(r, keep, fixc) for r in todo]
            vals = ctx.coq_eval_sharded('traces', ['Plinio.Model.Sampler'], '', exprs, shard=250)
            gvals = ctx.coq_eval_sharded('gtraces', c10_gen.IMPORTS, '', c10_gen.gen_exprs(exprs), shard=250)     # the model GENERATED from the samplers' source on this run
            ctx.corr += len(gvals)
            mism += c10_gen.differences(exprs, vals, gvals)
            for r, (bad, sel) in zip(todo, vals):
                ctx.corr += 1 if r['spec'].get('fam') == 'closure' and r['steps'] else len(r['steps'])
                margins = dict(r['margins'])
                realbad = []
                for b in bad:
                    mg = margins.get(b)
                    st = r['steps'][b] if b < len(r['steps']) else None
                    if mg is not None and st is not None and st['hard'] and mg < 1e-4:
                        boundary += 1          # two perturbed logits within the float margin (DESIGN §4)
                        continue
                    realbad.append(b)
                if realbad:
                    mism.append(('step', r['spec'], realbad[0], None if realbad[0] >= len(r['steps']) else r['steps'][realbad[0]]))
                if r['spec']['kind'] == 'comb' and 'best' in r:
                    ctx.corr += 1
                    if sel != [r['best']]:
                        mism.append(('best_layer_index', r['spec'], sel, r['best']))
            # whole models driven through the public update paths: one trace per selector
            nex = [(r, n_, rec, e) for r in nres for n_, rec, e in c10_net.net_exprs(r, keep)]
            nvals = ctx.coq_eval_sharded('nettraces', ['Plinio.Model.Sampler'], '', [x[3] for x in nex], shard=200) if nex else []
            if nex:
                gnv = ctx.coq_eval_sharded('gnettraces', c10_gen.IMPORTS, '', c10_gen.gen_exprs([x[3] for x in nex]), shard=200)
                ctx.corr += len(gnv)
                mism += c10_gen.differences([x[3] for x in nex], nvals, gnv)
            for (r, n_, rec, e), (bad, sel) in zip(nex, nvals):
                ctx.corr += len(rec['steps'])
                margins = dict(rec['margins'])
                realbad = [b for b in bad if not (margins.get(b) is not None and b < len(rec['steps']) and rec['steps'][b]['hard'] and margins[b] < 1e-4)]
                boundary += len(bad) - len(realbad)
                if realbad:
                    b = realbad[0]
                    mism.append(('net-step', r['spec'], {'selector': n_, 'selector_step': b, 'model_op': rec['mops'][b][:1] if b < len(rec['mops']) else None,
                                                         'impl': None if b >= len(rec['steps']) else {k: rec['steps'][b][k] for k in ('name', 'hard', 'training', 'T')}}))
            for r in nres:
                for m_ in r['mism']:
                    mism.append(('net-' + m_[0], r['spec'], m_[1:]))
            # whole models: one sampling call per selector + the selection
            sexprs, smeta = [], []
            for r in mres + nres:
                for s in r.get('samples', []):
                    sexprs.append('run_sample true KMps %s %s %s [] %s' % (coq(q_tab(s['tab'])), coq(TOL), coq(q_sampler(s['state'])), coq(c30(s['theta']))))
                    smeta.append((r['spec'], s['q']))
            svals = ctx.coq_eval_sharded('msamples', ['Plinio.Model.Sampler'], '', sexprs, shard=250) if sexprs else []
            if sexprs:
                gsv = ctx.coq_eval_sharded('gmsamples', c10_gen.IMPORTS, '', c10_gen.gen_exprs(sexprs), shard=250)
                ctx.corr += len(gsv)
                mism += c10_gen.differences(sexprs, svals, gsv)
            for (sp, qn), (ok, am) in zip(smeta, svals):
                ctx.corr += 1
                if not ok:
                    mism.append(('model-sample', sp, qn, am))
            selx, selm = [], []
            for r in mres:
                for rec in r['sel']:
                    for role in ('in', 'out', 'w'):
                        if role in rec:
                            selx.append('run_selected %s' % coq(c30(rec[role]['alpha'])))
                            selm.append((r['spec'], rec['layer'], role, rec[role]))
            for r in nres:
                for rec in r.get('selrecs', []):
                    selx.append('run_selected %s' % coq(c30(rec['alpha'])))
                    selm.append((r['spec'], rec['layer'], rec['role'], rec))
            selv = ctx.coq_eval_sharded('selected', ['Plinio.Model.Sampler'], '', selx, shard=400) if selx else []
            for (sp, ln, role, rec), sv in zip(selm, selv):
                ctx.corr += 1
                if [rec['prec'][i] for i in sv] != rec['summary']:
                    mism.append(('summary-vs-selected', sp, ln + '.' + role, sv))
        except RuntimeError as ex:
            model_ok = False
            ctx.notes.append('model evaluation failed: ' + str(ex)[-800:])
    ctx.extra['t_total_s'] = round(time.time() - ctx.t0, 1)
    ctx.extra['gumbel_hard_boundary_cases_skipped'] = boundary
    ctx.extra['model_impl_mismatches'] = len(mism)
    ctx.assumptions += ['exp enters the theorems as any positive strictly increasing g; the correspondence instantiates g with a finite table of float64 exponentials of the implementation\'s own float32 arguments',
                        'float32 softmax / gumbel_softmax(hard) residual (y_hard - y_soft + y_soft) compared within 2^-20; torch.argmax = first maximum; Gumbel noise regenerated with -empty_like().exponential_().log() after re-seeding',
                        'open findings (KNOWN_FINDINGS.json): disable_sampling=True leaves stale coefficients (guard `disabled = false` in the theorems); SuperNetCombiner in eval mode with soft selection evaluates a mixture (guard `covered`)',
                        'two model switches are set by probing the implementation once per run (both variants are covered by the theorems): keep_opts (does update_softmax_options keep the sampler when gumbel/disable_sampling are None) and comb_eval_argmax']

    if not ctx.violations:
        if c10_gen.report(ctx, gen_rejected, built):      # 'translator-rejected ... no-failing-input-found'
            pass
        elif not built:
            ctx.violation('proof-broken', {'theorems': [o[0] for o in ctx.obligations if not o[1]], 'log': getattr(ctx, 'broken_log', '')[-3000:]}, 'Props/C10.v no longer checks', no_input=True)
        elif not model_ok:
            ctx.violation('model-eval-broken', {'notes': ctx.notes}, 'the model could not be evaluated', no_input=True)
        elif mism:
            ctx.violation('correspondence-broken', {'first': mism[0], 'n_mismatches': len(mism), 'correspondence': 'Model/Sampler.v vs plinio samplers'},
                          'model and implementation disagree on %d cases (first: %r) but the property oracle found no failing input' % (len(mism), mism[0][:1] + mism[0][2:]), no_input=True)


def replay(r):
    """re-executes the failing case of a replay file on the implementation"""
    print(json.dumps({k: v for k, v in r.items() if k != 'spec'}, indent=1)[:2000])
    key = r.get('key')
    sp = r.get('spec')
    if sp is None:
        print('no input to replay (machinery failure record)')
        return 1

    def tup(o):
        return tuple(tup(x) for x in o) if isinstance(o, list) else o
    if r.get('family') == 'net':
        from . import c10_net
        sp = dict(sp, ctor=tuple(sp['ctor']), ops=[tuple(o) for o in sp['ops']])
        res = c10_net.exec_ckpt(sp) if sp.get('fam') == 'ckpt' else c10_net.exec_net(sp)
        for n_, rec in res['sel'].items():
            if rec['steps']:
                print(' selector %s: sampler=%s hard=%s training=%s -> theta_alpha=%s (alpha=%s)' % (n_, rec['steps'][-1]['name'], rec['steps'][-1]['hard'], rec['steps'][-1]['training'],
                      [[float(v) for v in c] for c in rec['steps'][-1]['theta']], [[float(v) for v in c] for c in rec['steps'][-1]['alpha']]))
    elif r.get('family') == 'model':
        res = exec_model(sp)
    else:
        sp = dict(sp, ctor=tuple(sp['ctor']), ops=[tuple(o[:1]) + tuple(o[1:]) for o in sp['ops']])
        res = exec_case(sp)
        print('required: every forward pass leaves a probability vector per decision; one-hot at argmax(alpha) in eval mode and in hard non-Gumbel training; '
              'summary()/export() choose that alternative')
        for i, st in enumerate(res['steps']):
            if st is not None and sp['ops'][i][0] == 'fwd':
                print(' step %d forward: sampler=%s hard=%s training=%s T=%s alpha=%s -> theta_alpha=%s' % (
                    i, st['name'], st['hard'], st['training'], float(st['T']), [[float(v) for v in c] for c in st['alpha']], [[float(v) for v in c] for c in st['theta']]))
    same = [f for f in res['fails'] if f[0] == key]
    for f in res['fails']:
        print(' property failure:', f[0], '-', f[1])
    print('replayed on the implementation: %s' % ('the recorded failure reproduces' if same else ('other failures' if res['fails'] else 'the property holds on this case')))
    return 1 if res['fails'] else 0
