"""C20 — precision refinement (DESIGN.md §C20).  Theorems: coq/Props/C20.v over coq/Model/Reassign.v.

Correspondence:
 (A) _reassign_precisions of /repo on tie-free score matrices (random permutations) for every size up
     to 4x3 / 2x4 / 3x4 with ALL compositions of the channel count as targets, and seeded matrices up to
     4x8; the assignment is compared channel by channel with the model evaluated in Coq.
 (B) optimize_prec_assignment on per-channel MPS models with the NE16 cost: the cost of every count
     vector reachable by upward moves is obtained from the implementation's own _compute_cost and handed
     to the model (`run_pipeline`: the two searches, then the reassignment of the layer's own alpha matrix) as a
     table; the counts the model keeps must be the counts found in the implementation after the call and the model's
     new precision index of EVERY channel must be the implementation's.
Oracle: the sentences of the property on the implementation (every channel one precision, counts met;
no channel demoted, counts = the ones the refinement chose (its own report), cost not higher).
"""
import itertools, io, contextlib, re, math
from .common import *
from . import c20_gen
from .c20_gen import regenerate      # setup.sh regenerates Gen/RefineGen.v through this name


def _env():
    torch = setup_torch()
    from plinio.methods.mps import utils
    return torch, utils


def compositions(parts, total):
    if parts == 1:
        yield (total,)
        return
    for x in range(total + 1):
        for rest in compositions(parts - 1, total - x):
            yield (x,) + rest


def impl_reassign(torch, utils, scores, best):
    out = utils._reassign_precisions(torch.tensor(best, dtype=torch.float32), torch.tensor(scores, dtype=torch.float32))
    P, C = len(scores), len(scores[0])
    res = []
    for c in range(C):
        col = [float(out[p][c]) for p in range(P)]
        if any(v not in (0.0, 1.0) for v in col):
            res.append(-9)
        elif sum(col) == 1:
            res.append(col.index(1.0))
        elif sum(col) == 0:
            res.append(-1)
        else:
            res.append(-2)        # more than one precision
    return res


def reassign_ok(assign, best):
    return all(a >= 0 for a in assign) and all(assign.count(p) == best[p] for p in range(len(best)))


# ----------------------------------------------------------------------------------------------- (B)
def build_mps(torch, C, precs, seed, kind, counts=None, **mps_kw):
    import torch.nn as nn
    from plinio.methods import MPS
    from plinio.methods.mps import MPSType, get_default_qinfo
    from plinio.cost import ne16_latency
    torch.manual_seed(seed)
    if kind == 'conv3':
        net = nn.Sequential(nn.Conv2d(8, C, 3, padding=1), nn.ReLU(), nn.AdaptiveAvgPool2d(1), nn.Flatten(), nn.Linear(C, 4))
        shape = (8, 6, 6)
    elif kind == 'conv3only':      # a single searchable layer: the total cost is this layer's cost
        net = nn.Sequential(nn.Conv2d(8, C, 3, padding=1))
        shape = (8, 6, 6)
    elif kind == 'conv3pair':      # two 3x3 convolutions of the same width (the crafted counts apply to both)
        net = nn.Sequential(nn.Conv2d(3, C, 3, padding=1), nn.ReLU(), nn.Conv2d(C, C, 3, padding=1), nn.ReLU(), nn.AdaptiveAvgPool2d(1), nn.Flatten(), nn.Linear(C, 10))
        shape = (3, 6, 6)
    elif kind == 'res':            # two 3x3 convolutions joined by a residual add (one sharing group)
        class Res(nn.Module):
            def __init__(self):
                super().__init__()
                self.c0 = nn.Conv2d(3, C, 3, padding=1)
                self.c1 = nn.Conv2d(C, C, 3, padding=1)
                self.c2 = nn.Conv2d(C, C, 3, padding=1)
                self.pool = nn.AdaptiveAvgPool2d(1)
                self.fc = nn.Linear(C, 4)

            def forward(self, x):
                a = torch.relu(self.c0(x))
                b = torch.relu(self.c1(a))
                return self.fc(self.pool(torch.relu(self.c2(b) + a)).flatten(1))
        net = Res()
        shape = (3, 6, 6)
    elif kind == 'conv1':
        net = nn.Sequential(nn.Conv2d(16, C, 1), nn.ReLU(), nn.AdaptiveAvgPool2d(1), nn.Flatten(), nn.Linear(C, 4))
        shape = (16, 5, 5)
    elif kind == 'dw':
        net = nn.Sequential(nn.Conv2d(4, C, 1), nn.ReLU(), nn.Conv2d(C, C, 3, padding=1, groups=C), nn.ReLU(), nn.AdaptiveAvgPool2d(1), nn.Flatten(), nn.Linear(C, 4))
        shape = (4, 6, 6)
    else:
        net = nn.Sequential(nn.Flatten(), nn.Linear(48, C), nn.ReLU(), nn.Linear(C, 4))
        shape = (3, 4, 4)
    m = MPS(net, input_shape=shape, cost={'ne16': ne16_latency}, w_search_type=MPSType.PER_CHANNEL, qinfo=get_default_qinfo(precs, (8,)), **mps_kw)
    g = torch.Generator().manual_seed(seed)
    with torch.no_grad():
        for n, p in m.named_nas_parameters():
            p.copy_(torch.randn(p.shape, generator=g))
        if counts is not None:
            # crafted start configuration: counts[i] channels at the i-th precision of the tuple (tie-free scores)
            for n, l in m.seed.named_modules():
                q = getattr(l, 'w_mps_quantizer', None)
                if q is not None and q.alpha.dim() == 2 and q.alpha.shape == (len(precs), C):
                    a = 0.01 * torch.rand(q.alpha.shape, generator=g)
                    sel = torch.repeat_interleave(torch.arange(len(precs)), torch.tensor(list(counts)))
                    a[sel, torch.arange(C)] += 1.0
                    q.alpha.copy_(a)
    return m


def per_channel_layers(m):
    out = {}
    for n, l in m.seed.named_modules():
        q = getattr(l, 'w_mps_quantizer', None)
        if q is not None and q.alpha.dim() == 2 and q.alpha.shape[0] > 1:
            out[n] = l
    return out


def chan_prec(l):
    q = l.w_mps_quantizer
    return [int(q.precision[i]) for i in q.alpha.argmax(dim=0)]


def cost_table(torch, utils, m, lname, layer, init_counts, order):
    """cost (by the implementation's own _compute_cost) of every count vector (in ascending precision order)
    reachable from init by upward moves out of non-zero precisions"""
    cost_fn_map = m._cost_fn_map['ne16']
    node = next(nd for (ln, nd, ly) in m._leaf_modules if ly is layer)
    C = sum(init_counts)
    P = len(init_counts)
    precs_sorted = [int(layer.w_mps_quantizer.precision[i]) for i in order]
    seen = {tuple(init_counts)}
    frontier = [tuple(init_counts)]
    while frontier:
        v = frontier.pop()
        for i in range(P):
            if precs_sorted[i] == 0 or v[i] == 0:
                continue
            for j in range(i + 1, P):
                w = list(v)
                w[i] -= 1
                w[j] += 1
                w = tuple(w)
                if w not in seen:
                    seen.add(w)
                    frontier.append(w)
    inv = [order.index(k) for k in range(P)]       # position of original row k in the sorted vector
    tbl = {}
    with torch.no_grad():
        for v in seen:
            arr = [torch.tensor(v[inv[k]] / C, dtype=torch.float32) for k in range(P)]   # original row order, as the layer's precision tuple
            tbl[v] = float(utils._compute_cost(m, layer, arr, cost_fn_map, lname, node))
    return tbl


def run(ctx):
    torch, utils = _env()
    gen_rejected = c20_gen.regenerate(ctx)
    built = ctx.build()
    ctx.extra['generated_model'] = c20_gen.status(gen_rejected, built)
    ctx.rule = ('(A) for every size (P,C) in {1..4}x{1..3}, (2,4), (3,4): seeded tie-free score matrices (random permutations of 0..PC-1) x ALL compositions of C into P targets; '
                'seeded matrices up to 4x8 with random compositions; (B) per-channel MPS models (conv3x3 / conv1x1 / depthwise / linear, 33..64 channels, precision tuples incl. 0-bit and non-ascending) '
                'with the NE16 cost: full run of optimize_prec_assignment.  non-trivial = target differs from the current per-precision counts (A) / the refinement changed a layer (B)')
    fails = []

    def oracle(cond, key, info):
        if not cond:
            fails.append((key, info))

    # ------------------------------------------------------------------ (A)
    A = []
    sizes = [(p, c) for p in range(1, 5) for c in range(1, 4)] + [(2, 4), (3, 4)]
    per = 6 if ctx.quick else 60
    for (P, C) in sizes:
        for _ in range(per):
            vals = list(range(P * C))
            ctx.rng.shuffle(vals)
            scores = [[vals[p * C + c] for c in range(C)] for p in range(P)]
            for comp in compositions(P, C):
                A.append({'scores': scores, 'best': list(comp), 'kind': 'reassign:exhaustive-compositions'})
    for _ in range(300 if ctx.quick else 5000):
        P, C = ctx.rng.randint(2, 4), ctx.rng.randint(4, 8)
        vals = ctx.rng.sample(range(10 * P * C), P * C)
        scores = [[vals[p * C + c] - 5 * P * C for c in range(C)] for p in range(P)]
        cuts = sorted(ctx.rng.randint(0, C) for _ in range(P - 1))
        comp = [b - a for a, b in zip([0] + cuts, cuts + [C])]
        A.append({'scores': scores, 'best': comp, 'kind': 'reassign:seeded-up-to-4x8'})
    # tied scores (the one-hot matrix the refinement itself writes, coefficients on a coarse grid): the counts must be met whatever
    # the ties; judged by the oracle only (which channel moves is not determined, so the model is not compared)
    for _ in range(200 if ctx.quick else 3000):
        P, C = ctx.rng.randint(2, 4), ctx.rng.randint(3, 8)
        if ctx.rng.random() < 0.5:
            own = [ctx.rng.randrange(P) for _c in range(C)]
            scores = [[1 if own[c] == p else 0 for c in range(C)] for p in range(P)]
        else:
            scores = [[ctx.rng.randint(0, 2) for _c in range(C)] for _p in range(P)]
        cuts = sorted(ctx.rng.randint(0, C) for _ in range(P - 1))
        A.append({'scores': scores, 'best': [b - a for a, b in zip([0] + cuts, cuts + [C])], 'kind': 'reassign:tied-scores', 'tied': True})
    for c in A:
        try:
            c['impl'] = impl_reassign(torch, utils, c['scores'], c['best'])
        except Exception as e:
            c['impl'] = 'EXC:' + type(e).__name__
        cur = [max(range(len(c['scores'])), key=lambda p: c['scores'][p][ch]) for ch in range(len(c['scores'][0]))]
        nontriv = [cur.count(p) for p in range(len(c['best']))] != c['best']
        ctx.case(('A', c['scores'], c['best']), nontrivial=nontriv, kind=c['kind'], sample={'scores': c['scores'], 'targets': c['best'], 'impl_assignment': c['impl']})
        oracle(isinstance(c['impl'], list) and reassign_ok(c['impl'], c['best']), 'reassign-counts-not-met',
               {'scores': c['scores'], 'targets': c['best'], 'impl_assignment(-1=none)': c['impl']})

    # ------------------------------------------------------------------ (B)
    B = []
    configs = [(64, (2, 4, 8), 'conv3'), (40, (2, 4, 8), 'conv3'), (64, (2, 8), 'conv3'), (48, (0, 2, 4, 8), 'conv3'), (33, (2, 4, 8), 'conv1'),
               (64, (2, 4, 8), 'dw'), (64, (2, 4, 8), 'lin'), (64, (8, 4, 2), 'conv3')]
    if not ctx.quick:
        for _ in range(40):
            configs.append((ctx.rng.choice([33, 36, 40, 48, 50, 64, 72]), ctx.rng.choice([(2, 4, 8), (2, 8), (4, 8), (0, 2, 4, 8), (2, 3, 4, 8), (0, 4, 8), (8, 2, 4)]), ctx.rng.choice(['conv3', 'conv1', 'dw', 'lin'])))
    # crafted start configurations (counts per precision): an empty higher precision, an empty middle one, counts that make
    # the search pass through 32m+1 channels in one precision (NE16 tiles of 32), non power-of-two channel counts
    crafted = [(32, (2, 4, 8), 'conv3only', (20, 12, 0)), (32, (2, 4, 8), 'conv3', (12, 0, 20)), (48, (2, 4, 8), 'conv3only', (15, 9, 24)),
               (48, (2, 4, 8), 'conv3only', (12, 30, 6)), (48, (2, 4, 8), 'conv3only', (24, 18, 6)), (36, (2, 4, 8), 'conv3only', (3, 1, 32)),
               (64, (2, 4, 8), 'dw', (40, 24, 0)), (48, (2, 8), 'conv3only', (15, 33)), (72, (2, 4, 8), 'conv3only', (7, 32, 33)), (32, (2, 4, 8), 'dw', (31, 1, 0)),
               # precision tuples in CYCLIC order (sorting permutation not an involution); counts are per tuple position
               (64, (4, 8, 2), 'conv3only', (20, 14, 30)), (64, (8, 2, 4), 'conv3only', (10, 34, 20)), (48, (4, 8, 2), 'conv3only', (24, 0, 24)),
               # 0-bit precision with channels actually pruned and the rest split over two precisions (fractional effective counts)
               (64, (0, 2, 4, 8), 'conv3only', (8, 0, 20, 36)), (64, (0, 2, 4, 8), 'conv3pair', (12, 0, 28, 24)), (64, (0, 2, 4, 8), 'conv3pair', (8, 0, 20, 36)),
               (64, (0, 2, 4, 8), 'conv3only', (16, 8, 20, 20))]
    if not ctx.quick:
        for _ in range(60):
            C = ctx.rng.choice([32, 36, 40, 48, 64, 72, 96])
            a = ctx.rng.randint(0, C)
            b = ctx.rng.choice([0, 0, ctx.rng.randint(0, C - a)])
            crafted.append((C, ctx.rng.choice([(2, 4, 8), (2, 4, 8), (4, 8, 2), (8, 2, 4), (8, 4, 2)]), ctx.rng.choice(['conv3only', 'conv3only', 'conv3', 'dw']), (a, b, C - a - b)))
            z = ctx.rng.randint(1, C // 3)
            a2 = ctx.rng.randint(0, C - z)
            crafted.append((C, (0, 2, 4, 8), ctx.rng.choice(['conv3only', 'conv3pair']), (z, 0, a2, C - z - a2)))
    configs = [c + (None, {}) for c in configs] + [c + ({},) for c in crafted]
    # the options a search leaves the model with: weight selectors not shared inside a sharing group (residual add, conv ->
    # depthwise), the Gumbel sampler with the model put in inference mode (deterministic there), training vs inference mode
    optioned = [(64, (2, 4, 8), 'dw', None, {'disable_shared_quantizers': True}), (64, (2, 4, 8), 'dw', (40, 24, 0), {'disable_shared_quantizers': True}),
                (32, (2, 4, 8), 'res', None, {'disable_shared_quantizers': True}), (64, (0, 2, 4, 8), 'res', None, {'disable_shared_quantizers': True}),
                (64, (2, 4, 8), 'conv3', None, {'gumbel_softmax': True, 'mode': 'eval'}), (32, (2, 4, 8), 'conv3only', (20, 12, 0), {'gumbel_softmax': True, 'mode': 'eval'}),
                (64, (2, 4, 8), 'conv3', None, {'mode': 'eval'}), (64, (2, 4, 8), 'res', None, {'disable_shared_quantizers': True, 'temperature': 5.0}),
                (64, (2, 4, 8), 'conv3', None, {'alpha_grid': 0.5}), (32, (2, 4, 8), 'conv3only', None, {'alpha_grid': 1.0}), (64, (0, 2, 4, 8), 'conv3', None, {'alpha_grid': 0.5, 'mode': 'eval'}),
                (64, (2, 4, 8), 'conv3', None, {'freeze': True}), (64, (2, 4, 8), 'conv3', (30, 20, 14), {'freeze': True, 'hard_softmax': True}), (32, (2, 4, 8), 'conv3only', (20, 12, 0), {'freeze': True, 'hard_softmax': True}), (32, (2, 4, 8), 'conv3only', (20, 12, 0), {'freeze': True}), (64, (2, 4, 8), 'res', None, {'freeze': True, 'disable_shared_quantizers': True})]
    optioned += [(64, (2, 4, 8), 'conv3', None, {'call': 'no_grad'}), (32, (2, 4, 8), 'conv3only', (20, 12, 0), {'call': 'no_grad'}), (40, (2, 4, 8), 'conv3', None, {'call': 'no_grad', 'temperature': 5.0}),
                 (64, (0, 2, 4, 8), 'conv3only', (8, 0, 20, 36), {'call': 'no_grad'}), (64, (2, 4, 8), 'dw', None, {'call': 'no_grad', 'disable_shared_quantizers': True})]
    optioned += [(64, (2, 4, 8), 'conv3', None, {'gumbel_softmax': True, 'gumbel_off': True}), (32, (2, 4, 8), 'conv3only', (20, 12, 0), {'gumbel_softmax': True, 'gumbel_off': True}),
                 (48, (0, 2, 4, 8), 'conv3', None, {'gumbel_softmax': True, 'gumbel_off': True, 'temperature': 2.0}),
                 (64, (2, 4, 8), 'conv3', None, {'passes': 2}), (48, (2, 4, 8), 'conv3only', (15, 9, 24), {'passes': 2}), (72, (2, 4, 8), 'conv3only', (7, 32, 33), {'passes': 2}),
                 (64, (2, 4, 8), 'conv3pair', None, {'passes': 2}), (40, (2, 4, 8), 'conv3', None, {'passes': 2}), (64, (0, 2, 4, 8), 'conv3', None, {'passes': 2})]
    if not ctx.quick:
        for _ in range(24):
            o = {}
            if ctx.rng.random() < 0.25:
                o['passes'] = 2
            if ctx.rng.random() < 0.2:
                o.update(gumbel_softmax=True, gumbel_off=True)
            if ctx.rng.random() < 0.25:
                o['call'] = 'no_grad'
            if ctx.rng.random() < 0.5:
                o['disable_shared_quantizers'] = True
            r = ctx.rng.random()
            if r < 0.3:
                o.update(gumbel_softmax=True, mode='eval')
            elif r < 0.5:
                o['mode'] = 'eval'
            if ctx.rng.random() < 0.3:
                o['temperature'] = ctx.rng.choice([0.5, 2.0, 5.0])
            if ctx.rng.random() < 0.25:
                o['alpha_grid'] = ctx.rng.choice([0.25, 0.5, 1.0])
            if ctx.rng.random() < 0.25:
                o['freeze'] = True
            optioned.append((ctx.rng.choice([32, 64]), ctx.rng.choice([(2, 4, 8), (0, 2, 4, 8), (2, 8)]), ctx.rng.choice(['dw', 'res', 'conv3', 'conv3pair']), None, o))
    configs += optioned
    for idx, (C, precs, kind, counts, opts) in enumerate(configs):
        seed = ctx.seed * 1000 + idx
        rec = {'C': C, 'precisions': list(precs), 'kind': kind, 'seed': seed, 'start_counts': counts, 'options': opts, 'layers': {}}
        ascending = list(precs) == sorted(precs)
        try:
            m = build_mps(torch, C, precs, seed, kind, counts, **{k: v for k, v in opts.items() if k not in ('mode', 'alpha_grid', 'freeze', 'call', 'gumbel_off', 'passes')})
            if opts.get('alpha_grid'):
                # coefficients on a coarse grid (hand-set values, a rounded checkpoint): exact ties, also at the maximum of a channel
                with torch.no_grad():
                    for _n, _p in m.named_nas_parameters():
                        _p.copy_(torch.round(_p / opts['alpha_grid']) * opts['alpha_grid'])
            if opts.get('mode') == 'eval':
                m.eval()
            if opts.get('freeze'):
                m.train_net_only()          # the architectural coefficients are frozen (fine-tuning phase) when the refinement runs
            if opts.get('gumbel_off'):
                m.update_softmax_options(hard=True, gumbel=False)      # a model searched with Gumbel noise, switched to deterministic sampling for the refinement
            else:
                m.update_softmax_options(hard=True)
            m(m._input_example)
            layers = per_channel_layers(m)
            before = {n: chan_prec(l) for n, l in layers.items()}
            alpha0 = {n: [[float(x) for x in row] for row in l.w_mps_quantizer.alpha.detach()] for n, l in layers.items()}
            c0 = float(m.get_cost('ne16'))
            tables = {}
            for n, l in layers.items():
                q = l.w_mps_quantizer
                order = [int(i) for i in torch.argsort(q.precision)]
                ps = [int(q.precision[i]) for i in order]
                init = [before[n].count(p) for p in ps]
                # the implementation accumulates the fractions k/C in float32; they are exact (and the table below
                # describes what it evaluates) only when C is a power of two; otherwise only the oracle is applied
                dyadic = sum(init) & (sum(init) - 1) == 0
                tables[n] = (order, ps, init, cost_table(torch, utils, m, n, l, init, order) if dyadic else None)
            buf = io.StringIO()
            if opts.get('call') == 'no_grad':
                # the refinement called from an evaluation block: the model as a search leaves it (training mode, soft
                # coefficients) and the caller inside torch.no_grad()
                m.update_softmax_options(hard=False)
                m(m._input_example)
                with torch.no_grad(), contextlib.redirect_stdout(buf):
                    utils.optimize_prec_assignment(m, 'ne16')
                    m(m._input_example)
            else:
                with contextlib.redirect_stdout(buf):
                    utils.optimize_prec_assignment(m, 'ne16')
                m(m._input_example)
            after = {n: chan_prec(l) for n, l in layers.items()}
            after_idx = {n: [int(i) for i in l.w_mps_quantizer.alpha.argmax(dim=0)] for n, l in layers.items()}
            # what the returned model actually EVALUATES: the refinement ends with a forward pass that refreshes the sampled coefficients
            theta_prec = {n: [int(l.w_mps_quantizer.precision[i]) for i in l.w_mps_quantizer.theta_alpha.argmax(dim=0)] for n, l in layers.items()}
            c1 = float(m.get_cost('ne16'))
            chosen = {}
            for mt in re.finditer(r"\* Layer '([^']+)' cost decreased.*?\n\tprecisions: (\[.*?\])\n\toriginal:\s+(\[.*?\])\n\tnew:\s+(\[.*?\])", buf.getvalue()):
                chosen[mt.group(1)] = [int(round(float(x))) for x in mt.group(4).strip('[]').split(',')]
            rec.update(cost_before=c0, cost_after=c1)
            for n in layers:
                order, ps, init, tbl = tables[n]
                fin = [after[n].count(p) for p in ps]
                rec['layers'][n] = {'precisions_sorted': ps, 'counts_before': init, 'counts_after': fin, 'chosen_by_refinement': chosen.get(n, init), 'table': tbl,
                                    'order': order, 'alpha_before': alpha0[n], 'own_index_after': after_idx[n],
                                    'demoted_channels': sum(1 for a, b in zip(before[n], after[n]) if b < a),
                                    'counts_evaluated_after': [theta_prec[n].count(p) for p in ps]}
            qids = [id(l.w_mps_quantizer) for l in layers.values()]
            shared = len(set(qids)) < len(qids)
            rec['shared_weight_quantizer'] = shared
            # (non-ascending precision tuples were repaired: no suffix, no known finding).  Layers that share ONE weight selector
            # although the model was built with disable_shared_quantizers=True are not the known finding (which is about the
            # default sharing inside a sharing group): another key
            key_sfx = '' if not shared else ':weight-selector-shared-although-sharing-is-disabled' if opts.get('disable_shared_quantizers') else ':shared-weight-quantizer'
            info = {k: v for k, v in rec.items() if k != 'layers'}
            info['layers'] = {n: {k: v for k, v in d.items() if k not in ('table', 'alpha_before', 'own_index_after')} for n, d in rec['layers'].items()}
            oracle(all(d['demoted_channels'] == 0 for d in rec['layers'].values()), 'refine-demotes-channel' + key_sfx, info)
            oracle(all(d['counts_after'] == d['chosen_by_refinement'] for d in rec['layers'].values()), 'refine-counts-differ-from-chosen' + key_sfx, info)
            oracle(all(d['counts_evaluated_after'] == d['counts_after'] for d in rec['layers'].values()), 'refined-model-evaluates-other-counts-than-it-holds' + key_sfx, info)
            oracle(math.isfinite(c1) and c1 <= c0 * (1 + 1e-6), 'refine-raises-cost' + key_sfx, info)
            if opts.get('passes', 1) > 1:
                # the refinement applied again to its own result (the one-hot coefficients it wrote: all scores of a precision tied)
                buf2 = io.StringIO()
                with contextlib.redirect_stdout(buf2):
                    utils.optimize_prec_assignment(m, 'ne16')
                m(m._input_example)
                after2 = {n: chan_prec(l) for n, l in layers.items()}
                c2 = float(m.get_cost('ne16'))
                chosen2 = {}
                for mt in re.finditer(r"\* Layer '([^']+)' cost decreased.*?\n\tprecisions: (\[.*?\])\n\toriginal:\s+(\[.*?\])\n\tnew:\s+(\[.*?\])", buf2.getvalue()):
                    chosen2[mt.group(1)] = [int(round(float(x))) for x in mt.group(4).strip('[]').split(',')]
                second = {}
                for n in layers:
                    ps = tables[n][1]
                    second[n] = {'counts_before': [after[n].count(p_) for p_ in ps], 'counts_after': [after2[n].count(p_) for p_ in ps],
                                 'chosen_by_refinement': chosen2.get(n, [after[n].count(p_) for p_ in ps]), 'demoted_channels': sum(1 for a_, b_ in zip(after[n], after2[n]) if b_ < a_)}
                info2 = dict(info, second_pass=second, cost_after_second_pass=c2)
                oracle(all(d_['demoted_channels'] == 0 for d_ in second.values()), 'refine-demotes-channel:second-pass' + key_sfx, info2)
                oracle(all(d_['counts_after'] == d_['chosen_by_refinement'] for d_ in second.values()), 'refine-counts-differ-from-chosen:second-pass' + key_sfx, info2)
                oracle(math.isfinite(c2) and c2 <= c1 * (1 + 1e-6), 'refine-raises-cost:second-pass' + key_sfx, info2)
        except Exception as e:
            import traceback
            rec['exception'] = type(e).__name__ + ': ' + str(e)[:300]
            oracle(False, 'refine-raises-exception', {k: v for k, v in rec.items() if k != 'layers'})
        B.append(rec)
        changed = any(d['counts_before'] != d['counts_after'] for d in rec['layers'].values())
        ctx.case(('B', C, precs, kind, seed, counts, repr(sorted(opts.items()))), nontrivial=changed, kind='refine:%s:%s%s%s' % (kind, 'x'.join(map(str, precs)), ':crafted' if counts else '', ':' + '+'.join(sorted(opts)) if opts else ''),
                 sample={k: v for k, v in rec.items() if k != 'layers'})

    for key, info in fails:
        ctx.violation(key, {'case': info}, '%s: %s' % (key, str(info)[:700]))

    # ------------------------------------------------------------------ model in Coq
    mism = []
    model_ok = built
    if built:
        try:
            A_tied, A = [c for c in A if c.get('tied')], [c for c in A if not c.get('tied')]
            ex = ['run_reassign %s %s' % (coq([[Fraction(x) for x in r] for r in c['scores']]), coq([Nat(x) for x in c['best']])) for c in A]
            vals = ctx.coq_eval_sharded('reassign', ['Plinio.Model.Reassign'], '', ex, shard=600)
            # the model GENERATED from mps/utils.py on this run, on the same cases
            mism += c20_gen.differences(ex, vals, ctx.coq_eval_sharded('greassign', c20_gen.IMPORTS, '', c20_gen.gen_exprs(ex), shard=600))
            for c, v in zip(A, vals):
                ctx.corr += 1
                if c['impl'] != v:
                    mism.append(('reassign', c, v))
            ex, refs, gex = [], [], []
            for rec in B:
                for n, d in rec['layers'].items():
                    if d['table'] is None or rec.get('shared_weight_quantizer'):
                        continue      # shared selectors: open known finding, the final counts are not those of this layer's refinement
                    tbl = [([Nat(x) for x in v], Fraction(cst)) for v, cst in sorted(d['table'].items())]
                    skip = [Nat(i) for i, p in enumerate(d['precisions_sorted']) if p == 0]
                    # the whole refinement of the layer (search, then reassignment of its alpha matrix): Model.run_pipeline,
                    # the composition C20_no_channel_demoted_any_order is about
                    order = d['order']
                    pos = [order.index(k) for k in range(len(order))]
                    sc = [[Fraction(x) for x in row] for row in d['alpha_before']]
                    d['tie_free'] = all(len(set(row)) == len(row) for row in sc) and all(len({sc[p][c] for p in range(len(sc))}) == len(sc) for c in range(len(sc[0])))
                    ex.append('run_pipeline %s %s %s %s %s' % (coq(tbl), coq(skip), coq([Nat(x) for x in order]), coq([Nat(x) for x in pos]), coq(sc)))
                    refs.append((rec, n, d))
                    gex.append(c20_gen.pipeline_gexpr(coq(tbl), d['precisions_sorted'], order, coq(sc)))
            if ex:
                vals = ctx.coq_eval_sharded('refine', ['Plinio.Model.Reassign'], '', ex, shard=4)
                mism += c20_gen.differences(ex, vals, ctx.coq_eval_sharded('grefine', c20_gen.IMPORTS, '', gex, shard=4), gex)
                for (rec, n, d), (v, massign) in zip(refs, vals):
                    ctx.corr += 1
                    d['model_counts'] = v
                    if d['tie_free']:
                        ctx.corr += 1
                        ctx.dist['pipeline:channel-by-channel'] += 1
                        if list(massign) != d['own_index_after']:
                            mism.append(('pipeline (search + reassignment, own precision index of every channel)',
                                         {'C': rec['C'], 'precisions': rec['precisions'], 'kind': rec['kind'], 'seed': rec['seed'], 'layer': n,
                                          'counts_before': d['counts_before'], 'impl_own_index_after': d['own_index_after']}, list(massign)))
                    if v != d['counts_after']:
                        mism.append(('refine', {'C': rec['C'], 'precisions': rec['precisions'], 'kind': rec['kind'], 'seed': rec['seed'], 'layer': n,
                                                'counts_before': d['counts_before'], 'counts_after': d['counts_after']}, v))
        except RuntimeError as e:
            model_ok = False
            ctx.notes.append('model evaluation failed: ' + str(e)[-800:])
    ctx.extra['model_impl_mismatches'] = len(mism)
    ctx.extra['refine_runs'] = [{k: v for k, v in rec.items() if k != 'layers'} for rec in B][:12]

    if not ctx.violations:   # a printed KNOWN-FINDING must not hide a broken proof / model / correspondence
        if c20_gen.report(ctx, gen_rejected, built):
            pass
        elif not built:
            ctx.violation('proof-broken', {'theorems': [o[0] for o in ctx.obligations if not o[1]], 'log': getattr(ctx, 'broken_log', '')[-3000:]}, 'Props/C20.v no longer checks', no_input=True)
        elif not model_ok:
            ctx.violation('model-eval-broken', {'notes': ctx.notes}, 'the model could not be evaluated', no_input=True)
    if mism and not ctx.violations:
        what, c, mv = mism[0]
        c = {k: v for k, v in c.items() if k not in ('table', 'alpha_before')}
        ctx.violation('correspondence-broken', {'what': what, 'case': c, 'model_value': mv, 'n_mismatches': len(mism), 'correspondence': 'Model/Reassign.v vs plinio.methods.mps.utils'},
                      'model and implementation disagree on %d observations (first: %s, model %r, case %s) but the property oracle found no failing input outside the known findings' % (len(mism), what, mv, str(c)[:500]), no_input=True)


def replay(r):
    import json
    torch, utils = _env()
    c = r.get('case', {})
    c = c.get('case', c)
    print(json.dumps(r, indent=1)[:3000])
    if 'scores' in c:
        a = impl_reassign(torch, utils, c['scores'], c['targets'])
        print('replayed on the implementation: assignment', a, 'targets', c['targets'], '-> ok' if reassign_ok(a, c['targets']) else '-> counts not met')
        return 0 if reassign_ok(a, c['targets']) else 1
    return 1
