(* Model of plinio/methods/mps/quant/backends: binary_search (utils.py), _integer_approximation,
   MATCH requantization, MAUPITI offset form with _zero_point and padding value, last-layer forms,
   dilation-to-padding of a kernel  (C14).  Numbers: integer tensors are Z, accumulators are Q (the
   input of a Linear after average pooling is a mean of integers), float scales are Q. *)
From Coq Require Import QArith Qround ZArith List Bool.
Import ListNotations.
Require Import Plinio.Base.Qx Plinio.Base.Round Plinio.Model.Quant.
Local Open Scope Q_scope.

(* ---------------- utils.binary_search(div, low, high, x)
   python:  if high != low: mid = (low+high)//2; if x == mid*div: return mid
            if x < mid*div: return binary_search(div, low, mid, x) else: binary_search(div, mid+1, high, x)
            else: return low
   structural recursion on a fuel that bounds log2 of the interval width (never exhausted, see
   Proofs: bsearch_spec needs hi - lo < 2^fuel) *)
Fixpoint bsearch (fuel : nat) (div : Q) (lo hi : Z) (x : Q) : Z :=
  match fuel with
  | O => lo
  | S f =>
      if (hi =? lo)%Z then lo
      else let mid := ((lo + hi) / 2)%Z in
           if Qeq_bool x (inject_Z mid * div) then mid
           else if qlt_bool x (inject_Z mid * div) then bsearch f div lo mid x
           else bsearch f div (mid + 1)%Z hi x
  end.
Definition bs_fuel (lo hi : Z) : nat := Z.to_nat (Z.log2_up (hi - lo + 1)).
Definition binary_search (div : Q) (lo hi : Z) (x : Q) : Z := bsearch (bs_fuel lo hi) div lo hi x.

(* ---------------- _integer_approximation(s_w, s_x, s_y, int_bias)
   targets[c] = s_w[c]*s_x/s_y ; per shift sh in range(shift_pos): scale[c] = binary_search(2**-sh, 1, 2**(scale_bit-1), target[c]);
   avg_diff[sh] = mean_c |scale[c]/2**sh - target[c]| ; the first shift with the strictly smallest avg_diff among
   those where no int_bias[c]*scale[c] leaves [-2^31, 2^31-1] wins; torch.tensor(None) raises when there is none *)
Definition inv_pow2 (sh : nat) : Q := 1 / qpow2 sh.
Definition scales_at (ub : Z) (targets : list Q) (sh : nat) : list Z :=
  map (binary_search (inv_pow2 sh) 1 ub) targets.
Definition qsum (l : list Q) : Q := fold_right Qplus 0 l.
Definition approx_err (sh : nat) (s : Z) (t : Q) : Q := qabs (inject_Z s / qpow2 sh - t).
Definition mean_err (targets : list Q) (sh : nat) (scales : list Z) : Q :=
  qsum (map (fun st => approx_err sh (fst st) (snd st)) (combine scales targets))
  / inject_Z (Z.of_nat (length targets)).
Definition int32_min : Z := (- 2 ^ 31)%Z.
Definition int32_max : Z := (2 ^ 31 - 1)%Z.
Definition in_int32 (z : Z) : bool := (int32_min <=? z)%Z && (z <=? int32_max)%Z.
Definition overflows (bias scales : list Z) : bool :=
  existsb (fun bs => negb (in_int32 (fst bs * snd bs))) (combine bias scales).

Fixpoint approx_loop (ub : Z) (targets : list Q) (bias : list Z) (shs : list nat)
         (best : option (Q * (list Z * nat))) : option (Q * (list Z * nat)) :=
  match shs with
  | [] => best
  | sh :: r =>
      let sc := scales_at ub targets sh in
      let e := mean_err targets sh sc in
      let better := match best with None => true | Some (m, _) => qlt_bool e m end in
      approx_loop ub targets bias r
        (if better && negb (overflows bias sc) then Some (e, (sc, sh)) else best)
  end.
Definition integer_approximation (scale_bit shift_pos : nat) (targets : list Q) (bias : list Z)
  : option (list Z * nat) :=
  option_map snd (approx_loop (pow2 (scale_bit - 1)) targets bias (seq 0 shift_pos) None).

(* ---------------- requantization *)
Definition zclip (x lo hi : Z) : Z := Z.min (Z.max x lo) hi.          (* torch.clip(x, lo, hi) *)
Definition requant_pre (scale addb : Z) (sh : nat) (acc : Q) : Q :=
  (acc * inject_Z scale + inject_Z addb) / qpow2 sh.
(* MATCHConv2d / MATCHLinear (not last): add_bias = int_bias * scale *)
Definition match_requant (p : nat) (scale addb : Z) (sh : nat) (acc : Q) : Z :=
  zclip (Qfloor (requant_pre scale addb sh acc)) 0 (pow2 p - 1).
(* fake-quantized counterpart on the same integer input: conv of s_x*X with s_w*W plus s_x*s_w*B, then PACT *)
Definition fq_real (sx sw : Q) (B : Z) (acc : Q) : Q := sx * sw * (acc + inject_Z B).
Definition fq_code (p : nat) (clip sx sw : Q) (B : Z) (acc : Q) : Z := aq_int p clip (fq_real sx sw B acc).
Definition target (p : nat) (clip sx sw : Q) : Q := sw * sx / aq_scale p clip.
Definition sat_gap (p : nat) (clip : Q) : Q := (1 # 1000) * aq_sf p clip.   (* (2^p-1) - clip/s_y *)
Definition err_bound (p : nat) (clip sx sw : Q) (B scale : Z) (sh : nat) (acc : Q) : Q :=
  1 + qabs (acc + inject_Z B) * qabs (inject_Z scale / qpow2 sh - target p clip sx sw) + sat_gap p clip.

(* MAUPITI: activations are stored minus z = 2^(p-1); clip_inf = -z_out *)
Definition zero_point (z_out scale addb sumw : Z) (sh : nat) : Z :=
  (addb + (- z_out) * pow2 sh - (- z_out) * scale * sumw)%Z.
Definition maupiti_requant (p : nat) (scale addb sumw : Z) (sh : nat) (acc' : Q) : Z :=
  let z := pow2 (p - 1) in
  zclip (Qfloor (requant_pre scale (zero_point z scale addb sumw sh) sh acc')) (- z) (z - 1).
Definition maupiti_pad_value (p : nat) : Z := (- pow2 (p - 1))%Z.
(* repaired code: the offset of the incoming activations comes from the INPUT precision (in_offset), the 2^shift term
   and the clip from the output precision; `zero_point` / `maupiti_requant` above are the pinned upstream form, which
   took both from the output precision (the two coincide when the precisions agree); the padding value is
   maupiti_pad_value p_in *)
Definition zero_point2 (z_in z_out scale addb sumw : Z) (sh : nat) : Z :=
  (addb + (- z_out) * pow2 sh - (- z_in) * scale * sumw)%Z.
Definition maupiti_requant2 (p_in p_out : nat) (scale addb sumw : Z) (sh : nat) (acc' : Q) : Z :=
  let zi := pow2 (p_in - 1) in let zo := pow2 (p_out - 1) in
  zclip (Qfloor (requant_pre scale (zero_point2 zi zo scale addb sumw sh) sh acc')) (- zo) (zo - 1).
(* last layers.  MATCH: acc + int_bias (to be multiplied by s_x*s_w outside);  MAUPITI Linear: no floor, no clip,
   clip_inf = -2^(p_in-1), zero point without the 2^shift term *)
Definition match_last (B : Z) (acc : Q) : Q := acc + inject_Z B.
Definition zero_point_last (z_in scale addb sumw : Z) : Z := (addb - (- z_in) * scale * sumw)%Z.
Definition maupiti_last (z_in scale addb sumw : Z) (sh : nat) (acc' : Q) : Q :=
  requant_pre scale (zero_point_last z_in scale addb sumw) sh acc'.

(* integer dot products *)
Fixpoint zdot (ws xs : list Z) : Z :=
  match ws, xs with w :: ws', x :: xs' => (w * x + zdot ws' xs')%Z | _, _ => 0%Z end.
Definition zsum (l : list Z) : Z := fold_right Z.add 0%Z l.

(* ---------------- _pad_dilation_in_weight along the dilated axis: k*d-(d-1) taps, w_i at i*d *)
Fixpoint dilate (d : nat) (ws : list Z) : list Z :=
  match ws with
  | [] => []
  | w :: r => match r with [] => [w] | _ => w :: repeat 0%Z (d - 1) ++ dilate d r end
  end.
(* the pinned upstream code took dilation[0] / kernel_size[0] whatever the dilated axis: for a kernel dilated
   along axis 1 these are both 1: a single tap *)
Definition dilate_v0 (axis d : nat) (ws : list Z) : list Z :=
  match axis with O => dilate d ws | _ => firstn 1 ws end.
(* sum_j ws[j] * x(off + j*step) *)
Fixpoint sdot (step : nat) (ws : list Z) (x : nat -> Z) (off : nat) : Z :=
  match ws with [] => 0%Z | w :: r => (w * x off + sdot step r x (off + step))%Z end.

(* ---------------- helpers evaluated by the harness *)
Definition run_bs (sh : nat) (lo hi : Z) (x : Q) : Z := binary_search (inv_pow2 sh) lo hi x.
Definition run_approx (scale_bit shift_pos : nat) (targets : list Q) (bias : list Z) : option (list Z * nat) :=
  integer_approximation scale_bit shift_pos targets bias.
(* mean errors of the best two shifts, to recognise float near-ties *)
Definition run_mean_errs (scale_bit shift_pos : nat) (targets : list Q) (bias : list Z) : list (bool * (Z * Z)) :=
  map (fun sh => let sc := scales_at (pow2 (scale_bit - 1)) targets sh in
                 (overflows bias sc, qpair (mean_err targets sh sc))) (seq 0 shift_pos).
(* one channel of a layer: parameters and the list of accumulators *)
Definition run_match (p : nat) (sh : nat) (chans : list (Z * Z * list Q)) : list (list Z) :=
  map (fun c => match c with (scale, addb, accs) => map (match_requant p scale addb sh) accs end) chans.
Definition run_maupiti (p : nat) (sh : nat) (chans : list (Z * Z * Z * list Q)) : list (list Z) :=
  map (fun c => match c with (scale, addb, sumw, accs) => map (maupiti_requant p scale addb sumw sh) accs end) chans.
Definition run_maupiti2 (p_in p_out : nat) (sh : nat) (chans : list (Z * Z * Z * list Q)) : list (list Z) :=
  map (fun c => match c with (scale, addb, sumw, accs) => map (maupiti_requant2 p_in p_out scale addb sumw sh) accs end) chans.
Definition run_zero_point2 (z_in z_out : Z) (sh : nat) (chans : list (Z * Z * Z)) : list Z :=
  map (fun c => match c with (scale, addb, sumw) => zero_point2 z_in z_out scale addb sumw sh end) chans.
Definition run_zero_point (z : Z) (sh : nat) (chans : list (Z * Z * Z)) : list Z :=
  map (fun c => match c with (scale, addb, sumw) => zero_point z scale addb sumw sh end) chans.
Definition run_zero_point_last (z : Z) (chans : list (Z * Z * Z)) : list Z :=
  map (fun c => match c with (scale, addb, sumw) => zero_point_last z scale addb sumw end) chans.
Definition run_maupiti_last (z : Z) (sh : nat) (chans : list (Z * Z * Z * list Q)) : list (list (Z * Z)) :=
  map (fun c => match c with (scale, addb, sumw, accs) => map (fun a => qpair (maupiti_last z scale addb sumw sh a)) accs end) chans.
Definition run_pre (sh : nat) (chans : list (Z * Z * list Q)) : list (list (Z * Z)) :=
  map (fun c => match c with (scale, addb, accs) => map (fun a => qpair (requant_pre scale addb sh a)) accs end) chans.
(* fake-quantized counterpart's code and the proved bound, per channel (sw, B, scale, accs) *)
Definition run_fq (p : nat) (clip sx : Q) (sh : nat) (chans : list (Q * Z * Z * list Q)) : list (list (Z * (Z * Z))) :=
  map (fun c => match c with (sw, B, scale, accs) =>
     map (fun a => (fq_code p clip sx sw B a, qpair (err_bound p clip sx sw B scale sh a))) accs end) chans.
Definition run_dilate (d : nat) (rows : list (list Z)) : list (list Z) := map (dilate d) rows.
