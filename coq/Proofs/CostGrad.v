From Coq Require Import QArith Qround ZArith List Bool Arith Lia Lqa.
Import ListNotations.
Require Import Plinio.Base.Qx Plinio.Model.Masks Plinio.Proofs.Masks Plinio.Model.CostGrad.
Local Open Scope Q_scope.

(* ================================================================ ordered non-negative vectors *)
Definition le0 (a b : list Q) : Prop := Forall2 (fun x y => 0 <= x <= y) a b.

Lemma le0_refl l : Forall (fun x => 0 <= x) l -> le0 l l.
Proof. induction 1; constructor; [lra|assumption]. Qed.

Lemma le0_qsum a b : le0 a b -> 0 <= qsum a <= qsum b.
Proof. induction 1 as [|x y a b H _ IH]; [rewrite qsum_nil; lra|]. rewrite !qsum_cons. lra. Qed.

Lemma le0_firstn n a b : le0 a b -> le0 (firstn n a) (firstn n b).
Proof. intro H. revert n. induction H as [|x y a b Hxy _ IH]; intros [|n]; cbn [firstn]; [constructor|constructor|constructor|constructor; [exact Hxy|apply IH]]. Qed.

Lemma le0_nth a b i : le0 a b -> 0 <= nth i a 0 <= nth i b 0.
Proof. intro H. revert i. induction H as [|x y a b Hxy _ IH]; intros [|i]; cbn [nth]; [lra|lra|exact Hxy|apply IH]. Qed.

Lemma le0_map_seq (f g : nat -> Q) s n : (forall i, 0 <= f i <= g i) -> le0 (map f (seq s n)) (map g (seq s n)).
Proof. intro H. revert s. induction n as [|n IH]; intro s; cbn [seq map]; constructor; [apply H|apply IH]. Qed.

Lemma le0_qmul3 a a' b b' : le0 a a' -> le0 b b' -> le0 (qmul3 a b) (qmul3 a' b').
Proof.
  intro H. revert b b'. induction H as [|x y a a' Hxy _ IH]; intros b b' Hb; [constructor|].
  destruct Hb as [|u v b b' Huv Hb]; [constructor|]. unfold qmul3. cbn [combine map fst snd].
  constructor; [nra|]. apply IH. exact Hb.
Qed.

Lemma le0_length a b : le0 a b -> length a = length b.
Proof. induction 1; cbn; congruence. Qed.

(* ================================================================ the mask maps are monotone in |x| *)
Lemma abs_le_refl p : abs_le p p.
Proof. induction p; constructor; [lra|assumption]. Qed.

Lemma abs_le_length p q : abs_le p q -> length p = length q.
Proof. induction 1; cbn; congruence. Qed.

Lemma keep_alive_mono p q : abs_le p q -> le0 (keep_alive p) (keep_alive q).
Proof.
  induction 1 as [|x y p q Hxy Hpq IH]; [constructor|].
  destruct Hpq as [|x2 y2 p q H2 Hpq].
  - cbn. constructor; [lra|constructor].
  - change (keep_alive (x :: x2 :: p)) with (qabs x :: keep_alive (x2 :: p)).
    change (keep_alive (y :: y2 :: q)) with (qabs y :: keep_alive (y2 :: q)).
    constructor; [split; [apply qabs_nonneg|exact Hxy]|exact IH].
Qed.

(* the keep-alive (last) element does not influence anything *)
Lemma keep_alive_indep_last p x y : keep_alive (p ++ [x]) = keep_alive (p ++ [y]).
Proof.
  induction p as [|a p IH]; [reflexivity|].
  destruct p as [|b p]; [reflexivity|].
  change (keep_alive ((a :: b :: p) ++ [x])) with (qabs a :: keep_alive ((b :: p) ++ [x])).
  change (keep_alive ((a :: b :: p) ++ [y])) with (qabs a :: keep_alive ((b :: p) ++ [y])).
  rewrite IH. reflexivity.
Qed.

Lemma theta_beta_mono p q : abs_le p q -> le0 (theta_beta p) (theta_beta q).
Proof.
  intro H. unfold theta_beta. rewrite <- (abs_le_length _ _ H).
  apply le0_map_seq. intro t. apply le0_qsum, le0_firstn, keep_alive_mono, H.
Qed.

Lemma theta_gamma_at_mono ka ka' d : le0 ka ka' -> 0 <= theta_gamma_at ka d <= theta_gamma_at ka' d.
Proof.
  intro H. unfold theta_gamma_at. rewrite <- (le0_length _ _ H). apply le0_qsum, le0_map_seq. intro i.
  destruct (Nat.eqb (d mod 2 ^ i) 0); [apply le0_nth, H|lra].
Qed.

Lemma theta_gamma_mono fl K p q : abs_le p q -> le0 (theta_gamma fl K p) (theta_gamma fl K q).
Proof. intro H. unfold theta_gamma. apply le0_map_seq. intro j. apply theta_gamma_at_mono, keep_alive_mono, H. Qed.

Lemma beta_norm_nonneg K : Forall (fun x => 0 <= x) (beta_norm K).
Proof. unfold beta_norm. apply Forall_forall. intros x Hx. apply in_map_iff in Hx as [t [<- _]]. unfold Qle; cbn; lia. Qed.
Lemma gamma_norm_nonneg K : Forall (fun x => 0 <= x) (gamma_norm K).
Proof. unfold gamma_norm. apply Forall_forall. intros x Hx. apply in_map_iff in Hx as [t [<- _]]. unfold Qle; cbn; lia. Qed.

Lemma k_eff_cont_mono fl K b b' g g' : abs_le b b' -> abs_le g g' ->
  0 <= k_eff_cont fl K b g <= k_eff_cont fl K b' g'.
Proof.
  intros Hb Hg. unfold k_eff_cont. apply le0_qsum. apply le0_qmul3; apply le0_qmul3.
  - apply theta_gamma_mono, Hg.
  - apply le0_refl, gamma_norm_nonneg.
  - apply theta_beta_mono, Hb.
  - apply le0_refl, beta_norm_nonneg.
Qed.

Lemma out_eff_mono m m' : masker_le m m' -> 0 <= out_eff m <= out_eff m'.
Proof.
  intros [Hf Ha]. unfold out_eff, theta_of. rewrite <- Hf. destruct (m_frozen m).
  - apply le0_qsum. unfold theta_alpha_frozen. clear Hf. induction Ha; cbn [map]; constructor; [lra|assumption].
  - apply le0_qsum, keep_alive_mono, Ha.
Qed.

Lemma masker_le_refl m : masker_le m m.
Proof. split; [reflexivity|apply abs_le_refl]. Qed.

Lemma mask_eff_mono ms ms' j : Forall2 masker_le ms ms' -> 0 <= mask_eff ms j <= mask_eff ms' j.
Proof.
  intro H. unfold mask_eff. revert j. induction H as [|m m' ms ms' Hm _ IH]; intro j.
  - destruct j; apply out_eff_mono, masker_le_refl.
  - destruct j as [|j]; cbn [nth]; [apply out_eff_mono, Hm|apply IH].
Qed.

Lemma in_eff_mono ms ms' a : wf_affine a -> Forall2 masker_le ms ms' -> 0 <= in_eff ms a <= in_eff ms' a.
Proof.
  intros [H0 Hc] H. unfold in_eff.
  assert (Hs : le0 (map (fun p => fst p * mask_eff ms (snd p)) (snd a)) (map (fun p => fst p * mask_eff ms' (snd p)) (snd a))).
  { induction Hc as [|p l Hp _ IH]; cbn [map]; constructor; [|exact IH].
    pose proof (mask_eff_mono ms ms' (snd p) H). nra. }
  apply le0_qsum in Hs. lra.
Qed.

Lemma k_eff_mono t t' : otmask_le t t' -> 0 <= k_eff t <= k_eff t'.
Proof.
  destruct t as [t|], t' as [t'|]; cbn; try tauto; [|lra].
  intros [HK [Hb Hg]]. rewrite <- HK. apply k_eff_cont_mono; assumption.
Qed.

Lemma otmask_le_refl t : otmask_le t t.
Proof. destruct t; cbn; [|exact I]. repeat split; apply abs_le_refl. Qed.

(* the statement asked for: every component of theta_alpha / theta_beta / theta_gamma, out_eff and k_eff is
   non-decreasing in |x_i| of every parameter element and does not depend on the keep-alive element *)
Theorem mask_maps_monotone :
  (forall p q, abs_le p q -> Forall2 Qle (theta_alpha p) (theta_alpha q)) /\
  (forall p q, abs_le p q -> Forall2 Qle (theta_beta p) (theta_beta q)) /\
  (forall K p q, abs_le p q -> Forall2 Qle (theta_gamma true K p) (theta_gamma true K q)) /\
  (forall p q, abs_le p q -> qsum (theta_alpha p) <= qsum (theta_alpha q)) /\
  (forall K b b' g g', abs_le b b' -> abs_le g g' -> k_eff_cont true K b g <= k_eff_cont true K b' g') /\
  (forall p x y, theta_alpha (p ++ [x]) = theta_alpha (p ++ [y]) /\ theta_beta (p ++ [x]) = theta_beta (p ++ [y]) /\
                 forall K, theta_gamma true K (p ++ [x]) = theta_gamma true K (p ++ [y])).
Proof.
  assert (W : forall a b, le0 a b -> Forall2 Qle a b).
  { induction 1; constructor; [lra|assumption]. }
  repeat split.
  - intros. apply W, keep_alive_mono. assumption.
  - intros. apply W, theta_beta_mono. assumption.
  - intros. apply W, theta_gamma_mono. assumption.
  - intros p q H. apply (le0_qsum _ _ (keep_alive_mono _ _ H)).
  - intros. apply k_eff_cont_mono; assumption.
  - unfold theta_alpha. apply keep_alive_indep_last.
  - unfold theta_beta. rewrite (keep_alive_indep_last p x y), !app_length. reflexivity.
  - unfold theta_gamma. rewrite (keep_alive_indep_last p x y). reflexivity.
Qed.

(* ================================================================ PIT cost: non-negative, monotone *)
Section PitCost.
  Variable St : Type.
  Variable f : St -> Q -> Q -> Q -> Q.
  Hypothesis f_nonneg : forall s a b c, 0 <= a -> 0 <= b -> 0 <= c -> 0 <= f s a b c.
  Hypothesis f_mono : forall s a b c a' b' c', 0 <= a <= a' -> 0 <= b <= b' -> 0 <= c <= c' -> f s a b c <= f s a' b' c'.

  Lemma layer_cost_mono ms ms' (l l' : layer St) : wf_affine (l_in l) -> Forall2 masker_le ms ms' -> layer_le l l' ->
    0 <= layer_cost f ms l <= layer_cost f ms' l'.
  Proof.
    intros Hw Hm [Hs [Hk [Hi Ht]]]. unfold layer_cost. rewrite <- Hs, <- Hk, <- Hi.
    pose proof (in_eff_mono ms ms' (l_in l) Hw Hm). pose proof (mask_eff_mono ms ms' (l_mask l) Hm).
    pose proof (k_eff_mono _ _ Ht). split; [apply f_nonneg; lra|apply f_mono; lra].
  Qed.

  Theorem pit_cost_mono_abs (n n' : net St) : wf_net n -> net_le n n' -> 0 <= pit_cost f n <= pit_cost f n'.
  Proof.
    intros Hw [Hm Hl]. unfold pit_cost. apply le0_qsum. unfold wf_net in Hw.
    induction Hl as [|l l' ls ls' H1 _ IH]; cbn [map]; constructor.
    - apply layer_cost_mono; [inversion Hw; assumption|exact Hm|exact H1].
    - apply IH. inversion Hw; assumption.
  Qed.

  Lemma layer_le_refl (l : layer St) : layer_le l l.
  Proof. repeat split. apply otmask_le_refl. Qed.
  Lemma net_le_refl (n : net St) : net_le n n.
  Proof.
    split.
    - induction (n_maskers n); constructor; [apply masker_le_refl|assumption].
    - induction (n_layers n); constructor; [apply layer_le_refl|assumption].
  Qed.

  Theorem pit_cost_nonneg (n : net St) : wf_net n -> 0 <= pit_cost f n.
  Proof. intro H. apply (pit_cost_mono_abs n n H (net_le_refl n)). Qed.

  (* structural: the evaluator has no weight argument *)
  Theorem cost_indep_weights (m m' : pit_model St) : pm_arch m = pm_arch m' -> model_cost f m = model_cost f m'.
  Proof. unfold model_cost. intros ->. reflexivity. Qed.
End PitCost.
