#!/usr/bin/env python3
"""add_tie_note.py Cxx <file with three paragraphs separated by lines '----'>: appends text / note / technique additions to
the registry entry of Cxx (whatever quote style the fields use)."""
import re, sys
pid, f = sys.argv[1], sys.argv[2]
parts = [x.strip() for x in open(f).read().split('\n----\n')]
assert len(parts) == 3, len(parts)
p = '/verif/vlib/registry.py'
s = open(p).read()
i = s.index("'%s': dict(" % pid)
j = s.index('design_ref=', i)
blk = s[i:j]
out = blk
for name, add in zip(('text', 'note', 'technique'), parts):
    m = re.search(r"\b%s=(['\"])((?:\\.|(?!\1).)*)\1" % name, out, re.S)
    assert m, name
    q = m.group(1)
    a = ' ' + add
    a = a.replace('\\', '\\\\').replace(q, '\\' + q)
    out = out[:m.end(2)] + a + out[m.end(2):]
s = s[:i] + out + s[j:]
open(p, 'w').write(s)
import importlib.util
spec = importlib.util.spec_from_file_location('r', p); r = importlib.util.module_from_spec(spec); spec.loader.exec_module(r)
print('ok', pid, len(r.CHECKS[pid]['text']))
