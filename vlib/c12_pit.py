"""C12, PIT part: one grammar network -> observations of cost / autograd on the implementation + the Coq literal
of the architecture (Model/CostGrad.v `net`) read back from the real layer objects."""
import math, random, traceback
from .common import *
from . import gen_arch as ga
from . import c04_net as cn      # gen_arch + the production 'a layer invoked twice per forward' (reuse nodes)

STD_SPECS = ['params', 'ops', 'params_no_bias', 'ops_no_bias']
DY = [k / 16.0 for k in range(-24, 25) if k != 0]          # dyadic magnitudes 1/16 .. 3/2, both signs


def _specs(dim):
    from plinio.cost import params, ops, params_no_bias, ops_no_bias, gap8_latency
    d = {'params': params, 'ops': ops, 'params_no_bias': params_no_bias, 'ops_no_bias': ops_no_bias}
    # GAP8 has no model for Conv1d (cost 0 by the spec's default): on 1-D networks only the Linear layers are costed, and the
    # latency reaches the masks of the convolutions that feed them through in_features
    d['gap8_latency'] = gap8_latency
    return d


def _fl(x, n):
    return math.floor((x + n - 1) / n)


def orig_cost_from_shapes(spec, which):
    """cost of the ORIGINAL model computed from the static layer shapes of the architecture (independent of PIT)"""
    sh = cn.shapes(spec)
    tot = 0
    for i, nd in enumerate(spec['nodes']):
        if nd['k'] == 'reuse':
            # a second call site of the layer of node nd['layer']: specs that count every invocation (shared=False: ops,
            # ops_no_bias) cost it again with the output size of THIS call site; the others count a layer once
            if not which.startswith('ops'):
                continue
            nd = dict(spec['nodes'][nd['layer']])
        if nd['k'] not in ('conv1d', 'conv2d', 'linear'):
            continue
        cin, cout = nd['cin'], nd['cout']
        # the built-in specs classify by the constraint in_channels == groups == out_channels (a 1 -> 1 convolution matches it)
        dw = nd['k'] != 'linear' and nd['groups'] == cin and nd['groups'] == cout
        osp = list(sh[i][1:])
        if nd['k'] == 'conv1d':
            kk = [nd['ks']]
        elif nd['k'] == 'conv2d':
            kk = list(nd['ks'])
        else:
            kk = [1]
            osp = []
        if which == 'gap8_latency' and nd['k'] == 'conv1d':
            continue                      # no GAP8 model: zero
        if which == 'gap8_latency':
            if nd['k'] == 'linear':
                tot += _fl(cin, 2) * _fl(cout, 4)
            elif dw:
                tot += 4 * _fl(cout, 4) * osp[0] * osp[1] * kk[0] * kk[1]
            else:
                tot += _fl(osp[0], 2) * _fl(osp[1], 8) * (kk[0] * kk[1] * cin * 2 + _fl(cout, 4) * (5 + _fl(kk[0] * kk[1] * cin, 4) * 14 + 10))
            continue
        b = 1 if (nd['bias'] and 'no_bias' not in which) else 0
        k = math.prod(kk)
        c = cin * (k + b) if dw else cout * (cin * k + b)
        if which.startswith('ops'):
            c *= math.prod(osp)
        tot += c
    return tot


def _affine(calc, mid):
    """FeaturesCalculator object tree -> (c0, [(mult, masker index)])"""
    from plinio.graph.features_calculation import ConstFeaturesCalculator, ModAttrFeaturesCalculator, FlattenFeaturesCalculator, ConcatFeaturesCalculator
    if isinstance(calc, ConstFeaturesCalculator):
        return (Fraction(int(calc.features)), [])
    if isinstance(calc, ModAttrFeaturesCalculator):
        if calc.attr_name != 'out_features_eff' or not hasattr(calc.mod, 'out_features_masker'):
            raise ValueError('unexpected ModAttr calculator %s' % calc.attr_name)
        return (Fraction(0), [(Fraction(1), mid(calc.mod.out_features_masker))])
    if isinstance(calc, FlattenFeaturesCalculator):
        c0, l = _affine(calc.prev, mid)
        m = Fraction(int(getattr(calc.mod, getattr(calc, 'prefix', '') + 'feat_calc_multiplier')))
        return (c0 * m, [(a * m, j) for a, j in l])
    if isinstance(calc, ConcatFeaturesCalculator):
        c0, l = Fraction(0), []
        for x in calc.inputs:
            a, b = _affine(x, mid)
            c0 += a
            l += b
        return (c0, l)
    raise ValueError('unknown calculator %s' % type(calc).__name__)


class FixedMasker:
    """stand-in masker of a layer that is not NAS-able (excluded / unconverted) and is costed with its static sizes
    (full_cost=True): all ones, never trainable"""

    def __init__(self, torch, cout):
        self.alpha = torch.ones(cout)


def extract(p, which, shared, full=False):
    """the architecture as the cost evaluator sees it: (maskers, layers, param_map)
    maskers: [(alpha tensor, frozen)], layers: dicts, param_map: id(param tensor) -> list of pid-prefix tuples"""
    from plinio.methods.pit.nn import PITConv1d, PITConv2d, PITLinear
    from plinio.methods.pit.nn.features_masker import PITFrozenFeaturesMasker
    maskers, mids = [], {}

    def mid(fm):
        if id(fm) not in mids:
            mids[id(fm)] = len(maskers)
            maskers.append(fm)
        return mids[id(fm)]
    layers = []
    target = p._unique_leaf_modules if shared else p._leaf_modules
    import torch, torch.nn as nn
    for lname, node, layer in target:
        osh = list(node.meta['tensor_meta'].shape)
        if full and type(layer) in (nn.Conv1d, nn.Conv2d, nn.Linear):
            lin = type(layer) is nn.Linear
            cin, cout = (layer.in_features, layer.out_features) if lin else (layer.in_channels, layer.out_channels)
            fmk = FixedMasker(torch, cout)
            L = {'name': lname, 'mask': mid(fmk), 'in': (Fraction(cin), []), 'time': None, 'layer': layer, 'bias': layer.bias is not None, 'fixed': True}
            if lin:
                L.update(kind='lin', dw=False, kk=[1], osp=[])
            else:
                # the static kernel size goes into the constant factor kc (kind c2 -> kc = prod(kk)); time stays None
                L.update(kind='c2' if type(layer) is nn.Conv2d else 'c1fixed', dw=layer.groups == cin and layer.groups == cout, kk=list(layer.kernel_size), osp=osh[2:])
            layers.append(L)
            continue
        if not isinstance(layer, (PITConv1d, PITConv2d, PITLinear)):
            continue
        L = {'name': lname, 'mask': mid(layer.out_features_masker), 'in': _affine(layer.input_features_calculator, mid), 'time': None, 'layer': layer}
        bias = layer.bias is not None
        if isinstance(layer, PITLinear):
            L.update(kind='lin', dw=False, kk=[1], osp=[])
        else:
            dw = layer.groups == layer.in_channels and layer.groups == layer.out_channels
            L.update(kind='c1' if isinstance(layer, PITConv1d) else 'c2', dw=dw, kk=list(layer.kernel_size), osp=osh[2:])
            if isinstance(layer, PITConv1d):
                L['time'] = (layer.kernel_size[0], layer.timestep_masker.beta, layer.dilation_masker.gamma)
        L['bias'] = bias
        layers.append(L)
    return maskers, layers


def coq_net(maskers, layers, which, vals):
    """Coq literal of `net std` / `net g8`; vals: id(param) -> list of float values"""
    from plinio.methods.pit.nn.features_masker import PITFrozenFeaturesMasker
    fr = lambda t: coq([Fraction(v) for v in vals(t)])
    ms = '[' + '; '.join('Build_masker %s %s' % (fr(m.alpha), coq(isinstance(m, (PITFrozenFeaturesMasker, FixedMasker)))) for m in maskers) + ']'
    ls = []
    for L in layers:
        if which == 'gap8_latency':
            kind = {'lin': 'G8Lin', 'c2': 'G8Dw' if L['dw'] else 'G8Conv'}[L['kind']]
            kk = L['kk'] if L['kind'] == 'c2' else [1, 1]
            osp = L['osp'] if L['kind'] == 'c2' else [1, 1]
            st = '(Build_g8 %s %s %s %s %s)' % (kind, coq(Fraction(kk[0])), coq(Fraction(kk[1])), coq(Fraction(osp[0])), coq(Fraction(osp[1])))
        else:
            b = 1 if (L['bias'] and 'no_bias' not in which) else 0
            osz = math.prod(L['osp']) if which.startswith('ops') else 1
            kc = math.prod(L['kk']) if L['kind'] != 'c1' else 1
            st = '(Build_std %s %s %s %s)' % (coq(L['dw']), coq(Fraction(osz)), coq(Fraction(b)), coq(Fraction(kc)))
        aff = '(%s, [%s])' % (coq(L['in'][0]), '; '.join('(%s, %s)' % (coq(a), coq(Nat(j))) for a, j in L['in'][1]))
        if L['time'] is None:
            tm = 'None'
        else:
            K, beta, gamma = L['time']
            tm = '(Some (Build_tmask %s %s %s))' % (coq(Nat(K)), fr(beta), fr(gamma))
        ls.append('Build_layer %s %s %s %s' % (st, coq(Nat(L['mask'])), aff, tm))
    return '(Build_net %s [%s])' % (ms, '; '.join(ls))


def pid_params(maskers, layers):
    """parameter tensors in the order of Model.CostGrad.all_pids (a tensor may occur several times)"""
    out = [m.alpha for m in maskers]
    for L in layers:
        if L['time'] is not None:
            out += [L['time'][1], L['time'][2]]
    return out


def _set(torch, q, vals):
    with torch.no_grad():
        q.copy_(torch.tensor(vals, dtype=q.dtype).reshape(q.shape))


def _rand_vals(rng, n, style):
    if style == 'zeros':       # some exact zeros: torch.abs has derivative 0 there
        return [rng.choice([0.0, 0.0, rng.choice(DY)]) for _ in range(n)]
    if style == 'small':
        return [rng.choice([1 / 16.0, -1 / 16.0, 1 / 8.0, 0.25, -0.25]) for _ in range(n)]
    if style == 'big':
        return [rng.choice([1.0, -1.0, 1.5, -1.5, 1.25]) for _ in range(n)]
    return [rng.choice(DY) for _ in range(n)]


SWITCHES = ['train_net_only', 'train_nas_only', 'train_net_and_nas', 'features_off', 'rf_off', 'dilation_off', 'rf_dilation_off', 'all_masks_off']


def apply_switch(p, sw):
    """trainability controls of the wrapper: they only change requires_grad flags, never a mask value"""
    if sw in ('train_net_only', 'train_nas_only', 'train_net_and_nas'):
        getattr(p, sw)()
    elif sw == 'features_off':
        p.train_features = False
    elif sw == 'rf_off':
        p.train_rf = False
    elif sw == 'dilation_off':
        p.train_dilation = False
    elif sw == 'rf_dilation_off':
        p.train_rf = False
        p.train_dilation = False
    elif sw == 'all_masks_off':
        p.train_features = False
        p.train_rf = False
        p.train_dilation = False


def restore_flags(p, flags):
    p.train_net_and_nas()
    p.train_features = True
    p.train_rf = True
    p.train_dilation = True
    for q, f in flags:
        q.requires_grad = f


def pit_case(torch, seed, style, full=False, twice=False):
    """-> JSON-able observation dict of one network (exceptions are observations).
    full: full_cost=True with 1-2 cost-bearing layers excluded by name (costed with their static sizes), one
    single-specification wrapper per metric, metrics read in seeded orders"""
    import torch.nn as nn
    from plinio.methods import PIT
    rng = random.Random(seed)
    dim = rng.choice([1, 1, 2])
    # twice: every network contains a layer instance invoked at two call sites (c04_net), often with different output sizes
    spec = cn.gen(rng, dim=dim, conv_head=True, k1d=list(range(1, 13)), p_twice=1.0) if twice else ga.gen(rng, dim=dim, conv_head=True, k1d=list(range(1, 13)))
    o = {'seed': seed, 'style': style, 'full': full, 'twice': twice, 'arch': cn.describe(spec), 'dim': dim, 'skip': None, 'fails': [], 'specs': {}, 'productions': spec.get('productions', [])}
    o['topo'] = cn.skip_reason(spec)
    stage = 'build'
    try:
        specs = _specs(dim)
        names = list(specs)
        single = names[seed % len(names)]
        kw = {}
        if full:
            cand = ga.searchable(spec)
            ex = sorted(rng.sample(cand, min(len(cand), rng.choice([1, 1, 2]))))
            kw = {'full_cost': True, 'exclude_names': [ga.name(i) for i in ex]}
            o['excluded'] = kw['exclude_names']
        rng.shuffle(names)                      # the metrics of the dictionary are read in a seeded order
        o['order'] = list(names)
        m = cn.build(spec, seed=seed)
        xs = ga.example_input(spec, torch, seed)
        stage = 'wrap'
        p = PIT(m, input_shape=tuple(spec['input_shape']), cost=dict(specs), **kw)
        # single specifications: one metric (all metrics in the full_cost stream)
        singles = {w: PIT(cn.build(spec, seed=seed), input_shape=tuple(spec['input_shape']), cost=specs[w], **kw) for w in (names if full else [single])}
        # the same network traced with an input_example of one sample and of several samples (other values)
        gx = torch.Generator().manual_seed(seed + 3)
        nb = rng.randint(2, 8)
        o['example_batch'] = nb
        others = {'input_example[1]': PIT(cn.build(spec, seed=seed), input_example=torch.randn((1,) + tuple(spec['input_shape']), generator=gx), cost=dict(specs), **kw),
                  'input_example[%d]' % nb: PIT(cn.build(spec, seed=seed), input_example=torch.randn((nb,) + tuple(spec['input_shape']), generator=gx) * 3.0, cost=dict(specs), **kw)}
        nas = [(n, q) for n, q in p.named_nas_parameters()]
        train = [(n, q) for n, q in nas if q.requires_grad]
        flags0 = [(q, bool(q.requires_grad)) for q in p.parameters()]
        o['n_nas'] = sum(q.numel() for _, q in train)
        vals0 = {n: _rand_vals(rng, q.numel(), style) for n, q in train}
        nas_s = [dict(w.named_nas_parameters()) for w in list(singles.values()) + list(others.values())]

        def setall(vv):
            for n, q in train:
                _set(torch, q, vv[n])
                for d in nas_s:
                    _set(torch, d[n], vv[n])
        setall(vals0)
        o['params'] = vals0
        stage = 'forward'
        p.train()
        p(*xs)
        netw = list(p.named_net_parameters())
        for which in names:
            stage = 'cost:' + which
            S = {}
            c = p.get_cost(which)
            S['value'] = float(c)
            if not math.isfinite(S['value']) or S['value'] < 0:
                o['fails'].append(('cost-not-finite-or-negative:' + which, S['value']))
            if which in singles:
                cs = float(singles[which].cost)
                if cs != S['value']:
                    o['fails'].append(('single-vs-dict-specification-differ:' + which, {'single': cs, 'dict': S['value'], 'order': o['order'], 'excluded': o.get('excluded')}))
            for tag, ow in others.items():
                co = float(ow.get_cost(which))
                if co != S['value']:
                    o['fails'].append(('cost-depends-on-the-traced-input-example:' + which, {'input_shape': S['value'], tag: co}))
            stage = 'grad:' + which
            g = torch.autograd.grad(c, [q for _, q in train], allow_unused=True, retain_graph=True) if (train and c.requires_grad) else [None] * len(train)
            gw = torch.autograd.grad(c, [q for _, q in netw], allow_unused=True, retain_graph=True) if c.requires_grad else [None] * len(netw)
            bad_w = [n for (n, _), gg in zip(netw, gw) if gg is not None and bool((gg != 0).any())]
            if bad_w:
                o['fails'].append(('gradient-reaches-network-weight:' + which, bad_w[:3]))
            S['grad32'] = {}
            for (n, q), gg in zip(train, g):
                gl = [0.0] * q.numel() if gg is None else [float(v) for v in gg.flatten()]
                S['grad32'][n] = gl
                if not all(math.isfinite(v) for v in gl):
                    o['fails'].append(('gradient-not-finite:' + which, n))
            # every trainable, non keep-alive element whose increase (of the magnitude) raises the metric has a
            # non-zero gradient, of the sign of the element
            stage = 'raise:' + which
            with torch.no_grad():
                for n, q in train:
                    for i in range(q.numel() - 1):
                        x = vals0[n][i]
                        if x == 0.0:
                            continue            # torch.abs: derivative 0 at exactly 0 (Props/C12.v pit_grad_zero_at_zero)
                        q.view(-1)[i] = x + math.copysign(1.0, x)
                        c2 = float(p.get_cost(which))
                        q.view(-1)[i] = x
                        gi = S['grad32'][n][i]
                        if c2 > S['value'] and not gi * math.copysign(1.0, x) > 0:
                            o['fails'].append(('no-gradient-for-element-that-raises-cost:' + which, {'param': n, 'index': i, 'x': x, 'cost': S['value'], 'cost_raised': c2, 'grad': gi}))
                        if c2 < S['value']:
                            o['fails'].append(('raising-magnitude-lowers-cost:' + which, {'param': n, 'index': i, 'x': x, 'cost': S['value'], 'cost_raised': c2}))
                    # the keep-alive (last) element has no influence
                    x = vals0[n][-1]
                    q.view(-1)[-1] = x + 1.0
                    c2 = float(p.get_cost(which))
                    q.view(-1)[-1] = x
                    if c2 != S['value'] or S['grad32'][n][-1] != 0.0:
                        o['fails'].append(('keep-alive-element-influences-cost:' + which, {'param': n, 'cost': S['value'], 'cost2': c2, 'grad': S['grad32'][n][-1]}))
            o['specs'][which] = S
        # ---- independence of weights and of the input data
        stage = 'independence'
        g = torch.Generator().manual_seed(seed + 7)
        with torch.no_grad():
            for n, q in netw:
                q.add_(torch.randn(q.shape, generator=g))
            for mod in p.modules():
                if isinstance(mod, (nn.BatchNorm1d, nn.BatchNorm2d)):
                    mod.running_mean.add_(1.0)
                    mod.running_var.mul_(2.0)
        for which in names:
            c2 = float(p.get_cost(which))
            if c2 != o['specs'][which]['value']:
                o['fails'].append(('cost-depends-on-weights:' + which, [o['specs'][which]['value'], c2]))
        xs2 = [x.repeat(3, *([1] * (x.dim() - 1))) * 3.0 + 1.0 for x in xs]
        p(*xs2)
        p.eval()
        p(*xs)
        for which in names:
            c2 = float(p.get_cost(which))
            if c2 != o['specs'][which]['value']:
                o['fails'].append(('cost-depends-on-input-data-or-mode:' + which, [o['specs'][which]['value'], c2]))
        p.train()
        # ---- ordered pairs of |parameter| vectors
        stage = 'monotone'
        hi = {n: [(abs(v) + rng.choice([0.0, 0.0, 1 / 16.0, 0.5, 2.0])) * rng.choice([1.0, -1.0]) for v in vv] for n, vv in vals0.items()}
        lo = {n: [abs(v) * rng.choice([1.0, 1.0, 0.5, 0.0]) * rng.choice([1.0, -1.0]) for v in vv] for n, vv in vals0.items()}
        for tag, vv in (('hi', hi), ('lo', lo)):
            setall(vv)
            for which in names:
                c2 = float(p.get_cost(which))
                c1 = o['specs'][which]['value']
                o['specs'][which][tag] = c2
                if (tag == 'hi' and c2 < c1) or (tag == 'lo' and c2 > c1) or not math.isfinite(c2) or c2 < 0:
                    o['fails'].append(('cost-not-monotone-in-magnitude:' + which, {'base': c1, tag: c2, 'params': vals0, 'params_' + tag: vv}))
        # ---- all masks open
        stage = 'open'
        op = {n: [rng.choice([1.0, -1.0]) for _ in vv] for n, vv in vals0.items()}
        setall(op)
        for which in names:
            c2 = float(p.get_cost(which))
            ref = orig_cost_from_shapes(spec, which)
            o['specs'][which]['open'] = c2
            o['specs'][which]['orig'] = ref
            if not close(c2, Fraction(ref)):
                o['fails'].append(('open-masks-cost-differs-from-original:' + which, {'open': c2, 'original': ref, 'order': o['order'], 'excluded': o.get('excluded')}))
        # ---- float64 evaluation for the comparison with the model (value + gradient), Coq literals
        # ---- re-assigning the cost specification after the masks have moved changes nothing: same value as before
        # (= as a FRESH wrapper carrying identical mask values), dict <-> single, and all masks open == original
        # ---- discrete_cost=True (set later on the wrapper, and given to the constructor): the cost is evaluated on the binarized
        # masks, PITBinarizer is a straight-through estimator, so the gradient sentences hold unchanged: finite, of the sign of
        # the element and non-zero for every trainable non keep-alive element whose increase raises the (now step-wise) metric
        stage = 'discrete'
        setall(vals0)
        pd = PIT(cn.build(spec, seed=seed), input_shape=tuple(spec['input_shape']), cost=dict(specs), discrete_cost=True, **kw)
        pdp = dict(pd.named_parameters())
        with torch.no_grad():
            for n, q in train:
                if n in pdp:
                    pdp[n].copy_(torch.tensor(vals0[n], dtype=pdp[n].dtype).reshape(pdp[n].shape))
        p.discrete_cost = True
        o['discrete'] = {}
        for tagd, w in (('set-later', p), ('constructor', pd)):
            wtrain = [(n, q) for n, q in w.named_nas_parameters() if q.requires_grad]
            wnet = list(w.named_net_parameters())
            for which in names:
                stage = 'discrete:' + which
                c = w.get_cost(which)
                v = float(c)
                o['discrete'].setdefault(which, {})[tagd] = v
                if not math.isfinite(v) or v < 0:
                    o['fails'].append(('cost-not-finite-or-negative:discrete_cost:' + which, {'how': tagd, 'value': v}))
                    continue
                g = torch.autograd.grad(c, [q for _, q in wtrain], allow_unused=True, retain_graph=True) if (wtrain and c.requires_grad) else [None] * len(wtrain)
                gw = torch.autograd.grad(c, [q for _, q in wnet], allow_unused=True, retain_graph=True) if c.requires_grad else [None] * len(wnet)
                if any(gg is not None and bool((gg != 0).any()) for gg in gw):
                    o['fails'].append(('gradient-reaches-network-weight:discrete_cost:' + which, {'how': tagd}))
                with torch.no_grad():
                    for (n, q), gg in zip(wtrain, g):
                        gl = [0.0] * q.numel() if gg is None else [float(x) for x in gg.flatten()]
                        if not all(math.isfinite(x) for x in gl):
                            o['fails'].append(('gradient-not-finite:discrete_cost:' + which, {'how': tagd, 'param': n}))
                            continue
                        for i in range(q.numel() - 1):
                            x = float(q.view(-1)[i])
                            if x == 0.0:
                                continue
                            q.view(-1)[i] = x + math.copysign(1.0, x)
                            c2 = float(w.get_cost(which))
                            q.view(-1)[i] = x
                            if c2 > v and not gl[i] * math.copysign(1.0, x) > 0:
                                o['fails'].append(('no-gradient-for-element-that-raises-cost:discrete_cost:' + which, {'how': tagd, 'param': n, 'index': i, 'x': x, 'cost': v, 'cost_raised': c2, 'grad': gl[i], 'cost_requires_grad': bool(c.requires_grad)}))
                            if c2 < v:
                                o['fails'].append(('raising-magnitude-lowers-cost:discrete_cost:' + which, {'how': tagd, 'param': n, 'index': i, 'x': x, 'cost': v, 'cost_raised': c2}))
        for which, d in o['discrete'].items():
            if len(d) == 2 and d['set-later'] != d['constructor']:
                o['fails'].append(('discrete-cost-differs-between-constructor-and-setter:' + which, d))
        p.discrete_cost = False
        for which in names:
            if float(p.get_cost(which)) != o['specs'][which]['value']:
                o['fails'].append(('cost-changes-after-discrete_cost-round-trip:' + which, {'before': o['specs'][which]['value'], 'after': float(p.get_cost(which))}))
        stage = 'trainability'
        setall(vals0)
        for sw in rng.sample(SWITCHES, 3):
            apply_switch(p, sw)
            still = [(n, q) for n, q in train if q.requires_grad]
            for which in names:
                c = p.get_cost(which)
                if float(c) != o['specs'][which]['value']:
                    o['fails'].append(('cost-changes-with-trainability-switch:' + which, {'switch': sw, 'before': o['specs'][which]['value'], 'after': float(c)}))
                if still and c.requires_grad:
                    g = torch.autograd.grad(c, [q for _, q in still], allow_unused=True)
                    for (n, q), gg in zip(still, g):
                        gl = [0.0] * q.numel() if gg is None else [float(v) for v in gg.flatten()]
                        g0 = o['specs'][which]['grad32'][n]
                        sc = max([abs(v) for v in g0] + [1.0])
                        if any(abs(a - b) > 2.0 ** -18 * sc for a, b in zip(gl, g0)):
                            o['fails'].append(('gradient-changes-with-trainability-switch:' + which, {'switch': sw, 'param': n, 'before': g0[:6], 'after': gl[:6]}))
                            break
                elif still and any(any(v != 0 for v in o['specs'][which]['grad32'][n]) for n, _ in still):
                    o['fails'].append(('gradient-changes-with-trainability-switch:' + which, {'switch': sw, 'cost_requires_grad': False}))
            # the two weight sentences, on EXACTLY what the wrapper reports as network parameters under this switch, once
            # they have been made trainable: no gradient reaches them, perturbing them changes no cost
            getattr(p, rng.choice(['train_net_only', 'train_net_and_nas']))()
            netw_now = list(p.named_net_parameters())
            for which in names:
                c = p.get_cost(which)
                gw = torch.autograd.grad(c, [q for _, q in netw_now if q.requires_grad], allow_unused=True) if c.requires_grad and any(q.requires_grad for _, q in netw_now) else []
                bad_w = [n for (n, _), gg in zip([(n, q) for n, q in netw_now if q.requires_grad], gw) if gg is not None and bool((gg != 0).any())]
                if bad_w:
                    o['fails'].append(('gradient-reaches-network-weight:' + which, {'switch': sw, 'net_parameters_with_gradient': bad_w[:4]}))
            gp = torch.Generator().manual_seed(seed + 13)
            with torch.no_grad():
                for n, q in netw_now:
                    if q.dtype.is_floating_point:
                        q.add_(torch.randn(q.shape, generator=gp) * 0.25)
            for which in names:
                c2 = float(p.get_cost(which))
                if c2 != o['specs'][which]['value']:
                    o['fails'].append(('cost-depends-on-weights:' + which, {'switch': sw, 'before': o['specs'][which]['value'], 'after_perturbing_net_parameters': c2}))
            restore_flags(p, flags0)
            setall(vals0)
        # ---- a wrapper CONSTRUCTED with one search dimension switched off: same masks -> same costs, same weight sentences
        stage = 'constructor-switch'
        off = rng.choice(['train_features', 'train_rf', 'train_dilation'])
        o['constructed_off'] = off
        pc = PIT(cn.build(spec, seed=seed), input_shape=tuple(spec['input_shape']), cost=dict(specs), **dict(kw, **{off: False}))
        pcp = dict(pc.named_parameters())
        with torch.no_grad():
            for n, q in train:
                if n in pcp:
                    pcp[n].copy_(torch.tensor(vals0[n], dtype=pcp[n].dtype).reshape(pcp[n].shape))
        pc.train_net_and_nas()
        netw_c = list(pc.named_net_parameters())
        for which in names:
            c = pc.get_cost(which)
            if float(c) != o['specs'][which]['value']:
                o['fails'].append(('cost-changes-with-trainability-switch:' + which, {'constructed_with': off + '=False', 'all_dimensions_searched': o['specs'][which]['value'], 'value': float(c)}))
            req = [(n, q) for n, q in netw_c if q.requires_grad]
            gw = torch.autograd.grad(c, [q for _, q in req], allow_unused=True) if c.requires_grad and req else []
            bad_w = [n for (n, _), gg in zip(req, gw) if gg is not None and bool((gg != 0).any())]
            if bad_w:
                o['fails'].append(('gradient-reaches-network-weight:' + which, {'constructed_with': off + '=False', 'net_parameters_with_gradient': bad_w[:4]}))
        with torch.no_grad():
            for n, q in netw_c:
                if q.dtype.is_floating_point:
                    q.add_(torch.randn(q.shape, generator=torch.Generator().manual_seed(seed + 17)) * 0.25)
        for which in names:
            c2 = float(pc.get_cost(which))
            if c2 != o['specs'][which]['value']:
                o['fails'].append(('cost-depends-on-weights:' + which, {'constructed_with': off + '=False', 'before': o['specs'][which]['value'], 'after_perturbing_net_parameters': c2}))
        stage = 'reassign'
        setall(lo)
        p.cost_specification = dict(specs)
        for w_, sw in singles.items():
            sw.cost_specification = specs[w_]
        setall(vals0)
        fresh = PIT(cn.build(spec, seed=seed), input_shape=tuple(spec['input_shape']), cost=dict(specs), **kw)
        fnas = dict(fresh.named_nas_parameters())
        for n, q in train:
            _set(torch, fnas[n], vals0[n])
        for which in names:
            c2, cf = float(p.get_cost(which)), float(fresh.get_cost(which))
            if c2 != cf or c2 != o['specs'][which]['value']:
                o['fails'].append(('cost-changes-after-reassigning-cost-specification:' + which, {'before': o['specs'][which]['value'], 'after_reassignment': c2, 'fresh_wrapper_same_masks': cf, 'excluded': o.get('excluded')}))
            if which in singles and float(singles[which].cost) != cf:
                o['fails'].append(('cost-changes-after-reassigning-cost-specification:' + which, {'single_after_reassignment': float(singles[which].cost), 'fresh_wrapper_same_masks': cf}))
        sw_ = names[(seed // 3) % len(names)]
        p.cost_specification = specs[sw_]                   # dict -> single
        c2 = float(p.cost)
        if c2 != o['specs'][sw_]['value']:
            o['fails'].append(('cost-changes-after-reassigning-cost-specification:' + sw_, {'before': o['specs'][sw_]['value'], 'as_single_specification': c2}))
        setall(hi)
        p.cost_specification = dict(specs)                  # single -> dict, assigned while the masks are elsewhere
        setall(op)
        for which in names:
            c2 = float(p.get_cost(which))
            if not close(c2, Fraction(o['specs'][which]['orig'])):
                o['fails'].append(('open-masks-cost-differs-from-original:' + which, {'open_after_reassigning_cost_specification': c2, 'original': o['specs'][which]['orig'], 'excluded': o.get('excluded')}))
        # ---- the value of a metric does not depend on which metrics were read before it
        stage = 'order'
        setall(vals0)
        for order in (list(reversed(names)), names[1:] + names[:1]):
            for which in order:
                c2 = float(p.get_cost(which))
                if c2 != o['specs'][which]['value']:
                    o['fails'].append(('cost-depends-on-evaluation-order:' + which, {'first_read': o['specs'][which]['value'], 'read_in_order': order, 'value': c2, 'excluded': o.get('excluded')}))
        stage = 'float64'
        o['switch64'] = rng.choice([None, None] + SWITCHES)
        p.double()
        for which in names:
            shared = specs[which].shared
            maskers, layers = extract(p, which, shared, full)
            if which == 'gap8_latency':
                layers = [L for L in layers if L['kind'] in ('lin', 'c2')]      # Conv1d: no GAP8 model, cost 0 (its maskers stay)
            lit = coq_net(maskers, layers, which, lambda t: [float(v) for v in t.detach().flatten()])   # alpha/beta/gamma attribute: Parameter or (frozen) buffer
            c = p.get_cost(which)
            plist = pid_params(maskers, layers)
            uniq = list({id(t): t for t in plist}.values())
            req = [t for t in uniq if t.requires_grad]
            gg = torch.autograd.grad(c, req, allow_unused=True) if (req and c.requires_grad) else [None] * len(req)
            gmap = {id(t): ([0.0] * t.numel() if g_ is None else [float(v) for v in g_.flatten()]) for t, g_ in zip(req, gg)}
            S = o['specs'][which]
            S['value64'] = float(c)
            S['coq'] = lit
            # gradient in the order of all_pids; tensors that occur several times: compare the sum (handled by the caller)
            S['pids'] = [{'pid': k, 'tensor': id(t) % 10 ** 9, 'trainable': bool(t.requires_grad), 'grad': gmap.get(id(t))} for k, t in enumerate(plist)]
            S['n_layers'] = len(layers)
            S['lens'] = [t.numel() for t in plist]
        if o['switch64']:
            # the VALUE compared with the model is the one read under a seeded trainability switch (the gradients above are
            # taken with everything trainable; the float32 stage 'trainability' ties the switched gradients to them)
            apply_switch(p, o['switch64'])
            for which in names:
                o['specs'][which]['value64'] = float(p.get_cost(which))
    except Exception as ex:
        o['fails'].append(('exception:' + stage.split(':')[0], '%s: %s' % (type(ex).__name__, str(ex)[:300])))
        o['trace'] = traceback.format_exc()[-1500:]
    return o


def pit_worker(args):
    torch = setup_torch()
    return pit_case(torch, *args)
