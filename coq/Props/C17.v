(* C17 — A checkpointed search resumes to an observationally identical model.
   Statements only (proofs: Proofs/Ckpt.v; model: Model/Ckpt.v).  Quantifiers: every constructor configuration [c]
   (method, converted seed network with arbitrary names / values / shared components, constructor options), every history
   [ops] (ALL lists of: optimizer step with arbitrary new values, option changes, train/eval, forward passes), every RNG
   position [n] of the forward pass after the restart.  [observe s] = (persisted tensors, what outputs / costs / summary /
   export are functions of).  The training flag is applied to the restored wrapper explicitly (it is never part of a
   PyTorch state_dict): resume n c s = forward n (set_mode (training s) (load (save s) (fresh c))). *)
From Coq Require Import QArith ZArith List Bool String.
Import ListNotations.
Require Import Plinio.Base.Qx Plinio.Model.Ckpt Plinio.Proofs.Ckpt.

(* no missing / unexpected keys: the checkpoint of every reachable state loads strictly into a fresh wrapper *)
Theorem C17_keys_exact : forall c ops,
  let s := run (fresh c) ops in
  keys (meth s) (save s) = keys (c_meth c) (pe (fresh c)) /\
  missing_keys (save s) (fresh c) = [] /\ unexpected_keys (save s) (fresh c) = [] /\
  load (save s) (fresh c) = Some {| meth := c_meth c; pe := pe s; tr := tr (fresh c) |}.
Proof. exact keys_exact. Qed.

(* resume equivalence for every reachable state whose transient options equal the constructor options *)
Theorem C17_resume_equiv : forall c ops n,
  let s := run (fresh c) ops in
  opts_match s c ->
  exists r, resume n c s = Some r /\ observe r = observe (forward n s).
Proof. exact resume_equiv. Qed.

(* the same holds when the fresh wrapper is built from a seed that is already in the mode of the interrupted run and no
   train()/eval() call is made before the forward pass, and when train()/eval() is called before the checkpoint is loaded:
   the three restart protocols are the same function of (configuration, checkpoint) *)
Theorem C17_resume_protocols_agree : forall c ops n,
  let s := run (fresh c) ops in
  resume_nomode n c s = resume n c s /\ resume_mode_first n c s = resume n c s.
Proof. exact resume_protocols_agree. Qed.

(* ... in particular after every history of optimizer steps, forward passes, mode changes, options re-set to the value
   they have, and MPS temperature changes *)
Theorem C17_resume_equiv_neutral_history : forall c ops n,
  forallb (keeps_opts c) ops = true -> resume_statement c ops n.
Proof. exact resume_equiv_neutral_history. Qed.

Theorem C17_mps_temperature_persisted : forall c steps1 steps2 t n, c_meth c = MPS ->
  forallb (keeps_opts c) steps1 = true -> forallb (keeps_opts c) steps2 = true ->
  resume_statement c (steps1 ++ OUpdate (Some t) None None None :: steps2) n.
Proof. exact mps_temperature_persisted. Qed.

(* requires_grad (train_net_only / train_nas_only / train_net_and_nas / train_features|rf|dilation / train_selection), the
   SuperNet coefficient attribute and the MPS ranges are transient and observation-irrelevant: after the forward pass the
   observations are a function of the persisted tensors and of (training, discrete_cost, hard, gumbel, disable, temperature) only;
   a trainability switch changes neither (so every history with such switches at any point, also right before the checkpoint,
   is covered by C17_resume_equiv_neutral_history: keeps_opts c (OTrainSwitch w b) = true by computation) *)
Theorem C17_observations_ignore_trainability : forall n m p t1 t2, opts t1 = opts t2 ->
  observe (forward n {| meth := m; pe := p; tr := t1 |}) = observe (forward n {| meth := m; pe := p; tr := t2 |}).
Proof. exact observations_ignore_trainability. Qed.

Theorem C17_switch_changes_nothing_observable : forall s w b,
  opts (tr (step s (OTrainSwitch w b))) = opts (tr s) /\ pe (step s (OTrainSwitch w b)) = pe s.
Proof. exact switch_keeps_opts. Qed.

(* observer calls in the history (export(), export(add_bn=False), summary(), get_cost, str(model)) are the identity of the
   model state (this is what the correspondence run checks against the code after every such call), hence every theorem
   above holds verbatim for histories that contain them; they are option-neutral by computation *)
Theorem C17_observers_in_history : forall c s k, step s (OObserve k) = s /\ keeps_opts c (OObserve k) = true.
Proof. exact observers_in_history. Qed.

(* which observation needs which option.  PIT: only the cost reads discrete_cost *)
Theorem C17_pit_resume_out_summary_export : forall c ops n, c_meth c = PIT ->
  let s := run (fresh c) ops in
  exists r, resume n c s = Some r /\ pe r = pe (forward n s) /\
    o_out (obs r) = o_out (obs (forward n s)) /\ o_summary (obs r) = o_summary (obs (forward n s)) /\
    o_export (obs r) = o_export (obs (forward n s)) /\
    (disc (tr s) = c_disc c -> o_cost (obs r) = o_cost (obs (forward n s))).
Proof. exact pit_resume_out_summary_export. Qed.

(* MPS in eval mode: hard / gumbel flags are irrelevant (both samplers take the arg-max) *)
Theorem C17_mps_eval_resume : forall c ops n, c_meth c = MPS ->
  let s := run (fresh c) ops in
  training (tr s) = false -> smp (tr s) <> NoSamp -> c_smp c <> NoSamp ->
  exists r, resume n c s = Some r /\ observe r = observe (forward n s).
Proof. exact mps_eval_resume. Qed.

(* THE PROPERTY IN FULL ("nothing that influences those observations lives outside the state_dict"):
     forall c ops n, resume_statement c ops n
   is refuted by the faithful model for exactly these options, which are python attributes, not buffers:
     PIT      discrete_cost                      (cost)
     MPS      hard_softmax, gumbel_softmax, disable_sampling     (outputs, cost)
     SuperNet hard_softmax, softmax temperature   (outputs, cost, summary; in train mode also the BatchNorm statistics
              of the exported network)
   one witness each: *)
Theorem C17_resume_after_option_change_refuted :
  (exists c ops n, c_meth c = PIT /\ ops = [OStep [] [[3 # 4; 1]] []; OSetDisc true] /\ ~ resume_statement c ops n) /\
  (exists c ops n, c_meth c = MPS /\ ops = [OTrain; OUpdate None (Some true) None None] /\ ~ resume_statement c ops n) /\
  (exists c ops n, c_meth c = MPS /\ ops = [OTrain; OUpdate None None (Some true) None] /\ ~ resume_statement c ops n) /\
  (exists c ops n, c_meth c = MPS /\ ops = [OTrain; OForward 1; OStep [] [] [[[2; 1]]]; OUpdate None None None (Some true)] /\ ~ resume_statement c ops n) /\
  (exists c ops n, c_meth c = SN /\ ops = [OEval; OUpdate None (Some true) None None] /\ ~ resume_statement c ops n) /\
  (exists c ops n, c_meth c = SN /\ ops = [OTrain; OUpdate (Some (1 # 2)) None None None] /\ ~ resume_statement c ops n).
Proof. exact resume_after_option_change_refuted. Qed.

(* attributes that are recomputed on forward (MPS weight ranges, bias scales) coincide too after the forward pass *)
Theorem C17_lazy_state_recomputed : forall c ops n r, c_meth c = MPS ->
  resume n c (run (fresh c) ops) = Some r -> lazy r = lazy (forward n (run (fresh c) ops)) /\ lazy r <> None.
Proof. exact lazy_state_recomputed. Qed.

(* "after the usual forward pass" is necessary: before it the SuperNet cost reads a coefficient attribute that is not in the
   state_dict, and the MPS ranges / scales do not exist *)
Theorem C17_resume_without_forward_refuted :
  (exists c ops s', c_meth c = SN /\ load (save (run (fresh c) ops)) (fresh c) = Some s' /\
                    o_cost (obs s') <> o_cost (obs (run (fresh c) ops))) /\
  (exists c ops s', c_meth c = MPS /\ load (save (run (fresh c) ops)) (fresh c) = Some s' /\
                    lazy s' <> lazy (run (fresh c) ops)).
Proof. exact resume_without_forward_refuted. Qed.

(* non-vacuity: an MPS wrapper with a shared quantizer (two alias paths), 2 optimizer steps, a temperature change, eval:
   the hypotheses of C17_resume_equiv hold, the checkpoint has 9 keys, and the resumed observations coincide *)
Example C17_example :
  let q := {| s_names := ["seed.c.out_mps_quantizer"; "seed.l.in_mps_quantizer"]%string; s_reach := true;
              s_alpha := [[1 # 4; 1 # 2; 1]]; s_prec := [2; 4; 8]; s_temp := 1; s_theta := [CInit] |} in
  let c := {| c_meth := MPS; c_pers := {| p_bn := false; p_net := [("seed.c.weight"%string, 11%Z)]; p_masks := []; p_layers := []; p_samplers := [q] |};
              c_training := true; c_disc := false; c_hard := false; c_gum := false; c_nos := false; c_temp := 1 |} in
  let ops := [OTrain; OForward 1; OStep [12%Z] [] [[[1; 1 # 2; 1 # 4]]]; OUpdate (Some (1 # 2)) None None None; OForward 2; OStep [13%Z] [] [[[3; 1; 2]]]; OEval] in
  opts_match (run (fresh c) ops) c /\ List.length (keys MPS (save (run (fresh c) ops))) = 9%nat /\
  forallb (keeps_opts c) ops = true /\
  (match resume 3 c (run (fresh c) ops) with Some r => obs_eqb (obs r) (obs (forward 3 (run (fresh c) ops))) | None => (false, false, false, false) end) = (true, true, true, true) /\
  thetas (forward 3 (run (fresh c) ops)) = [[CHard 0]].
Proof. vm_compute. repeat split. Qed.

Print Assumptions C17_keys_exact.
Print Assumptions C17_resume_equiv.
Print Assumptions C17_resume_protocols_agree.
Print Assumptions C17_resume_equiv_neutral_history.
Print Assumptions C17_mps_temperature_persisted.
Print Assumptions C17_observations_ignore_trainability.
Print Assumptions C17_switch_changes_nothing_observable.
Print Assumptions C17_observers_in_history.
Print Assumptions C17_pit_resume_out_summary_export.
Print Assumptions C17_mps_eval_resume.
Print Assumptions C17_resume_after_option_change_refuted.
Print Assumptions C17_lazy_state_recomputed.
Print Assumptions C17_resume_without_forward_refuted.
