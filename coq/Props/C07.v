(* C07 — Importing a model is behaviour-preserving and leaves the user model intact.
   Statements only (proofs: Proofs/Import.v, models: Model/Import.v, Model/Masks.v).
   Part 1 (algebra) quantifies over ALL rational weights, inputs, biases, BatchNorm coefficients, every per-channel
   factor r standing for rsqrt(var+eps), every kernel size K and channel count C.
   Part 2 (object graph) quantifies over ALL lists of modules, all configurations (method, autoconvert, fold_bn) and both
   modes; the flags c_copyfuse / c_setflag / c_restore / c_keepshared select the code as it is now (true) or the pinned commit (false):
   a theorem that does not constrain a flag holds for both. *)
From Coq Require Import QArith ZArith List Bool.
Import ListNotations.
Require Import Plinio.Base.Qx Plinio.Model.Masks Plinio.Model.Import Plinio.Proofs.Import.

(* --- the initial architectural parameters (all 1.0) open every mask, for every K and C *)
Theorem C07_open_time_mask : forall K, open_time_mask K = repeat true K.
Proof. exact open_time_mask_all. Qed.

Theorem C07_open_features_mask : forall C, open_features_mask C = repeat true C.
Proof. exact open_features_mask_all. Qed.

(* --- with those masks the PIT layer produced by the import (BatchNorm attached, or folded into weight and bias; bias
   masked or not) computes BatchNorm(plain layer) on every input *)
Theorem C07_open_masks_identity : forall K C c maskb fold w ob bn x,
  (c < C)%nat -> Forall (fun row => length row = K) w ->
  (pit_out maskb (open_time_mask K) (nth c (open_features_mask C) false) (import_layer fold w ob bn) x == obn bn (plain w ob x))%Q.
Proof. exact open_masks_identity. Qed.

(* --- folding as computed by remove_bn_inplace, for EVERY factor r, with and without a conv bias *)
Theorem C07_bn_fold_identity : forall p w ob x,
  (plain (fold_w p w) (Some (fold_b p ob)) x == bn_apply p (plain w ob x))%Q.
Proof. exact bn_fold_identity. Qed.

Theorem C07_bn_fold_identity_nobias : forall p w x,
  (plain (fold_w p w) (Some (fold_b p None)) x == bn_apply p (dot2 w x))%Q.
Proof. exact bn_fold_identity_nobias. Qed.

(* pinned commit: a layer folded by PIT(fold_bn=True) but run with its own flag (False) applies BatchNorm twice *)
Theorem C07_double_bn_refuted : exists maskb K C c w ob p x, (c < C)%nat /\ Forall (fun row => length row = K) w /\
  ~ (pit_out maskb (open_time_mask K) (nth c (open_features_mask C) false) (with_flag false (import_layer true w ob (Some p))) x
     == bn_apply p (plain w ob x))%Q.
Proof. exact double_bn_refuted. Qed.

(* --- an immediate export has the original sizes and the original weights *)
Theorem C07_export_open_is_original : forall K C cin d0 (W : list (list (list Q))) (B : list Q),
  length W = C -> length B = C ->
  Forall (fun ch => length ch = cin /\ Forall (fun row => length row = K) ch) W ->
  export_hp K d0 (ones C) (ones K) (ones (gamma_len K)) (repeat true cin) = (cin, C, K, d0)
  /\ export_w (open_features_mask C) (repeat true cin) (open_time_mask K) W = W
  /\ export_b (open_features_mask C) B = B.
Proof. exact export_open_is_original. Qed.

(* --- conversion keeps the mode it found (PIT and MPS): wrapper, seed, every object held by the seed; an object the seed
   shares with the caller's model (id <= length mods) keeps the caller's flag (c_keepshared) *)
Theorem C07_convert_keeps_mode : forall c mods rt st,
  c_method c <> SN -> convert c mods rt = Some st ->
  wrap_train st = rt /\ seed_train st = rt /\
  forall id, In id (reach (heap st) (seed st)) -> (id < length (heap st))%nat ->
    o_train (nth id (heap st) dobj) = if c_keepshared c && Nat.leb id (length mods) then found_flag mods rt id else rt.
Proof. exact convert_keeps_mode. Qed.

(* --- ... and the caller's own model object: each module (and the model, index = length mods) gets the flag it was found
   with (c_keepshared); before the last repair a module shared with the converted model followed the converted model *)
Theorem C07_convert_user_mode : forall c mods rt st,
  c_restore c = true -> convert c mods rt = Some st ->
  forall i, (i <= length mods)%nat ->
    o_train (nth i (heap st) dobj) =
      match c_method c with
      | SN => found_flag mods rt i
      | _ => if c_keepshared c then found_flag mods rt i
             else if memb i (reach (heap st) (seed st)) then rt else found_flag mods rt i
      end.
Proof. exact convert_user_mode. Qed.

(* the code as it is now: a model handed over with ANY mix of flags (frozen BatchNorm / Dropout ...) gets every flag back *)
Theorem C07_convert_keeps_user_flags : forall c mods rt st,
  c_restore c = true -> c_keepshared c = true -> convert c mods rt = Some st ->
  forall i, (i <= length mods)%nat -> o_train (nth i (heap st) dobj) = found_flag mods rt i.
Proof. exact convert_keeps_user_flags. Qed.

(* before the last repair (constructor tail recursing into shared modules): a module kept in eval() inside a training model flips *)
Theorem C07_convert_keeps_user_flags_refuted : exists m mods rt st i,
  convert (before_keepshared m true false) mods rt = Some st /\ (i < length mods)%nat /\
  o_train (nth i (heap st) dobj) <> found_flag mods rt i.
Proof. exact convert_keeps_user_flags_refuted. Qed.

Theorem C07_convert_keeps_user_mode : forall c mods rt st,
  c_restore c = true -> Forall (fun m => u_train m = rt) mods -> convert c mods rt = Some st ->
  forall i, (i <= length mods)%nat -> o_train (nth i (heap st) dobj) = found_flag mods rt i.
Proof. exact convert_keeps_user_mode. Qed.

Theorem C07_convert_keeps_user_mode_refuted : exists m mods rt st,
  Forall (fun u => u_train u = rt) mods /\ convert (pinned m true false) mods rt = Some st /\
  o_train (nth (length mods) (heap st) dobj) <> rt.
Proof. exact convert_keeps_user_mode_refuted. Qed.

(* --- conversion writes nothing but training flags into the caller's objects (all configurations, incl. autoconvert off
   with user-placed PIT layers followed by BatchNorm) *)
Theorem C07_convert_keeps_user_params : forall c mods rt st,
  c_copyfuse c = true -> convert c mods rt = Some st ->
  forall i, (i <= length mods)%nat -> pview (nth i (heap st) dobj) = pview (nth i (heap0 mods rt) dobj).
Proof. exact convert_keeps_user_params. Qed.

Theorem C07_convert_keeps_user_params_readable : forall c mods rt st d,
  c_copyfuse c = true -> convert c mods rt = Some st ->
  forall i, (i < length mods)%nat ->
    let o := nth i (heap st) dobj in
    o_ver o = 0%nat /\ o_bn o = None /\ o_fold o = u_fold (nth i mods d) /\ o_kind o = u_kind (nth i mods d).
Proof. exact convert_keeps_user_params_readable. Qed.

Theorem C07_convert_keeps_user_params_refuted : exists auto fold mods rt st i,
  convert (pinned PIT auto fold) mods rt = Some st /\ (i < length mods)%nat /\
  ((0 < o_ver (nth i (heap st) dobj))%nat /\ o_bn (nth i (heap st) dobj) <> None).
Proof. exact convert_keeps_user_params_refuted. Qed.

(* --- SuperNet: the seed consists of the caller's own objects, which keep everything but flags *)
Theorem C07_supernet_wrap_identity : forall c mods rt st,
  c_method c = SN -> convert c mods rt = Some st ->
  seed st = map Some (seq 0 (length mods)) /\
  forall i, (i <= length mods)%nat -> pview (nth i (heap st) dobj) = pview (nth i (heap0 mods rt) dobj).
Proof. exact supernet_wrap_identity. Qed.

(* --- a layer that holds a BatchNorm copy runs with the fold flag of the fusion (so C07_open_masks_identity applies) *)
Theorem C07_fused_layer_flag : forall c mods rt st,
  c_setflag c = true -> convert c mods rt = Some st ->
  forall id, o_bn (nth id (heap st) dobj) <> None -> o_fold (nth id (heap st) dobj) = c_fold c.
Proof. exact fused_layer_flag. Qed.

Theorem C07_fused_layer_flag_refuted : exists mods rt st id,
  convert (pinned PIT false true) mods rt = Some st /\ nth 0 (seed st) None = Some id /\
  o_bn (nth id (heap st) dobj) <> None /\ (0 < o_ver (nth id (heap st) dobj))%nat /\ o_fold (nth id (heap st) dobj) = false.
Proof. exact fused_layer_flag_refuted. Qed.

(* non-vacuity: a K=5 conv with BatchNorm (no conv bias), folded, evaluated on numbers; a conversion that succeeds with a
   user-placed PIT layer + BatchNorm, an auto-converted layer + BatchNorm, an excluded layer and a shared ReLU *)
Example C07_example_algebra :
  let p := {| bn_g := 3 # 2; bn_b := -1; bn_mu := 1 # 4; bn_r := 2 # 3 |} in
  let w := [[1; -2; 3; 0; 1 # 2]; [2; 2; -1; 1; 1]] in
  let x := [[1; 1; 2; 3; 5]; [-1; 0; 1; 0; 2]] in
  qpair (pit_out false (open_time_mask 5) (nth 2 (open_features_mask 4) false) (import_layer true w None (Some p)) x)
  = qpair (bn_apply p (plain w None x)) /\ qpair (bn_apply p (plain w None x)) = (21%Z, 4%Z) /\ open_time_mask 5 = repeat true 5.
Proof. vm_compute. repeat split. Qed.

Example C07_example_convert :
  let mods := [mk KPit false None 0 false true; mk KBn false (Some 0%nat) 1 false true; mk KOther false (Some 1%nat) 1 false true;
               mk KLayer false (Some 2%nat) 1 false true; mk KBn false (Some 3%nat) 1 false true; mk KLayer true (Some 4%nat) 1 false true] in
  run_convert (now PIT true true) mods true =
    Some (true, true, true, [(true, false, false, 1, true); (true, false, false, 2, false); (true, false, false, 0, false);
                             (true, false, false, 1, true); (true, false, false, 2, false); (true, false, false, 0, false)]%nat)
  /\ run_convert (now PIT true true) [mk KLayer false None 0 false false; mk KBn false (Some 0%nat) 2 false false] false = None.
Proof. vm_compute. repeat split. Qed.

(* ================================================================ NETWORK LEVEL (Model/ImportNet.v on the concrete layer networks of
   Model/PitNet.v, composed with C01).  Node kinds covered: network input, Conv1d with its causal pad (full / depthwise, stride,
   dilation), Conv2d (full / depthwise, zero padding), Linear — each followed or not by BatchNorm, fold_bn on or off per layer, with
   or without bias —, every channel-wise zero-preserving op that respects pointwise equality (ReLU, ReLU6, pooling, padding,
   identity/dropout in eval), flatten, residual add, channel concat.  R is any carrier with `laws` (0+x=x, 0*x=0=x*0, 1*x=x=x*1)
   and `sring` (+ and * commutative and associative, * distributes over +), e.g. Z and Qc; BatchNorm (eval) is y*a_c + sh_c with
   ARBITRARY per-channel a_c (= gamma_c * rsqrt(var_c+eps), every rsqrt factor) and sh_c (= beta_c - mean_c * a_c).
   Premise: the imported network is well formed (cwf: parameter shapes, indices point backwards, add operands of equal width,
   channel-wise ops zero-preserving and extensional). *)
Require Import Plinio.Model.Conv Plinio.Model.PitNet Plinio.Model.ImportNet Plinio.Proofs.ImportNet.
Require Plinio.Proofs.Conv.
From Coq Require Import Lia.

(* the imported network (initial masks all open, BatchNorm attached or folded into weight and bias), evaluated with the code's
   eval-mode forwards, computes at EVERY node what the original network (plain layers followed by their BatchNorm) computes *)
Theorem C07_import_sound_network : forall R r0 r1 radd rmul, @Plinio.Proofs.Conv.laws R r0 r1 radd rmul -> sring radd rmul ->
  forall n (net : list (cnode R)) (x : list (SR R)), cwf R r0 n (import_net R r0 radd rmul net) ->
  forall i, Forall2 (eqR R) (nth i (ceval_pit R r0 r1 radd rmul (import_net R r0 radd rmul net) x) [])
                            (nth i (ceval_plain R r0 radd rmul net x) []).
Proof. exact import_sound_nodes. Qed.

(* with C01_export_sound_concrete: so does the IMMEDIATELY EXPORTED network (plain layers with sliced parameters, re-created
   BatchNorm when not folded) *)
Theorem C07_import_export_sound_network : forall R r0 r1 radd rmul, @Plinio.Proofs.Conv.laws R r0 r1 radd rmul -> sring radd rmul ->
  forall n (net : list (cnode R)) (x : list (SR R)), cwf R r0 n (import_net R r0 radd rmul net) -> length x = n ->
  forall i, (i < length net)%nat ->
  Forall2 (eqR R) (nth i (ceval_exp R r0 radd rmul (import_net R r0 radd rmul net) x) []) (nth i (ceval_plain R r0 radd rmul net x) []).
Proof. exact import_export_sound. Qed.

(* ... which has the original sizes (output channels, kernel taps, dilation of every layer) ... *)
Theorem C07_import_export_sizes : forall R r0 radd rmul (l : clayer R),
  exported_sizes R (import_clayer R r0 radd rmul l) (all_true (cout_of R l)) = layer_sizes R l.
Proof. exact import_export_sizes. Qed.

(* ... and parameters: the slicing done by export with all-true masks is the identity on weight and bias tensors of the right
   shape (fold off: the original weights; fold on: the folded ones) *)
Theorem C07_export_params_open : forall R,
  (forall (dw : bool) (w : w3 R) cout cin K, cshape3 R w cout (if dw then 1%nat else cin) K -> export_w3 dw (all_true cout) (all_true cin) (all_true K) w = w) /\
  (forall (dw : bool) (w : w4 R) cout cin, cshape2 w cout (if dw then 1%nat else cin) -> export_w4 dw (all_true cout) (all_true cin) w = w) /\
  (forall (w : list (list R)) cout cin, cshape2 w cout cin -> export_w2 (all_true cout) (all_true cin) w = w) /\
  (forall (b : option (list R)) cout, cbias_ok R b cout -> export_bias (all_true cout) b = b).
Proof.
  intro R. repeat split.
  - intros. apply export_w3_open. assumption.
  - intros. apply export_w4_open. assumption.
  - intros. apply export_w2_open. assumption.
  - intros. apply export_bias_open. assumption.
Qed.

(* non-vacuity: a Conv1d (K = 2, no conv bias) with BatchNorm, FOLDED, then an identity op, then a Linear with bias, over Z: the
   imported network is well formed, and on a concrete input both sides give the same numbers *)
Definition C07_exnet : list (cnode Z) :=
  [CInput Z 1; CLayer Z 0 (L1 Z true false [[[1; 2]]; [[3; 4]]]%Z None (Some ([2; 3], [1; -1])%Z) 1 2 1 1 [] 0 0) [];
   CChan Z 1 (fun s => s); CLayer Z 2 (L0 Z false [[5; 6]]%Z (Some [7]%Z) None 2) []].
Example C07_exnet_wf : cwf Z 0%Z 1 (import_net Z 0%Z Z.add Z.mul C07_exnet).
Proof.
  cbn. unfold cshape3, cshape2, cbias_ok, cbn_ok, respectsR, eqR. cbn.
  repeat split; try reflexivity; try discriminate; try lia; auto.
  all: intros; repeat match goal with H : (_ < _)%nat |- _ => revert H end;
       try (match goal with |- context [match ?c with _ => _ end] => destruct c as [|[|c]] end); intros; try reflexivity; try lia; try discriminate.
  all: try (destruct ci; [reflexivity|lia]).
  all: try (match goal with H : Some _ = Some _ |- _ => inversion H end; reflexivity).
  all: try (eapply fold_bias_ok; eassumption).
Qed.
Example C07_exnet_values :
  let x := [of1 Z (fun t => if (t =? 0)%Z then 1 else if (t =? 1)%Z then 2 else 0)%Z] in
  map (fun f => f [1%Z]) (nth 1 (ceval_pit Z 0%Z 1%Z Z.add Z.mul (import_net Z 0%Z Z.add Z.mul C07_exnet) x) []) = [11; 32]%Z /\
  map (fun f => f [1%Z]) (nth 1 (ceval_plain Z 0%Z Z.add Z.mul C07_exnet x) []) = [11; 32]%Z.
Proof. vm_compute. split; reflexivity. Qed.

(* ================================================================ GENERATED MODEL (second tie, by translation)
   Gen/ImportGen.v is rewritten on every run by translator/import2coq.py from the SOURCE of the tree under test:
   remove_bn_inplace / fuse_pit_modules / convert (plinio/methods/pit/graph.py), fuse_bn_inplace / fuse_mps_modules
   (plinio/methods/mps/graph.py), fuse_consecutive_layers (plinio/graph/transformation.py), __init__ and forward of PITConv1d /
   PITConv2d / PITLinear.  One output channel at a time over Q; torch.rsqrt is an ARBITRARY function rsqrt : Q -> Q (every
   statement holds for every such function; the *_ok predicates record that its argument var + eps must be positive); the fx graph
   is an abstract state with observation / effect functions.  Proofs/ImportGen.v proves the generated functions equal to the
   hand-written model above; the statements below are about the code as it is NOW. *)
Require Import Plinio.Gen.ImportGen Plinio.Proofs.ImportGen.

(* --- remove_bn_inplace: the layer it leaves behind is import_layer (BatchNorm attached and flag = the fusion's flag; with
   fold: weight * (gamma * rsqrt(var+eps)), bias (b - mean) * rsqrt(var+eps) * gamma + beta, affine=False and bias=None included) *)
Theorem C07_generated_remove_bn_inplace : forall rsqrt L bn fold, m_track bn = true ->
  exists L', remove_bn_inplace_gen rsqrt L bn fold = Some L' /\
             seqv (to_slayer rsqrt L') (import_layer fold (g_w L) (g_b L) (Some (bnp_of rsqrt bn))).
Proof. exact remove_bn_inplace_gen_eq. Qed.

Theorem C07_generated_remove_bn_raises : forall rsqrt L bn fold, m_track bn = false -> remove_bn_inplace_gen rsqrt L bn fold = None.
Proof. exact remove_bn_inplace_gen_raises. Qed.

(* definedness: the only partial operation on an evaluated path is rsqrt, whose argument is positive when var + eps > 0 *)
Theorem C07_generated_remove_bn_defined : forall rsqrt L bn fold, (0 < m_var bn + m_eps bn)%Q -> remove_bn_inplace_ok rsqrt L bn fold = true.
Proof. exact remove_bn_inplace_defined. Qed.

(* --- MPS: fuse_bn_inplace computes the same folded weight and bias, and the fused plain layer = BatchNorm(eval) o layer *)
Theorem C07_generated_mps_fuse_bn : forall rsqrt L bn, m_track bn = true ->
  exists L', fuse_bn_inplace_gen rsqrt L bn = Some L' /\
             weq (g_w L') (fold_w (bnp_of rsqrt bn) (g_w L)) /\ oqeq (g_b L') (Some (fold_b (bnp_of rsqrt bn) (g_b L))) /\
             g_bn L' = g_bn L /\ g_fold L' = g_fold L.
Proof. exact fuse_bn_inplace_gen_eq. Qed.

Theorem C07_generated_mps_fold_identity : forall rsqrt L bn x, m_track bn = true ->
  exists L', fuse_bn_inplace_gen rsqrt L bn = Some L' /\ (plain (g_w L') (g_b L') x == bn_eval rsqrt bn (plain (g_w L) (g_b L) x))%Q.
Proof. exact gen_mps_fold_identity. Qed.

Theorem C07_generated_mps_fuse_bn_defined : forall rsqrt L bn, (0 < m_var bn + m_eps bn)%Q -> fuse_bn_inplace_ok rsqrt L bn = true.
Proof. exact fuse_bn_inplace_defined. Qed.

(* --- the constructors copy weight and bias (None stays None), start without BatchNorm, with the flag they are given *)
Theorem C07_generated_init : forall fresh w ob fold,
  pit_conv1d_init_gen fresh w ob fold = Some (fresh_layer w ob fold) /\
  pit_conv2d_init_gen fresh w ob fold = Some (fresh_layer w ob fold) /\
  pit_linear_init_gen fresh w ob fold = Some (fresh_layer w ob fold).
Proof. intros. repeat split; [apply pit_conv1d_init_gen_eq|apply pit_conv2d_init_gen_eq|apply pit_linear_init_gen_eq]. Qed.

(* --- the forwards are pit_out with the bias masked (conv2d / linear: no time mask) *)
Theorem C07_generated_forward_conv1d : forall rsqrt L tm cm x,
  (pit_conv1d_forward_gen rsqrt L tm cm x == pit_out true tm cm (to_slayer rsqrt L) x)%Q.
Proof. exact pit_conv1d_forward_gen_eq. Qed.
Theorem C07_generated_forward_conv2d : forall rsqrt K L cm x, Forall (fun row => length row = K) (g_w L) ->
  (pit_conv2d_forward_gen rsqrt L cm x == pit_out true (repeat true K) cm (to_slayer rsqrt L) x)%Q.
Proof. exact pit_conv2d_forward_gen_eq. Qed.
Theorem C07_generated_forward_linear : forall rsqrt K L cm x, Forall (fun row => length row = K) (g_w L) ->
  (pit_linear_forward_gen rsqrt L cm x == pit_out true (repeat true K) cm (to_slayer rsqrt L) x)%Q.
Proof. exact pit_linear_forward_gen_eq. Qed.
Theorem C07_generated_forward_defined : forall rsqrt L tm cm x, match g_bn L with Some m => (0 < m_var m + m_eps m)%Q | None => True end ->
  pit_conv1d_forward_ok rsqrt L tm cm x = true /\ pit_conv2d_forward_ok rsqrt L cm x = true /\ pit_linear_forward_ok rsqrt L cm x = true.
Proof. exact forward_defined. Qed.

(* --- THE SENTENCE on the generated code: a Conv1d / Conv2d / Linear (any weights, with or without bias) followed or not by a
   BatchNorm (affine or not), wrapped by the generated constructor + remove_bn_inplace (fold_bn on or off) and run by the
   generated forward with the masks of the initial parameters, computes what the original computes in eval mode, on every input *)
Theorem C07_generated_wrap_identity_conv1d : forall rsqrt K C c fresh w ob bn fold x,
  (c < C)%nat -> Forall (fun row => length row = K) w -> tracked bn ->
  exists L, import_gen rsqrt pit_conv1d_init_gen fresh w ob bn fold = Some L /\
    (pit_conv1d_forward_gen rsqrt L (open_time_mask K) (nth c (open_features_mask C) false) x == original rsqrt w ob bn x)%Q.
Proof. exact gen_wrap_identity_conv1d. Qed.
Theorem C07_generated_wrap_identity_conv2d : forall rsqrt K C c fresh w ob bn fold x,
  (c < C)%nat -> Forall (fun row => length row = K) w -> tracked bn ->
  exists L, import_gen rsqrt pit_conv2d_init_gen fresh w ob bn fold = Some L /\
    (pit_conv2d_forward_gen rsqrt L (nth c (open_features_mask C) false) x == original rsqrt w ob bn x)%Q.
Proof. exact gen_wrap_identity_conv2d. Qed.
Theorem C07_generated_wrap_identity_linear : forall rsqrt K C c fresh w ob bn fold x,
  (c < C)%nat -> Forall (fun row => length row = K) w -> tracked bn ->
  exists L, import_gen rsqrt pit_linear_init_gen fresh w ob bn fold = Some L /\
    (pit_linear_forward_gen rsqrt L (nth c (open_features_mask C) false) x == original rsqrt w ob bn x)%Q.
Proof. exact gen_wrap_identity_linear. Qed.

(* --- the fusion pass.  (1) fuse_consecutive_layers as fuse_pit_modules calls it (in_place flag and copy-or-not read from the
   source), on the object graph of Model/Import.v with one call site per module and no producer read by two BatchNorms, IS the
   fusion step of the hand-written conversion, ValueError included: so is every theorem above about `convert` *)
Theorem C07_generated_fuse_pass : forall c mods hs, NoDup (flat_map (bnp mods) (seq 0 (length mods))) ->
  inst_fuse c mods fuse_pit_in_place (seq 0 (length mods)) hs = step_fuse c mods 0 hs.
Proof. exact gen_fuse_is_step_fuse. Qed.

Theorem C07_generated_fuse_keeps_user_objects : forall c mods n h0 h s h' s',
  c_copyfuse c = fuse_pit_copy -> NoDup (flat_map (bnp mods) (seq 0 (length mods))) -> UP n h0 h ->
  inst_fuse c mods fuse_pit_in_place (seq 0 (length mods)) (h, s) = Some (h', s') -> UP n h0 h'.
Proof. exact gen_fuse_keeps_user_objects. Qed.

Theorem C07_generated_fuse_sets_flag : forall c mods h s h' s',
  c_setflag c = true -> NoDup (flat_map (bnp mods) (seq 0 (length mods))) -> Forall (FB c) h ->
  inst_fuse c mods fuse_pit_in_place (seq 0 (length mods)) (h, s) = Some (h', s') -> Forall (FB c) h'.
Proof. exact gen_fuse_sets_flag. Qed.

(* (2) whatever the graph (any observations, any number of call sites): a first layer is handed to the fusion function at most once *)
Theorem C07_generated_fuse_pair_once : forall (cm an acm sec fst_ : nat -> bool) (users a0t tgt : nat -> nat) (sites : list nat -> nat -> nat) ip nodes s,
  fuse_consecutive_layers_gen (list nat) (fun _ => cm) (fun _ => an) (fun _ => acm) (fun _ => sec) (fun _ => fst_)
    (fun _ => users) (fun _ => a0t) (fun _ => tgt) sites (log_fuse a0t) (log_fuse a0t) (fun _ s => s) ip nodes [] = Some s -> NoDup s.
Proof. exact gen_fuse_pair_once. Qed.

(* (3) the call-site handling on concrete graphs: fused / ValueError (other users) / fused once / ValueError (different second
   layers) / ValueError (first layer also used alone) / left alone *)
Theorem C07_generated_fuse_call_sites : (
  ex_fuse [10; 11] [None; Some 0] [0; 1] [11] [10] (fun _ => 1) = Some [10] /\
  ex_fuse [10; 11] [None; Some 0] [0; 2] [11] [10] (fun _ => 1) = None /\
  ex_fuse [10; 11; 10; 11] [None; Some 0; Some 1; Some 2] [0; 1; 1; 1] [11] [10] (fun _ => 2) = Some [10] /\
  ex_fuse [10; 11; 10; 12] [None; Some 0; Some 1; Some 2] [0; 1; 1; 1] [11; 12] [10] (fun _ => 2) = None /\
  ex_fuse [10; 11; 10; 11; 10] [None; Some 0; Some 1; Some 2; Some 3] [0; 1; 1; 1; 1] [11] [10] (fun _ => 3) = None /\
  ex_fuse [10; 11] [None; Some 0] [0; 1] [11] [] (fun _ => 1) = Some [])%nat.
Proof. exact gen_fuse_call_sites. Qed.

(* --- the numbers the check compares: the generated folding (PIT and MPS) gives exactly run_fold *)
Theorem C07_generated_run_fold : forall g be mu r w ob,
  run_fold_gen g be mu r w ob =
    (let v := run_fold (match g with Some x => x | None => 1 end) (match be with Some x => x | None => 0 end) mu r w ob in
     Some (fst v, snd v, fst v, snd v)).
Proof. exact gen_run_fold. Qed.

Print Assumptions C07_open_time_mask.
Print Assumptions C07_open_features_mask.
Print Assumptions C07_open_masks_identity.
Print Assumptions C07_bn_fold_identity.
Print Assumptions C07_bn_fold_identity_nobias.
Print Assumptions C07_double_bn_refuted.
Print Assumptions C07_export_open_is_original.
Print Assumptions C07_convert_keeps_mode.
Print Assumptions C07_convert_user_mode.
Print Assumptions C07_convert_keeps_user_flags.
Print Assumptions C07_convert_keeps_user_flags_refuted.
Print Assumptions C07_convert_keeps_user_mode.
Print Assumptions C07_convert_keeps_user_mode_refuted.
Print Assumptions C07_convert_keeps_user_params.
Print Assumptions C07_convert_keeps_user_params_readable.
Print Assumptions C07_convert_keeps_user_params_refuted.
Print Assumptions C07_supernet_wrap_identity.
Print Assumptions C07_fused_layer_flag.
Print Assumptions C07_fused_layer_flag_refuted.
Print Assumptions C07_import_sound_network.
Print Assumptions C07_import_export_sound_network.
Print Assumptions C07_import_export_sizes.
Print Assumptions C07_export_params_open.
Print Assumptions C07_generated_remove_bn_inplace.
Print Assumptions C07_generated_remove_bn_raises.
Print Assumptions C07_generated_remove_bn_defined.
Print Assumptions C07_generated_mps_fuse_bn.
Print Assumptions C07_generated_mps_fold_identity.
Print Assumptions C07_generated_mps_fuse_bn_defined.
Print Assumptions C07_generated_init.
Print Assumptions C07_generated_forward_conv1d.
Print Assumptions C07_generated_forward_conv2d.
Print Assumptions C07_generated_forward_linear.
Print Assumptions C07_generated_forward_defined.
Print Assumptions C07_generated_wrap_identity_conv1d.
Print Assumptions C07_generated_wrap_identity_conv2d.
Print Assumptions C07_generated_wrap_identity_linear.
Print Assumptions C07_generated_fuse_pass.
Print Assumptions C07_generated_fuse_keeps_user_objects.
Print Assumptions C07_generated_fuse_sets_flag.
Print Assumptions C07_generated_fuse_pair_once.
Print Assumptions C07_generated_fuse_call_sites.
Print Assumptions C07_generated_run_fold.
