#!/venv/bin/python
"""writes /verif/MANIFEST.json from vlib/registry.py"""
import json, os, sys
sys.path.insert(0, os.path.dirname(os.path.dirname(os.path.abspath(__file__))))
from vlib import registry
V = os.path.dirname(os.path.dirname(os.path.abspath(__file__)))
ids = [json.loads(l)['id'] for l in open(os.path.join(V, 'properties.jsonl'))]
checks, na = [], []
for i in ids:
    c = registry.CHECKS.get(i)
    if c is None:
        na.append({'property_id': i, 'reason': registry.NOT_APPLICABLE.get(i, registry.PENDING_REASON) if hasattr(registry, 'NOT_APPLICABLE') else registry.PENDING_REASON})
        continue
    checks.append({
        'property_id': i,
        'quick_cmd': './check %s --tier quick' % i,
        'thorough_cmd': './check %s --tier thorough' % i,
        'evidence_file': '/verif/evidence/%s.json' % i,
        'replay_cmd_template': './check %s --replay {path}' % i,
        'engine': 'coq+harness',
        'level_claimed': {'category': c['category'], 'text': c['text'], 'design_ref': c['design_ref']},
        'level_note': c['note'],
        'technique': c['technique'],
    })
hooks_commits = getattr(registry, 'HOOK_COMMITS', [])
m = {
 'version': 1,
 'setup_cmd': './setup.sh',
 'hooks': {
   'guard': 'EML_EDA_PLINIO_VERIF',
   'enable': 'the ./check wrapper exports EML_EDA_PLINIO_VERIF=1; no hook has been added to /repo so far (all observations go through the public API, attribute reads and torch forward hooks)',
   'baseline_off_cmd': 'cd /repo && env -u EML_EDA_PLINIO_VERIF /venv/bin/python -m pytest -ra -q -p no:cacheprovider --timeout=900 --continue-on-collection-errors',
   'source_commits': hooks_commits,
   'add_only': True,
 },
 'engines': [
   {'name': 'coq', 'path': '/verif/coq', 'serves_properties': [c['property_id'] for c in checks], 'kind_free_text': 'Coq 8.16.1 development: Model/ (executable Gallina models), Proofs/, Props/Cxx.v (theorem statements + Print Assumptions); built by setup.sh via coq_makefile, re-made by every check'},
   {'name': 'harness', 'path': '/verif/vlib', 'serves_properties': [c['property_id'] for c in checks], 'kind_free_text': 'Python harness: runs /repo implementation, writes cases for vm_compute evaluation of the model, compares, evaluates the property oracle, writes evidence and replays'},
 ],
 'checks': checks,
 'not_applicable': na,
 'notes': 'Technique family: machine-checked proof in Coq. See DESIGN.md. Known findings: KNOWN_FINDINGS.json.',
}
json.dump(m, open(os.path.join(V, 'MANIFEST.json'), 'w'), indent=1)
print('checks', len(checks), 'not claimed', len(na))
