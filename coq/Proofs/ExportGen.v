(* C01: the model GENERATED from the source of forward / export / in_features_opt of PITConv1d, PITConv2d, PITLinear and of
   export of PITBatchNorm1d / 2d (Gen/ExportGen.v, rewritten by translator/export2coq.py on every run) computes the hand-written
   model of Model/Conv.v: the generated forwards are pit_conv1d_at / pit_conv2d_at / pit_linear_at (repaired fold_bn), the
   generated exports write export_w3 / w4 / w2, export_bias, the hyper-parameters of export_conv1d_hp, the pad (k'-1)*d' and a
   BatchNorm of the sliced width; every operation they perform is defined on well-shaped layers; and the layer-level sentences of
   C01 hold between the generated forward and the layer the generated export describes.  Mask quantities: Gen/MasksGen.v. *)
From Coq Require Import QArith ZArith List Bool Arith Lia.
Import ListNotations.
Require Import Plinio.Base.Qx Plinio.Base.Tensor Plinio.Model.Masks Plinio.Proofs.Masks Plinio.Model.Conv Plinio.Proofs.Conv.
Require Import Plinio.Gen.MasksGen Plinio.Proofs.MasksGen Plinio.Gen.ExportGen.
Local Open Scope nat_scope.

(* ---------------------------------------------------------------- lists *)
Lemma combine_map_l {A B C} (f : A -> C) (a : list A) (b : list B) : combine (map f a) b = map (fun p => (f (fst p), snd p)) (combine a b).
Proof. revert b. induction a as [|x a IH]; intros [|y b]; try reflexivity. cbn. rewrite IH. reflexivity. Qed.

Lemma nth_bfloat m co : nth co (bfloat m) 0%Q = b2q (nth co m false).
Proof. revert co. induction m as [|b m IH]; intros [|co]; try reflexivity. cbn. apply IH. Qed.

Lemma bfloat_all_true n : ones n = bfloat (all_true n).
Proof. unfold ones, bfloat, all_true. induction n as [|n IH]; [reflexivity|]. cbn. rewrite IH. reflexivity. Qed.

Lemma is01_bfloat m : is01 (bfloat m) = true.
Proof. unfold is01, bfloat. apply forallb_forall. intros x Hx. apply in_map_iff in Hx as [b [<- _]]. destruct b; reflexivity. Qed.

Lemma binarize_bfloat m : binarizer_forward_gen (bfloat m) (1 # 2)%Q = bfloat m.
Proof.
  rewrite binarizer_gen_bin. f_equal. unfold bfloat. rewrite map_map. rewrite <- (map_id m) at 2. apply map_ext. intros []; reflexivity.
Qed.

(* ---------------------------------------------------------------- the mask vocabulary over a carrier with the five laws *)
Section Vocab.
Variable R : Type.
Variables (r0 r1 : R) (radd rmul : R -> R -> R).
Hypothesis L : laws r0 r1 radd rmul.

Lemma emul_b2q l b e : emul r0 r1 rmul l (b2q b) e = if b then e else r0.
Proof. destruct L as (_ & H2 & H3 & H4 & H5). unfold emul, qbit. rewrite (q2b_b2q b). destruct l, b; cbn; auto. Qed.
Lemma bit_l b e : rmul (bit r0 r1 b) e = if b then e else r0.
Proof. destruct L as (_ & H2 & H3 & H4 & H5). destruct b; cbn; auto. Qed.
Lemma bit_r b e : rmul e (bit r0 r1 b) = if b then e else r0.
Proof. destruct L as (_ & H2 & H3 & H4 & H5). destruct b; cbn; auto. Qed.

Definition gate1 (m : list bool) (v : list R) : list R := map (fun p : bool * R => if fst p then snd p else r0) (combine m v).

Lemma mul1_bfloat l m v : mul1 r0 r1 rmul l (bfloat m) v = gate1 m v.
Proof.
  unfold mul1, scale_rows, bfloat, gate1. rewrite combine_map_l, map_map. apply map_ext. intros [b e]. cbn. apply emul_b2q.
Qed.
Lemma time_row_gate tm (wk : list R) : map (fun p => rmul (bit r0 r1 (fst p)) (snd p)) (combine tm wk) = gate1 tm wk.
Proof. unfold gate1. apply map_ext. intros [b e]. cbn. apply bit_l. Qed.
Lemma bias_row_gate m (bl : list R) : map (fun p => rmul (snd p) (bit r0 r1 (fst p))) (combine m bl) = gate1 m bl.
Proof. unfold gate1. apply map_ext. intros [b e]. cbn. apply bit_r. Qed.

Lemma wmul3_ax2_bfloat l tm (w : list (list (list R))) : wmul3_ax2 r0 r1 rmul l (bfloat tm) w = mask_w3_time r0 r1 rmul tm w.
Proof.
  unfold wmul3_ax2, mask_w3_time. apply map_ext. intro wc. apply map_ext. intro wk. rewrite mul1_bfloat, time_row_gate. reflexivity.
Qed.

Lemma scale_rows_bfloat {A} (f : Q -> A -> A) (g : bool -> A -> A) m (w : list A) : (forall b a, f (b2q b) a = g b a) ->
  scale_rows f (bfloat m) w = map (fun p => g (fst p) (snd p)) (combine m w).
Proof. intro H. unfold scale_rows, bfloat. rewrite combine_map_l, map_map. apply map_ext. intros [b a]. cbn. apply H. Qed.

Lemma wmul3_ax0_bfloat l m (w : list (list (list R))) : wmul3_ax0 r0 r1 rmul l (bfloat m) w = mask_w3_out r0 r1 rmul m w.
Proof.
  unfold wmul3_ax0, mask_w3_out. apply (scale_rows_bfloat _ (fun b a => map (map (fun x => rmul x (bit r0 r1 b))) a)). intros b a. apply map_ext. intro row. apply map_ext. intro e. rewrite emul_b2q, bit_r. reflexivity.
Qed.
Lemma wmul4_ax0_bfloat l m (w : list (list (list (list R)))) : wmul4_ax0 r0 r1 rmul l (bfloat m) w = mask_w4_out r0 r1 rmul m w.
Proof.
  unfold wmul4_ax0, mask_w4_out. apply (scale_rows_bfloat _ (fun b a => map (map (map (fun x => rmul x (bit r0 r1 b)))) a)). intros b a. apply map_ext. intro x. apply map_ext. intro row. apply map_ext. intro e. rewrite emul_b2q, bit_r. reflexivity.
Qed.
Lemma wmul2_ax0_bfloat l m (w : list (list R)) : wmul2_ax0 r0 r1 rmul l (bfloat m) w = mask_w2_out r0 r1 rmul m w.
Proof.
  unfold wmul2_ax0, mask_w2_out. apply (scale_rows_bfloat _ (fun b a => map (fun x => rmul x (bit r0 r1 b)) a)). intros b a. apply map_ext. intro e. rewrite emul_b2q, bit_r. reflexivity.
Qed.
Lemma combine_map_r' {A B C} (f : B -> C) (a : list A) (b : list B) : combine a (map f b) = map (fun p => (fst p, f (snd p))) (combine a b).
Proof. revert b. induction a as [|x a IH]; intros [|y b]; try reflexivity. cbn. rewrite IH. reflexivity. Qed.
(* the output-channel mask and the time mask can be applied to the weight in either order *)
Lemma mask_w3_out_time m tm (w : list (list (list R))) : mask_w3_out r0 r1 rmul m (mask_w3_time r0 r1 rmul tm w) = mask_w3_time r0 r1 rmul tm (mask_w3_out r0 r1 rmul m w).
Proof.
  unfold mask_w3_out, mask_w3_time. rewrite combine_map_r', !map_map. apply map_ext. intros [b wc]. cbn [fst snd]. rewrite !map_map. apply map_ext. intro wk.
  rewrite combine_map_r', !map_map. apply map_ext. intros [t e]. cbn [fst snd]. rewrite !bit_l, !bit_r. destruct t, b; try reflexivity; rewrite ?bit_r; reflexivity.
Qed.
Lemma mask_bias_some l m (bl : list R) : Some (mul1 r0 r1 rmul l (bfloat m) bl) = mask_bias r0 r1 rmul true m (Some bl).
Proof. cbn. rewrite mul1_bfloat, bias_row_gate. reflexivity. Qed.

Lemma gate_nth l m co (y : R) : emul r0 r1 rmul l (nth co (bfloat m) 0%Q) y = rmul y (bit r0 r1 (nth co m false)).
Proof. rewrite nth_bfloat, emul_b2q, bit_r. reflexivity. Qed.
End Vocab.

(* ---------------------------------------------------------------- what a layer's masks are (the functions of Gen/MasksGen.v) *)
Record masks1 (ms : layer_self) (mout tm : list bool) (k' d' : nat) : Prop := {
  m1_fm : c1_features_mask_gen ms = bfloat mout;
  m1_fmd : c1__features_mask_gen ms true = bfloat mout;
  m1_tm : c1_time_mask_gen ms = bfloat tm;
  m1_tmd : c1__time_mask_gen ms true = bfloat tm;
  m1_k : c1_kernel_size_opt_gen ms = Z.of_nat k';
  m1_kc : k' = count_true tm;
  m1_d : c1_dilation_opt_gen ms = d';
  m1_out : c1_out_features_opt_gen ms = Z.of_nat (count_true mout);
  m1_ok1 : c1__time_mask_ok ms true = true;
  m1_ok2 : c1_time_mask_ok ms = true;
  m1_ok3 : c1_kernel_size_opt_ok ms = true }.
Record masks2 (ms : layer_self) (mout : list bool) : Prop := {
  m2_fm : c2_features_mask_gen ms = bfloat mout; m2_fmd : c2__features_mask_gen ms true = bfloat mout;
  m2_out : c2_out_features_opt_gen ms = Z.of_nat (count_true mout) }.
Record masks0 (ms : layer_self) (mout : list bool) : Prop := {
  m0_fm : lin_features_mask_gen ms = bfloat mout; m0_fmd : lin__features_mask_gen ms true = bfloat mout;
  m0_out : lin_out_features_opt_gen ms = Z.of_nat (count_true mout) }.

(* the theta of a features masker binarizes to mout *)
Definition theta_is (th : vec) (mout : list bool) : Prop := binarizer_forward_gen th (1 # 2)%Q = bfloat mout.

Lemma theta_is_observed mout : theta_is (bfloat mout) mout.
Proof. apply binarize_bfloat. Qed.
Lemma theta_is_alpha C alpha : 1 <= C -> length alpha = C -> theta_is (fm_theta_gen C fm_default_keep_alive_channels alpha) (features_mask alpha).
Proof. intros HC Ha. unfold theta_is. rewrite (binarizer_gen_compat _ _ _ (fm_theta_gen_eq C alpha HC Ha)). apply binarizer_gen_bin. Qed.
Lemma theta_is_frozen C : theta_is (ffm_theta_gen C fm_default_keep_alive_channels) (all_true C).
Proof. unfold theta_is. cbv [ffm_theta_gen ffm_buf__fixed_alpha]. rewrite bin_ones. apply bfloat_all_true. Qed.

Lemma count_all_true n : count_true (all_true n) = n.
Proof. apply count_true_repeat. Qed.

Theorem masks1_trainable K d0 th mout beta gamma : 1 <= K -> length beta = K -> length gamma = gamma_len K -> theta_is th mout ->
  masks1 (masks_obj false K d0 th beta gamma) mout (time_mask true K beta gamma) (kernel_size_opt true K beta gamma) (dilation_opt true K d0 gamma).
Proof.
  intros HK Hb Hg Hth. set (ms := masks_obj false K d0 th beta gamma).
  assert (Hg' : length gamma = dm__gamma_len_gen K) by (rewrite dm_gamma_len_gen_eq; exact Hg).
  assert (Ha1 : length [1%Q] = 1) by reflexivity.
  destruct (gen_defined K d0 1 [1%Q] beta gamma HK (le_n 1) Ha1 Hb Hg') as (_ & D1 & D2 & _).
  assert (F : c1__features_mask_gen ms true = bfloat mout).
  { cbv [c1__features_mask_gen ms masks_obj s_fm_theta s_thr c1_default_binarization_threshold]. exact Hth. }
  split.
  - exact F.
  - exact F.
  - exact (c1_time_mask_gen_eq K d0 1 [1%Q] beta gamma HK Hb Hg).
  - exact (c1_time_mask_gen_eq K d0 1 [1%Q] beta gamma HK Hb Hg).
  - exact (c1_kernel_size_opt_gen_eq K d0 1 [1%Q] beta gamma HK Hb Hg).
  - reflexivity.
  - exact (c1_dilation_opt_gen_eq K d0 1 [1%Q] beta gamma HK Hb Hg).
  - change (c1_out_features_opt_gen ms) with (qint (tsum (c1_features_mask_gen ms))). change (c1_features_mask_gen ms) with (c1__features_mask_gen ms true).
    rewrite F. apply qint_count.
  - exact D1.
  - exact D1.
  - exact D2.
Qed.

Theorem masks1_frozen K d0 th mout beta gamma : 1 <= K -> theta_is th mout -> masks1 (masks_obj true K d0 th beta gamma) mout (all_true K) K d0.
Proof.
  intros HK Hth.
  assert (Hb : length (tm_init_beta K) = K) by apply tm_init_beta_length.
  assert (Hg : length (dm_init_gamma K) = gamma_len K) by apply dm_init_gamma_length.
  pose proof (masks1_trainable K d0 th mout (tm_init_beta K) (dm_init_gamma K) HK Hb Hg Hth) as M.
  destruct (frozen_time_axis_gen K d0 1 [1%Q] HK) as (T1 & T2 & T3).
  destruct M as [a b c d e f g h i j k].
  split.
  - exact a.
  - exact b.
  - rewrite <- bfloat_all_true. exact T1.
  - rewrite <- bfloat_all_true. exact T1.
  - exact T2.
  - symmetry. apply count_all_true.
  - exact T3.
  - exact h.
  - exact i.
  - exact j.
  - exact k.
Qed.

Theorem masks2_of th mout : theta_is th mout -> masks2 (feat_masks c2_default_binarization_threshold th) mout.
Proof.
  intro Hth. assert (F : c2__features_mask_gen (feat_masks c2_default_binarization_threshold th) true = bfloat mout).
  { cbv [c2__features_mask_gen feat_masks s_fm_theta s_thr c2_default_binarization_threshold]. exact Hth. }
  split; [exact F|exact F|].
  change (c2_out_features_opt_gen ?s) with (qint (tsum (c2__features_mask_gen s true))). rewrite F. apply qint_count.
Qed.
Theorem masks0_of th mout : theta_is th mout -> masks0 (feat_masks lin_default_binarization_threshold th) mout.
Proof.
  intro Hth. assert (F : lin__features_mask_gen (feat_masks lin_default_binarization_threshold th) true = bfloat mout).
  { cbv [lin__features_mask_gen feat_masks s_fm_theta s_thr lin_default_binarization_threshold]. exact Hth. }
  split; [exact F|exact F|].
  change (lin_out_features_opt_gen ?s) with (qint (tsum (lin__features_mask_gen s true))). rewrite F. apply qint_count.
Qed.

(* ---------------------------------------------------------------- forward: the generated functions are the model's *)
Section Forward.
Variable R : Type.
Variables (r0 r1 : R) (radd rmul : R -> R -> R).
Hypothesis L : laws r0 r1 radd rmul.

Ltac vocab := rewrite ?(wmul3_ax2_bfloat R r0 r1 radd rmul L), ?(wmul3_ax0_bfloat R r0 r1 radd rmul L), ?(wmul4_ax0_bfloat R r0 r1 radd rmul L),
  ?(wmul2_ax0_bfloat R r0 r1 radd rmul L), ?(mask_bias_some R r0 r1 radd rmul L), ?(mask_w3_out_time R r0 r1 radd rmul L).

Theorem c1_forward_gen_eq (s : conv1d_self R) mout tm k' d' : masks1 (c1s_masks s) mout tm k' d' -> forall x co t,
  c1_forward_gen R r0 r1 radd rmul s x co t =
  pit_conv1d_at r0 r1 radd rmul true (c1s_fold_bn s) (c1_is_dw s) (c1s_weight s) (c1s_bias s) (option_map fb_coef (c1s_bn s))
    (c1s_in_channels s) (c1s_kernel_size s) (Z.of_nat (c1s_dilation s)) (Z.of_nat (c1s_stride s)) mout tm x co t.
Proof.
  intros M x co t. unfold c1_forward_gen. rewrite ?(m1_fmd _ _ _ _ _ M), ?(m1_tmd _ _ _ _ _ M), ?(m1_fm _ _ _ _ _ M), ?(m1_tm _ _ _ _ _ M).
  unfold pit_conv1d_at, c1_conv_forward.
  destruct (c1s_fold_bn s); cbv zeta.
  - vocab. destruct (c1s_bias s) as [bl|]; [vocab|]; reflexivity.
  - vocab. destruct (c1s_bn s) as [bn|]; cbv zeta; unfold amul1, bn_apply1; rewrite (gate_nth R r0 r1 radd rmul L); reflexivity.
Qed.

Theorem c2_forward_gen_eq (s : conv2d_self R) mout : masks2 (c2s_masks s) mout -> forall x co h v,
  c2_forward_gen R r0 r1 radd rmul s x co h v =
  pit_conv2d_at r0 r1 radd rmul true (c2s_fold_bn s) (c2_is_dw s) (c2s_weight s) (c2s_bias s) (option_map fb_coef (c2s_bn s))
    (c2s_in_channels s) (fst (c2s_kernel_size s)) (snd (c2s_kernel_size s)) (Z.of_nat (fst (c2s_dilation s))) (Z.of_nat (fst (c2s_stride s)))
    (Z.of_nat (fst (pad2_of (c2s_padding s) (fst (c2s_kernel_size s)) (snd (c2s_kernel_size s)) (fst (c2s_dilation s)))))
    (Z.of_nat (snd (pad2_of (c2s_padding s) (fst (c2s_kernel_size s)) (snd (c2s_kernel_size s)) (fst (c2s_dilation s))))) mout x co h v.
Proof.
  intros M x co h v. unfold c2_forward_gen. rewrite ?(m2_fmd _ _ M), ?(m2_fm _ _ M).
  unfold pit_conv2d_at, c2_conv_forward. destruct (c2s_kernel_size s) as [kh kw]. cbn [fst snd].
  destruct (pad2_of (c2s_padding s) kh kw (fst (c2s_dilation s))) as [ph pw]. cbn [fst snd].
  destruct (c2s_fold_bn s); cbv zeta.
  - vocab. destruct (c2s_bias s) as [bl|]; [vocab|]; reflexivity.
  - destruct (c2s_bn s) as [bn|]; cbv zeta; unfold amul2, bn_apply2; rewrite (gate_nth R r0 r1 radd rmul L); reflexivity.
Qed.

Theorem lin_forward_gen_eq (s : linear_self R) mout : masks0 (ls_masks s) mout -> forall x co,
  lin_forward_gen R r0 r1 radd rmul s x co =
  pit_linear_at r0 r1 radd rmul true (ls_fold_bn s) (ls_weight s) (ls_bias s) (option_map fb_coef (ls_bn s)) (ls_in_features s) mout x co.
Proof.
  intros M x co. unfold lin_forward_gen. rewrite ?(m0_fmd _ _ M), ?(m0_fm _ _ M).
  unfold pit_linear_at, lin_linear.
  destruct (ls_fold_bn s); cbv zeta.
  - vocab. destruct (ls_bias s) as [bl|]; [vocab|]; reflexivity.
  - destruct (ls_bn s) as [bn|]; cbv zeta; unfold amul0, bn_apply0; rewrite (gate_nth R r0 r1 radd rmul L); reflexivity.
Qed.
End Forward.

(* ---------------------------------------------------------------- export: the generated functions write what the model says *)
Definition pad_zero (p : padv) : bool := padv_eqb p PadValid || padv_eqb p (PadTuple [0]).
Definition new_bn_of {R} (bn : option (fbn R)) (fold : bool) (width : nat) : option bn_new :=
  match bn with
  | Some m => if fold then None else Some {| nb_features := Z.of_nat width; nb_eps := fb_eps m; nb_momentum := fb_momentum m; nb_affine := fb_affine m; nb_track := fb_track m |}
  | None => None
  end.

Lemma in_features_count (min : list bool) : qint (tsum (bfloat min)) = Z.of_nat (count_true min).
Proof. apply qint_count. Qed.

Lemma pad_amount_nat k' d' : 1 <= k' -> ((Z.of_nat k' - 1) * Z.of_nat d')%Z = Z.of_nat ((k' - 1) * d').
Proof. intro H. rewrite Nat2Z.inj_mul, Nat2Z.inj_sub by exact H. reflexivity. Qed.

(* slicing along the input-channel and the time axis, in either order *)
Lemma export_w3_full {R} mout min tm (w : list (list (list R))) :
  map (map (select tm)) (map (select min) (select mout w)) = export_w3 false mout min tm w /\
  map (select min) (map (map (select tm)) (select mout w)) = export_w3 false mout min tm w.
Proof.
  unfold export_w3. split; rewrite map_map; apply map_ext; intro wc; [reflexivity|]. apply select_map.
Qed.
Lemma export_w3_dw {R} mout min tm (w : list (list (list R))) : map (map (select tm)) (select mout w) = export_w3 true mout min tm w.
Proof. reflexivity. Qed.

Ltac norm_dw g i o := rewrite ?(Nat.eqb_sym i g), ?(Nat.eqb_sym o g).
Ltac pad_cases p := destruct p as [ | | [|[|?] [|? ?]]]; cbn; try reflexivity.

Section Export.
Variable R : Type.

Theorem c1_export_gen_eq (s : conv1d_self R) mout min tm k' d' iw ib : masks1 (c1s_masks s) mout tm k' d' -> c1s_in_mask s = bfloat min -> 1 <= k' ->
  let e := c1_export_gen R s iw ib in
  x1_weight e = export_w3 (c1_is_dw s) mout min tm (c1s_weight s) /\
  x1_bias e = export_bias mout (c1s_bias s) /\
  x1_layer e = {| nc_in := Z.of_nat (count_true min); nc_out := Z.of_nat (count_true mout); nc_kernel := Z.of_nat k'; nc_stride := c1s_stride s; nc_padding := c1s_padding s;
                  nc_dilation := Z.of_nat d'; nc_groups := if c1_is_dw s then Z.of_nat (count_true min) else Z.of_nat (c1s_groups s);
                  nc_has_bias := negb (is_none (c1s_bias s)); nc_padding_mode := c1s_padding_mode s |} /\
  x1_pad e = (if pad_zero (c1s_padding s) then Some (Z.of_nat ((k' - 1) * d')) else None) /\
  x1_bn e = new_bn_of (c1s_bn s) (c1s_fold_bn s) (count_true mout).
Proof.
  intros M Hin Hk. unfold c1_export_gen, c1_in_features_opt_gen.
  rewrite ?(m1_fm _ _ _ _ _ M), ?(m1_tm _ _ _ _ _ M), ?(m1_k _ _ _ _ _ M), ?(m1_d _ _ _ _ _ M), ?(m1_out _ _ _ _ _ M), ?Hin, ?map_q2b_bfloat, ?in_features_count.
  cbv zeta. unfold c1_is_dw, new_bn_of. norm_dw (c1s_groups s) (c1s_in_channels s) (c1s_out_channels s).
  destruct (export_w3_full mout min tm (c1s_weight s)) as [W1 W2]. pose proof (export_w3_dw mout min tm (c1s_weight s)) as W3.
  split; [|split; [|split; [|split]]].
  - cbn [x1_weight]. destruct (c1s_groups s =? c1s_in_channels s), (c1s_groups s =? c1s_out_channels s); cbn [andb negb]; first [exact W1 | exact W2 | exact W3].
  - cbn [x1_bias]. destruct (c1s_bias s); reflexivity.
  - cbn [x1_layer]. destruct (c1s_groups s =? c1s_in_channels s), (c1s_groups s =? c1s_out_channels s); reflexivity.
  - cbn [x1_pad]. rewrite ?(pad_amount_nat k' d' Hk), ?(Z.mul_comm (Z.of_nat d')), ?(pad_amount_nat k' d' Hk). unfold pad_zero. pad_cases (c1s_padding s).
  - cbn [x1_bn]. destruct (c1s_bn s) as [m|]; destruct (c1s_fold_bn s); reflexivity.
Qed.

Lemma export_w4_full mout min (w : list (list (list (list R)))) : map (select min) (select mout w) = export_w4 false mout min w.
Proof. unfold export_w4. apply map_ext. reflexivity. Qed.
Lemma export_w4_full' mout min (w : list (list (list (list R)))) : select mout (map (select min) w) = export_w4 false mout min w.
Proof. rewrite select_map. apply export_w4_full. Qed.
Lemma export_w4_dw mout min (w : list (list (list (list R)))) : select mout w = export_w4 true mout min w.
Proof. unfold export_w4. symmetry. apply map_id. Qed.

Theorem c2_export_gen_eq (s : conv2d_self R) mout min iw ib : masks2 (c2s_masks s) mout -> c2s_in_mask s = bfloat min ->
  let e := c2_export_gen R s iw ib in
  x2_weight e = export_w4 (c2_is_dw s) mout min (c2s_weight s) /\
  x2_bias e = export_bias mout (c2s_bias s) /\
  x2_layer e = {| n2_in := Z.of_nat (count_true min); n2_out := Z.of_nat (count_true mout); n2_kernel := c2s_kernel_size s; n2_stride := c2s_stride s; n2_padding := c2s_padding s;
                  n2_dilation := c2s_dilation s; n2_groups := if c2_is_dw s then Z.of_nat (count_true min) else Z.of_nat (c2s_groups s);
                  n2_has_bias := negb (is_none (c2s_bias s)); n2_padding_mode := c2s_padding_mode s |} /\
  x2_bn e = new_bn_of (c2s_bn s) (c2s_fold_bn s) (count_true mout).
Proof.
  intros M Hin. unfold c2_export_gen, c2_in_features_opt_gen.
  rewrite ?(m2_fm _ _ M), ?(m2_out _ _ M), ?Hin, ?map_q2b_bfloat, ?in_features_count.
  cbv zeta. unfold c2_is_dw, new_bn_of. norm_dw (c2s_groups s) (c2s_in_channels s) (c2s_out_channels s).
  pose proof (export_w4_full mout min (c2s_weight s)) as W1. pose proof (export_w4_full' mout min (c2s_weight s)) as W2. pose proof (export_w4_dw mout min (c2s_weight s)) as W3.
  split; [|split; [|split]].
  - cbn [x2_weight]. destruct (c2s_groups s =? c2s_in_channels s), (c2s_groups s =? c2s_out_channels s); cbn [andb negb]; first [exact W1 | exact W2 | exact W3].
  - cbn [x2_bias]. destruct (c2s_bias s); reflexivity.
  - cbn [x2_layer]. destruct (c2s_groups s =? c2s_in_channels s), (c2s_groups s =? c2s_out_channels s); reflexivity.
  - cbn [x2_bn]. destruct (c2s_bn s) as [m|]; destruct (c2s_fold_bn s); reflexivity.
Qed.

Theorem lin_export_gen_eq (s : linear_self R) mout min iw ib : masks0 (ls_masks s) mout -> ls_in_mask s = bfloat min ->
  let e := lin_export_gen R s iw ib in
  xl_weight e = export_w2 mout min (ls_weight s) /\
  xl_bias e = export_bias mout (ls_bias s) /\
  xl_layer e = {| nl_in := Z.of_nat (count_true min); nl_out := Z.of_nat (count_true mout); nl_has_bias := negb (is_none (ls_bias s)) |} /\
  xl_bn e = new_bn_of (ls_bn s) (ls_fold_bn s) (count_true mout).
Proof.
  intros M Hin. unfold lin_export_gen, lin_in_features_opt_gen.
  rewrite ?(m0_fm _ _ M), ?(m0_out _ _ M), ?Hin, ?map_q2b_bfloat, ?in_features_count.
  cbv zeta. unfold new_bn_of, export_w2.
  split; [|split; [|split]].
  - cbn [xl_weight]. first [reflexivity | apply select_map].
  - cbn [xl_bias]. destruct (ls_bias s); reflexivity.
  - cbn [xl_layer]. reflexivity.
  - cbn [xl_bn]. destruct (ls_bn s) as [m|]; destruct (ls_fold_bn s); reflexivity.
Qed.

(* PITBatchNorm1d / 2d: same width and constructor arguments, every tensor sliced by the mask of the features that reach it *)
Definition bn_export_model (s : bn_self R) (min : list bool) (iw ib : list R) : bn_exported R :=
  {| xb_layer := {| nb_features := Z.of_nat (count_true min); nb_eps := bs_eps s; nb_momentum := bs_momentum s; nb_affine := bs_affine s; nb_track := bs_track s |};
     xb_weight := if bs_affine s then select min (bs_weight s) else iw; xb_bias := if bs_affine s then select min (bs_bias s) else ib;
     xb_mean := option_map (select min) (bs_mean s); xb_var := option_map (select min) (bs_var s) |}.

Theorem bn1_export_gen_eq (s : bn_self R) min iw ib im iv : bs_in_mask s = bfloat min -> bn1_export_gen R s iw ib im iv = bn_export_model s min iw ib.
Proof.
  intro Hin. unfold bn1_export_gen, bn1_out_features_opt_gen, bn1_in_features_opt_gen, bn_export_model. rewrite ?Hin, ?map_q2b_bfloat, ?in_features_count. cbv zeta.
  destruct (bs_affine s), (bs_mean s), (bs_var s); reflexivity.
Qed.
Theorem bn2_export_gen_eq (s : bn_self R) min iw ib im iv : bs_in_mask s = bfloat min -> bn2_export_gen R s iw ib im iv = bn_export_model s min iw ib.
Proof.
  intro Hin. unfold bn2_export_gen, bn2_out_features_opt_gen, bn2_in_features_opt_gen, bn_export_model. rewrite ?Hin, ?map_q2b_bfloat, ?in_features_count. cbv zeta.
  destruct (bs_affine s), (bs_mean s), (bs_var s); reflexivity.
Qed.
End Export.

(* ---------------------------------------------------------------- shapes: every operation of the generated functions is defined *)
Section Shapes.
Context {A : Type}.
Definition all2 (w : list (list A)) (a b : nat) : Prop := length w = a /\ Forall (fun r => length r = b) w.
Definition all3 (w : list (list (list A))) (a b c : nat) : Prop := length w = a /\ Forall (fun x => all2 x b c) w.
Definition all4 (w : list (list (list (list A)))) (a b c d : nat) : Prop := length w = a /\ Forall (fun x => all3 x b c d) w.

Lemma Forall_select {B} (P : B -> Prop) m l : Forall P l -> Forall P (select m l).
Proof. intro H. revert m. induction H as [|x l Hx _ IH]; intros [|[|] m]; cbn; try constructor; auto. Qed.
Lemma Forall_map' {B C} (f : B -> C) (P : C -> Prop) l : Forall (fun x => P (f x)) l -> Forall P (map f l).
Proof. induction 1; cbn; constructor; auto. Qed.
Lemma Forall_imp {B} (P Q : B -> Prop) l : (forall x, P x -> Q x) -> Forall P l -> Forall Q l.
Proof. intros H F. induction F; constructor; auto. Qed.
Lemma forallb_of_Forall {B} (f : B -> bool) l : Forall (fun x => f x = true) l -> forallb f l = true.
Proof. induction 1 as [|x l Hx _ IH]; cbn; [reflexivity|]. rewrite Hx, IH. reflexivity. Qed.
Lemma Forall_of_nth {B} (P : B -> Prop) l d : (forall i, i < length l -> P (nth i l d)) -> Forall P l.
Proof.
  induction l as [|x l IH]; intro H; constructor.
  - apply (H 0). cbn. lia.
  - apply IH. intros i Hi. apply (H (S i)). cbn. lia.
Qed.

Lemma all2_sel_rows w a b m : all2 w a b -> length m = a -> all2 (select m w) (count_true m) b.
Proof. intros [H1 H2] Hm. split; [apply select_length; lia|apply Forall_select; exact H2]. Qed.
Lemma all2_sel_cols w a b m : all2 w a b -> length m = b -> all2 (map (select m) w) a (count_true m).
Proof.
  intros [H1 H2] Hm. split; [rewrite map_length; exact H1|]. apply Forall_map'. eapply Forall_imp; [|exact H2]. cbv beta. intros r Hr. apply select_length. lia.
Qed.
Lemma all3_sel0 w a b c m : all3 w a b c -> length m = a -> all3 (select m w) (count_true m) b c.
Proof. intros [H1 H2] Hm. split; [apply select_length; lia|apply Forall_select; exact H2]. Qed.
Lemma all3_sel1 w a b c m : all3 w a b c -> length m = b -> all3 (map (select m) w) a (count_true m) c.
Proof.
  intros [H1 H2] Hm. split; [rewrite map_length; exact H1|]. apply Forall_map'. eapply Forall_imp; [|exact H2]. cbv beta. intros x Hx. apply (all2_sel_rows x b c m); assumption.
Qed.
Lemma all3_sel2 w a b c m : all3 w a b c -> length m = c -> all3 (map (map (select m)) w) a b (count_true m).
Proof.
  intros [H1 H2] Hm. split; [rewrite map_length; exact H1|]. apply Forall_map'. eapply Forall_imp; [|exact H2]. cbv beta. intros x Hx. apply (all2_sel_cols x b c m); assumption.
Qed.
Lemma all4_sel0 w a b c d m : all4 w a b c d -> length m = a -> all4 (select m w) (count_true m) b c d.
Proof. intros [H1 H2] Hm. split; [apply select_length; lia|apply Forall_select; exact H2]. Qed.
Lemma all4_sel1 w a b c d m : all4 w a b c d -> length m = b -> all4 (map (select m) w) a (count_true m) c d.
Proof.
  intros [H1 H2] Hm. split; [rewrite map_length; exact H1|]. apply Forall_map'. eapply Forall_imp; [|exact H2]. cbv beta. intros x Hx. apply (all3_sel0 x b c d m); assumption.
Qed.

(* the boolean checks of the generated predicates *)
Lemma all3_len w a b c n : all3 w a b c -> n = a -> (length w =? n) = true.
Proof. intros [H _] ->. apply Nat.eqb_eq. exact H. Qed.
Lemma all3_len1 w a b c n : all3 w a b c -> n = b -> forallb (fun x => length x =? n) w = true.
Proof. intros [_ H] ->. apply forallb_of_Forall. eapply Forall_imp; [|exact H]. intros x [Hx _]. apply Nat.eqb_eq. exact Hx. Qed.
Lemma all3_len2 w a b c n : all3 w a b c -> n = c -> forallb (forallb (fun r => length r =? n)) w = true.
Proof.
  intros [_ H] ->. apply forallb_of_Forall. eapply Forall_imp; [|exact H]. intros x [_ Hx]. apply forallb_of_Forall. eapply Forall_imp; [|exact Hx].
  intros r Hr. apply Nat.eqb_eq. exact Hr.
Qed.
Lemma all3_rows_len3 w a b c n : all3 w a b c -> n = c -> rows_len3 w n = true.
Proof. intros H E. unfold rows_len3, rows_len. apply (all3_len2 w a b c n H E). Qed.
Lemma all2_shape2z w a b za zb : all2 w a b -> za = Z.of_nat a -> zb = Z.of_nat b -> shape2z w za zb = true.
Proof.
  intros [H1 H2] -> ->. unfold shape2z, len_is. rewrite H1, Z.eqb_refl. cbn [andb]. apply forallb_of_Forall. eapply Forall_imp; [|exact H2].
  intros r Hr. cbv beta. rewrite Hr. apply Z.eqb_refl.
Qed.
Lemma all3_shape3z w a b c za zb zc : all3 w a b c -> za = Z.of_nat a -> zb = Z.of_nat b -> zc = Z.of_nat c -> shape3z w za zb zc = true.
Proof.
  intros [H1 H2] -> -> ->. unfold shape3z, len_is at 1. rewrite H1, Z.eqb_refl. cbn [andb]. apply forallb_of_Forall. eapply Forall_imp; [|exact H2].
  intros x Hx. cbv beta. apply (all2_shape2z x b c); [exact Hx|reflexivity|reflexivity].
Qed.
Lemma all4_len w a b c d n : all4 w a b c d -> n = a -> (length w =? n) = true.
Proof. intros [H _] ->. apply Nat.eqb_eq. exact H. Qed.
Lemma all4_len1 w a b c d n : all4 w a b c d -> n = b -> forallb (fun x => length x =? n) w = true.
Proof. intros [_ H] ->. apply forallb_of_Forall. eapply Forall_imp; [|exact H]. intros x [Hx _]. apply Nat.eqb_eq. exact Hx. Qed.
Lemma all4_shape4z w a b c d za zb zc zd : all4 w a b c d -> za = Z.of_nat a -> zb = Z.of_nat b -> zc = Z.of_nat c -> zd = Z.of_nat d -> shape4z w za zb zc zd = true.
Proof.
  intros [H1 H2] -> -> -> ->. unfold shape4z, len_is at 1. rewrite H1, Z.eqb_refl. cbn [andb]. apply forallb_of_Forall. eapply Forall_imp; [|exact H2].
  intros x Hx. cbv beta. apply (all3_shape3z x b c d); [exact Hx|reflexivity|reflexivity|reflexivity].
Qed.
Lemma all2_len w a b n : all2 w a b -> n = a -> (length w =? n) = true.
Proof. intros [H _] ->. apply Nat.eqb_eq. exact H. Qed.
Lemma all2_len1 w a b n : all2 w a b -> n = b -> forallb (fun x => length x =? n) w = true.
Proof. intros [_ H] ->. apply forallb_of_Forall. eapply Forall_imp; [|exact H]. intros x Hx. apply Nat.eqb_eq. exact Hx. Qed.
End Shapes.

(* the shape predicates of Proofs/Conv.v give these *)
Lemma shape3_all3 R (w : w3 R) cout cin K : shape3 R w cout cin K -> all3 w cout cin K.
Proof.
  intros (H1 & H2 & H3). split; [exact H1|]. apply (Forall_of_nth _ w []). intros co Hco. rewrite H1 in Hco. split; [apply H2; exact Hco|].
  apply (Forall_of_nth _ _ []). intros ci Hci. rewrite (H2 co Hco) in Hci. exact (H3 co ci Hco Hci).
Qed.
Lemma shape2_all2 R (w : list (list R)) cout cin : shape2 R w cout cin -> all2 w cout cin.
Proof. intros (H1 & H2). split; [exact H1|]. apply (Forall_of_nth _ w []). intros co Hco. rewrite H1 in Hco. apply H2. exact Hco. Qed.
Lemma conv_ctor_ok_1 i o : conv_ctor_ok i o 1 = true.
Proof. unfold conv_ctor_ok. rewrite !Z.mod_1_r. reflexivity. Qed.
Lemma conv_ctor_ok_dw n : 1 <= n -> conv_ctor_ok (Z.of_nat n) (Z.of_nat n) (Z.of_nat n) = true.
Proof. intro H. unfold conv_ctor_ok. rewrite Z_mod_same_full. cbn. replace (0 <? Z.of_nat n)%Z with true; [reflexivity|]. symmetry. apply Z.ltb_lt. lia. Qed.
Lemma len_is_select {A} (m : list bool) (l : list A) : length l = length m -> len_is (select m l) (Z.of_nat (count_true m)) = true.
Proof. intro H. unfold len_is. rewrite select_length by exact H. apply Z.eqb_refl. Qed.

Ltac split_ands := repeat match goal with |- (_ && _) = true => apply andb_true_intro; split end.
Ltac len_facts := repeat match goal with
  | H : all3 _ _ _ _ |- _ => let L := fresh "L" in destruct H as [L _]
  | H : all4 _ _ _ _ _ |- _ => let L := fresh "L" in destruct H as [L _]
  | H : all2 _ _ _ |- _ => let L := fresh "L" in destruct H as [L _]
  end.
Ltac ok_leaf := try reflexivity; try match goal with
  | |- conv_ctor_ok _ _ (Z.of_nat 1) = true => apply conv_ctor_ok_1
  | |- conv_ctor_ok _ _ _ = true => apply conv_ctor_ok_dw; assumption
  | |- is01 (bfloat _) = true => apply is01_bfloat
  | |- (length _ =? _) = true => apply Nat.eqb_eq; rewrite ?bfloat_length; len_facts; first [assumption | congruence | lia]
  | |- len_is (select _ _) _ = true => apply len_is_select; assumption
  | |- forallb (forallb _) _ = true => eapply all3_len2; [eassumption|reflexivity]
  | |- forallb _ _ = true => first [eapply all3_len1; [eassumption|reflexivity] | eapply all4_len1; [eassumption|reflexivity] | eapply all2_len1; [eassumption|reflexivity]]
  | |- shape3z _ _ _ _ = true => eapply all3_shape3z; [eassumption|reflexivity| |reflexivity]; first [apply Z.div_1_r | apply Z_div_same_full; lia]
  | |- shape4z _ _ _ _ _ = true => eapply all4_shape4z; [eassumption|reflexivity| |reflexivity|reflexivity]; first [apply Z.div_1_r | apply Z_div_same_full; lia]
  | |- shape2z _ _ _ = true => eapply all2_shape2z; [eassumption|reflexivity|reflexivity]
  end.

Section ExportDefined.
Variable R : Type.

(* depthwise: the layer shares its mask with its producer (equal counts, at least one channel: C08); full: groups = 1 *)
Theorem c1_export_ok_true (s : conv1d_self R) mout min tm k' d' iw ib : masks1 (c1s_masks s) mout tm k' d' -> c1s_in_mask s = bfloat min ->
  all3 (c1s_weight s) (length mout) (if c1_is_dw s then 1 else length min) (length tm) ->
  (forall bl, c1s_bias s = Some bl -> length bl = length mout) ->
  (c1_is_dw s = true -> count_true min = count_true mout /\ 1 <= count_true mout) -> (c1_is_dw s = false -> c1s_groups s = 1) ->
  c1_export_ok R s iw ib = true.
Proof.
  intros M Hin HW HB Hdw Hfull. unfold c1_export_ok, c1_in_features_opt_gen.
  rewrite ?(m1_fm _ _ _ _ _ M), ?(m1_tm _ _ _ _ _ M), ?(m1_k _ _ _ _ _ M), ?(m1_d _ _ _ _ _ M), ?(m1_out _ _ _ _ _ M), ?(m1_ok2 _ _ _ _ _ M), ?(m1_ok3 _ _ _ _ _ M), ?Hin, ?map_q2b_bfloat, ?in_features_count.
  cbv zeta. unfold c1_is_dw in *. norm_dw (c1s_groups s) (c1s_in_channels s) (c1s_out_channels s).
  destruct (c1s_groups s =? c1s_in_channels s), (c1s_groups s =? c1s_out_channels s); cbn [andb negb] in *; cbv beta iota zeta.
  all: cbn [nc_in nc_out nc_groups nc_kernel nc_has_bias].
  all: try (rewrite (Hfull eq_refl)).
  all: try (destruct (Hdw eq_refl) as [Hc1 Hc2]; rewrite ?Hc1).
  all: pose proof (all3_sel0 _ _ _ _ mout HW eq_refl) as HW0.
  all: pose proof (all3_sel2 _ _ _ _ tm HW0 eq_refl) as HW1'.
  all: try pose proof (all3_sel1 _ _ _ _ min HW0 eq_refl) as HW1.
  all: try pose proof (all3_sel2 _ _ _ _ tm HW1 eq_refl) as HW2.
  all: try pose proof (all3_sel1 _ _ _ _ min HW1' eq_refl) as HW2'.
  all: destruct (c1s_bias s) as [bl|] eqn:Eb; [specialize (HB bl eq_refl)|]; cbn [is_none negb]; cbv beta iota zeta.
  all: destruct (c1s_padding s) as [ | | [|[|?] [|? ?]]]; cbn [padv_eqb nats_eqb orb andb Nat.eqb]; cbv beta iota zeta.
  all: split_ands.
  all: try (rewrite (m1_kc _ _ _ _ _ M)).
  all: ok_leaf.
Qed.

Theorem c2_export_ok_true (s : conv2d_self R) mout min iw ib : masks2 (c2s_masks s) mout -> c2s_in_mask s = bfloat min ->
  all4 (c2s_weight s) (length mout) (if c2_is_dw s then 1 else length min) (fst (c2s_kernel_size s)) (snd (c2s_kernel_size s)) ->
  (forall bl, c2s_bias s = Some bl -> length bl = length mout) ->
  (c2_is_dw s = true -> count_true min = count_true mout /\ 1 <= count_true mout) -> (c2_is_dw s = false -> c2s_groups s = 1) ->
  c2_export_ok R s iw ib = true.
Proof.
  intros M Hin HW HB Hdw Hfull. unfold c2_export_ok, c2_in_features_opt_gen.
  rewrite ?(m2_fm _ _ M), ?(m2_out _ _ M), ?Hin, ?map_q2b_bfloat, ?in_features_count.
  cbv zeta. unfold c2_is_dw in *. norm_dw (c2s_groups s) (c2s_in_channels s) (c2s_out_channels s).
  destruct (c2s_groups s =? c2s_in_channels s), (c2s_groups s =? c2s_out_channels s); cbn [andb negb] in *; cbv beta iota zeta.
  all: cbn [n2_in n2_out n2_groups n2_kernel n2_has_bias].
  all: try (rewrite (Hfull eq_refl)).
  all: try (destruct (Hdw eq_refl) as [Hc1 Hc2]; rewrite ?Hc1).
  all: pose proof (all4_sel0 _ _ _ _ _ mout HW eq_refl) as HW0.
  all: try pose proof (all4_sel1 _ _ _ _ _ min HW0 eq_refl) as HW1.
  all: destruct (c2s_bias s) as [bl|] eqn:Eb; [specialize (HB bl eq_refl)|]; cbn [is_none negb]; cbv beta iota zeta.
  all: split_ands.
  all: ok_leaf.
Qed.

Theorem lin_export_ok_true (s : linear_self R) mout min iw ib : masks0 (ls_masks s) mout -> ls_in_mask s = bfloat min ->
  all2 (ls_weight s) (length mout) (length min) -> (forall bl, ls_bias s = Some bl -> length bl = length mout) ->
  lin_export_ok R s iw ib = true.
Proof.
  intros M Hin HW HB. unfold lin_export_ok, lin_in_features_opt_gen.
  rewrite ?(m0_fm _ _ M), ?(m0_out _ _ M), ?Hin, ?map_q2b_bfloat, ?in_features_count.
  cbv zeta. cbn [nl_in nl_out nl_has_bias].
  pose proof (all2_sel_rows _ _ _ mout HW eq_refl) as HW0. pose proof (all2_sel_cols _ _ _ min HW0 eq_refl) as HW1.
  pose proof (all2_sel_cols _ _ _ min HW eq_refl) as HW0'. pose proof (all2_sel_rows _ _ _ mout HW0' eq_refl) as HW1'.
  destruct (ls_bias s) as [bl|] eqn:Eb; [specialize (HB bl eq_refl)|]; cbn [is_none negb]; cbv beta iota zeta.
  all: split_ands.
  all: ok_leaf.
Qed.

Theorem bn_export_ok_true (s : bn_self R) min iw ib im iv : bs_in_mask s = bfloat min ->
  (bs_affine s = true -> length (bs_weight s) = length min /\ length (bs_bias s) = length min) ->
  (forall l, bs_mean s = Some l -> length l = length min /\ bs_track s = true) -> (forall l, bs_var s = Some l -> length l = length min /\ bs_track s = true) ->
  bn1_export_ok R s iw ib im iv = true /\ bn2_export_ok R s iw ib im iv = true.
Proof.
  intros Hin HA HM HV.
  unfold bn1_export_ok, bn2_export_ok, bn1_out_features_opt_gen, bn1_in_features_opt_gen, bn2_out_features_opt_gen, bn2_in_features_opt_gen.
  rewrite ?Hin, ?map_q2b_bfloat, ?in_features_count. cbv zeta. cbn [nb_features nb_affine nb_track].
  destruct (bs_affine s); [destruct (HA eq_refl) as [HA1 HA2]|]; cbv beta iota zeta.
  all: destruct (bs_mean s) as [lm|]; [destruct (HM lm eq_refl) as [HM1 HM2]|]; cbv beta iota zeta.
  all: destruct (bs_var s) as [lv|]; [destruct (HV lv eq_refl) as [HV1 HV2]|]; cbv beta iota zeta.
  all: rewrite ?HM2, ?HV2; cbn [is_none negb].
  all: split; split_ands; ok_leaf.
Qed.
End ExportDefined.

(* shapes are preserved by the mask products *)
Lemma scale_rows_length {A} (f : Q -> A -> A) m (w : list A) : length m = length w -> length (scale_rows f m w) = length w.
Proof. intro H. unfold scale_rows. rewrite map_length, combine_length. lia. Qed.
Lemma scale_rows_Forall {A} (P P2 : A -> Prop) (f : Q -> A -> A) m (w : list A) : (forall x a, P a -> P2 (f x a)) -> Forall P w -> Forall P2 (scale_rows f m w).
Proof.
  intros H F. revert m. induction F as [|a w Ha _ IH]; intros [|x m]; try constructor; unfold scale_rows in *; cbn.
  - apply H. exact Ha.
  - apply IH.
Qed.
Lemma all2_map_map {A} (g : A -> A) (x : list (list A)) b c : all2 x b c -> all2 (map (map g) x) b c.
Proof. intros [H1 H2]. split; [rewrite map_length; exact H1|]. apply Forall_map'. eapply Forall_imp; [|exact H2]. intros r Hr. cbv beta. rewrite map_length. exact Hr. Qed.

Section ForwardDefined.
Variable R : Type.
Variables (r0 r1 : R) (radd rmul : R -> R -> R).

Lemma mul1_length l m (v : list R) : length m = length v -> length (mul1 r0 r1 rmul l m v) = length v.
Proof. apply scale_rows_length. Qed.
Lemma all3_wmul3_ax0 l m (w : list (list (list R))) a b c : all3 w a b c -> length m = a -> all3 (wmul3_ax0 r0 r1 rmul l m w) a b c.
Proof.
  intros [H1 H2] Hm. split; [unfold wmul3_ax0; rewrite scale_rows_length; lia|]. unfold wmul3_ax0.
  apply (scale_rows_Forall (fun x => all2 x b c)); [|exact H2]. intros x y Hy. apply all2_map_map. exact Hy.
Qed.
Lemma all3_wmul3_ax2 l m (w : list (list (list R))) a b c : all3 w a b c -> length m = c -> all3 (wmul3_ax2 r0 r1 rmul l m w) a b c.
Proof.
  intros [H1 H2] Hm. split; [unfold wmul3_ax2; rewrite map_length; exact H1|]. unfold wmul3_ax2. apply Forall_map'. eapply Forall_imp; [|exact H2].
  intros x [Hx1 Hx2]. cbv beta. split; [rewrite map_length; exact Hx1|]. apply Forall_map'. eapply Forall_imp; [|exact Hx2]. intros r Hr. cbv beta in *. rewrite mul1_length; lia.
Qed.

Ltac fwd_leaf := ok_leaf; try match goal with
  | |- rows_len3 _ _ = true => eapply all3_rows_len3; [eassumption|rewrite ?bfloat_length; reflexivity]
  | |- (length _ =? length (wmul3_ax2 _ _ _ _ _ _)) = true => unfold wmul3_ax2; rewrite map_length; ok_leaf
  end.

Theorem c1_forward_ok_true (s : conv1d_self R) mout tm k' d' x : masks1 (c1s_masks s) mout tm k' d' -> c1_geom_ok s = true ->
  (exists wcin, all3 (c1s_weight s) (length mout) wcin (length tm)) -> (forall bl, c1s_bias s = Some bl -> length bl = length mout) ->
  c1_forward_ok R r0 r1 radd rmul s x = true.
Proof.
  intros M G [wcin HW] HB. unfold c1_forward_ok.
  rewrite ?(m1_fmd _ _ _ _ _ M), ?(m1_tmd _ _ _ _ _ M), ?(m1_fm _ _ _ _ _ M), ?(m1_tm _ _ _ _ _ M), ?(m1_ok1 _ _ _ _ _ M), ?(m1_ok2 _ _ _ _ _ M), ?G.
  cbv zeta.
  assert (Hm : length (bfloat mout) = length mout) by apply bfloat_length. assert (Ht : length (bfloat tm) = length tm) by apply bfloat_length.
  pose proof (all3_wmul3_ax0 true _ _ _ _ _ HW Hm) as W1. pose proof (all3_wmul3_ax0 false _ _ _ _ _ HW Hm) as W2.
  pose proof (all3_wmul3_ax2 true _ _ _ _ _ HW Ht) as W3. pose proof (all3_wmul3_ax2 false _ _ _ _ _ HW Ht) as W4.
  destruct (c1s_fold_bn s); cbv beta iota zeta.
  all: destruct (c1s_bias s) as [bl|] eqn:Eb; [specialize (HB bl eq_refl)|]; cbv beta iota zeta.
  all: split_ands; fwd_leaf.
Qed.

Theorem c2_forward_ok_true (s : conv2d_self R) mout x : masks2 (c2s_masks s) mout -> c2_geom_ok s = true ->
  length (c2s_weight s) = length mout -> (forall bl, c2s_bias s = Some bl -> length bl = length mout) ->
  c2_forward_ok R r0 r1 radd rmul s x = true.
Proof.
  intros M G HW HB. unfold c2_forward_ok. rewrite ?(m2_fmd _ _ M), ?(m2_fm _ _ M), ?G. cbv zeta.
  assert (Hm : length (bfloat mout) = length (c2s_weight s)) by (rewrite bfloat_length; symmetry; exact HW).
  destruct (c2s_fold_bn s); cbv beta iota zeta.
  all: destruct (c2s_bias s) as [bl|] eqn:Eb; [specialize (HB bl eq_refl)|]; cbv beta iota zeta.
  all: split_ands; ok_leaf; try (apply Nat.eqb_eq; rewrite ?bfloat_length; congruence).
Qed.

Theorem lin_forward_ok_true (s : linear_self R) mout x : masks0 (ls_masks s) mout ->
  length (ls_weight s) = length mout -> (forall bl, ls_bias s = Some bl -> length bl = length mout) ->
  lin_forward_ok R r0 r1 radd rmul s x = true.
Proof.
  intros M HW HB. unfold lin_forward_ok. rewrite ?(m0_fmd _ _ M), ?(m0_fm _ _ M). cbv zeta.
  assert (Hm : length (bfloat mout) = length (ls_weight s)) by (rewrite bfloat_length; symmetry; exact HW).
  destruct (ls_fold_bn s); cbv beta iota zeta.
  all: destruct (ls_bias s) as [bl|] eqn:Eb; [specialize (HB bl eq_refl)|]; cbv beta iota zeta.
  all: split_ands; ok_leaf; try (apply Nat.eqb_eq; rewrite ?bfloat_length; congruence).
Qed.
End ForwardDefined.

(* ---------------------------------------------------------------- the layer-level sentences of C01, between the GENERATED forward and the
   layer the GENERATED export describes *)
Section Sentences.
Variable R : Type.
Variables (r0 r1 : R) (radd rmul : R -> R -> R).
Hypothesis L : laws r0 r1 radd rmul.

(* the BatchNorm export re-creates gets the statistics of the one it replaces (the property's proviso): sliced coefficients *)
Definition exported_bn_coef (nb : option bn_new) (mout : list bool) (coef : option (list R * list R)) : option (list R * list R) :=
  match nb with Some _ => slice_bn mout coef | None => None end.
(* the exported Conv1d as the result of export describes it: new hyper-parameters, sliced parameters, fed through the new pad *)
Definition exp1_at (dw : bool) (e : conv1d_exported R) (coef : option (list R * list R)) (mout : list bool) (x : nat -> Z -> R) (co : nat) (t : Z) : R :=
  let l := x1_layer e in
  bn_at r0 radd rmul (exported_bn_coef (x1_bn e) mout coef) co
    (conv1d_at r0 radd rmul dw (x1_weight e) (x1_bias e) (Z.to_nat (nc_in l)) (Z.to_nat (nc_kernel l)) (nc_dilation l) (Z.of_nat (nc_stride l))
       (fun i => padl (match x1_pad e with Some p => Z.to_nat p | None => 0 end) (x i)) co t).
Definition exp2_at (dw : bool) (e : conv2d_exported R) (coef : option (list R * list R)) (mout : list bool) (x : nat -> Z -> Z -> R) (co : nat) (h v : Z) : R :=
  let l := x2_layer e in let kh := fst (n2_kernel l) in let kw := snd (n2_kernel l) in let d := fst (n2_dilation l) in
  bn_at r0 radd rmul (exported_bn_coef (x2_bn e) mout coef) co
    (conv2d_at r0 radd rmul dw (x2_weight e) (x2_bias e) (Z.to_nat (n2_in l)) kh kw (Z.of_nat d) (Z.of_nat (fst (n2_stride l)))
       (Z.of_nat (fst (pad2_of (n2_padding l) kh kw d))) (Z.of_nat (snd (pad2_of (n2_padding l) kh kw d))) x co h v).
Definition exp0_at (e : linear_exported R) (coef : option (list R * list R)) (mout : list bool) (x : nat -> R) (co : nat) : R :=
  bn_at r0 radd rmul (exported_bn_coef (xl_bn e) mout coef) co (linear_at r0 radd rmul (xl_weight e) (xl_bias e) (Z.to_nat (nl_in (xl_layer e))) x co).

Lemma exported_bn_coef_eq (bn : option (fbn R)) fold mout :
  exported_bn_coef (new_bn_of bn fold (count_true mout)) mout (option_map fb_coef bn) = if fold then None else slice_bn mout (option_map fb_coef bn).
Proof. destruct bn as [m|], fold; reflexivity. Qed.

(* the hand model's layer theorem for any time mask whose kept taps form a progression (Proofs/Conv.v, four cases) *)
Lemma layer1_eq (fold dw : bool) (w : w3 R) b bn (cout cin : nat) K K' sp d s mout min tm (x : nat -> Z -> R) co' t :
  shape3 R w cout (if dw then 1 else cin) K -> bias_ok R b cout -> bn_ok R bn cout -> length mout = cout -> length min = cin -> length tm = K ->
  kept_lags K tm = export_lags K' sp ->
  (forall ci, ci < cin -> nth ci min false = false -> forall u, x ci u = r0) -> co' < count_true mout ->
  pit_conv1d_at r0 r1 radd rmul true fold dw w b bn cin K (Z.of_nat d) s mout tm (fun ci => padl ((K - 1) * d) (x ci)) (nth co' (kept mout) 0) t
  = bn_at r0 radd rmul (if fold then None else slice_bn mout bn) co'
      (conv1d_at r0 radd rmul dw (export_w3 dw mout min tm w) (export_bias mout b) (count_true min) K' (Z.of_nat (sp * d)) s
         (fun i => padl ((K' - 1) * (sp * d)) (x (nth i (kept (if dw then mout else min)) 0))) co' t).
Proof.
  destruct L as (H1 & H2 & H3 & H4 & H5). intros Hs Hb Hbn Hmo Hmi Htm Hl Hdead Hco.
  destruct fold, dw; cbn [bn_at].
  - pose proof (conv1d_export_eq_fold_dw R r0 r1 radd rmul H1 H2 H3 H4 H5 true w b bn cout K K' sp d s mout min tm x co' t Hs Hb Hmo Htm Hl Hco) as E.
    (* a depthwise layer reads x co: its own channel count is the producer's *)
    unfold pit_conv1d_at in *. unfold conv1d_at in *. exact E.
  - exact (conv1d_export_eq_fold_full R r0 r1 radd rmul H1 H2 H3 H4 H5 true w b bn cout cin K K' sp d s mout min tm x co' t Hs Hb Hmo Hmi Htm Hl Hdead Hco).
  - pose proof (conv1d_export_eq_dw R r0 r1 radd rmul H1 H2 H3 H4 H5 true w b bn cout K K' sp d s mout min tm x co' t Hs Hb Hbn Hmo Htm Hl Hco) as E.
    unfold pit_conv1d_at in *. unfold conv1d_at in *. exact E.
  - exact (conv1d_export_eq_full R r0 r1 radd rmul H1 H2 H3 H4 H5 true w b bn cout cin K K' sp d s mout min tm x co' t Hs Hb Hbn Hmo Hmi Htm Hl Hdead Hco).
Qed.

Lemma conv1d_layer_is_dw (dw fold : bool) (w : w3 R) b bn cin cout K d0 st ms inm :
  (dw = true -> cin = cout) -> (dw = false -> ~ (cin = 1 /\ cout = 1)) -> c1_is_dw (conv1d_layer dw fold w b bn cin cout K d0 st ms inm) = dw.
Proof.
  intros H1 H2. unfold c1_is_dw, conv1d_layer. cbn. destruct dw.
  - rewrite (H1 eq_refl), Nat.eqb_refl. reflexivity.
  - destruct (Nat.eqb_spec 1 cin), (Nat.eqb_spec 1 cout); try reflexivity. exfalso. apply (H2 eq_refl). split; congruence.
Qed.

(* PITConv1d, any masks whose kept taps are a progression of spacing sp (k' taps): on every alive output channel and at every time
   step the generated forward (input behind the causal pad (K-1)*d0) equals the layer the generated export describes (its weight,
   bias, in/out channels, kernel size, dilation, stride, its new pad, its BatchNorm with the sliced coefficients), fed with the
   alive channels of the input; depthwise and full, fold_bn on and off *)
Theorem gen_layer1_eq (fold dw : bool) (w : w3 R) b (bn : option (fbn R)) (cin cout K d0 st : nat) ms (min mout tm : list bool) k' sp (x : nat -> Z -> R) co' t iw ib :
  masks1 ms mout tm k' (sp * d0) -> kept_lags K tm = export_lags k' sp -> 1 <= k' -> length tm = K ->
  shape3 R w cout (if dw then 1 else cin) K -> bias_ok R b cout -> bn_ok R (option_map fb_coef bn) cout -> length mout = cout -> length min = cin ->
  (dw = true -> cin = cout) -> (dw = false -> ~ (cin = 1 /\ cout = 1)) ->
  (forall ci, ci < cin -> nth ci min false = false -> forall u, x ci u = r0) -> co' < count_true mout ->
  let s := conv1d_layer dw fold w b bn cin cout K d0 st ms (bfloat min) in
  c1_forward_gen R r0 r1 radd rmul s (fun ci => padl ((K - 1) * d0) (x ci)) (nth co' (kept mout) 0) t
  = exp1_at dw (c1_export_gen R s iw ib) (option_map fb_coef bn) mout (fun i => x (nth i (kept (if dw then mout else min)) 0)) co' t.
Proof.
  intros M Hl Hk Htm Hs Hb Hbn Hmo Hmi Hd1 Hd2 Hdead Hco s.
  pose proof (conv1d_layer_is_dw dw fold w b bn cin cout K d0 st ms (bfloat min) Hd1 Hd2) as Hdw. fold s in Hdw.
  rewrite (c1_forward_gen_eq R r0 r1 radd rmul L s mout tm k' (sp * d0) M).
  destruct (c1_export_gen_eq R s mout min tm k' (sp * d0) iw ib M eq_refl Hk) as (E1 & E2 & E3 & E4 & E5).
  unfold exp1_at. rewrite E1, E2, E3, E4, E5, Hdw. cbn [nc_in nc_kernel nc_dilation nc_stride].
  unfold s, conv1d_layer. cbn [c1s_fold_bn c1s_weight c1s_bias c1s_bn c1s_in_channels c1s_kernel_size c1s_dilation c1s_stride c1s_padding].
  change (pad_zero (PadTuple [0])) with true. cbv iota. rewrite !Nat2Z.id, exported_bn_coef_eq.
  apply (layer1_eq fold dw w b (option_map fb_coef bn) cout cin K k' sp d0); assumption.
Qed.

(* the same sentence for the layers graph.py builds: features masker with theta `th` (trainable on alpha, frozen, or observed),
   time-axis maskers on K taps, trainable (every real beta, gamma) or frozen (stride <> 1) *)
Theorem gen_conv1d_export_eq (frozen_t fold dw : bool) (w : w3 R) b (bn : option (fbn R)) (cin cout K d0 st : nat) th beta gamma (min mout : list bool) (x : nat -> Z -> R) co' t iw ib :
  1 <= K -> length beta = K -> length gamma = gamma_len K -> theta_is th mout ->
  shape3 R w cout (if dw then 1 else cin) K -> bias_ok R b cout -> bn_ok R (option_map fb_coef bn) cout -> length mout = cout -> length min = cin ->
  (dw = true -> cin = cout) -> (dw = false -> ~ (cin = 1 /\ cout = 1)) ->
  (forall ci, ci < cin -> nth ci min false = false -> forall u, x ci u = r0) -> co' < count_true mout ->
  let s := conv1d_layer dw fold w b bn cin cout K d0 st (masks_obj frozen_t K d0 th beta gamma) (bfloat min) in
  c1_forward_gen R r0 r1 radd rmul s (fun ci => padl ((K - 1) * d0) (x ci)) (nth co' (kept mout) 0) t
  = exp1_at dw (c1_export_gen R s iw ib) (option_map fb_coef bn) mout (fun i => x (nth i (kept (if dw then mout else min)) 0)) co' t.
Proof.
  intros HK Hb Hg Hth Hs Hbi Hbn Hmo Hmi Hd1 Hd2 Hdead Hco.
  destruct frozen_t.
  - pose proof (masks1_frozen K d0 th mout beta gamma HK Hth) as M. rewrite <- (Nat.mul_1_l d0) in M at 2.
    apply (gen_layer1_eq fold dw w b bn cin cout K d0 st _ min mout (all_true K) K 1); try assumption.
    + apply frozen_lags.
    + unfold all_true. apply repeat_length.
  - destruct (kept_taps_progression K d0 beta gamma HK Hb Hg) as (v & _ & Hd & Hl & Hk).
    pose proof (masks1_trainable K d0 th mout beta gamma HK Hb Hg Hth) as M. rewrite Hd in M.
    apply (gen_layer1_eq fold dw w b bn cin cout K d0 st _ min mout (time_mask true K beta gamma) (kernel_size_opt true K beta gamma) (2 ^ v)); try assumption.
    apply time_mask_length. exact Hb.
Qed.

(* masked-out channels are exactly zero (fold_bn off: after the fused BatchNorm; fold_bn on: repaired code, bias masked) *)
Theorem gen_dead_out_zero1 (s : conv1d_self R) mout tm k' d' x co t : masks1 (c1s_masks s) mout tm k' d' ->
  length mout = length (c1s_weight s) -> bias_ok R (c1s_bias s) (length mout) -> nth co mout false = false ->
  c1_forward_gen R r0 r1 radd rmul s x co t = r0.
Proof.
  intros M Hw Hb Hd. rewrite (c1_forward_gen_eq R r0 r1 radd rmul L s mout tm k' d' M).
  destruct (L_dead_out_zero_fold R r0 r1 radd rmul L) as (F1 & _ & _). destruct (L_dead_out_zero R r0 r1 radd rmul L) as (N1 & _ & _ & _).
  destruct (c1s_fold_bn s); [apply F1|apply N1]; assumption.
Qed.
Theorem gen_dead_out_zero2 (s : conv2d_self R) mout x co h v : masks2 (c2s_masks s) mout ->
  length mout = length (c2s_weight s) -> bias_ok R (c2s_bias s) (length mout) -> nth co mout false = false ->
  c2_forward_gen R r0 r1 radd rmul s x co h v = r0.
Proof.
  intros M Hw Hb Hd. rewrite (c2_forward_gen_eq R r0 r1 radd rmul L s mout M).
  destruct (L_dead_out_zero_fold R r0 r1 radd rmul L) as (_ & F2 & _). destruct (L_dead_out_zero R r0 r1 radd rmul L) as (_ & N2 & _ & _).
  destruct (c2s_fold_bn s); [apply F2|apply N2]; assumption.
Qed.
Theorem gen_dead_out_zero0 (s : linear_self R) mout x co : masks0 (ls_masks s) mout ->
  length mout = length (ls_weight s) -> bias_ok R (ls_bias s) (length mout) -> nth co mout false = false ->
  lin_forward_gen R r0 r1 radd rmul s x co = r0.
Proof.
  intros M Hw Hb Hd. rewrite (lin_forward_gen_eq R r0 r1 radd rmul L s mout M).
  destruct (L_dead_out_zero_fold R r0 r1 radd rmul L) as (_ & _ & F3). destruct (L_dead_out_zero R r0 r1 radd rmul L) as (_ & _ & N3 & _).
  destruct (ls_fold_bn s); [apply F3|apply N3]; assumption.
Qed.

Lemma layer2_eq (fold dw : bool) (w : w4 R) b bn (cout cin : nat) kh kw d s ph pw (mout min : list bool) (x : nat -> Z -> Z -> R) co' h v :
  shape4 R w cout (if dw then 1 else cin) -> bias_ok R b cout -> bn_ok R bn cout -> length mout = cout -> length min = cin ->
  (forall ci, ci < cin -> nth ci min false = false -> forall a c, x ci a c = r0) -> co' < count_true mout ->
  pit_conv2d_at r0 r1 radd rmul true fold dw w b bn cin kh kw d s ph pw mout x (nth co' (kept mout) 0) h v
  = bn_at r0 radd rmul (if fold then None else slice_bn mout bn) co'
      (conv2d_at r0 radd rmul dw (export_w4 dw mout min w) (export_bias mout b) (count_true min) kh kw d s ph pw
         (fun i => x (nth i (kept (if dw then mout else min)) 0)) co' h v).
Proof.
  intros Hs Hb Hbn Hmo Hmi Hdead Hco. destruct fold, dw; cbn [bn_at].
  - pose proof (L_conv2d_export_eq_fold_dw R r0 r1 radd rmul L true w b bn cout kh kw d s ph pw mout min x co' h v Hs Hb Hmo Hco) as E.
    unfold pit_conv2d_at in *. unfold conv2d_at in *. exact E.
  - exact (L_conv2d_export_eq_fold R r0 r1 radd rmul L true w b bn cout cin kh kw d s ph pw mout min x co' h v Hs Hb Hmo Hmi Hdead Hco).
  - pose proof (L_conv2d_export_eq_dw R r0 r1 radd rmul L true w b bn cout kh kw d s ph pw mout min x co' h v Hs Hb Hbn Hmo Hco) as E.
    unfold pit_conv2d_at in *. unfold conv2d_at in *. exact E.
  - exact (L_conv2d_export_eq R r0 r1 radd rmul L true w b bn cout cin kh kw d s ph pw mout min x co' h v Hs Hb Hbn Hmo Hmi Hdead Hco).
Qed.

Lemma conv2d_layer_is_dw (dw fold : bool) (w : w4 R) b bn cin cout ks st dil pad ms inm :
  (dw = true -> cin = cout) -> (dw = false -> ~ (cin = 1 /\ cout = 1)) -> c2_is_dw (conv2d_layer dw fold w b bn cin cout ks st dil pad ms inm) = dw.
Proof.
  intros H1 H2. unfold c2_is_dw, conv2d_layer. cbn. destruct dw.
  - rewrite (H1 eq_refl), Nat.eqb_refl. reflexivity.
  - destruct (Nat.eqb_spec 1 cin), (Nat.eqb_spec 1 cout); try reflexivity. exfalso. apply (H2 eq_refl). split; congruence.
Qed.

(* PITConv2d (kernel / stride / padding / dilation are copied), depthwise and full, fold_bn on and off *)
Theorem gen_conv2d_export_eq (fold dw : bool) (w : w4 R) b (bn : option (fbn R)) (cin cout : nat) ks st dil pad th (min mout : list bool) (x : nat -> Z -> Z -> R) co' h v iw ib :
  theta_is th mout -> shape4 R w cout (if dw then 1 else cin) -> bias_ok R b cout -> bn_ok R (option_map fb_coef bn) cout -> length mout = cout -> length min = cin ->
  (dw = true -> cin = cout) -> (dw = false -> ~ (cin = 1 /\ cout = 1)) ->
  (forall ci, ci < cin -> nth ci min false = false -> forall a c, x ci a c = r0) -> co' < count_true mout ->
  let s := conv2d_layer dw fold w b bn cin cout ks st dil pad (feat_masks c2_default_binarization_threshold th) (bfloat min) in
  c2_forward_gen R r0 r1 radd rmul s x (nth co' (kept mout) 0) h v
  = exp2_at dw (c2_export_gen R s iw ib) (option_map fb_coef bn) mout (fun i => x (nth i (kept (if dw then mout else min)) 0)) co' h v.
Proof.
  intros Hth Hs Hb Hbn Hmo Hmi Hd1 Hd2 Hdead Hco s.
  pose proof (masks2_of th mout Hth) as M.
  pose proof (conv2d_layer_is_dw dw fold w b bn cin cout ks st dil pad (feat_masks c2_default_binarization_threshold th) (bfloat min) Hd1 Hd2) as Hdw. fold s in Hdw.
  rewrite (c2_forward_gen_eq R r0 r1 radd rmul L s mout M).
  destruct (c2_export_gen_eq R s mout min iw ib M eq_refl) as (E1 & E2 & E3 & E4).
  unfold exp2_at. rewrite E1, E2, E3, E4, Hdw. cbn [n2_in n2_kernel n2_dilation n2_stride n2_padding].
  unfold s, conv2d_layer. cbn [c2s_fold_bn c2s_weight c2s_bias c2s_bn c2s_in_channels c2s_kernel_size c2s_dilation c2s_stride c2s_padding].
  rewrite !Nat2Z.id, exported_bn_coef_eq.
  apply (layer2_eq fold dw w b (option_map fb_coef bn) cout cin); assumption.
Qed.

Lemma layer0_eq (fold : bool) (w : list (list R)) b bn (cout cin : nat) (mout min : list bool) (x : nat -> R) co' :
  shape2 R w cout cin -> bias_ok R b cout -> bn_ok R bn cout -> length mout = cout -> length min = cin ->
  (forall ci, ci < cin -> nth ci min false = false -> x ci = r0) -> co' < count_true mout ->
  pit_linear_at r0 r1 radd rmul true fold w b bn cin mout x (nth co' (kept mout) 0)
  = bn_at r0 radd rmul (if fold then None else slice_bn mout bn) co'
      (linear_at r0 radd rmul (export_w2 mout min w) (export_bias mout b) (count_true min) (fun i => x (nth i (kept min) 0)) co').
Proof.
  intros Hs Hb Hbn Hmo Hmi Hdead Hco. destruct fold; cbn [bn_at].
  - exact (L_linear_export_eq_fold R r0 r1 radd rmul L true w b bn cout cin mout min x co' Hs Hb Hmo Hmi Hdead Hco).
  - exact (L_linear_export_eq R r0 r1 radd rmul L true w b bn cout cin mout min x co' Hs Hb Hbn Hmo Hmi Hdead Hco).
Qed.

(* PITLinear, fold_bn on and off *)
Theorem gen_linear_export_eq (fold : bool) (w : list (list R)) b (bn : option (fbn R)) (cin cout : nat) th (min mout : list bool) (x : nat -> R) co' iw ib :
  theta_is th mout -> shape2 R w cout cin -> bias_ok R b cout -> bn_ok R (option_map fb_coef bn) cout -> length mout = cout -> length min = cin ->
  (forall ci, ci < cin -> nth ci min false = false -> x ci = r0) -> co' < count_true mout ->
  let s := linear_layer fold w b bn cin cout (feat_masks lin_default_binarization_threshold th) (bfloat min) in
  lin_forward_gen R r0 r1 radd rmul s x (nth co' (kept mout) 0)
  = exp0_at (lin_export_gen R s iw ib) (option_map fb_coef bn) mout (fun i => x (nth i (kept min) 0)) co'.
Proof.
  intros Hth Hs Hb Hbn Hmo Hmi Hdead Hco s.
  pose proof (masks0_of th mout Hth) as M.
  rewrite (lin_forward_gen_eq R r0 r1 radd rmul L s mout M).
  destruct (lin_export_gen_eq R s mout min iw ib M eq_refl) as (E1 & E2 & E3 & E4).
  unfold exp0_at. rewrite E1, E2, E3, E4. cbn [nl_in].
  unfold s, linear_layer. cbn [ls_fold_bn ls_weight ls_bias ls_bn ls_in_features].
  rewrite !Nat2Z.id, exported_bn_coef_eq.
  apply (layer0_eq fold w b (option_map fb_coef bn) cout cin); assumption.
Qed.
End Sentences.

(* ---------------------------------------------------------------- the helpers the correspondence run evaluates are the model's *)
Lemma fbn_opt_coef {R} (bn : option (list R * list R)) : option_map fb_coef (fbn_opt bn) = bn.
Proof. destruct bn; reflexivity. Qed.

Theorem run_export1_gen_eq dw frozen has_bn fold K d0 beta gamma mout min w b :
  1 <= K -> length beta = K -> length gamma = gamma_len K ->
  (dw = true -> length min = length mout) -> (dw = false -> ~ (length min = 1 /\ length mout = 1)) ->
  run_export1_gen dw frozen has_bn fold K d0 beta gamma mout min w b
  = (run_export_w3 dw mout min (time_mask_of frozen K beta gamma) w, @export_bias Z mout b, run_hp dw frozen has_bn fold K d0 beta gamma mout min).
Proof.
  intros HK Hb Hg Hd1 Hd2. unfold run_export1_gen. cbv zeta.
  set (s := conv1d_layer dw fold w b (fbn_of has_bn ([], [])) (length min) (length mout) K d0 1 (masks_obj frozen K d0 (bfloat mout) beta gamma) (bfloat min)).
  pose proof (conv1d_layer_is_dw Z dw fold w b (fbn_of has_bn ([], [])) (length min) (length mout) K d0 1 (masks_obj frozen K d0 (bfloat mout) beta gamma) (bfloat min) Hd1 Hd2) as Hdw.
  fold s in Hdw.
  assert (HM : exists tm k' d', masks1 (c1s_masks s) mout tm k' d' /\ 1 <= k' /\ tm = time_mask_of frozen K beta gamma /\
                                k' = (if frozen then K else kernel_size_opt true K beta gamma) /\ d' = (if frozen then d0 else dilation_opt true K d0 gamma)).
  { destruct frozen.
    - exists (all_true K), K, d0. split; [exact (masks1_frozen K d0 (bfloat mout) mout beta gamma HK (theta_is_observed mout))|]. repeat split; assumption.
    - destruct (kept_taps_progression K d0 beta gamma HK Hb Hg) as (v & _ & _ & _ & Hk).
      exists (time_mask true K beta gamma), (kernel_size_opt true K beta gamma), (dilation_opt true K d0 gamma).
      split; [exact (masks1_trainable K d0 (bfloat mout) mout beta gamma HK Hb Hg (theta_is_observed mout))|]. repeat split; assumption. }
  destruct HM as (tm & k' & d' & M & Hk & Etm & Ek & Ed).
  destruct (c1_export_gen_eq Z s mout min tm k' d' [] [] M eq_refl Hk) as (E1 & E2 & E3 & E4 & E5).
  rewrite E1, E2, E3, E4, E5, (m1_tm _ _ _ _ _ M), map_q2b_bfloat, Hdw. cbn [nc_in nc_out nc_kernel nc_dilation nc_groups].
  unfold s, conv1d_layer. cbn [c1s_weight c1s_bias c1s_bn c1s_fold_bn c1s_padding c1s_groups].
  change (pad_zero (PadTuple [0])) with true. cbv iota.
  unfold run_export_w3, run_hp, export_conv1d_hp. cbn [hp_in hp_out hp_k hp_dil hp_groups hp_pad hp_bn]. rewrite <- Etm, <- Ek, <- Ed.
  replace (Z.to_nat (if dw then Z.of_nat (count_true min) else Z.of_nat (if dw then length mout else 1))) with (if dw then count_true min else 1) by (destruct dw; rewrite Nat2Z.id; reflexivity).
  rewrite !Nat2Z.id.
  replace (option_map (fun n : bn_new => Z.to_nat (nb_features n)) (new_bn_of (fbn_of has_bn ([], [])) fold (count_true mout)))
    with (if has_bn && negb fold then Some (count_true mout) else None) by (destruct has_bn, fold; cbn; rewrite ?Nat2Z.id; reflexivity).
  reflexivity.
Qed.

Theorem run_pit_conv1d_gen_eq fold dw w b bn cin K d st frozen alpha beta gamma x :
  1 <= K -> length beta = K -> length gamma = gamma_len K -> alpha <> [] ->
  (dw = true -> cin = length w) -> (dw = false -> ~ (cin = 1 /\ length w = 1)) ->
  run_pit_conv1d_gen fold dw w b bn cin K d st frozen alpha beta gamma x
  = run_pit_conv1d true fold dw w b bn cin K d st (features_mask alpha) (time_mask_of frozen K beta gamma) x.
Proof.
  intros HK Hb Hg Ha Hd1 Hd2. unfold run_pit_conv1d_gen, run_pit_conv1d. cbv zeta.
  assert (HC : 1 <= length alpha) by (destruct alpha; [congruence|cbn; lia]).
  pose proof (theta_is_alpha (length alpha) alpha HC eq_refl) as Hth.
  set (ms := masks_obj frozen K d (fm_theta_gen (length alpha) fm_default_keep_alive_channels alpha) beta gamma).
  set (s := conv1d_layer dw fold w b (fbn_opt bn) cin (length w) K d st ms []).
  pose proof (conv1d_layer_is_dw Z dw fold w b (fbn_opt bn) cin (length w) K d st ms [] Hd1 Hd2) as Hdw. fold s in Hdw.
  assert (HM : exists k' d', masks1 (c1s_masks s) (features_mask alpha) (time_mask_of frozen K beta gamma) k' d').
  { destruct frozen; [exists K, d; exact (masks1_frozen K d _ _ beta gamma HK Hth)|].
    eexists _, _. exact (masks1_trainable K d _ _ beta gamma HK Hb Hg Hth). }
  destruct HM as (k' & d' & M).
  apply map_ext. intro co. apply map_ext. intro t.
  rewrite (c1_forward_gen_eq Z 0%Z 1%Z Z.add Z.mul laws_Z s _ _ k' d' M). rewrite Hdw.
  unfold s, conv1d_layer. cbn [c1s_fold_bn c1s_weight c1s_bias c1s_bn c1s_in_channels c1s_kernel_size c1s_dilation c1s_stride]. rewrite fbn_opt_coef. reflexivity.
Qed.

Theorem run_export2_gen_eq dw has_bn fold mout min w b :
  (dw = true -> length min = length mout) -> (dw = false -> ~ (length min = 1 /\ length mout = 1)) ->
  run_export2_gen dw has_bn fold mout min w b
  = (run_export_w4 dw mout min w, @export_bias Z mout b,
     (count_true min, count_true mout, if dw then count_true min else 1, if has_bn && negb fold then Some (count_true mout) else None)).
Proof.
  intros Hd1 Hd2. unfold run_export2_gen. cbv zeta.
  set (ms := feat_masks c2_default_binarization_threshold (bfloat mout)).
  set (s := conv2d_layer dw fold w b (fbn_of has_bn ([], [])) (length min) (length mout) (1, 1) (1, 1) (1, 1) PadValid ms (bfloat min)).
  pose proof (conv2d_layer_is_dw Z dw fold w b (fbn_of has_bn ([], [])) (length min) (length mout) (1, 1) (1, 1) (1, 1) PadValid ms (bfloat min) Hd1 Hd2) as Hdw. fold s in Hdw.
  pose proof (masks2_of (bfloat mout) mout (theta_is_observed mout)) as M.
  destruct (c2_export_gen_eq Z s mout min [] [] M eq_refl) as (E1 & E2 & E3 & E4).
  rewrite E1, E2, E3, E4, Hdw. cbn [n2_in n2_out n2_groups]. unfold s, conv2d_layer. cbn [c2s_weight c2s_bias c2s_bn c2s_fold_bn c2s_groups].
  replace (Z.to_nat (if dw then Z.of_nat (count_true min) else Z.of_nat (if dw then length mout else 1))) with (if dw then count_true min else 1) by (destruct dw; rewrite Nat2Z.id; reflexivity).
  rewrite !Nat2Z.id.
  replace (option_map (fun n : bn_new => Z.to_nat (nb_features n)) (new_bn_of (fbn_of has_bn ([], [])) fold (count_true mout)))
    with (if has_bn && negb fold then Some (count_true mout) else None) by (destruct has_bn, fold; cbn; rewrite ?Nat2Z.id; reflexivity).
  reflexivity.
Qed.

Theorem run_export0_gen_eq has_bn fold mout min w b :
  run_export0_gen has_bn fold mout min w b
  = (run_export_w2 mout min w, @export_bias Z mout b, (count_true min, count_true mout, if has_bn && negb fold then Some (count_true mout) else None)).
Proof.
  unfold run_export0_gen. cbv zeta.
  set (s := linear_layer fold w b (fbn_of has_bn ([], [])) (length min) (length mout) (feat_masks lin_default_binarization_threshold (bfloat mout)) (bfloat min)).
  pose proof (masks0_of (bfloat mout) mout (theta_is_observed mout)) as M.
  destruct (lin_export_gen_eq Z s mout min [] [] M eq_refl) as (E1 & E2 & E3 & E4).
  rewrite E1, E2, E3, E4. cbn [nl_in nl_out]. unfold s, linear_layer. cbn [ls_weight ls_bias ls_bn ls_fold_bn].
  rewrite !Nat2Z.id.
  replace (option_map (fun n : bn_new => Z.to_nat (nb_features n)) (new_bn_of (fbn_of has_bn ([], [])) fold (count_true mout)))
    with (if has_bn && negb fold then Some (count_true mout) else None) by (destruct has_bn, fold; cbn; rewrite ?Nat2Z.id; reflexivity).
  reflexivity.
Qed.
