(* Model/CalcMasks.v — composition of the PIT masker model (Model/Masks.v, over Q) with the network-level
   annotation model (Model/Calc.v): the mask assignment a network gets from ARBITRARY rational parameter
   vectors.  One vector `alpha c` per sharing component of build_shared_features_map (c = the component's
   representative as `masker_of` names it); a trainable component binarizes keep_alive(alpha c)
   (PITFeaturesMasker.theta + PITBinarizer), a frozen one uses the all-ones theta of PITFrozenFeaturesMasker;
   every searchable layer reads the mask of its component.  Definitions only. *)
From Coq Require Import QArith List Bool Arith.
Import ListNotations.
Require Import Plinio.Model.Masks Plinio.Model.Calc.
Local Open Scope nat_scope.

Definition comp_mask (nt : net) (alpha : nat -> list Q) (i : nat) : list bool :=
  match masker_of true nt i with
  | Some (c, true) => map bin (theta_alpha_frozen (alpha c))
  | Some (c, false) => features_mask (alpha c)
  | None => []
  end.

Definition search_layers (nt : net) : list nat :=
  filter (fun i => is_search_layer (node_at nt i)) (seq 0 (length nt)).

(* the parameter vector of a component has the width of the layers that read it *)
Definition alpha_ok_b (nt : net) (alpha : nat -> list Q) : bool :=
  forallb (fun i => match masker_of true nt i with
                    | Some (c, _) => length (alpha c) =? nth i (widths nt) 0
                    | None => false end) (search_layers nt).

(* no declared width is zero: inputs, layers, flatten multipliers *)
Definition pos_b (nt : net) : bool :=
  forallb (fun nd => match nd with
                     | NIn c => 1 <=? c | NLayer _ co _ _ => 1 <=? co | NFlat _ m _ => 1 <=? m
                     | _ => true end) nt.

(* helper for examples / the harness: parameter vectors given as an association list *)
Fixpoint qassoc (l : list (nat * list Q)) (c : nat) : list Q :=
  match l with [] => [] | (j, v) :: r => if j =? c then v else qassoc r c end.
Definition run_comp (nt : net) (l : list (nat * list Q)) :=
  let ms := comp_mask nt (qassoc l) in
  (alpha_ok_b nt (qassoc l), pos_b nt, map (fun i => (i, ms i)) (search_layers nt), xwidths nt ms, shape_ok true nt ms).
