(* C02 — MPS export is bit-identical to the eval-mode mixed-precision model.
   Statements only (model: Model/MpsNet.v, proofs: Proofs/MpsNet.v).

   Tensors V and coefficients S are abstract; the four algebraic premises (0*v = 0, 1*v = v, 0+v = v,
   v+0 = v) are what IEEE floats satisfy for finite v (up to the sign of zero, which torch.equal
   ignores) — visible premises, no axiom.  Layer functions (convolution, quantizers, bias quantizer,
   ReLU/pooling/flatten) are arbitrary functions: export re-uses the same objects, so whatever they
   compute they compute on both sides.  Networks: every list of nodes (any depth, width, fan-out). *)
From Coq Require Import List Arith Bool QArith ZArith.
Import ListNotations.
Require Import Plinio.Base.Qx Plinio.Model.MpsNet Plinio.Proofs.MpsNet.

(* sum_i onehot(k)_i * f_i = f_k, lists of any length, any k < length *)
Theorem C02_onehot_mix : forall (V S : Type) (s0 s1 : S) (vzero : V) (vadd : V -> V -> V) (smul : S -> V -> V),
  (forall v, smul s0 v = vzero) -> (forall v, smul s1 v = v) -> (forall v, vadd vzero v = v) -> (forall v, vadd v vzero = v) ->
  forall (fs : list V) (k : nat), (k < length fs)%nat ->
  mix V S vzero vadd smul (onehot s0 s1 k (length fs)) fs = nth k fs vzero.
Proof. exact onehot_mix. Qed.

(* whole network: one-hot coefficients => every node value of the MPS net = the exported net's *)
Theorem C02_export_sound_mps : forall (V S : Type) (s0 s1 : S) (vzero : V) (vadd : V -> V -> V) (smul : S -> V -> V),
  (forall v, smul s0 v = vzero) -> (forall v, smul s1 v = v) -> (forall v, vadd vzero v = v) -> (forall v, vadd v vzero = v) ->
  forall (qlen : qid -> nat) (qfun : qid -> nat -> V -> V) (qscale : qid -> nat -> V) (convf : nat -> V -> V -> V -> V)
    (weight bias : nat -> V) (biasq : nat -> V -> V -> V -> V) (propf : nat -> V -> V) (addf : V -> V -> V)
    (theta : qid -> list S) (selq : qid -> nat),
  (forall q, (selq q < qlen q)%nat /\ theta q = onehot s0 s1 (selq q) (qlen q)) ->
  forall (fixed shared : bool) (net : list node) (x : V),
  eval_mps V S vzero vadd smul qlen qfun qscale convf weight bias biasq propf addf fixed shared net theta x
  = eval_exp V vzero qfun qscale convf weight bias biasq propf addf fixed shared net selq x.
Proof. exact export_sound_mps. Qed.

(* with the eval-mode sampler postcondition of C10 (theta = one-hot at arg-max alpha) the exported
   selection is the arg-max that summary()/export() use *)
Theorem C02_export_sound_argmax : forall (V S : Type) (s0 s1 : S) (vzero : V) (vadd : V -> V -> V) (smul : S -> V -> V),
  (forall v, smul s0 v = vzero) -> (forall v, smul s1 v = v) -> (forall v, vadd vzero v = v) -> (forall v, vadd v vzero = v) ->
  forall qfun qscale convf weight bias biasq propf addf (alpha : qid -> list Q) (theta : qid -> list S),
  (forall q, alpha q <> [] /\ theta q = onehot s0 s1 (argmax (alpha q)) (length (alpha q))) ->
  forall fixed shared net x,
  eval_mps V S vzero vadd smul (fun q => length (alpha q)) qfun qscale convf weight bias biasq propf addf fixed shared net theta x
  = eval_exp V vzero qfun qscale convf weight bias biasq propf addf fixed shared net (sel alpha) x.
Proof. exact export_sound_argmax. Qed.

(* the exported layer carries the (input, output, weight) precisions that summary() reports *)
Theorem C02_export_layer_uses_selected : forall (alpha : qid -> list Q) (precs : qid -> list Z) fixed shared net i,
  export_precs precs (export_of alpha fixed shared net i) = summary_of alpha precs fixed shared net i.
Proof. exact export_layer_uses_selected. Qed.

(* repaired register_in_mps_quantizers: the input quantizer of a layer is the output quantizer object of
   the MPS layer p that last quantized the tensor it consumes (`produces`), for every well-formed net *)
Theorem C02_in_qtz_is_producer_out : forall net i nd s p, wf net = true ->
  nth_error net i = Some nd -> is_mps nd = true -> first_src nd = Some s -> produces net p s ->
  in_qid true net i = out_qid net p.
Proof. exact in_qtz_is_producer_out. Qed.

Theorem C02_export_in_precision_is_producer_out : forall (alpha : qid -> list Q) (precs : qid -> list Z) shared net i nd s p,
  wf net = true -> nth_error net i = Some nd -> is_mps nd = true -> first_src nd = Some s -> produces net p s ->
  fst (fst (summary_of alpha precs true shared net i)) = snd (fst (summary_of alpha precs true shared net p)).
Proof. exact export_in_precision_is_producer_out. Qed.

(* the unchanged wiring (walk along input_features_set_by to the features-DEFINING producer) reaches the
   same quantizer object — by the sharing partition, induction over the node list — except when the walk
   ends at the network input although a depthwise convolution / add re-quantized the tensor on the way *)
Theorem C02_in_qtz_old_wiring_guarded : forall net i nd s p, wf net = true ->
  nth_error net i = Some nd -> is_mps nd = true -> first_src nd = Some s -> produces net p s ->
  ((exists c, nth_error net p = Some (NIn c)) \/
   (exists nd', nth_error net (defprod net (S s) s) = Some nd' /\ (forall c, nd' <> NIn c))) ->
  in_qid false net i = out_qid net p.
Proof. exact in_qtz_old_wiring_guarded. Qed.

Theorem C02_in_qtz_old_wiring_refuted : exists net i nd s p, wf net = true /\
  nth_error net i = Some nd /\ is_layer nd = true /\ first_src nd = Some s /\ produces net p s /\
  in_qid false net i <> out_qid net p.
Proof. exact in_qtz_old_wiring_refuted. Qed.

(* width-sharing groups *)
Theorem C02_add_shares_out_qtz : forall net i a b, wf net = true -> nth_error net i = Some (NAdd a b) ->
  cls_of net i = cls_of net a /\ cls_of net i = cls_of net b.
Proof. exact add_shares_out_qtz. Qed.
Theorem C02_dw_shares_out_qtz : forall net i s c, wf net = true -> nth_error net i = Some (NDw s c) ->
  cls_of net i = cls_of net s.
Proof. exact dw_shares_out_qtz. Qed.

(* non-vacuity: a residual network (conv, depthwise, add, flatten, linear); the mixture over Q *)
Example C02_example :
  let net := [NIn 3; NConv 0 3 4; NProp 1; NDw 2 4; NAdd 2 3; NProp 4; NFlat 5 4; NLin 6 16 2] in
  wf net = true /\ classes net = [0; 1; 1; 1; 1; 1; 1; 7]%nat /\
  in_qid true net 7 = out_qid net 4 /\ in_qid false net 7 = out_qid net 4 /\ in_qid true net 1 = QIn /\
  produces net 4 6 /\
  mix Q Q 0 Qplus Qmult (onehot 0 1 1 3) [5; 7; 11] = 7.
Proof. repeat split; try (vm_compute; reflexivity).
  eapply prod_flat; [reflexivity|]. eapply prod_prop; [reflexivity|]. eapply prod_here; reflexivity. Qed.

Print Assumptions C02_onehot_mix.
Print Assumptions C02_export_sound_mps.
Print Assumptions C02_export_sound_argmax.
Print Assumptions C02_export_layer_uses_selected.
Print Assumptions C02_in_qtz_is_producer_out.
Print Assumptions C02_export_in_precision_is_producer_out.
Print Assumptions C02_in_qtz_old_wiring_guarded.
Print Assumptions C02_in_qtz_old_wiring_refuted.
Print Assumptions C02_add_shares_out_qtz.
Print Assumptions C02_dw_shares_out_qtz.
