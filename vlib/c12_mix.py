"""C12, SuperNet / MPS / ODiMO_MPS part: small fixed models, every applicable built-in spec, single and dictionary
specifications, seeded coefficient values.  Observations of cost / autograd on the implementation and the data the
Coq model (Model/CostGrad.v mix_cost / mps_layer_cost / wavg) is evaluated on."""
import math, random, traceback
from .common import *


# ----------------------------------------------------------------------------- fixed models
def _models(torch, gumbel=False):
    import torch.nn as nn
    from plinio.methods.supernet import SuperNetModule as _SNM

    def SuperNetModule(branches):      # hard Gumbel sampling is an option of the module's constructor
        return _SNM(branches, gumbel_softmax=gumbel, hard_softmax=gumbel)

    class M0(nn.Module):          # conv - conv - gap - linear
        def __init__(s, c1=8, c2=4):
            super().__init__()
            s.c = nn.Conv2d(3, c1, 3, padding=1); s.r = nn.ReLU(); s.c2 = nn.Conv2d(c1, c2, 3, padding=1)
            s.p = nn.AdaptiveAvgPool2d(1); s.f = nn.Linear(c2, 3)

        def forward(s, x):
            return s.f(torch.flatten(s.p(s.r(s.c2(s.r(s.c(x))))), 1))

    class M1(nn.Module):          # conv (no bias) - conv 1x1 - flatten - linear
        def __init__(s):
            super().__init__()
            s.c = nn.Conv2d(3, 6, 3, padding=1, bias=False); s.r = nn.ReLU(); s.c2 = nn.Conv2d(6, 5, 1)
            s.p = nn.AvgPool2d(2); s.f = nn.Linear(5 * 4 * 4, 4)

        def forward(s, x):
            return s.f(torch.flatten(s.p(s.r(s.c2(s.r(s.c(x))))), 1))

    class S0(nn.Module):          # two SuperNet modules (3 branches each), the second with a depthwise and an identity branch
        def __init__(s):
            super().__init__()
            s.a = SuperNetModule([nn.Conv2d(3, 4, 3, padding=1), nn.Sequential(nn.Conv2d(3, 4, 1), nn.ReLU(), nn.Conv2d(4, 4, 3, padding=1)), nn.Conv2d(3, 4, 5, padding=2)])
            s.b = SuperNetModule([nn.Conv2d(4, 4, 3, padding=1), nn.Conv2d(4, 4, 3, padding=1, groups=4), nn.Identity()])
            s.p = nn.AdaptiveAvgPool2d(1); s.f = nn.Linear(4, 3)

        def forward(s, x):
            return s.f(torch.flatten(s.p(s.b(torch.relu(s.a(x)))), 1))

    class S1(nn.Module):          # one module of 4 branches invoked twice + fixed convolution
        def __init__(s):
            super().__init__()
            s.b = SuperNetModule([nn.Conv2d(3, 3, 3, padding=1), nn.Sequential(nn.Conv2d(3, 3, 1), nn.Conv2d(3, 3, 3, padding=1)), nn.Identity(), nn.Conv2d(3, 3, 1, bias=False)])
            s.l = nn.Conv2d(3, 2, 1)

        def forward(s, x):
            return s.l(s.b(s.b(x)))
    class M2(nn.Module):          # residual network: the convolution c1 of the residual branch may be pruned completely
        def __init__(s):
            super().__init__()
            s.c0 = nn.Conv2d(3, 8, 3, padding=1); s.c1 = nn.Conv2d(8, 8, 3, padding=1); s.c2 = nn.Conv2d(8, 6, 3, padding=1)
            s.fc = nn.Linear(6 * 8 * 8, 3)

        def forward(s, x):
            x = torch.relu(s.c0(x))
            x = x + torch.relu(s.c1(x))
            x = torch.relu(s.c2(x))
            return s.fc(torch.flatten(x, 1))

    class S2(nn.Module):          # Linear layers fed with a 3-D (N, T, F) tensor: a 3-branch module + a fixed head
        def __init__(s):
            super().__init__()
            s.b = SuperNetModule([nn.Linear(8, 6), nn.Sequential(nn.Linear(8, 4), nn.ReLU(), nn.Linear(4, 6)), nn.Linear(8, 6, bias=False)])
            s.f = nn.Linear(6, 3)

        def forward(s, x):
            return s.f(torch.relu(s.b(x)))
    return {'M0': M0, 'M1': M1, 'M2': M2, 'S0': S0, 'S1': S1, 'S2': S2}


def _in_shape(mname):
    return (5, 8) if mname == 'S2' else (3, 8, 8)


def _finite_nonneg(v):
    return math.isfinite(v) and v >= 0


def _grads(torch, c, named):
    if not c.requires_grad or not named:          # a cost that is a constant: nothing receives a gradient
        return {n: None for n, _ in named}
    g = torch.autograd.grad(c, [q for _, q in named], allow_unused=True, retain_graph=True)
    return {n: (None if gg is None else [float(v) for v in gg.flatten()]) for (n, _), gg in zip(named, g)}


def _common_oracles(torch, o, p, which, c, get, xs, alpha_named, all_nas, tag):
    """value / gradient sentences shared by the three methods; returns grads of the alpha coefficients"""
    S = {'value': float(c)}
    if not _finite_nonneg(S['value']):
        o['fails'].append(('cost-not-finite-or-negative:' + tag, S['value']))
    gn = _grads(torch, c, all_nas)
    for n, gl in gn.items():
        if gl is not None and not all(math.isfinite(v) for v in gl):
            o['fails'].append(('gradient-not-finite:' + tag, n))
    netw = list(p.named_net_parameters())
    gw = _grads(torch, c, netw)
    bad = [n for n, gl in gw.items() if gl is not None and any(v != 0 for v in gl)]
    if bad:
        o['fails'].append(('gradient-reaches-network-weight:' + tag, bad[:3]))
    S['grad'] = {n: gn[n] for n, _ in alpha_named}
    return S


def _raise_oracle(torch, o, p, which, S, get, xs, coeffs, tag, strict_sign=True):
    """every coefficient whose increase raises the metric has a (positive) non-zero gradient.  "raises" is taken
    as a slope: the cost grows strictly over the steps +1/256, +1/16, +1/2, +1 -- a single jump of a rounded quantity
    (ceil of a fractional channel count) or the far side of a near-tie of the ODiMO soft-max reduction is not a slope; the straight-through estimators differentiate a surrogate"""
    def at(q, i, v):
        with torch.no_grad():
            q.view(-1)[i] = v
            p(*xs)
            return float(get())
    tol = 1 + 2.0 ** -17
    for n, q in coeffs:
        gl = S['grad'][n]
        for i in range(q.numel()):
            old = float(q.detach().view(-1)[i])
            cs = [S['value']]
            for d in (1 / 256.0, 1 / 16.0, 0.5, 1.0):
                cs.append(at(q, i, old + d))
                if not cs[-1] > cs[-2] * tol:
                    break
            at(q, i, old)
            if len(cs) == 5 and cs[-1] > cs[-2] * tol and strict_sign is False and gl is not None and gl[i] < 0:
                # the property asks for a NON-ZERO gradient; with a 0-bit precision the branch costs depend on the coefficients
                # (MPS layers read the producer's effective channels detached), so the sign is outside the theorem's premise
                o.setdefault('sign_opposed', []).append((tag, n, i))
                continue
            if len(cs) == 5 and cs[-1] > cs[-2] * tol and not (gl is not None and gl[i] > 0):
                o['fails'].append(('no-gradient-for-coefficient-that-raises-cost:' + tag, {'param': n, 'index': i, 'cost_at_+0,+1/256,+1/16,+1/2,+1': cs, 'grad': None if gl is None else gl[i]}))
    p(*xs)       # resample with the original coefficients


def _indep(torch, o, p, S, get, xs, tag, seed):
    g = torch.Generator().manual_seed(seed + 11)
    with torch.no_grad():
        for n, q in p.named_net_parameters():
            if q.dtype.is_floating_point and 'clip_val' not in n:
                q.add_(torch.randn(q.shape, generator=g) * 0.5)
    p(*xs)
    c2 = float(get())
    if not close(c2, Fraction(S['value']), 2.0 ** -22):
        o['fails'].append(('cost-depends-on-weights:' + tag, [S['value'], c2]))
    xs2 = [x.repeat(3, *([1] * (x.dim() - 1))) * 2.0 - 1.0 for x in xs]
    p(*xs2)
    c3 = float(get())
    if not close(c3, Fraction(S['value']), 2.0 ** -22):
        o['fails'].append(('cost-depends-on-input-data:' + tag, [S['value'], c3]))
    p(*xs)


def _fresh_cost(o, gets):
    """evaluation order (a): the cost right after construction, before any forward pass: it can be evaluated, finite, >= 0.
    Whether it already back-propagates is recorded (on the pinned tree the constructors sample the coefficients under no_grad,
    the cost is a constant until the first forward pass)"""
    for which, get in gets.items():
        try:
            c = get()
        except Exception as ex:
            o['fails'].append(('exception:cost-right-after-construction:' + which, '%s: %s' % (type(ex).__name__, str(ex)[:200])))
            continue
        if not _finite_nonneg(float(c)):
            o['fails'].append(('cost-not-finite-or-negative:right-after-construction:' + which, float(c)))
        o.setdefault('fresh_requires_grad', {})[which] = bool(c.requires_grad)


def _observer_oracle(torch, o, p, gets, xs, alpha_named, temp=1.0, mps_options=False):
    """the gradient sentences after observer calls: forward -> export() / summary() / get_cost -> cost -> autograd.grad
    w.r.t. the NAS coefficients WITHOUT a forward in between: same value, same (finite, non-zero) gradients as right
    after the forward pass"""
    o['observer_raised'] = []
    # evaluation ORDERS: forward -> <call> -> cost -> autograd.grad, no forward in between.  An update of the sampling options
    # with the values already in force changes nothing; with a new temperature (a step of an annealing schedule) the cost may
    # be re-sampled, but it still back-propagates: finite gradients, non-zero wherever they were non-zero after the forward
    calls = ['export', 'summary', 'get_cost', 'export+summary', 'options-same', 'options-anneal']
    for obs in calls:
        p.train()
        p(*xs)
        try:
            if obs == 'options-same':
                if mps_options:
                    p.update_softmax_options(temperature=temp, hard=False, gumbel=False)
                else:
                    p.update_softmax_options(temperature=temp, hard=False)
            if obs == 'options-anneal':
                p.update_softmax_options(temperature=temp * 0.9)
            if 'export' in obs:
                p.export()
            if 'summary' in obs:
                p.summary()
            if obs == 'get_cost':
                for g in gets.values():
                    float(g())
        except Exception as ex:            # whether export()/summary() succeed is not this property's sentence
            o['observer_raised'].append('%s: %s: %s' % (obs, type(ex).__name__, str(ex)[:120]))
            continue
        for which, get in gets.items():
            S = o['specs'][which]
            c = get()
            gn = _grads(torch, c, alpha_named)
            if obs == 'options-anneal':
                if not _finite_nonneg(float(c)):
                    o['fails'].append(('cost-not-finite-or-negative:after-options-update:' + which, float(c)))
                for n, _ in alpha_named:
                    g0, g1 = S['grad'][n], gn[n]
                    if g0 is None or not any(g0):
                        continue
                    scale = max(abs(v) for v in g0)
                    lost = [i for i, v in enumerate(g0) if abs(v) > 2.0 ** -6 * scale and (g1 is None or g1[i] == 0 or not math.isfinite(g1[i]))]
                    if lost:
                        o['fails'].append(('gradient-lost-after-observer:update_softmax_options(temperature):%s' % which, {'param': n, 'cost_requires_grad': bool(c.requires_grad), 'elements': lost[:6], 'grad_after_forward': g0[:6], 'grad_after_update': None if g1 is None else g1[:6]}))
                        break
                continue
            if not close(float(c), Fraction(S['value']), 2.0 ** -20):
                o['fails'].append(('cost-changes-after-observer:%s:%s' % (obs, which), {'after_forward': S['value'], 'after_observer': float(c)}))
            for n, _ in alpha_named:
                g0, g1 = S['grad'][n], gn[n]
                if g0 is None or not any(g0):
                    continue
                scale = max(abs(v) for v in g0)
                if g1 is None or any(not math.isfinite(v) for v in g1) or any(abs(a - b) > 2.0 ** -12 * scale for a, b in zip(g0, g1)):
                    o['fails'].append(('gradient-lost-after-observer:%s:%s' % (obs, which), {'param': n, 'cost_requires_grad': bool(c.requires_grad), 'grad_after_forward': g0[:6], 'grad_after_observer': None if g1 is None else g1[:6]}))
                    break
    p.update_softmax_options(temperature=temp)
    p.train()
    p(*xs)


def _alpha_grad(torch, c, alpha):
    g = torch.autograd.grad(c, alpha, retain_graph=True, allow_unused=True)[0] if (c.requires_grad and alpha.requires_grad) else None
    return None if g is None else g.detach().double()


def _onehot_oracle(torch, o, p, gets, xs, alpha_named, hard_ok):
    """one-hot sampled coefficients (hard_softmax=True in training mode; eval() mode), with the seeded coefficients and
    with the initial ones (per-channel search: some precision is then chosen by no channel): cost finite and >= 0,
    every gradient finite, none to the weights"""
    seeded = {n: q.detach().clone() for n, q in alpha_named}
    modes = (['hard'] if hard_ok else []) + ['eval']
    for coeffs in ('seeded', 'extreme'):
        with torch.no_grad():
            for n, q in alpha_named:
                if coeffs == 'extreme':           # every channel / layer picks the LAST precision: the others get theta = 0
                    v = torch.zeros_like(q)
                    v[-1] = 4.0
                    q.copy_(v)
                else:
                    q.copy_(seeded[n])
        for mode in modes:
            if mode == 'hard':
                p.update_softmax_options(hard=True)
                p.train()
            else:
                if hard_ok:
                    p.update_softmax_options(hard=False)
                p.eval()
            p(*xs)
            for which, get in gets.items():
                tag = '%s:%s:%s' % (mode, coeffs, which)
                c = get()
                v = float(c)
                if not _finite_nonneg(v):
                    o['fails'].append(('cost-not-finite-or-negative:one-hot:' + tag, v))
                gn = _grads(torch, c, alpha_named)
                for n, gl in gn.items():
                    if gl is not None and not all(math.isfinite(x) for x in gl):
                        o['fails'].append(('gradient-not-finite:one-hot:' + tag, {'param': n, 'grad': gl[:8]}))
                        break
                gw = _grads(torch, c, list(p.named_net_parameters()))
                bad = [n for n, gl in gw.items() if gl is not None and any(x != 0 for x in gl)]
                if bad:
                    o['fails'].append(('gradient-reaches-network-weight:one-hot:' + tag, bad[:3]))
    with torch.no_grad():
        for n, q in alpha_named:
            q.copy_(seeded[n])
    if hard_ok:
        p.update_softmax_options(hard=False)
    p.train()
    p(*xs)


def _example_oracle(torch, o, rng, make, shape, src, gets_of, xs, prep=None):
    """the same network wrapped with input_example= of ONE sample and of 2..8 samples (other values) instead of
    input_shape=: identical coefficients -> every metric identical"""
    nb = rng.randint(2, 8)
    o['example_batch'] = nb
    g = torch.Generator().manual_seed(o['seed'] + 5)
    for tag, ex in (('input_example[1]', torch.rand((1,) + shape, generator=g)), ('input_example[%d]' % nb, torch.rand((nb,) + shape, generator=g) * 2.0)):
        w = make(ex)
        dst = dict(w.named_parameters())
        with torch.no_grad():
            for n, q in src.named_parameters():
                if n.endswith('alpha') and n in dst:
                    dst[n].copy_(q)
        if prep:
            prep(w)
        w.train()
        w(*xs)
        for which, get in gets_of(w).items():
            c = float(get())
            if not close(c, Fraction(o['specs'][which]['value']), 2.0 ** -22):
                o['fails'].append(('cost-depends-on-the-traced-input-example:' + which, {'input_shape': o['specs'][which]['value'], tag: c}))


# ----------------------------------------------------------------------------- SuperNet
def _sn_specs():
    from plinio.cost import params, ops, params_no_bias, ops_no_bias, gap8_latency
    return {'params': params, 'ops': ops, 'params_no_bias': params_no_bias, 'ops_no_bias': ops_no_bias, 'gap8_latency': gap8_latency}


def sn_case(torch, seed, mname, full_cost):
    from plinio.methods import SuperNet
    from plinio.methods.supernet.nn.combiner import SuperNetCombiner
    from plinio.graph.inspection import shapes_dict
    rng = random.Random(seed)
    o = {'method': 'SuperNet', 'seed': seed, 'model': mname, 'full_cost': full_cost, 'fails': [], 'specs': {}, 'mix': []}
    stage = 'build'
    try:
        specs = _sn_specs()
        shp = _in_shape(mname)
        names = list(specs)
        single = names[seed % len(names)]
        torch.manual_seed(seed)
        M = _models(torch)[mname]
        p = SuperNet(M(), input_shape=shp, cost=dict(specs), full_cost=full_cost)
        _fresh_cost(o, {w: (lambda w=w: p.get_cost(w)) for w in names})
        ps = SuperNet(M(), input_shape=shp, cost=specs[single], full_cost=full_cost)
        combs = [(n, mod) for n, mod in p.named_modules() if isinstance(mod, SuperNetCombiner)]
        alphas = {}
        for (n, mod), (n2, mod2) in zip(combs, [(n, mod) for n, mod in ps.named_modules() if isinstance(mod, SuperNetCombiner)]):
            v = [rng.randint(-16, 16) / 8.0 for _ in range(mod.alpha.numel())]
            alphas[n] = v
            with torch.no_grad():
                mod.alpha.copy_(torch.tensor(v)); mod2.alpha.copy_(torch.tensor(v))
        temp = rng.choice([1.0, 0.5, 2.0])
        p.update_softmax_options(temperature=temp); ps.update_softmax_options(temperature=temp)
        o['alpha'] = alphas
        o['temperature'] = temp
        xs = [torch.randn((2,) + shp)]
        p.train(); ps.train()
        p(*xs); ps(*xs)
        all_nas = [(n, q) for n, q in p.named_nas_parameters() if q.requires_grad]
        coeffs = [(n, q) for n, q in all_nas if n.endswith('alpha')]
        for which in names:
            stage = 'cost:' + which
            get = lambda: p.get_cost(which)
            c = get()
            S = _common_oracles(torch, o, p, which, c, get, xs, coeffs, all_nas, which)
            if which == single:
                cs = float(ps.cost)
                if not close(cs, Fraction(S['value']), 2.0 ** -22):
                    o['fails'].append(('single-vs-dict-specification-differ:' + which, [cs, S['value']]))
            # model data: per combiner theta, branch costs; d cost / d theta (autograd w.r.t. the sampled coefficients)
            stage = 'model-data:' + which
            fmap = p._cost_fn_map[which]
            target = p._unique_leaf_modules if specs[which].shared else p._leaf_modules
            const = 0.0
            for lname, node, layer in target:
                if isinstance(layer, SuperNetCombiner):
                    bc = []
                    for i in range(layer.n_branches):
                        ci = 0.0
                        for ln, nd, ly in layer._unique_leaf_modules[i]:
                            v = dict(vars(ly)); v.update(shapes_dict(nd))
                            ci += float(fmap[ln](v))
                        bc.append(ci)
                    gth = torch.autograd.grad(c, layer.theta_alpha, retain_graph=True, allow_unused=True)[0] if (c.requires_grad and layer.theta_alpha.requires_grad) else None
                    ga = _alpha_grad(torch, c, layer.alpha)
                    o['mix'].append({'spec': which, 'comb': lname, 'theta': [float(v) for v in layer.theta_alpha.detach()], 'branch_cost': bc,
                                     'dcost_dtheta': None if gth is None else [float(v) for v in gth],
                                     'alpha': [float(v) for v in layer.alpha.detach()], 'T': float(layer.softmax_temperature),
                                     'dcost_dalpha': None if ga is None else [float(v) for v in ga]})
                    if any(not _finite_nonneg(v) for v in bc):
                        o['fails'].append(('branch-cost-negative:' + which, bc))
                elif 'sn_branches' not in str(node.target) and full_cost:
                    v = dict(vars(layer)); v.update(shapes_dict(node))
                    const += float(fmap[lname](v))
            S['const'] = const
            stage = 'raise:' + which
            _raise_oracle(torch, o, p, which, S, get, xs, coeffs, which)
            o['specs'][which] = S
        stage = 'independence'
        for which in names:
            _indep(torch, o, p, o['specs'][which], lambda: p.get_cost(which), xs, which, seed)
        stage = 'order'
        for order in (list(reversed(names)), names[2:] + names[:2]):
            for which in order:
                c2 = float(p.get_cost(which))
                if not close(c2, Fraction(o['specs'][which]['value']), 2.0 ** -22):
                    o['fails'].append(('cost-depends-on-evaluation-order:' + which, {'first_read': o['specs'][which]['value'], 'read_in_order': order, 'value': c2}))
        stage = 'observers'
        _observer_oracle(torch, o, p, {w: (lambda w=w: p.get_cost(w)) for w in names}, xs, coeffs, temp=temp)
        stage = 'input-example'
        _example_oracle(torch, o, rng, lambda ex: SuperNet(M(), input_example=ex, cost=dict(specs), full_cost=full_cost), shp, p,
                        lambda w: {k: (lambda k=k: w.get_cost(k)) for k in names}, xs, prep=lambda w: w.update_softmax_options(temperature=temp))
    except Exception as ex:
        o['fails'].append(('exception:SuperNet:' + stage.split(':')[0], '%s: %s' % (type(ex).__name__, str(ex)[:300])))
        o['trace'] = traceback.format_exc()[-1500:]
    return o


def sn_gumbel_case(torch, seed, mname, full_cost):
    """SuperNet with gumbel_softmax=True + hard_softmax=True in training mode: after every forward the coefficients are
    one-hot and carry the gradient of the soft sample (straight-through).  Oracle per draw and metric: cost finite >= 0
    and == sum_i theta_i * cost_i (+ fixed part); d cost / d alpha finite and equal to the straight-through reference
    d/d alpha of sum_i theta_i * cost_i (theta = the sampled tensor, cost_i from the cost functions directly);
    d cost / d theta_i == cost_i; no gradient to the weights"""
    from plinio.methods import SuperNet
    from plinio.methods.supernet.nn.combiner import SuperNetCombiner
    from plinio.graph.inspection import shapes_dict
    rng = random.Random(seed)
    o = {'method': 'SuperNet', 'kind': 'sng', 'seed': seed, 'model': mname, 'full_cost': full_cost, 'fails': [], 'specs': {}, 'mix': [], 'drawn': {}}
    stage = 'build'
    try:
        specs = _sn_specs()
        names = list(specs)
        shp = _in_shape(mname)
        torch.manual_seed(seed)
        M = _models(torch, gumbel=True)[mname]
        p = SuperNet(M(), input_shape=shp, cost=dict(specs), full_cost=full_cost)
        combs = [(n, mod) for n, mod in p.named_modules() if isinstance(mod, SuperNetCombiner)]
        o['alpha'] = {}
        for n, mod in combs:
            v = [rng.randint(-8, 8) / 8.0 for _ in range(mod.alpha.numel())]
            o['alpha'][n] = v
            with torch.no_grad():
                mod.alpha.copy_(torch.tensor(v))
        temp = rng.choice([1.0, 0.5, 2.0])
        p.update_softmax_options(temperature=temp)
        o['temperature'] = temp
        p.train()
        netw = list(p.named_net_parameters())
        for step in range(10):
            stage = 'forward'
            torch.manual_seed(seed * 977 + step)
            p(torch.randn((2,) + shp))
            for n, mod in combs:
                th = [float(v) for v in mod.theta_alpha.detach()]
                if sorted(th) != [0.0] * (len(th) - 1) + [1.0]:
                    o['fails'].append(('hard-gumbel-sample-not-one-hot', {'comb': n, 'theta': th}))
                o['drawn'].setdefault(n, set()).add(th.index(max(th)))
            for which in names:
                stage = 'cost:' + which
                tag = 'hard-gumbel:' + which
                c = p.get_cost(which)
                v = float(c)
                if not _finite_nonneg(v):
                    o['fails'].append(('cost-not-finite-or-negative:' + tag, v))
                    continue
                fmap = p._cost_fn_map[which]
                target = p._unique_leaf_modules if specs[which].shared else p._leaf_modules
                ref = torch.tensor(0.0, dtype=torch.float64)
                for lname, node, layer in target:
                    if isinstance(layer, SuperNetCombiner):
                        bc = []
                        for i in range(layer.n_branches):
                            ci = 0.0
                            for ln, nd, ly in layer._unique_leaf_modules[i]:
                                vv = dict(vars(ly)); vv.update(shapes_dict(nd))
                                ci += float(fmap[ln](vv))
                            bc.append(ci)
                        ref = ref + (layer.theta_alpha.double() * torch.tensor(bc, dtype=torch.float64)).sum()
                        gth = torch.autograd.grad(c, layer.theta_alpha, retain_graph=True, allow_unused=True)[0] if c.requires_grad else None
                        if step < 2:
                            o['mix'].append({'spec': which, 'comb': '%s@%d' % (lname, step), 'theta': [float(x) for x in layer.theta_alpha.detach()], 'branch_cost': bc,
                                             'dcost_dtheta': None if gth is None else [float(x) for x in gth], 'dcost_dalpha': None})
                        gl = [0.0] * len(bc) if gth is None else [float(x) for x in gth]
                        mult = sum(1 for (_, _, l2) in target if l2 is layer)
                        if any(not close(g_, Fraction(x_) * mult, 2.0 ** -18) for g_, x_ in zip(gl, bc)):
                            o['fails'].append(('dcost-dtheta-differs-from-branch-cost:' + tag, {'comb': lname, 'theta': [float(x) for x in layer.theta_alpha.detach()], 'dcost_dtheta': gl, 'branch_cost': bc, 'invocations': mult}))
                    elif 'sn_branches' not in str(node.target) and full_cost:
                        vv = dict(vars(layer)); vv.update(shapes_dict(node))
                        ref = ref + float(fmap[lname](vv))
                if not close(v, Fraction(float(ref)), 2.0 ** -18):
                    o['fails'].append(('cost-differs-from-reference-value:' + tag, {'cost': v, 'sum_theta_i*cost_i': float(ref)}))
                alphas = [mod.alpha for _, mod in combs]
                g_impl = torch.autograd.grad(c, alphas, retain_graph=True, allow_unused=True) if c.requires_grad else [None] * len(alphas)
                g_ref = torch.autograd.grad(ref, alphas, retain_graph=True, allow_unused=True) if ref.requires_grad else [None] * len(alphas)
                for (n, mod), gi, gr in zip(combs, g_impl, g_ref):
                    li = [0.0] * mod.alpha.numel() if gi is None else [float(x) for x in gi]
                    lr = [0.0] * mod.alpha.numel() if gr is None else [float(x) for x in gr]
                    sc = max([abs(x) for x in lr] + [1.0])
                    if any(not math.isfinite(x) for x in li) or any(abs(a - b) > 2.0 ** -14 * sc for a, b in zip(li, lr)):
                        o['fails'].append(('gradient-differs-from-straight-through-reference:' + tag, {'comb': n, 'theta': [float(x) for x in mod.theta_alpha.detach()], 'dcost_dalpha': li, 'reference': lr}))
                gw = _grads(torch, c, netw)
                if any(gl_ is not None and any(x != 0 for x in gl_) for gl_ in gw.values()):
                    o['fails'].append(('gradient-reaches-network-weight:' + tag, None))
                o['specs'].setdefault(which, {'value': v, 'const': 0.0})
        o['drawn'] = {n: sorted(v) for n, v in o['drawn'].items()}
        o['specs'] = {}        # values change with every draw: the per-draw comparisons above are the observations
    except Exception as ex:
        o['fails'].append(('exception:SuperNet-hard-gumbel:' + stage.split(':')[0], '%s: %s' % (type(ex).__name__, str(ex)[:300])))
        o['trace'] = traceback.format_exc()[-1500:]
    return o


# ----------------------------------------------------------------------------- MPS
def _mps_specs():
    from plinio.cost import params_bit, ops_bit, mpic_latency, ne16_latency
    return {'params_bit': params_bit, 'ops_bit': ops_bit, 'mpic_latency': mpic_latency, 'ne16_latency': ne16_latency}


AFFINE_MPS = ('params_bit', 'ops_bit', 'mpic_latency')      # branch costs do not depend on the coefficients


def _set_mps_alphas(torch, rng, nets):
    """same seeded values in every wrapper of `nets` (lists of named alpha parameters in the same order)"""
    vals = {}
    for n, q in nets[0]:
        v = [rng.randint(-16, 16) / 8.0 for _ in range(q.numel())]
        vals[n] = v
    for net in nets:
        for n, q in net:
            with torch.no_grad():
                q.copy_(torch.tensor(vals[n]).reshape(q.shape))
    return vals


def _layer_matrix(layer, fn, shapes):
    """replicates MPSConv2d/MPSLinear.get_cost without the coefficients: c_ij = cost_fn(v)"""
    from plinio.methods.mps.nn.qtz import MPSPerChannelQtz
    thw = layer.w_mps_quantizer.theta_alpha
    thw = thw.mean(dim=1) if isinstance(layer.w_mps_quantizer, MPSPerChannelQtz) else thw
    thin = layer.in_mps_quantizer.theta_alpha
    c = []
    for in_prec in layer.in_mps_quantizer.precision:
        row = []
        for w_prec, wt in zip(layer.w_mps_quantizer.precision, thw):
            v = layer.get_modified_vars(); v.update(shapes)
            v['in_format'] = int; v['w_format'] = int; v['in_precision'] = in_prec; v['w_precision'] = w_prec; v['w_theta_alpha'] = wt
            row.append(float(fn(v)))
        c.append(row)
    return [float(v) for v in thin.detach()], [float(v) for v in thw.detach()], c


def _prune_oracle(torch, o, p, specs, names, xs, mname, rng):
    """per-channel search with the 0-bit precision: a growing number of output channels of one layer picks 0 bit -- ALL
    of them for the convolution of a residual branch (M2.c1: the NAS removes the branch, legal thanks to the skip
    connection) -- under soft sampling, hard_softmax=True and eval(): cost finite and >= 0, gradients finite, none to the
    weights, and (specs whose per-precision cost is read from the layer once) the value equals
    sum_layers sum_ij theta_in_i * mean_c(theta_w[j, c]) * cost_fn(layer at precisions i, j)"""
    from plinio.methods.mps.nn import MPSConv2d, MPSLinear
    from plinio.graph.inspection import shapes_dict
    lname = 'c1' if mname == 'M2' else 'c'
    layer = dict(p.seed.named_modules())[lname]
    qa = layer.w_mps_quantizer.alpha
    C = qa.shape[1]
    saved = qa.detach().clone()
    al = [(n, q) for n, q in p.named_nas_parameters() if n.endswith('alpha') and q.requires_grad]
    counts = [0, rng.randint(1, C - 2), C - 1] + ([C] if mname == 'M2' else [])
    for n_pruned in counts:
        with torch.no_grad():
            qa.copy_(saved)
            qa[0, :n_pruned] = 5.0
            qa[1:, :n_pruned] -= 1.0
        for mode in ('soft', 'hard', 'eval'):
            p.update_softmax_options(hard=(mode == 'hard'))
            p.train(mode != 'eval')
            p(*xs)
            for which in names:
                tag = '%s:%d-of-%d-channels-of-%s-at-0-bit:%s' % (mode, n_pruned, C, lname, which)
                c = p.get_cost(which)
                v = float(c)
                if not _finite_nonneg(v):
                    o['fails'].append(('cost-not-finite-or-negative:pruned:' + tag, v))
                    continue
                gn = _grads(torch, c, al)
                for n, gl in gn.items():
                    if gl is not None and not all(math.isfinite(x) for x in gl):
                        o['fails'].append(('gradient-not-finite:pruned:' + tag, {'param': n, 'grad': gl[:8]}))
                        break
                gw = _grads(torch, c, list(p.named_net_parameters()))
                if any(gl is not None and any(x != 0 for x in gl) for gl in gw.values()):
                    o['fails'].append(('gradient-reaches-network-weight:pruned:' + tag, None))
                if which in AFFINE_MPS:
                    fmap = p._cost_fn_map[which]
                    target = p._unique_leaf_modules if specs[which].shared else p._leaf_modules
                    ref = 0.0
                    for ln, node, ly in target:
                        if isinstance(ly, (MPSConv2d, MPSLinear)):
                            thin, thw, cm = _layer_matrix(ly, fmap[ln], shapes_dict(node))
                            ref += sum(ti * tj * cij for ti, row in zip(thin, cm) for tj, cij in zip(thw, row))
                    if not close(v, Fraction(ref), 2.0 ** -16):
                        o['fails'].append(('cost-differs-from-reference-value:pruned:' + tag, {'cost': v, 'sum_theta_in*mean_theta_w*cost_fn': ref}))
    with torch.no_grad():
        qa.copy_(saved)
    p.update_softmax_options(hard=False)
    p.train()
    p(*xs)


def mps_case(torch, seed, mname, per_channel, zero=False):
    from plinio.methods import MPS
    from plinio.methods.mps import MPSType, get_default_qinfo
    from plinio.methods.mps.nn import MPSConv2d, MPSLinear
    from plinio.graph.inspection import shapes_dict
    rng = random.Random(seed)
    o = {'method': 'MPS', 'kind': 'mps0' if zero else 'mps', 'seed': seed, 'model': mname, 'per_channel': per_channel, 'zero': zero, 'fails': [], 'specs': {}, 'mps': []}
    stage = 'build'
    try:
        specs = _mps_specs()
        names = list(specs)
        single = names[seed % len(names)]
        st = MPSType.PER_CHANNEL if per_channel else MPSType.PER_LAYER
        torch.manual_seed(seed)
        M = _models(torch)[mname]
        qi = lambda: get_default_qinfo((0, 2, 4, 8) if zero else (2, 4, 8), (8,))      # zero: the 0-bit precision = channel pruning
        p = MPS(M(), input_shape=(3, 8, 8), cost=dict(specs), w_search_type=st, qinfo=qi())
        _fresh_cost(o, {w: (lambda w=w: p.get_cost(w)) for w in names})
        ps = MPS(M(), input_shape=(3, 8, 8), cost=specs[single], w_search_type=st, qinfo=qi())
        al = lambda w: [(n, q) for n, q in w.named_nas_parameters() if n.endswith('alpha') and q.requires_grad]
        o['alpha'] = _set_mps_alphas(torch, rng, [al(p), al(ps)])
        xs = [torch.rand(2, 3, 8, 8)]
        p.train(); ps.train()
        p(*xs); ps(*xs)
        all_nas = [(n, q) for n, q in p.named_nas_parameters() if q.requires_grad]
        coeffs = [(n, q) for n, q in al(p) if 'w_mps_quantizer' in n]
        for which in names:
            stage = 'cost:' + which
            get = lambda: p.get_cost(which)
            c = get()
            S = _common_oracles(torch, o, p, which, c, get, xs, al(p), all_nas, which)
            if which == single:
                cs = float(ps.cost)
                if not close(cs, Fraction(S['value']), 2.0 ** -22):
                    o['fails'].append(('single-vs-dict-specification-differ:' + which, [cs, S['value']]))
            if which in AFFINE_MPS:
                stage = 'model-data:' + which
                fmap = p._cost_fn_map[which]
                target = p._unique_leaf_modules if specs[which].shared else p._leaf_modules
                for lname, node, layer in target:
                    if isinstance(layer, (MPSConv2d, MPSLinear)):
                        thin, thw, cm = _layer_matrix(layer, fmap[lname], shapes_dict(node))
                        gth = torch.autograd.grad(c, layer.w_mps_quantizer.theta_alpha, retain_graph=True, allow_unused=True)[0] if (c.requires_grad and layer.w_mps_quantizer.theta_alpha.requires_grad) else None
                        if gth is not None and gth.dim() == 2:
                            gth = gth.sum(dim=1)       # per channel: theta_w_j = mean_c theta[j, c]
                        qa = layer.w_mps_quantizer.alpha
                        ga = _alpha_grad(torch, c, qa)
                        if zero:
                            gth = ga = None     # the branch costs depend on the coefficients through out_features_eff: value only
                        o['mps'].append({'spec': which, 'layer': lname, 'thin': thin, 'thw': thw, 'c': cm, 'dcost_dthw': None if gth is None else [float(v) for v in gth],
                                         # alpha as a list of columns (one per channel; per-layer search: one column), d cost / d alpha likewise
                                         'alpha': [[float(v) for v in col] for col in (qa.detach().t() if qa.dim() == 2 else qa.detach().unsqueeze(0))],
                                         'T': float(layer.w_mps_quantizer.temperature),
                                         'dcost_dalpha': None if ga is None else [[float(v) for v in col] for col in (ga.t() if ga.dim() == 2 else ga.unsqueeze(0))]})
                        if any(not _finite_nonneg(v) for r in cm for v in r):
                            o['fails'].append(('branch-cost-negative:' + which, cm))
            stage = 'raise:' + which
            _raise_oracle(torch, o, p, which, S, get, xs, coeffs, which, strict_sign=not zero)
            o['specs'][which] = S
        stage = 'independence'
        for which in names:
            _indep(torch, o, p, o['specs'][which], lambda: p.get_cost(which), xs, which, seed)
        stage = 'observers'
        _observer_oracle(torch, o, p, {w: (lambda w=w: p.get_cost(w)) for w in names}, xs, al(p), mps_options=True)
        stage = 'onehot'
        _onehot_oracle(torch, o, p, {w: (lambda w=w: p.get_cost(w)) for w in names}, xs, al(p), True)
        if zero:
            stage = 'prune'
            _prune_oracle(torch, o, p, specs, names, xs, mname, rng)
        stage = 'input-example'
        _example_oracle(torch, o, rng, lambda ex: MPS(M(), input_example=ex, cost=dict(specs), w_search_type=st, qinfo=qi()), (3, 8, 8), p,
                        lambda w: {k: (lambda k=k: w.get_cost(k)) for k in names}, xs)
    except Exception as ex:
        o['fails'].append(('exception:MPS:' + stage.split(':')[0], '%s: %s' % (type(ex).__name__, str(ex)[:300])))
        o['trace'] = traceback.format_exc()[-1500:]
    return o


# ----------------------------------------------------------------------------- ODiMO_MPS (defaults)
def odimo_case(torch, seed, mname, as_dict):
    """ODiMO_MPS with its DEFAULT cost (diana_latency) and DEFAULT reduction; w precisions (2, 8), a = 8"""
    from plinio.methods.odimo_mps import ODiMO_MPS
    from plinio.methods.odimo_mps.odimo_mps import get_default_qinfo
    from plinio.methods.mps.nn import MPSConv2d, MPSLinear
    from plinio.cost import diana_latency
    from plinio.graph.inspection import shapes_dict
    rng = random.Random(seed)
    o = {'method': 'ODiMO_MPS', 'seed': seed, 'model': mname, 'as_dict': as_dict, 'fails': [], 'specs': {}, 'odimo': []}
    stage = 'build'
    try:
        torch.manual_seed(seed)
        M = _models(torch)[mname]
        kw = {'cost': {'latency': diana_latency}} if as_dict else {}
        p = ODiMO_MPS(M(), input_shape=(3, 8, 8), qinfo=get_default_qinfo((2, 8), (8,)), **kw)
        _fresh_cost(o, {'diana_latency': ((lambda: p.get_cost('latency')) if as_dict else (lambda: p.cost))})
        al = lambda w: [(n, q) for n, q in w.named_nas_parameters() if n.endswith('alpha') and q.requires_grad]
        o['alpha'] = _set_mps_alphas(torch, rng, [al(p)])
        xs = [torch.rand(2, 3, 8, 8)]
        p.train()
        stage = 'forward'
        p(*xs)
        stage = 'cost'
        get = (lambda: p.get_cost('latency')) if as_dict else (lambda: p.cost)
        c = get()
        all_nas = [(n, q) for n, q in p.named_nas_parameters() if q.requires_grad]
        coeffs = [(n, q) for n, q in al(p) if 'w_mps_quantizer' in n]
        S = _common_oracles(torch, o, p, 'diana', c, get, xs, al(p), all_nas, 'diana_latency')
        stage = 'model-data'
        fmap = p._cost_fn_map['latency'] if as_dict else p._cost_fn_map
        for lname, node, layer in p._unique_leaf_modules:
            if isinstance(layer, (MPSConv2d, MPSLinear)):
                Mx = layer.get_cost(fmap[lname], shapes_dict(node)).detach().double().reshape(-1)
                red = float(p._cost_reduction_fn(layer.get_cost(fmap[lname], shapes_dict(node))))
                cl = [float(v) for v in Mx]
                w = [math.exp(v - max(cl)) for v in cl]
                o['odimo'].append({'layer': lname, 'costs': cl, 'weights': w, 'reduction': red})
                if not (min(cl) * (1 - 2.0 ** -20) <= red <= max(cl) * (1 + 2.0 ** -20)) or any(not _finite_nonneg(v) for v in cl):
                    o['fails'].append(('reduction-outside-branch-latencies', {'layer': lname, 'costs': cl, 'reduction': red}))
        stage = 'raise'
        _raise_oracle(torch, o, p, 'diana', S, get, xs, coeffs, 'diana_latency')
        o['specs']['diana_latency'] = S
        stage = 'independence'
        _indep(torch, o, p, S, get, xs, 'diana_latency', seed)
        stage = 'observers'
        _observer_oracle(torch, o, p, {'diana_latency': get}, xs, al(p), mps_options=True)
        stage = 'onehot'
        _onehot_oracle(torch, o, p, {'diana_latency': get}, xs, al(p), False)     # ODiMO does not support hard sampling: eval() mode only
        stage = 'input-example'
        _example_oracle(torch, o, rng, lambda ex: ODiMO_MPS(M(), input_example=ex, qinfo=get_default_qinfo((2, 8), (8,)), **kw), (3, 8, 8), p,
                        lambda w: {'diana_latency': ((lambda: w.get_cost('latency')) if as_dict else (lambda: w.cost))}, xs)
    except Exception as ex:
        o['fails'].append(('exception:ODiMO_MPS-default-cost:' + stage, '%s: %s' % (type(ex).__name__, str(ex)[:300])))
        o['trace'] = traceback.format_exc()[-1500:]
    return o


def mix_worker(args):
    torch = setup_torch()
    kind = args[0]
    if kind == 'mps0':      # per-channel search with the 0-bit precision
        return mps_case(torch, args[1], args[2], True, zero=True)
    return {'sn': sn_case, 'sng': sn_gumbel_case, 'mps': mps_case, 'odimo': odimo_case}[kind](torch, *args[1:])
