(* C10: the model GENERATED from the source of the samplers (Gen/SamplerGen.v, rewritten by translator/sampler2coq.py
   on every run: STEArgmax.forward, MPSBaseQtz.sample_alpha_sm/_gs/_none, update_softmax_options, __init__,
   SuperNetCombiner.sample_alpha_sm/_gs, __init__, SuperNet.update_softmax_options) computes the hand-written model of
   Model/Sampler.v for the configuration that describes the current tree:
       cur_cfg = mkCfg true false    keep_opts = true          (an option left None keeps its value and the sampler)
                                     comb_eval_argmax = false  (the combiner's soft-max sampler ignores self.training:
                                                                open finding supernet:eval-soft-not-onehot-at-argmax)
   These equalities are the obligations that tie the theorems of Props/C10.v to the code as it is now; the open findings
   are REPRODUCED by the generated model (last section), not repaired.
   The proof scripts only use: unfolding of the generated definitions, case analysis on every boolean / option in sight,
   the two normalisation lemmas below, computation. *)
From Coq Require Import QArith ZArith List Bool Arith Lia Lqa.
Import ListNotations.
Require Import Plinio.Base.Qx Plinio.Model.Sampler Plinio.Proofs.Sampler Plinio.Gen.SamplerGen.
Local Open Scope Q_scope.

Definition cur_cfg : cfg := mkCfg true false.

(* ------------------------------------------------------------------ the tensor vocabulary against the model *)
Lemma softmax0_div g T a : softmax0 g (map (fun x => x / T) a) = softmax g T a.
Proof. unfold softmax0, softmax, expo. cbv zeta. rewrite (map_map (fun x => x / T) g a). reflexivity. Qed.

Lemma tsoftmax_tdiv g T al : tsoftmax g (tdiv al T) = map (softmax g T) al.
Proof. unfold tsoftmax, tdiv. rewrite map_map. apply map_ext. intro a. apply softmax0_div. Qed.

Lemma tonehot_is_ste x : tonehot_argmax x = map ste x.
Proof. reflexivity. Qed.

(* STEArgmax.forward = the model's straight-through arg-max, column by column *)
Theorem ste_argmax_gen_eq : forall x, ste_argmax_gen x = map ste x.
Proof. intro x. unfold ste_argmax_gen. cbv zeta. rewrite ?tonehot_is_ste. reflexivity. Qed.

Lemma tgumbel_eq g al T hd noise : tgumbel g al T hd noise = zipcols (gumbel_softmax g T hd) al noise.
Proof. reflexivity. Qed.

Ltac gen_unfold :=
  cbv beta iota zeta delta
    [mps_forward_gen comb_forward_gen mps_sample_alpha_gen comb_sample_alpha_gen mps_init_gen comb_init_gen
     mps_update_softmax_options_gen comb_update_softmax_options_gen
     mps_sample_alpha_gs_gen comb_sample_alpha_gs_gen mps_sample_alpha_sm_gen comb_sample_alpha_sm_gen
     mps_sample_alpha_none_gen
     with_hard with_gumbel with_disabled with_temp with_theta with_bound with_training with_alpha truthy set_theta
     embed sampler_name core bound hard gumbel disabled temp training alpha theta negb orb andb is_none
     Z.eqb Pos.eqb].
Ltac gen_norm := rewrite ?ste_argmax_gen_eq, ?tonehot_is_ste, ?tsoftmax_tdiv, ?tgumbel_eq.
Ltac model_unfold :=
  cbv beta iota zeta delta
    [sample sample_gs sample_sm eval_argmax set_theta cur_cfg sampler_name embed upd_hard upd_flag upd_temp
     core bound hard gumbel disabled temp training alpha theta comb_eval_argmax keep_opts negb orb andb is_none].

(* ------------------------------------------------------------------ the samplers *)
Theorem mps_sample_sm_gen_eq : forall g c s b,
  mps_sample_alpha_sm_gen g (mkO s b) = mkO (set_theta s (sample_sm g c KMps s)) b.
Proof.
  intros g c [h gm d T tr al th] b. gen_unfold. model_unfold.
  destruct h, tr; gen_norm; reflexivity.
Qed.

Theorem mps_sample_gs_gen_eq : forall g c s b noise,
  mps_sample_alpha_gs_gen g (mkO s b) noise = mkO (set_theta s (sample_gs g c KMps s noise)) b.
Proof.
  intros g c [h gm d T tr al th] b noise. gen_unfold. model_unfold.
  destruct tr, h; gen_norm; reflexivity.
Qed.

Theorem mps_sample_none_gen_eq : forall s b, mps_sample_alpha_none_gen (mkO s b) = mkO (set_theta s (theta s)) b.
Proof. intros [h gm d T tr al th] b. reflexivity. Qed.

(* the combiner: the same functions as the model's KComb samplers with comb_eval_argmax = false, whatever keep_opts *)
Theorem comb_sample_sm_gen_eq : forall g keep s b,
  comb_sample_alpha_sm_gen g (mkO s b) = mkO (set_theta s (sample_sm g (mkCfg keep false) KComb s)) b.
Proof.
  intros g keep [h gm d T tr al th] b. gen_unfold. model_unfold.
  destruct h, tr; gen_norm; reflexivity.
Qed.

Theorem comb_sample_gs_gen_eq : forall g keep s b noise,
  comb_sample_alpha_gs_gen g (mkO s b) noise = mkO (set_theta s (sample_gs g (mkCfg keep false) KComb s noise)) b.
Proof.
  intros g keep [h gm d T tr al th] b noise. gen_unfold. model_unfold.
  destruct tr, h; gen_norm; reflexivity.
Qed.

(* self.sample_alpha() at the head of forward: the bound name selects what the model's flags select *)
Theorem mps_forward_gen_eq : forall g c s noise,
  mps_forward_gen g (embed s) noise = embed (set_theta s (sample g c KMps s noise)).
Proof.
  intros g c [h gm d T tr al th] noise. gen_unfold. model_unfold.
  destruct d, gm, tr, h; cbn [Z.eqb Pos.eqb]; gen_norm; reflexivity.
Qed.

Theorem comb_forward_gen_eq : forall g keep s noise, disabled s = false ->
  comb_forward_gen g (embed s) noise = embed (set_theta s (sample g (mkCfg keep false) KComb s noise)).
Proof.
  intros g keep [h gm d T tr al th] noise Hd. cbn [disabled] in Hd. subst d. gen_unfold. model_unfold.
  destruct gm, tr, h; cbn [Z.eqb Pos.eqb]; gen_norm; reflexivity.
Qed.

Theorem forward_gen_eq : forall g k s noise, (k = KComb -> disabled s = false) ->
  forward_gen g k (embed s) noise = embed (set_theta s (sample g cur_cfg k s noise)).
Proof.
  intros g k s noise H. destruct k; unfold forward_gen.
  - apply mps_forward_gen_eq.
  - apply comb_forward_gen_eq. auto.
Qed.

(* ------------------------------------------------------------------ the option bookkeeping *)
(* MPSBaseQtz.update_softmax_options: the SUpdate step of the model with keep_opts = true, and the function it binds
   is the one the model derives from the flags -- whatever was bound before *)
Theorem mps_update_gen_eq : forall g c s b t h gm d,
  Some (mps_update_softmax_options_gen (mkO s b) t h gm d) =
  option_map embed (step g (mkCfg true c) KMps s (SUpdate t h gm d)).
Proof.
  intros g c [h0 gm0 d0 T0 tr al th] b t h gm d. cbn [step option_map]. gen_unfold. model_unfold.
  unfold upd_hard, upd_flag, upd_temp.
  destruct t, h as [[|]|], gm as [[|]|], d as [[|]|], h0, gm0, d0; reflexivity.
Qed.

(* SuperNet.update_softmax_options on one combiner (temperature, hard only) *)
Theorem comb_update_gen_eq : forall g c s t h,
  Some (comb_update_softmax_options_gen (embed s) t h) = option_map embed (step g c KComb s (SUpdate t h None None)).
Proof.
  intros g c [h0 gm0 d0 T0 tr al th] t h. cbn [step option_map is_none andb]. gen_unfold. model_unfold.
  unfold upd_hard, upd_temp.
  destruct t, h as [[|]|], h0, gm0, d0; reflexivity.
Qed.

(* the constructors: MPSBaseQtz.__init__ hands the four options to update_softmax_options ... *)
Theorem mps_init_gen_eq : forall s0 b0 T h gm d,
  mps_init_gen (mkO s0 b0) T h gm d = embed (mkS h gm d T (training s0) (alpha s0) (theta s0)).
Proof.
  intros [h0 gm0 d0 T0 tr al th] b0 T h gm d. gen_unfold. model_unfold.
  destruct h, gm, d; reflexivity.
Qed.

(* ... SuperNetCombiner.__init__ binds the Gumbel sampler iff gumbel_softmax, temperature 1, theta_alpha = alpha; the
   combiner has no gumbel / disable attribute: the model's flags are (gm, false) *)
Theorem comb_init_gen_eq : forall s0 b0 gm h,
  let o := comb_init_gen (mkO s0 b0) gm h in
  bound o = sampler_name (mkS h gm false 1 (training s0) (alpha s0) (alpha s0)) /\
  hard (core o) = h /\ temp (core o) = 1 /\ alpha (core o) = alpha s0 /\ theta (core o) = alpha s0 /\
  training (core o) = training s0.
Proof.
  intros [h0 gm0 d0 T0 tr al th] b0 gm h. cbv zeta. gen_unfold. model_unfold.
  destruct gm; repeat split; reflexivity.
Qed.

(* ------------------------------------------------------------------ op sequences *)
Lemma embed_core s : core (embed s) = s.
Proof. reflexivity. Qed.

Theorem gen_step_eq : forall g k s op, (k = KComb -> disabled s = false) ->
  gen_step g k (embed s) op = option_map embed (step g cur_cfg k s op).
Proof.
  intros g k s op H. destruct op as [t h gm d| | |noise|a'].
  - destruct k.
    + unfold gen_step, embed, cur_cfg. apply mps_update_gen_eq.
    + unfold gen_step. destruct gm, d; try (cbn [step is_none andb option_map]; reflexivity).
      cbn [is_none andb]. apply comb_update_gen_eq.
  - destruct s; reflexivity.
  - destruct s; reflexivity.
  - cbn [gen_step step option_map]. f_equal. apply forward_gen_eq. exact H.
  - destruct s; reflexivity.
Qed.

Lemma step_keeps_comb_enabled g c s op s' : disabled s = false -> step g c KComb s op = Some s' -> disabled s' = false.
Proof. intros Hd E. apply (comb_never_disabled g c [op] s s' Hd). cbn [run]. rewrite E. reflexivity. Qed.

Theorem gen_run_eq : forall g k ops s, (k = KComb -> disabled s = false) ->
  gen_run g k (embed s) ops = option_map embed (run g cur_cfg k s ops).
Proof.
  intros g k. induction ops as [|op r IH]; intros s H; cbn [gen_run run]; [reflexivity|].
  rewrite gen_step_eq by exact H. destruct (step g cur_cfg k s op) as [s1|] eqn:E; cbn [option_map]; [|reflexivity].
  apply IH. intro Hk. subst k. eapply step_keeps_comb_enabled; [apply H; reflexivity|exact E].
Qed.

Theorem gen_trace_eq : forall g k ops s, (k = KComb -> disabled s = false) ->
  gen_trace g k (embed s) ops = map (option_map embed) (trace g cur_cfg k s ops).
Proof.
  intros g k. induction ops as [|op r IH]; intros s H; cbn [gen_trace trace]; [reflexivity|].
  rewrite gen_step_eq by exact H. destruct (step g cur_cfg k s op) as [s1|] eqn:E; cbn [option_map map]; [|reflexivity].
  f_equal. apply IH. intro Hk. subst k. eapply step_keeps_comb_enabled; [apply H; reflexivity|exact E].
Qed.

(* ------------------------------------------------------------------ the sentences of C10, about the generated code *)
Section G.
Variable g : Q -> Q.
Hypothesis g_pos : forall x, 0 < g x.
Hypothesis g_incr : forall x y, x < y -> g x < g y.

Definition covered_now (k : kind) (s : sampler) : Prop := k = KMps \/ training s = true \/ hard s = true.

Lemma covered_now_covered k s : covered_now k s -> covered cur_cfg k s.
Proof. unfold covered_now, covered. intros [H|[H|H]]; auto. Qed.

(* one forward pass of the generated code *)
Theorem gen_forward_post_ok : forall k s noise, covered_now k s -> wf s ->
  disabled s = false -> post_ok s (theta (core (forward_gen g k (embed s) noise))).
Proof.
  intros k s noise Hc Hw Hd. rewrite forward_gen_eq by (intros _; exact Hd). destruct s as [h gm d T tr al th].
  cbn [embed core set_theta theta]. apply (forward_post_ok g g_pos g_incr); auto using covered_now_covered.
Qed.

(* every op sequence run with the generated update / forward functions, then one more forward *)
Theorem gen_invariant_after_run : forall k ops s o1 noise o2, wf s -> Forall wf_op ops ->
  (k = KComb -> disabled s = false) ->
  gen_run g k (embed s) ops = Some o1 -> gen_step g k o1 (SForward noise) = Some o2 ->
  disabled (core o1) = false -> covered_now k (core o1) -> post_ok (core o1) (theta (core o2)).
Proof.
  intros k ops s o1 noise o2 Hw Ho Hk E1 E2 Hd Hc.
  rewrite gen_run_eq in E1 by exact Hk. destruct (run g cur_cfg k s ops) as [s1|] eqn:R; [|discriminate].
  cbn [option_map] in E1. inversion E1; subst o1; clear E1. rewrite embed_core in *.
  assert (Hk1 : k = KComb -> disabled s1 = false) by (intros _; exact Hd).
  rewrite gen_step_eq in E2 by exact Hk1.
  destruct (step g cur_cfg k s1 (SForward noise)) as [s2|] eqn:S2; [|discriminate].
  cbn [option_map] in E2. inversion E2; subst o2; clear E2. rewrite embed_core.
  eapply (invariant_after_run g g_pos g_incr); eauto using covered_now_covered.
Qed.

(* what summary()/export() choose (arg-max of the raw coefficients) against what the generated code evaluates *)
Theorem gen_selected_is_argmax : forall k s noise, wf s -> disabled s = false ->
  (gumbel s = false \/ training s = false) ->
  map argmax (theta (core (forward_gen g k (embed s) noise))) = selected (alpha s).
Proof.
  intros k s noise Hw Hd Hm. rewrite forward_gen_eq by (intros _; exact Hd). destruct s as [h gm d T tr al th].
  cbn [embed core set_theta theta]. apply (selected_is_argmax g g_pos g_incr); assumption.
Qed.

Theorem gen_selected_onehot : forall k s noise, covered_now k s -> wf s ->
  disabled s = false -> (training s = false \/ (hard s = true /\ gumbel s = false)) ->
  theta (core (forward_gen g k (embed s) noise)) = map (fun col => onehot (length col) (argmax col)) (alpha s) /\
  selected (alpha s) = map argmax (alpha s).
Proof.
  intros k s noise Hc Hw Hd Hm. rewrite forward_gen_eq by (intros _; exact Hd). destruct s as [h gm d T tr al th].
  cbn [embed core set_theta theta]. apply (selected_onehot g g_pos g_incr); auto using covered_now_covered.
Qed.

(* ---- the open findings are reproduced by the generated code *)
(* SuperNetCombiner in eval mode with soft selection evaluates a mixture *)
Theorem gen_comb_eval_soft_refuted : exists s noise,
  wf s /\ disabled s = false /\ training s = false /\ hard s = false /\
  ~ post_ok s (theta (core (comb_forward_gen g (embed s) noise))).
Proof.
  destruct (comb_upstream_eval_soft_refuted g g_pos) as [s [noise [Hw [Hd [Ht [Hh Hn]]]]]].
  exists s, noise. repeat (split; [assumption|]). intro P. apply Hn.
  rewrite (comb_forward_gen_eq g false s noise Hd) in P. destruct s as [h gm d T tr al th].
  cbn [embed core set_theta theta] in P. exact P.
Qed.

(* disable_sampling=True: the forward pass keeps the stale coefficients, also in eval mode *)
Theorem gen_disabled_eval_stale_refuted : exists s ops o1 noise o2,
  wf s /\ Forall wf_op ops /\ gen_run g KMps (embed s) ops = Some o1 /\ gen_step g KMps o1 (SForward noise) = Some o2 /\
  training (core o1) = false /\ disabled (core o1) = true /\ ~ post_ok (core o1) (theta (core o2)).
Proof.
  destruct (disabled_eval_stale_refuted g g_pos cur_cfg) as [s [ops [s1 [noise [s2 [Hw [Ho [R [S2 [Ht [Hd Hn]]]]]]]]]]].
  assert (HK : forall x : sampler, KMps = KComb -> disabled x = false) by (intros x E; discriminate E).
  exists s, ops, (embed s1), noise, (embed s2). split; [exact Hw|]. split; [exact Ho|].
  split; [rewrite gen_run_eq by apply HK; rewrite R; reflexivity|].
  split; [rewrite gen_step_eq by apply HK; rewrite S2; reflexivity|].
  rewrite !embed_core. auto.
Qed.
End G.

(* a selector CONSTRUCTED with disable_sampling=True: whatever theta_alpha holds when the constructor runs (torch.ones)
   is what every forward pass leaves, until the option is switched off (finding
   disable-sampling:coefficients-not-a-probability-vector) *)
Theorem gen_disabled_ctor_keeps_initial_theta : forall g s0 b0 T h gm noise,
  theta (core (mps_forward_gen g (mps_init_gen (mkO s0 b0) T h gm true) noise)) = theta s0.
Proof.
  intros g s0 b0 T h gm noise. rewrite mps_init_gen_eq. rewrite (mps_forward_gen_eq g cur_cfg).
  destruct s0 as [h0 gm0 d0 T0 tr al th]. reflexivity.
Qed.
