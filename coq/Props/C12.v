(* C12 -- Cost is a differentiable, monotone function of the architecture only.
   Statements only (model: Model/CostGrad.v + Model/Masks.v, proofs: Proofs/CostGrad.v).

   PIT: cost = sum over layers of f (static, in_eff, out_eff, k_eff), with out_eff = sum theta_alpha, k_eff = the
   normalised sum of theta_gamma * theta_beta, in_eff = the affine form of the producers' out_eff computed by the
   features calculators.  The theorems hold for EVERY per-layer cost function f that is non-negative and monotone
   non-decreasing in each size on non-negative sizes (visible premises; proved below for the built-in params / ops
   (+ no-bias) formulas `std_f` and for the GAP8 latency model `gap8_f`), all networks (lists of layers with shared
   maskers), all rational parameter vectors.  The evaluator has no weight / input argument (structural).
   Differentiability itself is OBSERVED through torch.autograd by the check; what is proved here is the derivative
   of the model: forward-mode AD over dual numbers Q[eps] of the same evaluators, torch.abs' = sign (0 at 0),
   straight-through estimators = 1 (GAP8: value = floor-based cost, derivative = derivative of the un-floored expression).
   Strict sign: a general criterion over every DAG of the model + instances for params/ops and GAP8.
   MPS / SuperNet: mixtures affine in each coefficient vector with the branch cost as derivative, and through the
   softmax (abstract positive increasing g): sign of the gradient = sign of (branch cost - current cost); ODiMO: the parallel-accelerator reduction lies between min and max branch latency. *)
From Coq Require Import QArith ZArith List Bool.
Import ListNotations.
Require Import Plinio.Base.Qx Plinio.Model.Masks Plinio.Model.CostGrad Plinio.Proofs.CostGrad.
Open Scope Q_scope.

(* ---------------------------------------------------------------- mask maps *)
(* every component of theta_alpha / theta_beta / theta_gamma, hence out_eff and k_eff, is non-decreasing in |x_i| of
   every parameter element, and nothing depends on the keep-alive (last) element *)
Theorem C12_mask_maps_monotone :
  (forall p q, abs_le p q -> Forall2 Qle (theta_alpha p) (theta_alpha q)) /\
  (forall p q, abs_le p q -> Forall2 Qle (theta_beta p) (theta_beta q)) /\
  (forall K p q, abs_le p q -> Forall2 Qle (theta_gamma true K p) (theta_gamma true K q)) /\
  (forall p q, abs_le p q -> qsum (theta_alpha p) <= qsum (theta_alpha q)) /\
  (forall K b b' g g', abs_le b b' -> abs_le g g' -> k_eff_cont true K b g <= k_eff_cont true K b' g') /\
  (forall p x y, theta_alpha (p ++ [x]) = theta_alpha (p ++ [y]) /\ theta_beta (p ++ [x]) = theta_beta (p ++ [y]) /\
                 forall K, theta_gamma true K (p ++ [x]) = theta_gamma true K (p ++ [y])).
Proof. exact mask_maps_monotone. Qed.

(* ---------------------------------------------------------------- PIT cost, any admissible cost function *)
Definition admissible {St} (ok : St -> Prop) (f : St -> Q -> Q -> Q -> Q) : Prop :=
  (forall s a b c, ok s -> 0 <= a -> 0 <= b -> 0 <= c -> 0 <= f s a b c) /\
  (forall s a b c a' b' c', ok s -> 0 <= a <= a' -> 0 <= b <= b' -> 0 <= c <= c' -> f s a b c <= f s a' b' c').

Theorem C12_pit_cost_nonneg : forall St (f : St -> Q -> Q -> Q -> Q) ok, admissible ok f ->
  forall n : net St, ok_net St ok n -> wf_net n -> 0 <= pit_cost f n.
Proof. intros St f ok [H1 H2]. exact (pit_cost_nonneg St f ok H1 H2). Qed.

(* raising the magnitude of any (set of) mask parameter(s) never lowers the cost *)
Theorem C12_pit_cost_mono_abs : forall St (f : St -> Q -> Q -> Q -> Q) ok, admissible ok f ->
  forall n n' : net St, ok_net St ok n -> wf_net n -> net_le n n' -> pit_cost f n <= pit_cost f n'.
Proof. intros St f ok [H1 H2] n n' A B C. exact (proj2 (pit_cost_mono_abs St f ok H1 H2 n n' A B C)). Qed.

(* every mask fully open (|x| = 1 everywhere) yields the cost of the original model *)
Theorem C12_pit_cost_open_eq_original : forall St (f : St -> Q -> Q -> Q -> Q) ok, admissible ok f ->
  forall n : net St, ok_net St ok n -> wf_net n -> open_net n -> pit_cost f n == orig_cost f n.
Proof. intros St f ok [_ H2]. exact (pit_cost_open St f ok H2). Qed.

(* the cost depends on the architecture only: the evaluator has no weight argument (pinned by the check, which
   perturbs weights, batch-norm statistics and input batches on the implementation) *)
Theorem C12_cost_indep_weights : forall St (f : St -> Q -> Q -> Q -> Q) (m m' : pit_model St),
  pm_arch m = pm_arch m' -> model_cost f m = model_cost f m'.
Proof. exact cost_indep_weights. Qed.

(* the built-in formulas are admissible *)
Theorem C12_std_admissible : admissible wf_std std_f.
Proof. split; [intros; apply std_f_nonneg; assumption|intros; apply std_f_mono; assumption]. Qed.
Theorem C12_gap8_admissible : admissible wf_g8 gap8_f.
Proof. split; [intros; apply gap8_f_nonneg; assumption|intros; apply gap8_f_mono; assumption]. Qed.

(* ---------------------------------------------------------------- derivative (dual numbers) *)
(* the value component of the dual evaluation is the cost *)
Theorem C12_dual_value_std : forall w n, dv (d_pit_cost d_std_f w n) = pit_cost std_f n.
Proof. exact d_pit_cost_value_std. Qed.
Theorem C12_dual_value_gap8 : forall w n, dv (d_pit_cost d_gap8_f w n) == pit_cost gap8_f n.
Proof. exact d_pit_cost_value_gap8. Qed.

(* sign: for every parameter element x of every network, sign(x) * d cost / d x >= 0 *)
Theorem C12_pit_grad_sign : forall (n : net std) (w : pid),
  wf_net n -> Forall (fun l => wf_std (l_s l)) (n_layers n) -> 0 <= qsgn (pval n w) * dd (d_pit_cost d_std_f w n).
Proof. exact pit_grad_sign. Qed.

(* what torch.abs gives at 0: the derivative is 0 at an element that is exactly 0 (although raising |x| raises
   the cost), and 0 for keep-alive elements and frozen maskers *)
Theorem C12_pit_grad_zero_at_zero : forall (n : net std) (w : pid), pval n w == 0 -> dd (d_pit_cost d_std_f w n) == 0.
Proof. exact pit_grad_zero_at_zero. Qed.
Theorem C12_pit_grad_keepalive_zero : forall (n : net std) m i,
  S i = length (m_alpha (nth m (n_maskers n) dflt_masker)) -> dd (d_pit_cost d_std_f (PAlpha m i) n) == 0.
Proof. exact pit_grad_keepalive_zero. Qed.
Theorem C12_pit_grad_frozen_zero : forall (n : net std) m i,
  m_frozen (nth m (n_maskers n) dflt_masker) = true -> dd (d_pit_cost d_std_f (PAlpha m i) n) == 0.
Proof. exact pit_grad_frozen_zero. Qed.

(* ---------------------------------------------------------------- strict sign: the general criterion *)
(* For EVERY network of the model (any list of layers = any DAG: shared maskers, affine inputs through flatten /
   concat calculators) and every dual cost function df that keeps "value >= 0, sign * derivative >= 0":
   if SOME layer's cost dual is strict in the seeded element, so is the whole cost. *)
Theorem C12_pit_grad_strict_criterion : forall St (df : St -> dual -> dual -> dual -> dual) (ok : St -> Prop),
  (forall s st a b c, ok st -> dgood s a -> dgood s b -> dgood s c -> dgood s (df st a b c)) ->
  forall (n : net St) (w : pid) (li : nat) (l : layer St),
  Forall (fun l => ok (l_s l)) (n_layers n) -> wf_net n ->
  nth_error (n_layers n) li = Some l ->
  dstrict (qsgn (pval n w)) (d_layer_cost df w (n_maskers n) (li, l)) ->
  0 < qsgn (pval n w) * dd (d_pit_cost df w n).
Proof. exact pit_grad_strict_gen. Qed.

(* which layer arguments are strict: a non keep-alive, non-zero element of a trainable features mask makes the
   out_eff of its masker strict, and the in_eff of EVERY consumer whose affine input contains that masker with a
   positive multiplier (flatten multipliers and concatenations are inside the affine form) *)
Theorem C12_mask_eff_strict : forall St (n : net St) m i,
  m_frozen (nth m (n_maskers n) dflt_masker) = false ->
  (S i < length (m_alpha (nth m (n_maskers n) dflt_masker)))%nat -> ~ pval n (PAlpha m i) == 0 ->
  dstrict (qsgn (pval n (PAlpha m i))) (d_mask_eff (PAlpha m i) (n_maskers n) m).
Proof. intros St. exact (@mask_eff_strict St). Qed.
Theorem C12_in_eff_strict : forall St (n : net St) m i a,
  m_frozen (nth m (n_maskers n) dflt_masker) = false ->
  (S i < length (m_alpha (nth m (n_maskers n) dflt_masker)))%nat -> ~ pval n (PAlpha m i) == 0 ->
  wf_affine a -> (exists mult, In (mult, m) (snd a) /\ 0 < mult) ->
  dstrict (qsgn (pval n (PAlpha m i))) (d_in_eff (PAlpha m i) (n_maskers n) a).
Proof. intros St. exact (@in_eff_strict St). Qed.

(* the "other arguments" are positive on every well-shaped network *)
Theorem C12_sizes_positive :
  (forall ms j, m_alpha (nth j ms dflt_masker) <> [] -> 1 <= mask_eff ms j) /\
  (forall t, shaped_tmask t -> 0 < k_eff t) /\
  (forall ms a, wf_affine a -> (0 < fst a \/ exists mult j, In (mult, j) (snd a) /\ 0 < mult /\ 0 < mask_eff ms j) -> 0 < in_eff ms a).
Proof. split; [exact mask_eff_pos|split; [exact k_eff_pos|exact in_eff_pos]]. Qed.

(* params / ops (+ no-bias) formulas.  alpha_feeds ms m l: layer l is strictly increasing in the size masker m feeds --
   m is the OUTPUT masker of a non-depthwise layer, or m occurs in the INPUT of l (this covers maskers used only by
   depthwise layers and maskers that are only somebody's input), the other sizes being positive. *)
Theorem C12_pit_grad_pos : forall (n : net std) m i l,
  wf_net n -> Forall (fun l => wf_std (l_s l)) (n_layers n) ->
  m_frozen (nth m (n_maskers n) dflt_masker) = false ->
  (S i < length (m_alpha (nth m (n_maskers n) dflt_masker)))%nat ->
  ~ pval n (PAlpha m i) == 0 ->
  In l (n_layers n) -> alpha_feeds (n_maskers n) m l ->
  0 < qsgn (pval n (PAlpha m i)) * dd (d_pit_cost d_std_f (PAlpha m i) n).
Proof. exact pit_grad_pos. Qed.

(* receptive-field / dilation elements of any Conv1d layer with positive sizes (depthwise: C12_pit_grad_pos_time_dw) *)
Theorem C12_pit_grad_pos_beta : forall (n : net std) (li i : nat) (l : layer std) (t : tmask),
  wf_net n -> Forall (fun l => wf_std (l_s l)) (n_layers n) ->
  nth_error (n_layers n) li = Some l -> l_time l = Some t ->
  (1 <= t_K t)%nat -> length (t_beta t) = t_K t -> length (t_gamma t) = gamma_len (t_K t) ->
  (S i < t_K t)%nat -> ~ pval n (PBeta li i) == 0 ->
  0 < s_osz (l_s l) -> 0 < s_kc (l_s l) ->
  0 < mask_eff (n_maskers n) (l_mask l) -> 0 < in_eff (n_maskers n) (l_in l) ->
  0 < qsgn (pval n (PBeta li i)) * dd (d_pit_cost d_std_f (PBeta li i) n).
Proof. exact pit_grad_pos_beta. Qed.
Theorem C12_pit_grad_pos_gamma : forall (n : net std) (li i : nat) (l : layer std) (t : tmask),
  wf_net n -> Forall (fun l => wf_std (l_s l)) (n_layers n) ->
  nth_error (n_layers n) li = Some l -> l_time l = Some t ->
  (1 <= t_K t)%nat -> length (t_beta t) = t_K t -> length (t_gamma t) = gamma_len (t_K t) ->
  (S i < gamma_len (t_K t))%nat -> ~ pval n (PGamma li i) == 0 ->
  0 < s_osz (l_s l) -> 0 < s_kc (l_s l) ->
  0 < mask_eff (n_maskers n) (l_mask l) -> 0 < in_eff (n_maskers n) (l_in l) ->
  0 < qsgn (pval n (PGamma li i)) * dd (d_pit_cost d_std_f (PGamma li i) n).
Proof. exact pit_grad_pos_gamma. Qed.
Theorem C12_pit_grad_pos_time_dw : forall (n : net std) (w : pid) (li : nat) (l : layer std),
  wf_net n -> Forall (fun l => wf_std (l_s l)) (n_layers n) ->
  nth_error (n_layers n) li = Some l -> s_dw (l_s l) = true ->
  dstrict (qsgn (pval n w)) (d_k_eff w li (l_time l)) ->
  0 < s_osz (l_s l) -> 0 < s_kc (l_s l) -> 0 < in_eff (n_maskers n) (l_in l) ->
  0 < qsgn (pval n w) * dd (d_pit_cost d_std_f w n).
Proof. exact pit_grad_pos_time_dw. Qed.

(* the earlier (partial) names, kept as corollaries *)
Corollary C12_pit_grad_pos_partial : forall (n : net std) (m i : nat) (l : layer std),
  wf_net n -> Forall (fun l => wf_std (l_s l)) (n_layers n) ->
  m_frozen (nth m (n_maskers n) dflt_masker) = false ->
  (S i < length (m_alpha (nth m (n_maskers n) dflt_masker)))%nat ->
  ~ pval n (PAlpha m i) == 0 ->
  In l (n_layers n) -> l_mask l = m -> s_dw (l_s l) = false -> 0 < s_osz (l_s l) ->
  0 < in_eff (n_maskers n) (l_in l) * (k_eff (l_time l) * s_kc (l_s l)) + s_b (l_s l) ->
  0 < qsgn (pval n (PAlpha m i)) * dd (d_pit_cost d_std_f (PAlpha m i) n).
Proof. intros n m i l A B C D E F G H I J. apply (C12_pit_grad_pos n m i l A B C D E F). split; [exact I|left; auto]. Qed.

(* ---------------------------------------------------------------- GAP8: the straight-through derivative *)
(* value component = the floor-based cost (C12_dual_value_gap8), derivative component = derivative of the un-floored
   expression (FloorSTE.backward returns grad_output): this is what autograd gives where the cost is a step function *)
Theorem C12_pit_grad_sign_gap8 : forall (n : net g8) (w : pid),
  wf_net n -> Forall (fun l => wf_g8 (l_s l)) (n_layers n) -> 0 <= qsgn (pval n w) * dd (d_pit_cost d_gap8_f w n).
Proof. exact pit_grad_sign_gap8. Qed.
Theorem C12_pit_grad_zero_gap8 : forall (n : net g8),
  (forall w, pval n w == 0 -> dd (d_pit_cost d_gap8_f w n) == 0) /\
  (forall m i, S i = length (m_alpha (nth m (n_maskers n) dflt_masker)) -> dd (d_pit_cost d_gap8_f (PAlpha m i) n) == 0) /\
  (forall m i, m_frozen (nth m (n_maskers n) dflt_masker) = true -> dd (d_pit_cost d_gap8_f (PAlpha m i) n) == 0).
Proof. intro n. split; [exact (pit_grad_zero_at_zero_gap8 n)|split; [exact (pit_grad_keepalive_zero_gap8 n)|exact (pit_grad_frozen_zero_gap8 n)]]. Qed.
(* strictly positive wherever the un-floored expression is strictly increasing in the size the element feeds *)
Theorem C12_pit_grad_pos_gap8 : forall (n : net g8) m i l,
  wf_net n -> Forall (fun l => wf_g8 (l_s l)) (n_layers n) ->
  m_frozen (nth m (n_maskers n) dflt_masker) = false ->
  (S i < length (m_alpha (nth m (n_maskers n) dflt_masker)))%nat ->
  ~ pval n (PAlpha m i) == 0 ->
  In l (n_layers n) -> alpha_feeds_g8 (n_maskers n) m l ->
  0 < qsgn (pval n (PAlpha m i)) * dd (d_pit_cost d_gap8_f (PAlpha m i) n).
Proof. exact pit_grad_pos_gap8. Qed.

(* ---------------------------------------------------------------- MPS / SuperNet / ODiMO *)
(* SuperNetCombiner.get_cost: sum_i theta_i * c_i is affine in theta with derivative c_i >= 0 *)
Theorem C12_mix_cost_affine : forall theta c i h, (i < length theta)%nat -> length theta = length c ->
  mix_cost (upd theta i (nth i theta 0 + h)) c == mix_cost theta c + h * nth i c 0.
Proof. exact mix_cost_affine. Qed.
Theorem C12_mix_cost_nonneg : forall theta c, Forall (fun x => 0 <= x) theta -> Forall (fun x => 0 <= x) c -> 0 <= mix_cost theta c.
Proof. exact mix_cost_nonneg. Qed.
(* MPS layer (torch.sum reduction): affine in the weight-precision coefficients, derivative = sum_i thin_i * c_ij *)
Theorem C12_mps_layer_cost_affine_w : forall thin thw c j h, (j < length thw)%nat ->
  Forall (fun row => length row = length thw) c -> length thin = length c ->
  mps_layer_cost thin (upd thw j (nth j thw 0 + h)) c ==
  mps_layer_cost thin thw c + h * mix_cost thin (map (fun row => nth j row 0) c).
Proof. exact mps_layer_cost_affine_w. Qed.
Theorem C12_mps_layer_cost_nonneg : forall thin thw c, Forall (fun x => 0 <= x) thin -> Forall (fun x => 0 <= x) thw ->
  Forall (fun row => Forall (fun x => 0 <= x) row) c -> 0 <= mps_layer_cost thin thw c.
Proof. exact mps_layer_cost_nonneg. Qed.
(* odimo_mps_latency_reduction = softmax(c) . c : for ANY positive weights (exp is positive) between min and max *)
Theorem C12_odimo_reduction_between : forall w c lo hi, length w = length c -> w <> [] -> Forall (fun x => 0 < x) w ->
  Forall (fun x => lo <= x <= hi) c -> lo <= wavg w c <= hi.
Proof. exact odimo_reduction_between. Qed.

(* ---------------------------------------------------------------- through the softmax (MPS / SuperNet coefficients) *)
(* theta = softmax(alpha / T) is modelled as g(alpha_j) / sum_k g(alpha_k) for an ABSTRACT positive, strictly increasing g
   (exp is not rational): raising the coefficient of a branch / precision raises the cost exactly when that branch
   costs more than the current mixture -- finite-difference form, exact *)
Theorem C12_sm_cost_raise : forall (g : Q -> Q), (forall x, 0 < g x) -> (forall x y, x < y -> g x < g y) ->
  forall alpha c j h, length alpha = length c -> (j < length alpha)%nat -> 0 < h ->
  (sm_cost g alpha c < sm_cost g (upd alpha j (nth j alpha 0 + h)) c <-> sm_cost g alpha c < nth j c 0) /\
  (sm_cost g (upd alpha j (nth j alpha 0 + h)) c < sm_cost g alpha c <-> nth j c 0 < sm_cost g alpha c).
Proof. exact sm_cost_raise. Qed.
(* derivative (dual numbers, quotient rule; gp = g'(alpha_j) > 0 is an input): d cost / d alpha_j =
   gp * (c_j - cost) / sum w: NON-ZERO and positive for every coefficient whose increase raises the metric, zero only
   when the branch costs exactly the current mixture *)
Theorem C12_sm_grad_formula : forall w c j gp, length w = length c -> (j < length w)%nat -> Forall (fun x => 0 < x) w ->
  dv (d_wavg (seedw w j gp) c) = wavg w c /\ dd (d_wavg (seedw w j gp) c) == gp * (nth j c 0 - wavg w c) / qsum w.
Proof. intros. split; [apply d_wavg_value|apply d_wavg_deriv; assumption]. Qed.
Theorem C12_sm_grad_sign : forall w c j gp, length w = length c -> (j < length w)%nat -> Forall (fun x => 0 < x) w -> 0 < gp ->
  (0 < dd (d_wavg (seedw w j gp) c) <-> wavg w c < nth j c 0) /\
  (dd (d_wavg (seedw w j gp) c) == 0 <-> nth j c 0 == wavg w c) /\
  (dd (d_wavg (seedw w j gp) c) < 0 <-> nth j c 0 < wavg w c).
Proof. exact d_wavg_deriv_sign. Qed.
(* params_bit / ops_bit: branch cost = bits * size; with bits > 0 the derivative of the affine part w.r.t. theta_j (the
   branch cost) is > 0, and through the softmax the coefficient of the largest precision always has a positive
   gradient (raising it raises the metric), that of the smallest a negative one *)
Theorem C12_bit_costs_pos : forall precs size, 0 < size -> Forall (fun b => 0 < b) precs -> Forall (fun x => 0 < x) (bit_costs precs size).
Proof. exact bit_costs_pos. Qed.
Theorem C12_mps_affine_deriv_pos : forall thin c j, thin <> [] -> length thin = length c -> Forall (fun x => 0 < x) thin ->
  Forall (fun row => 0 < nth j row 0) c -> 0 < mix_cost thin (map (fun row => nth j row 0) c).
Proof. exact mps_affine_deriv_pos. Qed.
Theorem C12_sm_bit_cost_max_raises : forall (g : Q -> Q), (forall x, 0 < g x) -> (forall x y, x < y -> g x < g y) ->
  forall alpha precs size j h gp,
  length alpha = length precs -> (2 <= length precs)%nat -> (j < length precs)%nat -> 0 < size ->
  (forall k, k <> j -> (k < length precs)%nat -> nth k precs 0 < nth j precs 0) -> 0 < h -> 0 < gp ->
  sm_cost g alpha (bit_costs precs size) < sm_cost g (upd alpha j (nth j alpha 0 + h)) (bit_costs precs size) /\
  0 < d_sm_cost (map g alpha) (bit_costs precs size) j gp.
Proof. exact sm_bit_cost_max_raises. Qed.
Theorem C12_sm_bit_cost_min_lowers : forall (g : Q -> Q), (forall x, 0 < g x) -> (forall x y, x < y -> g x < g y) ->
  forall alpha precs size j h gp,
  length alpha = length precs -> (2 <= length precs)%nat -> (j < length precs)%nat -> 0 < size ->
  (forall k, k <> j -> (k < length precs)%nat -> nth j precs 0 < nth k precs 0) -> 0 < h -> 0 < gp ->
  sm_cost g (upd alpha j (nth j alpha 0 + h)) (bit_costs precs size) < sm_cost g alpha (bit_costs precs size) /\
  d_sm_cost (map g alpha) (bit_costs precs size) j gp < 0.
Proof. exact sm_bit_cost_min_lowers. Qed.

(* ---------------------------------------------------------------- the hypotheses are satisfiable, non-trivially *)
(* a Conv1d (K = 3, 2 -> 3 channels, bias) followed by a depthwise Conv1d sharing its masker and a linear head *)
Definition ex_net : net std :=
  Build_net [Build_masker [1 # 2; -(3 # 4); 5] false; Build_masker [1; 1] true]
    [Build_layer (Build_std false 10 1 1) 0%nat (2, []) (Some (Build_tmask 3 [1 # 2; -1; 7] [3 # 4; 9]));
     Build_layer (Build_std true 10 1 1) 0%nat (0, [(1, 0%nat)]) (Some (Build_tmask 2 [1; 1] [1]));
     Build_layer (Build_std false 1 1 1) 1%nat (0, [(10, 0%nat)]) None].
Example C12_example_hypotheses :
  wf_net ex_net /\ Forall (fun l => wf_std (l_s l)) (n_layers ex_net) /\
  qlt_bool 0 (pit_cost std_f ex_net) = true /\
  qlt_bool 0 (dd (d_pit_cost d_std_f (PAlpha 0 0) ex_net)) = true /\           (* positive element: positive derivative *)
  qlt_bool (dd (d_pit_cost d_std_f (PAlpha 0 1) ex_net)) 0 = true /\           (* negative element: negative derivative *)
  Qeq_bool (dd (d_pit_cost d_std_f (PAlpha 0 2) ex_net)) 0 = true /\           (* keep-alive element: none *)
  qlt_bool 0 (dd (d_pit_cost d_std_f (PBeta 0 0) ex_net)) = true /\
  qlt_bool 0 (dd (d_pit_cost d_std_f (PGamma 0 0) ex_net)) = true.
Proof.
  split; [|split].
  - unfold wf_net, wf_affine. cbn. repeat constructor; unfold Qle; cbn; auto with zarith.
  - unfold wf_std. cbn. repeat constructor; unfold Qle; cbn; auto with zarith.
  - vm_compute. repeat split; reflexivity.
Qed.
(* the general criterion applies to the depthwise layer (masker 0 only feeds its input) and to the linear head *)
Example C12_example_feeds :
  alpha_feeds (n_maskers ex_net) 0 (nth 1 (n_layers ex_net) (Build_layer (Build_std false 0 0 0) 0%nat (0, []) None)) /\
  alpha_feeds (n_maskers ex_net) 0 (nth 2 (n_layers ex_net) (Build_layer (Build_std false 0 0 0) 0%nat (0, []) None)).
Proof.
  split.
  - split; [reflexivity|]. right. split; [exists 1; split; [left; reflexivity|reflexivity]|vm_compute; reflexivity].
  - split; [reflexivity|]. right. split; [exists 10; split; [left; reflexivity|reflexivity]|vm_compute; split; reflexivity].
Qed.
Example C12_example_softmax : run_sm_grad [1; 2; 3] [2; 4; 8] 2 (1 # 2) = (7, 36)%Z.
Proof. vm_compute. reflexivity. Qed.
Example C12_example_open :
  Qeq_bool (pit_cost std_f (Build_net [Build_masker [1; -1; 1] false] [Build_layer (Build_std false 10 1 1) 0%nat (2, [])
              (Some (Build_tmask 6 [1; -1; 1; 1; -1; 1] [1; -1; 1]))])) (10 * (3 * (2 * 6 + 1))) = true.
Proof. vm_compute. reflexivity. Qed.
Example C12_example_reduction : qpair (wavg [1; 3] [10; 20]) = (35, 2)%Z /\ qpair (mps_layer_cost [1] [1 # 4; 3 # 4] [[8; 16]]) = (14, 1)%Z.
Proof. vm_compute. split; reflexivity. Qed.

Print Assumptions C12_mask_maps_monotone.
Print Assumptions C12_pit_cost_nonneg.
Print Assumptions C12_pit_cost_mono_abs.
Print Assumptions C12_pit_cost_open_eq_original.
Print Assumptions C12_cost_indep_weights.
Print Assumptions C12_std_admissible.
Print Assumptions C12_gap8_admissible.
Print Assumptions C12_dual_value_std.
Print Assumptions C12_dual_value_gap8.
Print Assumptions C12_pit_grad_sign.
Print Assumptions C12_pit_grad_zero_at_zero.
Print Assumptions C12_pit_grad_keepalive_zero.
Print Assumptions C12_pit_grad_frozen_zero.
Print Assumptions C12_pit_grad_strict_criterion.
Print Assumptions C12_mask_eff_strict.
Print Assumptions C12_in_eff_strict.
Print Assumptions C12_sizes_positive.
Print Assumptions C12_pit_grad_pos.
Print Assumptions C12_pit_grad_pos_beta.
Print Assumptions C12_pit_grad_pos_gamma.
Print Assumptions C12_pit_grad_pos_time_dw.
Print Assumptions C12_pit_grad_pos_partial.
Print Assumptions C12_pit_grad_sign_gap8.
Print Assumptions C12_pit_grad_zero_gap8.
Print Assumptions C12_pit_grad_pos_gap8.
Print Assumptions C12_mix_cost_affine.
Print Assumptions C12_mix_cost_nonneg.
Print Assumptions C12_mps_layer_cost_affine_w.
Print Assumptions C12_mps_layer_cost_nonneg.
Print Assumptions C12_odimo_reduction_between.
Print Assumptions C12_sm_cost_raise.
Print Assumptions C12_sm_grad_formula.
Print Assumptions C12_sm_grad_sign.
Print Assumptions C12_bit_costs_pos.
Print Assumptions C12_mps_affine_deriv_pos.
Print Assumptions C12_sm_bit_cost_max_raises.
Print Assumptions C12_sm_bit_cost_min_lowers.
