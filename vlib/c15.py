"""C15 — cost-function lookup is independent of registration order (DESIGN.md §C15).

Theorems: coq/Props/C15.v over coq/Model/CostSpec.v (any registration list).
Correspondence: the real CostSpec is driven through every ordered selection of the 4 patterns
of a layer type x the 8 satisfaction subsets x both default behaviours x 3 layer types
(exhaustive, 3120 lookups), through every built-in spec x a layer catalogue, through a
seeded stream with duplicate registrations, through the built-in constraints on a catalogue of layer
descriptions (channel multipliers, 1-channel layers, mixed kernels) against the documented definitions,
and through register/lookup interleavings on one CostSpec object (live object == fresh object == model); the model is evaluated on the same registration
lists inside Coq (vm_compute) and the outcomes are compared.
Oracle (search): the documented three-way rule + order independence, computed in Python
directly on the implementation.
"""
import itertools, json
from .common import *
from translator import costspec2coq

GEN_V = os.path.join(COQ, 'Gen', 'CostSpecGen.v')

TYPES = ['Conv1d', 'Conv2d', 'Linear']


def _env():
    torch = setup_torch()
    import torch.nn as nn
    from plinio.cost import cost_spec as cs, pattern as pt
    return torch, nn, cs, pt


def constraints_for(ty, pt):
    """3 constraints per layer type (ids 0,1,2) and 8 layer specs realising each satisfaction subset"""
    if ty in ('Conv1d', 'Conv2d'):
        nd = 1 if ty == 'Conv1d' else 2
        cons = [pt.conv_dw_constraint, pt.conv_3_constraint, lambda s: s['out_channels'] >= 8]
        specs = []
        for dw, k3, big in itertools.product([False, True], repeat=3):
            c = 8 if big else 4
            specs.append({'in_channels': c if dw else 3, 'out_channels': c, 'groups': c if dw else 1,
                          'kernel_size': (3,) * nd if k3 else (5,) * nd})
    else:
        cons = [lambda s: s['in_features'] >= 8, lambda s: s['out_features'] >= 8, lambda s: s['in_features'] % 2 == 0]
        specs = []
        for a, b, c in itertools.product([False, True], repeat=3):
            i = (8 if a else 4) + (0 if c else 1)
            specs.append({'in_features': i, 'out_features': 8 if b else 4})
    return cons, specs


def lookup_impl(cs, nn, regs, cons_by_type, default, ty, layer_spec):
    """regs: list of (type name, constraint id or None, tag).  Returns outcome code:
    tag (found) | -1 (default, and the default object is the right one) | -2 (conflict) | -3 (other)"""
    spec = cs.CostSpec(default_behavior=default)
    fns = {}
    for (t, c, tag) in regs:
        f = fns.get(tag) or (lambda tag: (lambda s: tag))(tag)       # one function object per tag: a repeated tag is ONE function
        fns[tag] = f                                                 # registered for several patterns
        spec[(getattr(nn, t), None if c is None else cons_by_type[t][c])] = f
    try:
        fn = spec[(getattr(nn, ty), layer_spec)]
    except KeyError:
        return -2
    for tag, f in fns.items():
        if fn is f:
            return tag
    if default == 'zero' and fn is cs.cost_spec_zero_fn and float(fn(layer_spec)) == 0.0:
        return -1
    if default == 'fail' and fn is cs.cost_spec_fail_fn:
        try:
            fn(layer_spec)
        except KeyError:
            return -1
    return -3


def rule_py(regs, ty, sat):
    """the documented rule, for pairwise distinct patterns"""
    mine = [(c, tag) for (t, c, tag) in regs if t == ty]
    hit = [tag for (c, tag) in mine if c is not None and c in sat]
    if len(hit) >= 2:
        return -2
    if len(hit) == 1:
        return hit[0]
    un = [tag for (c, tag) in mine if c is None]
    return un[-1] if un else -1


def coq_regs(regs):
    return [(Nat(TYPES.index(t)), (None if c is None else some(Nat(c)), tag)) for (t, c, tag) in regs]


def gen_cases(ctx, pt):
    cases = []
    # (a) exhaustive: ordered selections of the 4 patterns of one type (+ interleaved other-type noise)
    pats = [None, 0, 1, 2]
    for ty in TYPES:
        cons, specs = constraints_for(ty, pt)
        others = [t for t in TYPES if t != ty]
        for k in range(0, 5):
            for sel in itertools.permutations(pats, k):
                regs = [(ty, c, 10 + (0 if c is None else c + 1)) for c in sel]
                # deterministic noise: registrations under the other types in between
                noise = [(others[(k + j) % 2], pats[(j + len(sel)) % 4], 50 + j) for j in range(len(sel) % 3)]
                mixed = []
                for j, r in enumerate(regs):
                    mixed.append(r)
                    if j < len(noise):
                        mixed.append(noise[j])
                for si, ls in enumerate(specs):
                    sat = [i for i, c in enumerate(cons) if c(ls)]
                    for default in ('zero', 'fail'):
                        cases.append({'kind': 'exhaustive', 'regs': mixed, 'ty': ty, 'spec': ls, 'sat': sat, 'default': default,
                                      'group': (ty, frozenset(sel), si, default)})
    # (c) seeded stream with duplicates and longer lists
    n = 400 if ctx.quick else 6000
    for _ in range(n):
        ty = ctx.rng.choice(TYPES)
        L = ctx.rng.randint(0, 8)
        shared_fn = ctx.rng.random() < 0.35      # the same cost function registered for several patterns (one estimator serving
        regs = [(ctx.rng.choice(TYPES), ctx.rng.choice(pats), 100 + (ctx.rng.randint(0, 2) if shared_fn else j)) for j in range(L)]   # dw and 3x3 layers)
        cons, specs = constraints_for(ty, pt)
        ls = ctx.rng.choice(specs)
        sat = [i for i, c in enumerate(cons) if c(ls)]
        cases.append({'kind': 'dup-stream', 'regs': regs, 'ty': ty, 'spec': ls, 'sat': sat, 'default': ctx.rng.choice(['zero', 'fail']), 'group': None})
    return cases


def builtin_cases(nn, pt):
    """every built-in spec x layer catalogue; regs are read back from spec.data"""
    import plinio.cost as pc
    out = []
    cat = [('Conv1d', {'in_channels': 4, 'out_channels': 4, 'groups': 4, 'kernel_size': (3,)}),
           ('Conv1d', {'in_channels': 3, 'out_channels': 6, 'groups': 1, 'kernel_size': (5,)}),
           ('Conv2d', {'in_channels': 4, 'out_channels': 4, 'groups': 4, 'kernel_size': (3, 3)}),
           ('Conv2d', {'in_channels': 4, 'out_channels': 4, 'groups': 4, 'kernel_size': (5, 5)}),
           ('Conv2d', {'in_channels': 3, 'out_channels': 6, 'groups': 1, 'kernel_size': (3, 3)}),
           ('Conv2d', {'in_channels': 1, 'out_channels': 1, 'groups': 1, 'kernel_size': (1, 1)}),
           ('Linear', {'in_features': 8, 'out_features': 4}),
           ('BatchNorm2d', {'num_features': 4})]
    for name in sorted(pc.__all__):
        sp = getattr(pc, name)
        if not isinstance(sp, pc.CostSpec):
            continue
        tynames = {}
        cids = {}
        regs = []
        tag = 0
        for t, lst in sp.data.items():
            tynames[t] = t.__name__
            for (c, fn) in lst:
                if c is not None and c not in cids:
                    cids[c] = len(cids)
                regs.append((t, c, fn, tag))
                tag += 1
        for tyn, ls in cat:
            out.append((name, sp, regs, cids, tyn, ls))
    return out


# ----------------------------------------------------------------------------- constraint semantics + sequences
def dw_readme(spec):
    """plinio/cost/README.md: depthwise = as many groups as input AND output channels"""
    return spec['groups'] == spec['in_channels'] == spec['out_channels']


def k3_readme(spec):
    return all(k == 3 for k in spec['kernel_size'])


def layer_catalogue():
    """conv layer descriptions incl. grouped convs with a channel multiplier, 1-channel layers, mixed kernels"""
    out = []
    for nd in (1, 2):
        for cin in (1, 2, 3, 4, 8):
            for mult in (1, 2, 3):
                for groups in sorted({1, cin, 2 if cin % 2 == 0 else 1}):
                    cout = groups * mult if groups > 1 else (cin * mult if mult > 1 else cin)
                    for ks in ((3,) * nd, (5,) * nd, (1,) * nd) + (((3, 1), (1, 3)) if nd == 2 else ()):
                        out.append(('Conv%dd' % nd, {'in_channels': cin, 'out_channels': cout, 'groups': groups, 'kernel_size': ks}))
    for cin, cout, groups in ((4, 4, 1), (4, 4, 4), (2, 6, 2)):
        for ks in itertools.product((1, 3, 5), repeat=3):
            out.append(('Conv3d', {'in_channels': cin, 'out_channels': cout, 'groups': groups, 'kernel_size': ks}))
    return out


def sequence_cases(ctx, pt):
    """register / lookup interleavings on ONE CostSpec object: [('reg', type, cid, tag) | ('get', type, spec index)]"""
    pats = [None, 0, 1, 2]
    cases = []
    n = 150 if ctx.quick else 1500
    for _ in range(n):
        ty = ctx.rng.choice(TYPES)
        ops, tag = [], 200
        for _ in range(ctx.rng.randint(3, 9)):
            if ctx.rng.random() < 0.55:
                ops.append(('reg', ty if ctx.rng.random() < 0.8 else ctx.rng.choice(TYPES), ctx.rng.choice(pats), tag))
                tag += 1
            else:
                ops.append(('get', ty, ctx.rng.randrange(8)))
        ops.append(('get', ty, ctx.rng.randrange(8)))
        cases.append({'ops': ops, 'default': ctx.rng.choice(['zero', 'fail'])})
    return cases


def run_sequence(cs, nn, pt, c, cons_by_type, specs_by_type):
    """-> list of (registrations so far, type, layer spec, satisfied, outcome on the LIVE object, outcome on a FRESH object)"""
    spec = cs.CostSpec(default_behavior=c['default'])
    fns, regs, out = {}, [], []

    def outcome(sp, ty, ls, fns_):
        try:
            fn = sp[(getattr(nn, ty), ls)]
        except KeyError:
            return -2
        for tg, f in fns_.items():
            if fn is f:
                return tg
        return -1 if fn is sp.default else -3
    for op in c['ops']:
        if op[0] == 'reg':
            _, t, cid, tag = op
            f = (lambda tag: (lambda s: tag))(tag)
            fns[tag] = f
            spec[(getattr(nn, t), None if cid is None else cons_by_type[t][cid])] = f
            regs.append((t, cid, tag))
        else:
            _, ty, si = op
            ls = specs_by_type[ty][si]
            sat = [i for i, k in enumerate(cons_by_type[ty]) if k(ls)]
            fresh = cs.CostSpec(default_behavior=c['default'])
            ffns = {}
            for (t, cid, tag) in regs:
                g = (lambda tag: (lambda s: tag))(tag)
                ffns[tag] = g
                fresh[(getattr(nn, t), None if cid is None else cons_by_type[t][cid])] = g
            out.append((list(regs), ty, ls, sat, outcome(spec, ty, ls, fns), outcome(fresh, ty, ls, ffns)))
    return out


def regenerate(ctx):
    """translate CostSpec.__setitem__ / __getitem__ of the tree under test into Gen/CostSpecGen.v (written only when it
    changed).  -> None, or the reason why the translator refused the source (the file then does not compile on purpose,
    so that no stale generated model can be mistaken for the current code)"""
    try:
        text, rej = costspec2coq.translate_repo(REPO), None
    except (costspec2coq.Reject, SyntaxError, OSError) as e:
        rej = '%s: %s' % (type(e).__name__, e)
        text = ('(* translator/costspec2coq.py REFUSED plinio/cost/cost_spec.py of the tree under test:\n   %s\n   no model of the current code exists; this file fails on purpose. *)\n'
                'Definition translator_rejected : True := 0.\n' % rej.replace('*)', '* )').replace('(*', '( *'))
    write_if_changed(GEN_V, text)
    return rej


def run(ctx):
    torch, nn, cs, pt = _env()
    gen_rejected = regenerate(ctx)
    if gen_rejected:
        ctx.notes.append('generated model: the translator refused the source: ' + gen_rejected)
    built = ctx.build()
    ctx.extra['generated_model'] = {'file': 'coq/Gen/CostSpecGen.v', 'translator': 'translator/costspec2coq.py', 'source': 'plinio/cost/cost_spec.py',
                                    'status': 'refused: ' + gen_rejected if gen_rejected else 'regenerated; equal to the hand model by C15_generated_setitem_is_model / C15_generated_getitem_is_model' if built else 'regenerated; obligations do not check'}
    ctx.rule = ('exhaustive: every ordered selection (65) of the 4 patterns {unconstrained, c0, c1, c2} of a layer type, interleaved with '
                'other-type registrations x 8 layer specs realising each satisfaction subset x 2 defaults x 3 types; plus built-in specs x '
                'layer catalogue; plus seeded registration lists with duplicates (length 0..8).  non-trivial = at least one registration for '
                'the looked-up type; distinct = distinct (registration list, type, satisfied set, default)')
    cases = gen_cases(ctx, pt)
    cons_by_type = {t: constraints_for(t, pt)[0] for t in TYPES}
    impl = []
    for c in cases:
        o = lookup_impl(cs, nn, c['regs'], cons_by_type, c['default'], c['ty'], c['spec'])
        impl.append(o)
        ctx.case((c['regs'], c['ty'], c['sat'], c['default']), nontrivial=any(r[0] == c['ty'] for r in c['regs']),
                 kind=c['kind'] + ':' + {-1: 'default', -2: 'conflict', -3: 'other'}.get(o, 'found'),
                 sample={'registrations': c['regs'], 'lookup_type': c['ty'], 'layer_spec': c['spec'], 'satisfied': c['sat'], 'default': c['default'], 'impl_outcome': o})
    ctx.exhaustive = True
    ctx.extra['exhaustive_part'] = '3120 lookups of the 4-pattern space (the seeded duplicate stream is sampled)'

    # ---- model evaluation (inside Coq) on the same registration lists
    mism = []
    model_ok = built
    if built:
        try:
            exprs = ['run_lookup %s %s %s' % (coq(coq_regs(c['regs'])), coq(Nat(TYPES.index(c['ty']))), coq([Nat(s) for s in c['sat']])) for c in cases]
            model = ctx.coq_eval_sharded('cases', ['Plinio.Model.CostSpec'], '', exprs, shard=600)
            for c, o, m in zip(cases, impl, model):
                ctx.corr += 1
                if o != m:
                    mism.append((c, o, m))
            # the GENERATED model (source of __setitem__ / __getitem__ translated on this run) evaluated on the same lists
            gexprs = [e.replace('run_lookup ', 'run_lookup_gen ', 1) for e in exprs]
            gmodel = ctx.coq_eval_sharded('gcases', ['Plinio.Model.CostSpec', 'Plinio.Gen.CostSpecGen'], '', gexprs, shard=600)
            for c, o, m in zip(cases, impl, gmodel):
                ctx.corr += 1
                if o != m:
                    mism.append((dict(c, model='generated'), o, m))
        except RuntimeError as e:
            model_ok = False
            ctx.notes.append('model evaluation failed: ' + str(e)[-500:])

    # ---- built-in specs (ties C15 to the specs C16 covers)
    bmism = []
    builtin_unreadable = None
    try:
        bcases = builtin_cases(nn, pt)
        for (name, sp, regs, cids, tyn, ls) in bcases:
            assert all(isinstance(t, type) for t in sp.data), 'CostSpec.data is not keyed by layer types'
    except Exception as e:     # the registrations of the built-in specs are read from CostSpec.data (internal representation)
        bcases = []
        builtin_unreadable = '%s: %s' % (type(e).__name__, e)
        ctx.notes.append('built-in specification stream skipped, CostSpec.data could not be read back: ' + builtin_unreadable)
    for (name, sp, regs, cids, tyn, ls) in bcases:
        ty = getattr(nn, tyn)
        try:
            fn = sp[(ty, ls)]
            o = next((tag for (t, c, f, tag) in regs if f is fn), -1 if fn is sp.default else -3)
        except KeyError:
            o = -2
        sat = []
        for c, i in cids.items():
            try:
                if c(ls):
                    sat.append(i)
            except KeyError:
                pass
        tyid = {t: k for k, t in enumerate(sp.data.keys())}
        exp = rule_py([(t, None if c is None else cids[c], tag) for (t, c, f, tag) in regs], ty, sat)
        ctx.case((name, tyn, repr(ls)), nontrivial=ty in tyid, kind='builtin:' + name)
        ctx.corr += 1
        if o != exp:
            bmism.append({'spec': name, 'type': tyn, 'layer_spec': ls, 'impl': o, 'rule': exp})

    # ---- the property itself, evaluated on the implementation (search oracle; always run: it is cheap)
    groups = {}
    nviol = 0
    for c, o in zip(cases, impl):
        if c['kind'] != 'exhaustive':
            # seeded stream (one function may serve several patterns): the documented rule speaks about pairwise distinct patterns
            pats_ty = [r[1] for r in c['regs'] if r[0] == c['ty']]
            if len(set(pats_ty)) != len(pats_ty):
                continue
        exp = rule_py(c['regs'], c['ty'], c['sat'])
        if o != exp:
            nviol += 1
            first_c = c['regs'][0][1] if c['regs'] else None
            key = 'lookup-differs-from-rule'
            ctx.violation(key, {'case': {k: v for k, v in c.items() if k != 'group'}, 'impl_outcome': o, 'rule_outcome': exp},
                          'CostSpec lookup returned %s, the documented rule gives %s for registrations %s, layer %s (codes: tag=found, -1 default, -2 conflict)' % (o, exp, c['regs'], c['spec']))
        if c['group'] is not None:
            groups.setdefault(c['group'], set()).add(o)
    for g, outs in groups.items():
        if len(outs) > 1:
            ctx.violation('lookup-order-dependent', {'group': [g[0], sorted(map(str, g[1])), g[2], g[3]], 'outcomes': sorted(outs)},
                          'lookup outcome depends on registration order: %s' % sorted(outs))
    for b in bmism:
        ctx.violation('builtin-lookup-differs-from-rule', b, 'built-in spec lookup differs from the rule: %s' % b)

    # ---- (d) what the built-in constraints accept, against the documented definitions (README): channel multipliers,
    #          1-channel layers and mixed kernels included; lookups with the DW / 3x3 patterns on the same catalogue
    for tyn, ls in layer_catalogue():
        got = (bool(pt.conv_dw_constraint(ls)), bool(pt.conv_3_constraint(ls)))
        exp = (dw_readme(ls), k3_readme(ls))
        ctx.case(('constraint', tyn, repr(ls)), nontrivial=True, kind='constraint-semantics')
        ctx.corr += 1
        if got != exp:
            ctx.violation('constraint-differs-from-documented-definition', {'case': {'type': tyn, 'layer_spec': ls}, 'impl(dw,3x3)': got, 'documented(dw,3x3)': exp},
                          'conv_dw_constraint / conv_3_constraint on %s %s give %s, the documented definitions give %s' % (tyn, ls, got, exp))
            continue
        ty = getattr(nn, tyn)
        # the same lookups through the library's own pre-defined (pattern, constraint) pairs (README "Patterns" table):
        # ConvNdGeneric / ConvNdDW / Conv1d3 / Conv2d3x3 must denote the documented patterns too
        named = {'Conv1d': ('Conv1dGeneric', 'Conv1dDW', 'Conv1d3'), 'Conv2d': ('Conv2dGeneric', 'Conv2dDW', 'Conv2d3x3')}.get(tyn)
        variants = [('functions', (ty, None), (ty, pt.conv_dw_constraint), (ty, pt.conv_3_constraint))]
        if named is not None:
            pg, pd, p3 = (getattr(pt, nm) for nm in named)
            ctx.corr += 1
            gotn = (pg[0] is ty and pg[1] is None, pd[0] is ty and bool(pd[1](ls)), p3[0] is ty and bool(p3[1](ls)))
            if gotn != (True,) + exp:
                ctx.violation('predefined-pattern-differs-from-documented-definition', {'case': {'type': tyn, 'layer_spec': ls, 'patterns': named}, 'impl(generic,dw,3x3)': gotn, 'documented': (True,) + exp},
                              'the pre-defined patterns %s on %s %s accept (generic, dw, 3x3) = %s, the documented definitions give %s' % (named, tyn, ls, gotn, (True,) + exp))
                continue
            variants.append(('predefined-patterns', pg, pd, p3))
        for vname, kg, kd, k3 in variants:
            for perm in ((0, 1, 2), (2, 1, 0), (1, 2, 0)):
                sp = cs.CostSpec(default_behavior='fail')
                f0, f1, f2 = (lambda s_: 0), (lambda s_: 1), (lambda s_: 2)
                items = [(kg, f0), (kd, f1), (k3, f2)]
                for i in perm:
                    sp[items[i][0]] = items[i][1]
                ctx.corr += 1
                try:
                    o = {id(f0): 10, id(f1): 11, id(f2): 12}.get(id(sp[(ty, ls)]), -3)
                except KeyError:
                    o = -2
                want = -2 if (exp[0] and exp[1]) else 11 if exp[0] else 12 if exp[1] else 10
                if o != want:
                    ctx.violation('lookup-differs-from-rule', {'case': {'regs': [(tyn, None, 10), (tyn, 0, 11), (tyn, 1, 12)], 'registered_through': vname, 'registration_order': perm, 'ty': tyn, 'spec': ls,
                                                                        'sat': [i for i, b in enumerate(exp) if b], 'default': 'fail'},
                                                               'impl_outcome': o, 'rule_outcome': want},
                                  'lookup for %s %s (registered through the %s, order %s) returned %s, the documented rule gives %s (10 generic, 11 depthwise, 12 3x3, -2 conflict)' % (tyn, ls, vname, perm, o, want))

    # ---- (d2) a user sub-class of a torch layer is a layer type of its own: patterns registered for the sub-class never answer
    #           lookups for the parent type (and vice versa), whatever the registration order
    class CausalConv1d(nn.Conv1d):
        pass

    class MyLinear(nn.Linear):
        pass
    # ... and so is a DIFFERENT class that merely has the same bare name (torch.ao.nn.quantized.Conv2d vs nn.Conv2d, a user's
    # own `class Conv1d`): a sub-class and an unrelated module class named like the torch layer
    SameNameSub = type('Conv1d', (nn.Conv1d,), {})
    SameNameOther = type('Linear', (nn.Module,), {})

    def tlabel(t):
        return '%s.%s' % (t.__module__, t.__qualname__)
    pairs = [(nn.Conv1d, CausalConv1d, {'in_channels': 3, 'out_channels': 4, 'groups': 1, 'kernel_size': (3,)}),
             (nn.Conv1d, CausalConv1d, {'in_channels': 4, 'out_channels': 4, 'groups': 4, 'kernel_size': (5,)}),
             (nn.Linear, MyLinear, {'in_features': 8, 'out_features': 4}),
             (nn.Conv1d, SameNameSub, {'in_channels': 4, 'out_channels': 4, 'groups': 4, 'kernel_size': (3,)}),
             (nn.Linear, SameNameOther, {'in_features': 8, 'out_features': 4})]
    try:
        import torch.ao.nn.quantized as nnq
        pairs.append((nn.Conv2d, nnq.Conv2d, {'in_channels': 4, 'out_channels': 4, 'groups': 1, 'kernel_size': (3, 3)}))
    except Exception:
        pass
    for parent, child, ls in pairs:
        pats = [(parent, None, 1), (child, None, 2)] + ([(parent, pt.conv_3_constraint, 3), (child, pt.conv_3_constraint, 4), (child, pt.conv_dw_constraint, 5)] if parent in (nn.Conv1d, nn.Conv2d) else [])
        for k in range(1, len(pats) + 1):
            for sel in itertools.permutations(pats, k):
                for default in ('zero', 'fail'):
                    sp = cs.CostSpec(default_behavior=default)
                    fns = {}
                    for (t, c, tag) in sel:
                        fns[tag] = (lambda tag: (lambda s_: tag))(tag)
                        sp[(t, c)] = fns[tag]
                    for ty in (parent, child):
                        sat = [tag for (t, c, tag) in sel if t is ty and c is not None and c(ls)]
                        un = [tag for (t, c, tag) in sel if t is ty and c is None]
                        want = -2 if len(sat) >= 2 else sat[0] if sat else un[-1] if un else -1
                        try:
                            fn = sp[(ty, ls)]
                            got = next((tg for tg, f in fns.items() if f is fn), -1 if fn is sp.default else -3)
                        except KeyError:
                            got = -2
                        ctx.case(('subclass', tlabel(ty), tuple((tlabel(t), getattr(c, '__name__', None), tag) for t, c, tag in sel), default), nontrivial=True,
                                 kind='same-name-types' if parent.__name__ == child.__name__ else 'subclass-types')
                        ctx.corr += 1
                        if got != want:
                            ctx.violation('lookup-differs-from-rule:' + ('other-class-of-the-same-name' if parent.__name__ == child.__name__ else 'sub-class-of-a-layer-type'),
                                          {'registrations': [(tlabel(t), getattr(c, '__name__', None), tag) for t, c, tag in sel],
                                           'lookup_type': tlabel(ty), 'layer_spec': ls, 'default': default, 'impl_outcome': got, 'rule_outcome': want},
                                          'with registrations %s the lookup for %s %s returned %s, the rule (patterns of the layer\'s own type only) gives %s'
                                          % ([(tlabel(t), getattr(c, '__name__', None), tag) for t, c, tag in sel], tlabel(ty), ls, got, want))

    # ---- (f) a specification and its deep copies are independent objects: patterns registered on a copy answer lookups on
    #          the copy only (rule on the union), the original (and sibling copies) keep following the rule on their own
    #          registrations; (g) the 'zero' default is a ZERO cost at every lookup, also after a caller accumulated in place
    #          on a cost it obtained earlier
    import copy as _copy
    f_tags = {}

    def _mk(tag):
        f_tags[tag] = (lambda t: (lambda s_: t))(tag)
        return f_tags[tag]

    def _look(sp, ty, ls):
        try:
            fn = sp[(ty, ls)]
        except KeyError:
            return -2
        return next((t for t, f in f_tags.items() if f is fn), -1 if fn is sp.default else -3)
    dw3 = {'in_channels': 4, 'out_channels': 4, 'groups': 4, 'kernel_size': (3, 3)}
    plain5 = {'in_channels': 3, 'out_channels': 6, 'groups': 1, 'kernel_size': (5, 5)}
    for default in ('zero', 'fail'):
        for base_regs in ([(None, 1)], [(None, 1), (pt.conv_dw_constraint, 2)], []):
            for extra in ([(pt.conv_dw_constraint, 5)], [(pt.conv_3_constraint, 6)], [(None, 7)], [(pt.conv_dw_constraint, 5), (pt.conv_3_constraint, 6)]):
                base = cs.CostSpec(default_behavior=default)
                for c_, tag in base_regs:
                    base[(nn.Conv2d, c_)] = _mk(tag)
                try:
                    cp, sib = _copy.deepcopy(base), _copy.deepcopy(base)
                except Exception as e:
                    ctx.notes.append('copy.deepcopy(CostSpec) raised %s: stream (f) skipped' % type(e).__name__)
                    break
                for c_, tag in extra:
                    cp[(nn.Conv2d, c_)] = _mk(tag)
                for ls in (dw3, plain5):
                    def want(regs):
                        sat = [t for c_, t in regs if c_ is not None and c_(ls)]
                        un = [t for c_, t in regs if c_ is None]
                        return -2 if len(sat) >= 2 else sat[0] if sat else un[-1] if un else -1
                    # functions are compared by identity: deep copies may clone them, so tags are resolved through a call
                    def look_tag(sp):
                        try:
                            fn = sp[(nn.Conv2d, ls)]
                        except KeyError:
                            return -2
                        if fn is sp.default or getattr(fn, '__name__', '') in ('cost_spec_zero_fn', 'cost_spec_fail_fn'):
                            return -1
                        try:
                            return fn(ls)
                        except Exception:
                            return -3
                    got = {'original': look_tag(base), 'copy': look_tag(cp), 'sibling-copy': look_tag(sib)}
                    exp = {'original': want(base_regs), 'copy': want(base_regs + extra), 'sibling-copy': want(base_regs)}
                    ctx.case(('copies', default, repr([(getattr(c_, '__name__', None), t) for c_, t in base_regs]), repr([(getattr(c_, '__name__', None), t) for c_, t in extra]), repr(ls)), nontrivial=True, kind='deep-copies')
                    ctx.corr += 3
                    if got != exp:
                        ctx.violation('lookup-differs-from-rule:registration-on-a-deep-copy', {'copies': {'registered_on_original': [(getattr(c_, '__name__', None), t) for c_, t in base_regs],
                                                                                                       'registered_on_copy_after_deepcopy': [(getattr(c_, '__name__', None), t) for c_, t in extra],
                                                                                                       'layer_spec': ls, 'default': default}, 'impl_outcome': got, 'rule_outcome': exp},
                                      'after copy.deepcopy(spec) and registrations %s on the copy, lookups for Conv2d %s give %s, the rule on each object\'s own registrations gives %s'
                                      % ([(getattr(c_, '__name__', None), t) for c_, t in extra], ls, got, exp))
    for ty, ls in ((nn.Linear, {'in_features': 8, 'out_features': 4}), (nn.Conv2d, plain5)):
        sp = cs.CostSpec(default_behavior='zero')
        sp[(nn.Conv1d, None)] = _mk(9)
        vals = []
        for rnd in range(3):
            v = sp[(ty, ls)](ls)
            vals.append(float(v))
            try:
                v += 421.0          # a caller accumulating a total in place on the cost it was handed
            except Exception:
                pass
        other = float(cs.CostSpec(default_behavior='zero')[(ty, ls)](ls))
        ctx.case(('default-zero', ty.__name__), nontrivial=True, kind='default-value')
        ctx.corr += 1
        if vals != [0.0, 0.0, 0.0] or other != 0.0:
            ctx.violation('default-cost-not-zero', {'default_value': {'type': ty.__name__, 'layer_spec': ls, 'successive_default_costs': vals, 'default_cost_of_a_new_specification': other}},
                          'the zero default of a specification returned %s on successive lookups for %s (a caller added 421 in place to each returned value), and %s on a new specification' % (vals, ty.__name__, other))

    # ---- (h) the 'fail' default is an ERROR for every unmatched layer, whatever the layer holds (vars() of parameter-free modules
    #          included), and the 'zero' default a zero cost for the same layers
    unmatched = [(nn.ReLU, dict(vars(nn.ReLU()))), (nn.MaxPool2d, dict(vars(nn.MaxPool2d(2)))), (nn.Flatten, dict(vars(nn.Flatten()))), (nn.Dropout, dict(vars(nn.Dropout(0.1)))),
                 (nn.BatchNorm2d, dict(vars(nn.BatchNorm2d(3)))), (nn.Linear, {'in_features': 8, 'out_features': 4}), (nn.Conv2d, dict(vars(nn.Conv2d(2, 3, 1)))), (nn.Identity, {})]
    for ty, ls in unmatched:
        for default in ('fail', 'zero'):
            sp = cs.CostSpec(default_behavior=default)
            sp[(nn.Conv1d, None)] = _mk(9)
            try:
                out = ('value', float(sp[(ty, ls)](ls)))
            except KeyError:
                out = ('raises', 'KeyError')
            except Exception as e:
                out = ('raises', type(e).__name__)
            want = ('raises', 'KeyError') if default == 'fail' else ('value', 0.0)
            ctx.case(('default-on-unmatched', ty.__name__, default), nontrivial=True, kind='default-value')
            ctx.corr += 1
            if out != want:
                ctx.violation('default-differs-from-declared-behaviour', {'default_on_unmatched': {'type': ty.__name__, 'default': default, 'layer_spec_keys': sorted(map(str, ls))[:12]}, 'impl_outcome': out, 'required': want},
                              'a specification with default_behavior=%r gives %s for an unmatched %s layer, required %s' % (default, out, ty.__name__, want))

    # ---- (e) registrations interleaved with lookups on one CostSpec object: every lookup must equal the lookup on a
    #          fresh object with the registrations made so far (and the model on that prefix)
    specs_by_type = {t: constraints_for(t, pt)[1] for t in TYPES}
    seq_obs = []
    for c in sequence_cases(ctx, pt):
        obs = run_sequence(cs, nn, pt, c, cons_by_type, specs_by_type)
        ctx.case(('seq', repr(c['ops']), c['default']), nontrivial=True, kind='sequence', sample={'ops': c['ops'], 'default': c['default']} if len(seq_obs) < 2 else None)
        for (regs, ty, ls, sat, live, fresh) in obs:
            seq_obs.append((regs, ty, sat, live))
            if live != fresh:
                ctx.violation('lookup-depends-on-earlier-lookups', {'sequence': c, 'registrations_so_far': regs, 'lookup_type': ty, 'layer_spec': ls, 'live_object': live, 'fresh_object': fresh},
                              'after the sequence %s the lookup for %s %s returned %s on the live CostSpec but %s on a fresh one with the same registrations' % (c['ops'], ty, ls, live, fresh))
    if built and model_ok and seq_obs:
        try:
            exprs = ['run_lookup %s %s %s' % (coq(coq_regs(r)), coq(Nat(TYPES.index(t))), coq([Nat(x) for x in sat])) for (r, t, sat, _) in seq_obs]
            mvals = ctx.coq_eval_sharded('seq', ['Plinio.Model.CostSpec'], '', exprs, shard=600)
            for (r, t, sat, live), m in zip(seq_obs, mvals):
                ctx.corr += 1
                if live != m:
                    mism.append(({'regs': r, 'ty': t, 'sat': sat, 'kind': 'sequence'}, live, m))
        except RuntimeError as e:
            model_ok = False
            ctx.notes.append('model evaluation failed: ' + str(e)[-500:])

    # ---- (i) the lookup as a SEARCH performs it (PIT call site): the pattern a layer satisfies is decided by the layer's own
    #          hyper-parameters, in every registration order, also when the specification is assigned in the middle of a search
    #          (masks moved, channels pruned) — a depthwise layer stays a depthwise layer whatever its masks say
    try:
        from plinio.methods import PIT
        tagfn = lambda t: (lambda spec_: torch.tensor(float(t)))
        for i in range(6 if ctx.quick else 40):
            C = ctx.rng.choice([4, 6, 8])
            torch.manual_seed(ctx.seed * 977 + i)
            net = nn.Sequential(nn.Conv2d(3, C, 3, padding=1), nn.ReLU(), nn.Conv2d(C, C, 3, padding=1, groups=C), nn.ReLU(), nn.Conv2d(C, C + 2, 1), nn.ReLU(),
                                nn.AdaptiveAvgPool2d(1), nn.Flatten(), nn.Linear(C + 2, 3))
            pats = [('Conv2d', None, 1), ('Conv2d', 'conv_dw_constraint', 100), ('Linear', None, 10000)]
            ctx.rng.shuffle(pats)
            when = ctx.rng.choice(['at-construction', 'after-masks-moved', 'after-search-steps'])
            disc = ctx.rng.random() < 0.5
            def mkspec():
                sp = cs.CostSpec(shared=True, default_behavior='zero')
                for (t, c_, tag) in pats:
                    sp[(getattr(nn, t), None if c_ is None else getattr(pt, c_))] = tagfn(tag)
                return sp
            info = {'pit_call_site': {'channels': C, 'registration_order': pats, 'specification_assigned': when, 'discrete_cost': disc}}
            try:
                if when == 'at-construction':
                    p_ = PIT(net, input_shape=(3, 6, 6), cost=mkspec(), discrete_cost=disc)
                else:
                    p_ = PIT(net, input_shape=(3, 6, 6), discrete_cost=disc)
                    if when == 'after-masks-moved':
                        with torch.no_grad():
                            for _n, q in p_.named_nas_parameters():
                                q.copy_(torch.tensor([ctx.rng.choice([-0.9, -0.2, 0.1, 0.3, 0.7, 1.0]) for _ in range(q.numel())]).reshape(q.shape))
                    else:
                        opt = torch.optim.SGD(p_.parameters(), lr=0.3)
                        for _ in range(3):
                            opt.zero_grad()
                            (p_(torch.randn(2, 3, 6, 6)).pow(2).mean() + 1e-2 * p_.cost).backward()
                            opt.step()
                    p_.cost_specification = mkspec()
                got = float(p_.cost)
                exc = None
            except Exception as ex:
                got, exc = None, '%s: %s' % (type(ex).__name__, str(ex)[:200])
            want = 2 * 1 + 100 + 10000      # two ordinary convolutions, one depthwise convolution, one linear layer
            ctx.case(('pit-site', C, repr(pats), when, disc), nontrivial=True, kind='pit-call-site:' + when)
            ctx.corr += 1
            if got != want:
                ctx.violation('lookup-differs-from-rule:pit-call-site', dict(info, impl_cost=got, required_cost=want, exception=exc),
                              'a PIT model (conv3x3, depthwise conv3x3, conv1x1, linear) with tag cost functions generic=1, depthwise=100, linear=10000 registered in the order %s, specification assigned %s: cost %r, required %r (each layer costed by the pattern its own hyper-parameters satisfy)%s' % (pats, when, got, want, '; ' + exc if exc else ''))
    except ImportError as ex:
        ctx.notes.append('PIT call-site stream skipped: ' + str(ex))

    # ---- broken proof / correspondence without a failing input
    if not ctx.violations:   # a printed KNOWN-FINDING must not hide a broken proof / model / correspondence
        if not built and gen_rejected:
            ctx.violation('translator-rejected', {'translator': 'translator/costspec2coq.py', 'source': 'plinio/cost/cost_spec.py', 'reason': gen_rejected,
                                                  'theorems': [o[0] for o in ctx.obligations if not o[1]]},
                          'the source of CostSpec is outside the subset the translator accepts (%s): no generated model, the C15_generated_* theorems are not established' % gen_rejected[:300], no_input=True)
        elif not built:
            ctx.violation('proof-broken', {'theorems': [o[0] for o in ctx.obligations if not o[1]], 'log': getattr(ctx, 'broken_log', '')[-3000:]},
                          'Props/C15.v no longer checks (the model generated from the current source of CostSpec may no longer equal the hand-written one: Proofs/CostSpecGen.v)', no_input=True)
        elif not model_ok:
            ctx.violation('model-eval-broken', {'notes': ctx.notes}, 'the model could not be evaluated', no_input=True)
        elif builtin_unreadable:
            ctx.violation('correspondence-broken', {'correspondence': 'registrations of the built-in specifications read back from CostSpec.data', 'error': builtin_unreadable},
                          'the registrations of the built-in specifications can no longer be read back (%s) and no other stream found a failing input' % builtin_unreadable, no_input=True)
        elif mism:
            c, o, m = mism[0]
            ctx.violation('correspondence-broken', {'case': {k: v for k, v in c.items() if k != 'group'}, 'impl_outcome': o, 'model_outcome': m, 'n_mismatches': len(mism),
                                                    'correspondence': 'Model/CostSpec.v run_lookup vs plinio.cost.CostSpec'},
                          'model and implementation disagree on %d lookups (first: impl %s, model %s) but the property oracle found no failing input' % (len(mism), o, m), no_input=True)
    ctx.extra['model_impl_mismatches'] = len(mism)


def replay(r):
    torch, nn, cs, pt = _env()
    c = r.get('case')
    if 'pit_call_site' in r:
        from plinio.methods import PIT
        d = r['pit_call_site']
        C = d['channels']
        net = nn.Sequential(nn.Conv2d(3, C, 3, padding=1), nn.ReLU(), nn.Conv2d(C, C, 3, padding=1, groups=C), nn.ReLU(), nn.Conv2d(C, C + 2, 1), nn.ReLU(),
                            nn.AdaptiveAvgPool2d(1), nn.Flatten(), nn.Linear(C + 2, 3))
        def mkspec():
            sp = cs.CostSpec(shared=True, default_behavior='zero')
            for (t, c_, tag) in d['registration_order']:
                sp[(getattr(nn, t), None if c_ is None else getattr(pt, c_))] = (lambda tg: (lambda s_: torch.tensor(float(tg))))(tag)
            return sp
        if d['specification_assigned'] == 'at-construction':
            p_ = PIT(net, input_shape=(3, 6, 6), cost=mkspec(), discrete_cost=d['discrete_cost'])
        else:
            p_ = PIT(net, input_shape=(3, 6, 6), discrete_cost=d['discrete_cost'])
            with torch.no_grad():
                for _n, q in p_.named_nas_parameters():
                    q.copy_(torch.linspace(-0.9, 1.0, q.numel()).reshape(q.shape))
            p_.cost_specification = mkspec()
        got = float(p_.cost)
        print('cost', got, 'required', r.get('required_cost'))
        return 0 if got == r.get('required_cost') else 1
    if 'default_on_unmatched' in r:
        d = r['default_on_unmatched']
        ty = getattr(nn, d['type'])
        mk = {'ReLU': lambda: nn.ReLU(), 'MaxPool2d': lambda: nn.MaxPool2d(2), 'Flatten': lambda: nn.Flatten(), 'Dropout': lambda: nn.Dropout(0.1), 'BatchNorm2d': lambda: nn.BatchNorm2d(3),
              'Conv2d': lambda: nn.Conv2d(2, 3, 1)}.get(d['type'])
        ls = dict(vars(mk())) if mk else ({'in_features': 8, 'out_features': 4} if d['type'] == 'Linear' else {})
        sp = cs.CostSpec(default_behavior=d['default'])
        try:
            out = ('value', float(sp[(ty, ls)](ls)))
        except KeyError:
            out = ('raises', 'KeyError')
        want = ('raises', 'KeyError') if d['default'] == 'fail' else ('value', 0.0)
        print('default', d['default'], 'on unmatched', d['type'], '->', out, 'required', want)
        return 0 if out == want else 1
    if 'copies' in r or 'default_value' in r:
        import copy as _copy
        if 'default_value' in r:
            d = r['default_value']
            ty = getattr(nn, d['type'])
            ls = {k: (tuple(v) if isinstance(v, list) else v) for k, v in d['layer_spec'].items()}
            sp = cs.CostSpec(default_behavior='zero')
            vals = []
            for _ in range(3):
                v = sp[(ty, ls)](ls)
                vals.append(float(v))
                try:
                    v += 421.0
                except Exception:
                    pass
            other = float(cs.CostSpec(default_behavior='zero')[(ty, ls)](ls))
            print('successive default costs', vals, 'new specification', other, '-> required: all zero')
            return 0 if vals == [0.0, 0.0, 0.0] and other == 0.0 else 1
        d = r['copies']
        ls = {k: (tuple(v) if isinstance(v, list) else v) for k, v in d['layer_spec'].items()}
        mk = lambda t: (lambda s_: t)
        base_regs = [(None if n is None else getattr(pt, n), t) for n, t in d['registered_on_original']]
        extra = [(None if n is None else getattr(pt, n), t) for n, t in d['registered_on_copy_after_deepcopy']]
        base = cs.CostSpec(default_behavior=d['default'])
        for c_, t in base_regs:
            base[(nn.Conv2d, c_)] = mk(t)
        cp, sib = _copy.deepcopy(base), _copy.deepcopy(base)
        for c_, t in extra:
            cp[(nn.Conv2d, c_)] = mk(t)

        def want(regs):
            sat = [t for c_, t in regs if c_ is not None and c_(ls)]
            un = [t for c_, t in regs if c_ is None]
            return -2 if len(sat) >= 2 else sat[0] if sat else un[-1] if un else -1

        def look(sp):
            try:
                fn = sp[(nn.Conv2d, ls)]
            except KeyError:
                return -2
            if fn is sp.default or getattr(fn, '__name__', '') in ('cost_spec_zero_fn', 'cost_spec_fail_fn'):
                return -1
            return fn(ls)
        got = {'original': look(base), 'copy': look(cp), 'sibling-copy': look(sib)}
        exp = {'original': want(base_regs), 'copy': want(base_regs + extra), 'sibling-copy': want(base_regs)}
        print('lookups', got, 'rule on each object\'s own registrations', exp)
        return 0 if got == exp else 1
    if not c and 'registrations' in r and 'lookup_type' in r:
        # sub-class / same-name streams: rebuild the classes from their labels
        import importlib
        cache = {}

        def cls(label):
            if label not in cache:
                mod, _, name = label.rpartition('.')
                name = name.split('.')[-1]
                if mod.startswith('torch'):
                    cache[label] = getattr(importlib.import_module(mod), name)
                else:
                    base = {'Conv1d': nn.Conv1d, 'CausalConv1d': nn.Conv1d, 'MyLinear': nn.Linear}.get(name, nn.Module)
                    cache[label] = type(name, (base,), {})
            return cache[label]
        ls = {k: (tuple(v) if isinstance(v, list) else v) for k, v in r['layer_spec'].items()}
        sp = cs.CostSpec(default_behavior=r['default'])
        fns = {}
        sel = [(cls(t), None if c_ is None else getattr(pt, c_), tag) for (t, c_, tag) in r['registrations']]
        for (t, c_, tag) in sel:
            fns[tag] = (lambda tag: (lambda s_: tag))(tag)
            sp[(t, c_)] = fns[tag]
        ty = cls(r['lookup_type'])
        sat = [tag for (t, c_, tag) in sel if t is ty and c_ is not None and c_(ls)]
        un = [tag for (t, c_, tag) in sel if t is ty and c_ is None]
        want = -2 if len(sat) >= 2 else sat[0] if sat else un[-1] if un else -1
        try:
            fn = sp[(ty, ls)]
            got = next((tg for tg, f in fns.items() if f is fn), -1 if fn is sp.default else -3)
        except KeyError:
            got = -2
        print('registrations', r['registrations'], 'lookup', r['lookup_type'], ls, '-> impl', got, 'rule', want)
        return 0 if got == want else 1
    if not c:
        print(json.dumps(r, indent=1))
        return 0
    cons_by_type = {t: constraints_for(t, pt)[0] for t in TYPES}
    regs = [tuple(x) for x in c.get('regs', [])]
    ls = {k: (tuple(v) if isinstance(v, list) else v) for k, v in c.get('spec', c.get('layer_spec', {})).items()}
    if c.get('registered_through') == 'predefined-patterns' or 'patterns' in c:
        tyn = c.get('ty', c.get('type'))
        named = {'Conv1d': ('Conv1dGeneric', 'Conv1dDW', 'Conv1d3'), 'Conv2d': ('Conv2dGeneric', 'Conv2dDW', 'Conv2d3x3')}[tyn]
        pats = [getattr(pt, nm) for nm in named]
        exp = (dw_readme(ls), k3_readme(ls))
        sp = cs.CostSpec(default_behavior='fail')
        fns = [(lambda s_: 0), (lambda s_: 1), (lambda s_: 2)]
        for i in c.get('registration_order', (0, 1, 2)):
            sp[pats[i]] = fns[i]
        try:
            o = {id(fns[0]): 10, id(fns[1]): 11, id(fns[2]): 12}.get(id(sp[(getattr(nn, tyn), ls)]), -3)
        except KeyError:
            o = -2
        want = -2 if (exp[0] and exp[1]) else 11 if exp[0] else 12 if exp[1] else 10
        print('pre-defined patterns', named, 'lookup', tyn, ls, '-> impl', o, 'documented rule', want, '(10 generic, 11 depthwise, 12 3x3, -2 conflict)')
        return 0 if o == want else 1
    o = lookup_impl(cs, nn, regs, cons_by_type, c['default'], c['ty'], ls)
    exp = rule_py(regs, c['ty'], c['sat'])
    print('registrations', regs, 'lookup', c['ty'], ls, '-> impl', o, 'rule', exp)
    return 0 if o == exp else 1
