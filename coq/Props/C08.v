(* C08 — No setting of the architectural parameters can search a layer out of existence.
   Statements only (proofs: Proofs/Masks.v; model: Model/Masks.v).  alpha, beta, gamma are ARBITRARY
   rational vectors (zero, negative, huge); K is any kernel size unless a bound is written. *)
From Coq Require Import QArith ZArith List Bool Arith.
Import ListNotations.
Require Import Plinio.Base.Qx Plinio.Model.Masks Plinio.Proofs.Masks.
Local Open Scope nat_scope.

Theorem C08_alpha_alive : forall alpha, alpha <> [] -> 1 <= out_features_opt alpha.
Proof. exact alpha_alive. Qed.

Theorem C08_frozen_full_width : forall alpha, Forall (fun x => bin x = true) (theta_alpha_frozen alpha).
Proof. exact frozen_full_width. Qed.

(* the binarized receptive-field mask is a non-empty suffix (most recent timesteps) *)
Theorem C08_beta_suffix : forall beta, beta <> [] ->
  let K := length beta in
  exists r, 1 <= r <= K /\ forall t, t < K -> nth t (map bin (theta_beta beta)) false = (K - r <=? t).
Proof. exact beta_suffix. Qed.

(* the binarized dilation mask is a power-of-two comb anchored at the most recent timestep *)
Theorem C08_gamma_comb : forall K gamma, gamma <> [] ->
  exists v, v < length gamma /\
    forall j, j < K -> nth j (map bin (theta_gamma true K gamma)) false = Nat.eqb ((K - 1 - j) mod 2 ^ v) 0.
Proof. exact gamma_comb. Qed.

Theorem C08_time_mask_nonempty : forall K beta gamma, 1 <= K -> length beta = K -> gamma <> [] ->
  1 <= kernel_size_opt true K beta gamma.
Proof. exact time_mask_nonempty. Qed.

Theorem C08_dilation_ge_1 : forall K d0 gamma, 1 <= d0 -> 1 <= dilation_opt true K d0 gamma.
Proof. exact dilation_opt_ge_1. Qed.

(* for EVERY K: the kept taps are exactly the taps of the exported layer, an arithmetic progression of
   kernel_size_opt taps spaced dilation_opt (= 2^v x initial dilation) ending at the last timestep. *)
Theorem C08_kept_taps_progression : forall K d0 beta gamma, 1 <= K -> length beta = K -> length gamma = gamma_len K ->
  let m := time_mask true K beta gamma in
  let k' := kernel_size_opt true K beta gamma in
  exists v, v < gamma_len K /\ dilation_opt true K d0 gamma = 2 ^ v * d0 /\
            kept_lags K m = export_lags k' (2 ^ v) /\ 1 <= k'.
Proof. exact kept_taps_progression. Qed.

(* the comb of the pinned upstream commit is anchored at tap 0: a kernel can vanish *)
Theorem C08_upstream_empty_kernel_refuted : exists K beta gamma, length beta = K /\ length gamma = gamma_len K /\
  kernel_size_opt false K beta gamma = 0.
Proof. exact time_mask_empty_refuted_v0. Qed.

Example C08_example :
  time_mask true 6 [0; 0; 0; 3; 0; -1]%Q [0; 1; 0]%Q = [false; false; false; true; false; true] /\
  kernel_size_opt true 6 [0; 0; 0; 3; 0; -1]%Q [0; 1; 0]%Q = 2 /\ dilation_opt true 6 3 [0; 1; 0]%Q = 6 /\
  gamma_len 6 = 3 /\ out_features_opt [0; -1; 0]%Q = 2.
Proof. vm_compute. repeat split. Qed.

Print Assumptions C08_alpha_alive.
Print Assumptions C08_frozen_full_width.
Print Assumptions C08_beta_suffix.
Print Assumptions C08_gamma_comb.
Print Assumptions C08_time_mask_nonempty.
Print Assumptions C08_dilation_ge_1.
Print Assumptions C08_kept_taps_progression.
Print Assumptions C08_upstream_empty_kernel_refuted.
