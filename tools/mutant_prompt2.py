#!/venv/bin/python
"""second-round prompt: like mutant_prompt.py, output dir /tmp/mut/out2/Cxx, labels C and D, plus a list of the
mechanisms already used in round 1 (summaries only) so that the new changes differ."""
import sys, json, subprocess, os, re
pid = sys.argv[1]
base = subprocess.run(['/venv/bin/python', '/verif/tools/mutant_prompt.py', pid], capture_output=True, text=True).stdout
os.makedirs('/tmp/mut/out2/' + pid, exist_ok=True)
base = base.replace('/tmp/mut/out/%s/' % pid, '/tmp/mut/out2/%s/' % pid).replace('(A and B)', '(C and D)').replace('X in A, B', 'X in C, D').replace('A and B must use', 'C and D must use').replace('summary of A and B', 'summary of C and D')
prev = []
for x in ('A', 'B'):
    f = '/verif/seeded/%s-%s/meta.json' % (pid, x)
    if os.path.exists(f):
        prev.append('- ' + (json.load(open(f)).get('summary') or '')[:500].replace('\n', ' '))
hint = "\n\nAn earlier round already produced the following two changes for this property; yours must use DIFFERENT mechanisms, in different functions, and should look for other corners of the property (other clauses of the statement, other layer types / options / call sequences):\n" + '\n'.join(prev) + '\n'
print(base.rstrip() + hint)
