"""C01 — PIT export computes the same function as the searched (masked) network (DESIGN.md §C01).

Theorems: coq/Props/C01.v over coq/Model/Conv.v (+ Model/Masks.v, Model/PitNet.v).
Streams (all seeded from ctx.rng):
  pattern nets : in -> pad -> Conv1d(K, d0) [-> BN] [-> act] [-> dw conv] -> pad -> Conv1d -> out, one per binarized
                 time-mask pattern (K, r, v): ALL patterns for K <= 9 (quick: all for K <= 6 + sampled K = 7..9),
                 fold_bn on/off, integer weights (exact) or real weights;
  grammar nets : vlib/gen_arch.py architectures (1-D causal, 2-D; depthwise, residual add with shared maskers,
                 channel concat, pooling, flatten heads, stride 1..2, dilation 1..3, K 1..9), random channel masks
                 (shared groups through the shared masker objects), random time patterns, fold_bn on/off;
  layers       : PITConv1d used directly on integer tensors (fused integer BN, fold on/off, depthwise, stride);
  operators    : torch conv1d / conv2d / linear / pad / relu / pooling on small-integer float64 tensors.
Oracle (on the implementation): PIT.eval()(x) == export().eval()(x) in float64 (exact for integer networks, 1e-9
relative otherwise) once every re-created BatchNorm got the sliced statistics of the one it replaces; at every
searchable layer boundary the exported output equals the alive channels of the masked output and masked-out
channels are exactly zero.
Correspondence (model evaluated by vm_compute): exported hyper-parameters (in/out channels, groups, kernel size,
dilation, ConstantPad1d amount, BN placement/width), time masks, provenance of every exported weight / bias element
(unique ids), layer forward values (run_pit_conv1d / run_exp_conv1d), operator values.
"""
import json, random, collections
from .common import *
from . import pitmask as pm
from . import gen_arch as ga
from . import c01_net as cn
from . import c01_gen
from .c01_gen import regenerate      # setup.sh regenerates Gen/ExportGen.v (and Gen/MasksGen.v) through this name

IMPORTS = ['Plinio.Model.Masks', 'Plinio.Model.Conv']
# minimized earlier failures, always run first (witnesses of the fixed findings; K = 4, 6, 7 = the comb-anchoring defect of C08)
CORPUS = [
    {'seed': 750449446, 'kind': 'pattern', 'pat': [3, 1, 1, 0], 'fold': True, 'mode': 'mix', 'integer': True, 'dw_mid': False},
    {'seed': 445864591, 'kind': 'pattern', 'pat': [2, 2, 2, 0], 'fold': True, 'mode': 'mix', 'integer': False, 'dw_mid': False},
    {'seed': 11, 'kind': 'pattern', 'pat': [4, 1, 1, 0], 'fold': False, 'mode': 'mix', 'integer': True, 'dw_mid': False},
    {'seed': 12, 'kind': 'pattern', 'pat': [6, 2, 3, 1], 'fold': False, 'mode': 'mix', 'integer': True, 'dw_mid': False},
    {'seed': 13, 'kind': 'pattern', 'pat': [7, 3, 5, 2], 'fold': True, 'mode': 'mix', 'integer': True, 'dw_mid': True},
]


# ----------------------------------------------------------------------------- jobs
def all_patterns(Kmax):
    return [(K, r, v) for K in range(1, Kmax + 1) for r in range(1, K + 1) for v in range(pm.glen(K))]


def make_jobs(ctx):
    rng = ctx.rng
    jobs = [('net', dict(j)) for j in CORPUS]
    pats = all_patterns(9)
    if ctx.quick:
        hi = [p for p in pats if p[0] > 6]
        pats = [p for p in pats if p[0] <= 6] + rng.sample(hi, 30)
    for i, (K, r, v) in enumerate(pats):
        d0s = [rng.choice([1, 2, 3])] if ctx.quick else [1, 2, 3]
        for d0 in d0s:
            jobs.append(('net', {'seed': rng.randrange(1 << 30), 'kind': 'pattern', 'pat': [K, d0, r, v], 'fold': rng.random() < 0.4,
                                 'mode': 'mix', 'integer': rng.random() < 0.6, 'dw_mid': rng.random() < 0.25}))
    ngr = 110 if ctx.quick else 2600
    for i in range(ngr):
        jobs.append(('net', {'seed': rng.randrange(1 << 30), 'kind': 'grammar', 'fold': i % 3 == 0, 'mode': rng.choice(['mix', 'mix', 'mix', 'min', 'all', 'adv']),
                             'integer': i % 2 == 0, 'dim': [1, 1, 2][i % 3]}))
    ncu = 99 if ctx.quick else 1100
    for i in range(ncu):
        jobs.append(('net', {'seed': rng.randrange(1 << 30), 'kind': 'custom', 'variant': cn.VARIANTS[i % len(cn.VARIANTS)], 'fold': i % 3 == 1,
                             'mode': rng.choice(['mix', 'mix', 'min', 'adv']), 'integer': i % 2 == 0}))
    nx = 40 if ctx.quick else 500
    for i in range(nx):
        jobs.append(('net', {'seed': rng.randrange(1 << 30), 'kind': 'xnet', 'fold': i % 3 == 0, 'mode': rng.choice(['mix', 'mix', 'min', 'adv']),
                             'integer': True, 'dim': [1, 1, 2][i % 3]}))
    nl = 150 if ctx.quick else 1500
    for i in range(nl):
        K = rng.randint(1, 9)
        jobs.append(('layer', {'seed': rng.randrange(1 << 30), 'K': K, 'd0': rng.choice([1, 2, 3]), 'r': rng.randint(1, K), 'v': rng.randint(0, pm.glen(K) - 1),
                               'fold': i % 3 == 0, 'dw': i % 4 == 1, 'stride': 2 if i % 5 == 4 else 1, 'bias': i % 7 != 0, 'bn': i % 2 == 0,
                               'padmode': [None, None, None, 'circular', None, 'reflect', None, None, 'replicate', None][i % 10]}))
    return jobs


# ----------------------------------------------------------------------------- operator cases (torch vs Z model)
def operator_cases(torch, rng, n):
    import torch.nn.functional as F
    out = []
    ri = lambda *shape: torch.randint(-3, 4, shape, generator=g).double()
    g = torch.Generator().manual_seed(rng.randrange(1 << 30))
    il = lambda t: json.loads(json.dumps(t.to(torch.int64).tolist()))
    for i in range(n):
        kind = ['conv1d', 'conv1d', 'conv2d', 'conv2d', 'linear', 'pad', 'act', 'pool1d', 'pool2d', 'gap'][i % 10]
        if kind == 'conv1d':
            cin, K, d, s = rng.randint(1, 3), rng.randint(1, 5), rng.randint(1, 3), rng.randint(1, 2)
            dw = rng.random() < 0.35
            cout = cin if dw else rng.randint(1, 3)
            T = d * (K - 1) + 1 + rng.randint(0, 6)
            x, w = ri(1, cin, T), ri(cout, 1 if dw else cin, K)
            b = ri(cout) if rng.random() < 0.7 else None
            y = F.conv1d(x, w, b, stride=s, dilation=d, groups=cin if dw else 1)[0]
            expr = 'Zconv1d %s %s %s %s %s %s %s %s' % (coq(dw), coq(il(w)), 'None' if b is None else coq(some(il(b))), coq(Nat(cin)), coq(Nat(K)), coq(Nat(d)), coq(Nat(s)), coq(il(x[0])))
        elif kind == 'conv2d':
            cin, kh, kw, d, s = rng.randint(1, 3), rng.choice([1, 3, 5]), rng.choice([1, 3]), rng.randint(1, 2), rng.randint(1, 2)
            dw = rng.random() < 0.35
            cout = cin if dw else rng.randint(1, 3)
            same = s == 1 and rng.random() < 0.5
            ph, pw = (d * (kh - 1) // 2, d * (kw - 1) // 2) if same else (rng.randint(0, 2),) * 2
            H, W = max(1, d * (kh - 1) + 1 - 2 * ph) + rng.randint(0, 3), max(1, d * (kw - 1) + 1 - 2 * pw) + rng.randint(0, 3)
            x, w = ri(1, cin, H, W), ri(cout, 1 if dw else cin, kh, kw)
            b = ri(cout) if rng.random() < 0.7 else None
            y = F.conv2d(x, w, b, stride=s, dilation=d, groups=cin if dw else 1, padding='same' if same else (ph, pw))[0]
            expr = 'Zconv2d %s %s %s %s %s %s %s %s %s %s %s' % (coq(dw), coq(il(w)), 'None' if b is None else coq(some(il(b))), coq(Nat(cin)), coq(Nat(kh)), coq(Nat(kw)), coq(Nat(d)), coq(Nat(s)), coq(Nat(ph)), coq(Nat(pw)), coq(il(x[0])))
        elif kind == 'linear':
            cin, cout = rng.randint(1, 6), rng.randint(1, 4)
            x, w = ri(1, cin), ri(cout, cin)
            b = ri(cout) if rng.random() < 0.7 else None
            y = F.linear(x, w, b)[0]
            expr = 'Zlinear %s %s %s %s' % (coq(il(w)), 'None' if b is None else coq(some(il(b))), coq(Nat(cin)), coq(il(x[0])))
        elif kind == 'pad':
            P = rng.randint(0, 5)
            x = ri(1, rng.randint(1, 3), rng.randint(1, 5))
            y = torch.nn.ConstantPad1d((P, 0), 0)(x)[0]
            expr = 'Zpad1d %s %s' % (coq(Nat(P)), coq(il(x[0])))
        elif kind == 'act':
            x = torch.randint(-9, 10, (1, 2, 6), generator=g).double()
            six = rng.random() < 0.5
            y = (torch.nn.ReLU6() if six else torch.nn.ReLU())(x)[0]
            expr = 'map (map %s) %s' % ('relu6' if six else 'relu', coq(il(x[0])))
        elif kind == 'pool1d':
            k = rng.randint(1, 3)
            x = ri(1, 2, rng.randint(k, 9))
            mx = rng.random() < 0.5
            y = F.max_pool1d(x, k)[0] if mx else F.avg_pool1d(x, k)[0] * k
            expr = 'map (%s %s) %s' % ('maxpool1d' if mx else 'sumpool1d', coq(Nat(k)), coq(il(x[0])))
        elif kind == 'pool2d':
            k = rng.randint(1, 3)
            x = ri(1, 2, rng.randint(k, 7), rng.randint(k, 7))
            mx = rng.random() < 0.5
            y = F.max_pool2d(x, k)[0] if mx else F.avg_pool2d(x, k)[0] * (k * k)
            expr = 'map (%s %s) %s' % ('maxpool2d' if mx else 'sumpool2d', coq(Nat(k)), coq(il(x[0])))
        else:
            T = rng.randint(1, 7)
            x = ri(1, 2, T)
            y = F.adaptive_avg_pool1d(x, 1)[0] * T
            expr = 'map (sumpool1d %s) %s' % (coq(Nat(T)), coq(il(x[0])))
        yr = y.round()
        out.append({'kind': kind, 'expr': expr, 'y': il(yr), 'exact': bool((y - yr).abs().max() < 1e-9) if y.numel() else True})
    return out


# ----------------------------------------------------------------------------- Coq expressions for the observations
def ids_tensor(base, shape):
    n = 1
    for s in shape:
        n *= s

    def rec(off, sh):
        if len(sh) == 1:
            return [base + off + i for i in range(sh[0])]
        step = 1
        for s in sh[1:]:
            step *= s
        return [rec(off + i * step, sh[1:]) for i in range(sh[0])]
    return rec(0, list(shape))


def flat(t):
    return [x for s in t for x in flat(s)] if isinstance(t, list) else [t]


def fr(l):
    return [Fraction(x) for x in l]


def layer_expr(L):
    """Coq term predicting everything export writes for one searchable layer (from the masks read on the PIT layer)"""
    ids = ids_tensor(L['ids']['w0'], L['wshape'])
    mout, min_ = coq(L['mout']), coq(L['min'])
    bias = 'None' if 'b0' not in L['ids'] else coq(some([L['ids']['b0'] + i for i in range(L['wshape'][0])]))
    if L['type'] == 'PITConv1d':
        hp = 'run_hp %s %s %s %s %s %s %s %s %s %s' % (coq(L['dw']), coq(L['frozen_t']), coq(L['has_bn']), coq(L['fold']), coq(Nat(L['K'])), coq(Nat(L['d0'])),
                                                      coq(fr(L['beta'])), coq(fr(L['gamma'])), mout, min_)
        w = 'run_export_w3 %s %s %s (time_mask_of %s %s %s %s) %s' % (coq(L['dw']), mout, min_, coq(L['frozen_t']), coq(Nat(L['K'])), coq(fr(L['beta'])), coq(fr(L['gamma'])), coq(ids))
    elif L['type'] == 'PITConv2d':
        hp = '(count_true %s, count_true %s)' % (min_, mout)
        w = 'run_export_w4 %s %s %s %s' % (coq(L['dw']), mout, min_, coq(ids))
    else:
        hp = '(count_true %s, count_true %s)' % (min_, mout)
        w = 'run_export_w2 %s %s %s' % (mout, min_, coq(ids))
    return '(%s, @export_bias Z %s %s, %s)' % (w, mout, bias, hp)


def compare_layer(L, val):
    """-> list of differences between the exported layer (implementation) and the model's prediction"""
    w, b, hp = val
    E = L['exported']
    diffs = []

    def chk(name, impl, model):
        if impl != model:
            diffs.append('%s: exported %r, model %r' % (name, impl, model))
    if L['type'] == 'PITConv1d':
        cin, cout, k, (dil, groups, pad, bn), tm = hp
        chk('time_mask', L['tm'], tm)
        chk('kernel_size', E['ks'], [k])
        chk('dilation', E['dil'], [dil])
        chk('groups', E['groups'], groups)
        chk('stride', E['stride'], [L['stride']])
        if L['padding'] == [0]:
            chk('ConstantPad1d', E['pad'], [pad, 0] if (E['pad'] is not None or pad != 0) else None)
        chk('exported_bn', E['bn'], None if bn is None else bn[1] if isinstance(bn, tuple) else bn)
    else:
        cin, cout = hp
        if L['type'] == 'PITConv2d':
            chk('groups', E['groups'], cin if L['dw'] else 1)
            chk('kernel_size', E['ks'], L['ks'])
            chk('dilation', E['dil'], [L['d0']] * 2)
            chk('stride', E['stride'], [L['stride']] * 2)
            chk('padding', E['padding'], L['padding'])
        chk('exported_bn', E['bn'], cout if (L['has_bn'] and not L['fold']) else None)
    chk('in', E['in'], cin)
    chk('out', E['out'], cout)
    if E['bn'] is not None:
        chk('bn_after_layer', E.get('bn_after_layer'), True)
    chk('has_bias', E['has_bias'], L['has_bias'])
    chk('weight ids', L.get('exp_w_ids'), flat(w))
    chk('bias ids', L.get('exp_b_ids'), None if b is None else (b[1] if isinstance(b, tuple) else b))
    return diffs


def xnet_expr(o):
    """Coq term `run_net nodes x` for a BN-free integer network: every derived quantity of the export (time mask, K', d',
    new pad amount, input masks, sliced parameters) is computed by the model"""
    spec, X = o['spec'], o['xnet']
    nodes = spec['nodes']
    terms = []

    def hp(L):
        return '(export_conv1d_hp %s %s false %s %s %s %s %s [] [])' % (coq(L['dw']), coq(L['frozen_t']), coq(L['fold']), coq(Nat(L['K'])), coq(Nat(L['d0'])), coq(fr(L['beta'])), coq(fr(L['gamma'])))
    for i, nd in enumerate(nodes):
        k = nd['k']
        nm = ga.name(i)
        L = o['layers'].get(nm)
        bias = lambda: 'None' if X['b'][nm] is None else coq(some(X['b'][nm]))
        if k == 'in':
            terms.append('XIn')
        elif k == 'pad1d':
            # the causal pad belongs to its (unique) Conv1d consumer: the model's XConv1 pads by (K-1)*d itself
            cons = [n2 for n2 in nodes if 'src' in n2 and (n2['src'] == i or (isinstance(n2['src'], list) and i in n2['src']))]
            if len(cons) != 1 or cons[0]['k'] != 'conv1d' or nd['left'] != (cons[0]['ks'] - 1) * cons[0]['dil']:
                return None
            terms.append('XId %s' % coq(Nat(nd['src'])))
        elif k == 'conv1d':
            terms.append('XConv1 %s %s %s %s %s %s %s %s %s %s (time_mask_of %s %s %s %s) (hp_k %s) (hp_dil %s)' % (
                coq(Nat(nd['src'])), coq(L['fold']), coq(L['dw']), coq(X['w'][nm]), bias(), coq(Nat(nd['cin'])), coq(Nat(nd['ks'])), coq(Nat(nd['dil'])), coq(Nat(nd['stride'])),
                coq(L['mout']), coq(L['frozen_t']), coq(Nat(L['K'])), coq(fr(L['beta'])), coq(fr(L['gamma'])), hp(L), hp(L)))
        elif k == 'conv2d':
            kh, kw = nd['ks']
            ph, pw = ((nd['dil'] * (kh - 1)) // 2, (nd['dil'] * (kw - 1)) // 2) if nd['padding'] == 'same' else (nd['padding'], nd['padding'])
            terms.append('XConv2 %s %s %s %s %s %s %s %s %s %s %s %s %s' % (
                coq(Nat(nd['src'])), coq(L['fold']), coq(L['dw']), coq(X['w'][nm]), bias(), coq(Nat(nd['cin'])), coq(Nat(kh)), coq(Nat(kw)), coq(Nat(nd['dil'])), coq(Nat(nd['stride'])),
                coq(Nat(ph)), coq(Nat(pw)), coq(L['mout'])))
        elif k == 'linear':
            terms.append('XLin %s %s %s %s %s %s' % (coq(Nat(nd['src'])), coq(L['fold']), coq(X['w'][nm]), bias(), coq(Nat(nd['cin'])), coq(L['mout'])))
        elif k in ('relu', 'relu_f', 'relu6'):
            terms.append('XAct %s %s' % (coq(Nat(nd['src'])), coq(k == 'relu6')))
        elif k in ('dropout', 'identity'):
            terms.append('XId %s' % coq(Nat(nd['src'])))
        elif k in ('maxpool1d', 'maxpool2d'):
            terms.append('XMaxPool %s %s' % (coq(Nat(nd['src'])), coq(Nat(nd['ks']))))
        elif k == 'flatten':
            terms.append('XFlatten %s' % coq(Nat(nd['src'])))
        elif k == 'add':
            terms.append('XAdd %s %s' % (coq(Nat(nd['src'][0])), coq(Nat(nd['src'][1]))))
        elif k == 'cat' and nd['dim'] == 1:
            terms.append('XCat %s' % coq([Nat(j) for j in nd['src']]))
        else:
            return None
    x = 'TS%d %s' % (spec['dim'], coq(X['x']))
    return 'run_net [%s] (%s)' % ('; '.join(terms), x)


def compare_xnet(o, val):
    """model (p, e, alive) of every node vs the implementation: outputs of every searchable layer of both networks, masks, final outputs"""
    X, spec = o['xnet'], o['spec']
    d = []
    if len(val) != len(spec['nodes']):
        return ['node count: model %d spec %d' % (len(val), len(spec['nodes']))]
    un = lambda t: t[1] if isinstance(t, tuple) and len(t) == 2 else t
    for i, nd in enumerate(spec['nodes']):
        nm = ga.name(i)
        p, e, a = val[i]
        if nm in o['layers']:
            L = o['layers'][nm]
            if a != L['mout']:
                d.append('%s alive: model %r impl %r' % (nm, a, L['mout']))
            src_alive = val[nd['src']][2]
            if src_alive != L['min']:
                d.append('%s input mask: model (alive of producer) %r impl features_mask %r' % (nm, src_alive, L['min']))
            if nm in X['pout'] and un(p) != X['pout'][nm]:
                d.append('%s masked output: model %r impl %r' % (nm, un(p), X['pout'][nm]))
            if nm in X['eout'] and un(e) != X['eout'][nm]:
                d.append('%s exported output: model %r impl %r' % (nm, un(e), X['eout'][nm]))
    out = spec['out'][0]
    if un(val[out][0]) != X['yp'] or un(val[out][1]) != X['ye']:
        d.append('network output: model (%r, %r) impl (%r, %r)' % (un(val[out][0]), un(val[out][1]), X['yp'], X['ye']))
    return d


def layer_case_exprs(c):
    j = c['job']
    tm = 'time_mask_of %s %s %s %s' % (coq(c['frozen']), coq(Nat(j['K'])), coq(fr(c['beta'])), coq(fr(c['gamma'])))
    mout = '(features_mask %s)' % coq(fr(c['alpha']))
    b = 'None' if c['b'] is None else coq(some(c['b']))
    bn = 'None' if c['bn'] is None else coq(some((c['bn'][0], c['bn'][1])))
    common_ = '%s %s %s' % (coq(c['w']), b, bn)
    pit = 'run_pit_conv1d true %s %s %s %s %s %s %s %s (%s) %s' % (coq(j['fold']), coq(j['dw']), common_, coq(Nat(c['cin'])), coq(Nat(j['K'])), coq(Nat(j['d0'])), coq(Nat(j['stride'])), mout, tm, coq(c['x']))
    kd = ('%s %s' % (coq(Nat(j['K'])), coq(Nat(j['d0'])))) if c['frozen'] else ('(kernel_size_opt true %s %s %s) (dilation_opt true %s %s %s)' % (
        coq(Nat(j['K'])), coq(fr(c['beta'])), coq(fr(c['gamma'])), coq(Nat(j['K'])), coq(Nat(j['d0'])), coq(fr(c['gamma']))))
    # the exported layer of the model, fed with the whole input (a directly used layer has no pruned producer)
    min_ = mout if j['dw'] else '(all_true %s)' % coq(Nat(c['cin']))       # a depthwise layer shares its mask with its producer
    exp = 'run_exp_conv1d %s %s %s %s %s %s (%s) %s' % (coq(j['dw']), common_, kd, coq(Nat(j['stride'])), mout, min_, tm, coq(c['x']))
    return '(%s, %s, %s, %s)' % (pit, exp, mout, tm)


# ----------------------------------------------------------------------------- run
def key_of(kind, job):
    return kind + (':fold_bn' if job.get('fold') else '')


def run(ctx):
    torch = setup_torch()
    gen_rejected = c01_gen.regenerate(ctx)
    built = ctx.build()
    ctx.extra['generated_model'] = c01_gen.status(gen_rejected, built)
    ctx.rule = ('pattern nets: one 1-D causal network per binarized time-mask pattern (K, r, v), K <= 9 (quick: all K <= 6 + 30 sampled of K = 7..9; thorough: all x d0 in 1..3); '
                'grammar nets: gen_arch architectures (1-D/2-D, depthwise, shared-mask residual adds, concat, pooling, flatten, stride 1..2, dilation 1..3) with random channel masks '
                '(modes mix/min/all/adv) and random time patterns; fold_bn on/off; integer (exact) and real weights; direct PITConv1d layers; torch operators on integer tensors. '
                'non-trivial = at least one channel or tap pruned; distinct = (architecture, masks) / layer case content')
    jobs = make_jobs(ctx)
    from concurrent.futures import ProcessPoolExecutor
    import multiprocessing as mp
    with ProcessPoolExecutor(max_workers=min(NPROC, 14), mp_context=mp.get_context('fork')) as ex:
        res = list(ex.map(cn.worker, jobs, chunksize=4))
    nets = [o for (k, _), o in zip(jobs, res) if k == 'net']
    lays = [o for (k, _), o in zip(jobs, res) if k == 'layer']
    ops = operator_cases(torch, ctx.rng, 200 if ctx.quick else 2000)

    fails = []      # (key, replay, what)
    nskip = 0
    for o in nets:
        job = o['job']
        if o['skip']:
            nskip += 1
            ctx.dist['net-skipped:' + o['skip']] += 1
            continue
        pruned = any((not all(L['mout'])) or ('tm' in L and not all(L['tm'])) for L in o['layers'].values())
        ctx.case(('n', o['arch'], json.dumps({k: (L['mout'], L.get('tm')) for k, L in o['layers'].items()}), job['fold']), nontrivial=pruned,
                 kind='net:%s:%s:%s' % (job['kind'], 'fold' if job['fold'] else 'nofold', 'int' if job['integer'] else 'real'),
                 sample={'arch': o['arch'], 'fold_bn': job['fold'], 'layers': {k: {'mout': L['mout'], 'tm': L.get('tm'), 'exported': L.get('exported')} for k, L in list(o['layers'].items())[:3]}} if job['seed'] % 23 == 0 else None)
        for ob in (o.get('preobserved') or ['(fresh wrapper)']):
            ctx.dist['preobserved:' + ob] += 1
        for sw in (o.get('switches') or ['(none)']):
            ctx.dist['switch:' + sw] += 1
        for t in o.get('topo', []):
            ctx.dist['topology:' + t] += 1
        for prod in (o.get('spec') or {}).get('productions', []):
            ctx.dist['prod:' + prod] += 1
        seen = set()
        for kind, info in o['fails']:
            if kind in seen:
                continue
            seen.add(kind)
            key = key_of(kind, job)
            if o.get('twosite_mismatch'):
                key = 'two-call-sites-different-producer-masks'
            fails.append((key, {'case': {'job': job, 'arch': o['arch']}, 'switches': o.get('switches'), 'detail': [f for f in o['fails']][:6], 'trace': o.get('trace')},
                          '%s on the implementation (fold_bn=%s, %s): %s' % (kind, job['fold'], o['arch'], info)))
    for c in lays:
        j = c['job']
        ctx.case(('l', json.dumps(c['w']), c['mout'], c['tm'], j['fold'], j['stride']), nontrivial=not (all(c['mout']) and all(c['tm'])), kind='layer:%s%s' % ('fold' if j['fold'] else 'nofold', ':dw' if j['dw'] else ''))
        dead = [v for co, row in enumerate(c['y']) if not c['mout'][co] for v in row]
        if any(v != 0 for v in dead):
            fails.append((key_of('dead-channel-not-zero', j), {'case': {'layer_job': j}, 'observed': {k: c[k] for k in ('mout', 'tm', 'b', 'y')}},
                          'PITConv1d (fold_bn=%s) outputs %r on its masked-out channels (mask %r), expected 0' % (j['fold'], dead[:6], c['mout'])))
    for c in lays:
        if c.get('ref') is not None and c['ref'] != c['y']:
            fails.append(('layer-differs-from-plain-layer:padding_mode' + (':fold_bn' if c['job']['fold'] else ''), {'case': {'layer_job': c['job']}, 'observed': {k: c[k] for k in ('mout', 'tm', 'y', 'ref')}},
                          'PITConv1d(padding_mode=%s, fold_bn=%s) forward %r differs from the plain Conv1d with the same parameters (alive channels, zeros elsewhere) %r' % (c['job']['padmode'], c['job']['fold'], c['y'], c['ref'])))
    for c in ops:
        ctx.case(('o', c['expr']), nontrivial=True, kind='op:' + c['kind'])
    ctx.extra['networks'] = len(nets) - nskip
    ctx.extra['time_patterns_enumerated'] = len({tuple(o['job']['pat'][:1] + o['job']['pat'][2:]) for o in nets if o['job']['kind'] == 'pattern'})
    ctx.extra['exhaustive_part'] = 'binarized time-mask patterns (K, r, v): all for K <= %d' % (6 if ctx.quick else 9)
    ctx.exhaustive = not ctx.quick

    for key, rep, what in fails:
        ctx.violation(key, rep, what)

    # ---------------- model in Coq
    mism = []
    model_ok = built
    if built:
        try:
            refs, exprs = [], []
            for o in nets:
                if o['skip']:
                    continue
                for nm, L in o['layers'].items():
                    if 'exported' in L and 'ids' in L:
                        refs.append((o, nm, L))
                        exprs.append(layer_expr(L))
            vals = ctx.coq_eval_sharded('layers', IMPORTS, '', exprs, shard=120)
            for (o, nm, L), v in zip(refs, vals):
                ctx.corr += 1
                d = compare_layer(L, v)
                if d:
                    mism.append(({'job': o['job'], 'arch': o['arch'], 'layer': nm, 'masks': {k: L.get(k) for k in ('mout', 'min', 'tm', 'beta', 'gamma')}}, d))
            gvals = ctx.coq_eval_sharded('glayers', c01_gen.IMPORTS, '', [c01_gen.layer_gen_expr(L) for _, _, L in refs], shard=120)
            mism += c01_gen.differences(refs, vals, gvals)
            xn = [(o, xnet_expr(o)) for o in nets if o.get('xnet')]
            xn = [(o, e) for o, e in xn if e]
            vals = ctx.coq_eval_sharded('xnets', IMPORTS, '', [e for _, e in xn], shard=25)
            for (o, _), v in zip(xn, vals):
                ctx.corr += 1
                d = compare_xnet(o, v)
                if d:
                    mism.append(({'job': o['job'], 'arch': o['arch']}, d))
            ctx.extra['whole_networks_evaluated_in_coq'] = len(xn)
            # run_net is PROVED to compute ceval_pit / ceval_exp for every node kind it has (C01_run_net_sound): all evaluated networks
            ctx.extra['whole_networks_in_proved_fragment'] = len(xn)
            mlays = [c for c in lays if not c['job'].get('padmode')]
            vals = ctx.coq_eval_sharded('lcases', IMPORTS, '', [layer_case_exprs(c) for c in mlays], shard=100)
            for c, (ypit, yexp, mout, tm) in zip(mlays, vals):
                ctx.corr += 1
                d = []
                if mout != c['mout']:
                    d.append('features_mask: impl %r model %r' % (c['mout'], mout))
                if tm != c['tm']:
                    d.append('time_mask: impl %r model %r' % (c['tm'], tm))
                if ypit != c['y'] or not c['y_is_int']:
                    d.append('PITConv1d.forward: impl %r model %r' % (c['y'], ypit))
                alive = [row for co, row in enumerate(c['y']) if c['mout'][co]]
                if yexp != alive and not d:
                    d.append('exported layer of the model %r != alive channels of the implementation forward %r' % (yexp, alive))
                if d:
                    mism.append(({'layer_job': c['job']}, d))
            gl = ctx.coq_eval_sharded('glcases', c01_gen.IMPORTS, '', [c01_gen.layer_case_gen_expr(c) for c in mlays], shard=100)
            mism += c01_gen.case_differences(mlays, vals, gl)
            vals = ctx.coq_eval_sharded('ops', IMPORTS, '', [c['expr'] for c in ops], shard=150)
            for c, v in zip(ops, vals):
                ctx.corr += 1
                if v != c['y'] or not c['exact']:
                    mism.append(({'operator': c['kind'], 'expr': c['expr']}, ['torch %r model %r' % (c['y'], v)]))
        except RuntimeError as ex:
            model_ok = False
            ctx.notes.append('model evaluation failed: ' + str(ex)[-1200:])
    ctx.extra['model_impl_mismatches'] = len(mism)

    if not ctx.violations:   # a printed KNOWN-FINDING must not hide a broken proof / model / correspondence
        if c01_gen.report(ctx, gen_rejected, built):
            pass
        elif not built:
            ctx.violation('proof-broken', {'theorems': [o[0] for o in ctx.obligations if not o[1]], 'log': getattr(ctx, 'broken_log', '')[-3000:]}, 'Props/C01.v no longer checks', no_input=True)
        elif not model_ok:
            ctx.violation('model-eval-broken', {'notes': ctx.notes}, 'the model could not be evaluated', no_input=True)
        elif mism:
            c, d = mism[0]
            ctx.violation('correspondence-broken', {'case': c, 'difference': d, 'n_mismatches': len(mism), 'correspondence': 'Model/Conv.v (export_w*, run_hp, run_pit_conv1d, operators) vs plinio PIT layers / torch'},
                          'model and implementation disagree on %d observations (first: %s) but the property oracle found no failing input' % (len(mism), json.dumps(d, default=jdefault)[:400]), no_input=True)


def replay(r):
    torch = setup_torch()
    print(json.dumps({k: v for k, v in r.items() if k not in ('trace',)}, indent=1, default=jdefault)[:3000])
    c = r.get('case', {})
    if 'job' in c:
        o = cn.net_case(torch, c['job'])
        print('replayed on the implementation: PIT.eval()(x) vs export().eval()(x) and every searchable layer boundary')
        print('required: equal outputs, exported layer output = alive channels of the masked output, masked-out channels = 0')
        print('observed failures:', o['fails'], o.get('trace', ''))
        return 0 if not o['fails'] else 1
    if 'layer_job' in c:
        o = cn.layer_case(torch, c['layer_job'])
        dead = [v for co, row in enumerate(o['y']) if not o['mout'][co] for v in row]
        print('PITConv1d forward, features mask', o['mout'], 'output', o['y'])
        bad = any(dead) or (o.get('ref') is not None and o['ref'] != o['y'])
        if o.get('ref') is not None:
            print('plain layer with the same parameters (alive channels):', o['ref'])
        print('required: masked-out channels are zero, alive channels equal the plain layer ->', 'holds' if not bad else 'VIOLATED')
        return 1 if bad else 0
    return 1
