"""Translator: forward / export of the three searchable PIT layers, export of the PIT BatchNorm layers  ->  coq/Gen/ExportGen.v   (C01)

Reads with `ast`, in the tree under test,
  plinio/methods/pit/nn/conv1d.py        PITConv1d.forward, .export, .in_features_opt         -> c1_forward_gen, c1_export_gen, c1_in_features_opt_gen
  plinio/methods/pit/nn/conv2d.py        PITConv2d.forward, .export, .in_features_opt         -> c2_*
  plinio/methods/pit/nn/linear.py        PITLinear.forward, .export, .in_features_opt         -> lin_*
  plinio/methods/pit/nn/batchnorm_1d.py  PITBatchNorm1d.export, .in_features_opt, .out_features_opt   -> bn1_*
  plinio/methods/pit/nn/batchnorm_2d.py  PITBatchNorm2d.export, ...                           -> bn2_*
(each with a `*_ok` definedness predicate) and emits Gallina that follows the code statement by statement over the
vocabulary of Model/Conv.v.  The mask quantities the code reads (`features_mask`, `time_mask`, `kernel_size_opt`,
`dilation_opt`, `out_features_opt`, `_features_mask`, `_time_mask`) are NOT re-translated: they are the functions of
Gen/MasksGen.v (translator/masks2coq.py, C08), whose presence and types are checked in the text that translator generates
for the same tree.  Proofs/ExportGen.v proves the generated functions equal to pit_conv1d_at / pit_conv2d_at / pit_linear_at,
export_w3 / w4 / w2, export_bias, export_conv1d_hp of Model/Conv.v and re-establishes the layer-level sentences of C01.

How the code is read (TRUSTED conventions)
  * a parameter tensor of rank r is an r-fold nested list over an arbitrary carrier R (the elements are only moved by
    export and multiplied by 0/1 masks by forward); an activation is a function of (channel, position..): the batch axis
    is dropped (every operation read here acts on each sample separately).  A 1-tuple (kernel_size, stride, dilation of a
    Conv1d, kernel_size_opt, dilation_opt) is read as its element, a Python int as Z, a size stored on the module as nat.
  * a mask is the float vector (list Q) MasksGen computes; `.bool()` is `x <> 0`; multiplying a tensor over R by a mask
    embeds the mask entry as bit (x <> 0), and the `*_ok` predicate demands that the mask be 0/1-valued there (is01).
    Broadcasting is computed from the reshapes (`unsqueeze`, `view`, `reshape` with 1 / -1): a mask may multiply a
    parameter tensor along its first or its last axis (equal length: `*_ok`), an activation along the channel axis.
  * `t[m, :, :]`, `t[:, m, :]`, ... with ONE boolean mask m and full slices is `select m` along that axis (mask as long as
    the axis: `*_ok`); `p.copy_(t)` makes the parameter equal to t and needs the shape the constructor gave p (`*_ok`;
    torch would broadcast a smaller t: refused here as a failure); the random initial values of the new module are
    arguments (init_*) the result provably does not depend on.  `cast(T, e)` = e, `with torch.no_grad():` = its body.
  * `self._conv_forward(input, w, b)` / `F.linear(input, w, b)` are conv1d_at / conv2d_at / linear_at of Model/Conv.v with
    the layer's own geometry (fixed text c1_conv_forward ...; padding 0 / 'valid' for Conv1d, groups in {1, depthwise}:
    `*_geom_ok`); `self.bn(y)` is the eval-mode per-channel affine map bn_at with the coefficients fb_coef of the module.
  * nn.Conv1d / Conv2d / Linear / BatchNorm1d / BatchNorm2d / ConstantPad1d are torch's classes with torch's constructor
    signatures (imports checked); conv_ctor_ok = torch's divisibility checks on groups.  nn.Conv*d stores `padding` as a
    str or a tuple, never as an int (the literal 0 in `padding in ('valid', 0, (0,))` is read as never equal).
  * torch.fx graph surgery is NOT translated: the statements that install the new ConstantPad1d in front of every call
    site and the new BatchNorm after every call site are pinned by AST digest (PINNED); they are read as "the pad feeding
    the layer has amount a" (x1_pad = Some a) and "a BatchNorm with these constructor arguments follows the layer"
    (x*_bn = Some ..).  `mod.add_submodule(str(n.target), new)` = the layer is replaced by `new` (its final state).
Structural checks (fail closed): each module defines exactly its one class with the expected bases; the first three
statements of export (get_submodule / type check / cast) have the expected text; `export` is a staticmethod (n, mod),
`forward(self, input)`; `input_features_calculator` is the plain accessor pair; no method other than __init__ stores to an
attribute forward / export read, none of __getattr__ / __setattr__ / __getattribute__ / __call__ / _conv_forward is
defined; __init__ of the five classes, export_node (pit/graph.py) and PIT.export (pit/pit.py) are pinned by digest.
Everything outside the subset raises Reject.
"""
import ast
import hashlib
import os
import re
import textwrap


class Reject(Exception):
    pass


def U(n):
    return ast.unparse(n).replace('\n', ' ')


def _d(n):
    return U(n)[:170]


def _strip(stmts):
    return [s for s in stmts if not (isinstance(s, ast.Expr) and isinstance(s.value, ast.Constant) and isinstance(s.value.value, str))]


def digest(node_or_list, rename=None):
    """AST digest (docstrings excluded; comments and layout are not in the AST); `rename`: {local name: placeholder}"""
    nodes = node_or_list if isinstance(node_or_list, list) else [node_or_list]
    mod = ast.parse('\n'.join(ast.unparse(x) for x in nodes))
    for x in ast.walk(mod):
        if isinstance(x, (ast.FunctionDef, ast.ClassDef)):
            x.body = _strip(x.body) or [ast.Pass()]
        if rename and isinstance(x, ast.Name) and x.id in rename:
            x.id = rename[x.id]
    return hashlib.sha256(ast.dump(mod).encode()).hexdigest()[:16]


RESERVED = {'in', 'as', 'at', 'end', 'fix', 'fun', 'if', 'then', 'else', 'let', 'match', 'with', 'return', 'forall', 'exists', 'Type', 'Prop', 'Set', 'where', 'for', 'using'}


def v_(name):
    if name in RESERVED or not name.isidentifier() or name.endswith('_'):
        raise Reject('local name %r' % name)
    return 'v_' + name


class V:
    """a typed symbolic value.  t in: Z nat bool Q oQ padv pmode nat2 qvec bvec ten oten act fbn obn obj none str tuple int
    (ten / oten: rank; qvec: shape over {'C', 1}; act: rank, chan)"""

    def __init__(self, t, term, **kw):
        self.t, self.term = t, term
        self.__dict__.update(kw)

    def clone(self, term):
        kw = {k: v for k, v in self.__dict__.items() if k not in ('t', 'term')}
        return V(self.t, term, **kw)


def conj(xs):
    xs = [x for x in xs if x != 'true']
    return ' && '.join(xs) if xs else 'true'


def block_text(lines, ret):
    return '\n'.join(lines + [ret])


def ind(s, n=2):
    return textwrap.indent(s, ' ' * n)


# =============================================================================== per-class tables
def masks_table(masks_text, short):
    """the functions Gen/MasksGen.v defines for the layer class `short` (c1 / c2 / lin): name -> (coq name, type, ok name or None)"""
    out = {}
    for m in re.finditer(r'^Definition (%s_(\w+?))_gen \(self : layer_self\)((?: \(v_\w+ : \w+\))*) : ([\w ]+?) :=' % short, masks_text, re.M):
        full, nm, extra, ty = m.group(1), m.group(2), m.group(3).strip(), m.group(4)
        has_ok = re.search(r'^Definition %s_ok \(self : layer_self\)' % re.escape(full), masks_text, re.M) is not None
        out[nm] = (full + '_gen', ty, full + '_ok' if has_ok else None, extra)
    return out


MASK_TYPES = {'features_mask': 'vec', 'time_mask': 'vec', 'kernel_size_opt': 'Z', 'dilation_opt': 'nat', 'out_features_opt': 'Z', '_features_mask': 'vec', '_time_mask': 'vec'}


class Cls:
    """what the translation knows about one layer class"""

    def __init__(self, short, name, torch_base, kind, rank, masks_text):
        self.short, self.name, self.torch_base, self.kind, self.rank = short, name, torch_base, kind, rank
        self.mt = masks_table(masks_text, short) if kind != 'bn' else {}
        wanted = {'conv1d': ['features_mask', 'time_mask', 'kernel_size_opt', 'dilation_opt', 'out_features_opt', '_features_mask', '_time_mask'],
                  'conv2d': ['features_mask', 'out_features_opt', '_features_mask'], 'linear': ['features_mask', 'out_features_opt', '_features_mask'], 'bn': []}[kind]
        for w in wanted:
            if w not in self.mt:
                raise Reject('Gen/MasksGen.v has no %s_%s_gen (translator/masks2coq.py): the mask quantities %s reads have no generated model' % (short, w, name))
            if self.mt[w][1] != MASK_TYPES[w]:
                raise Reject('%s_%s_gen of Gen/MasksGen.v has type %s, expected %s' % (short, w, self.mt[w][1], MASK_TYPES[w]))
            want_extra = '(v_discrete : bool)' if w.startswith('_') else ''
            if self.mt[w][3] != want_extra:
                raise Reject('%s_%s_gen of Gen/MasksGen.v takes %r, expected %r' % (short, w, self.mt[w][3], want_extra))
        self.wanted = wanted

    def attrs(self, S):
        """attribute path (after self.) -> V"""
        p = {'conv1d': 'c1s', 'conv2d': 'c2s', 'linear': 'ls', 'bn': 'bs'}[self.kind]
        f = lambda a: '(%s_%s %s)' % (p, a, S)
        A = {}
        if self.kind != 'bn':
            M = f('masks')
            A.update({'weight': V('ten', f('weight'), rank=self.rank), 'bias': V('oten', f('bias'), rank=1, bind='bias_'), 'bn': V('obn', f('bn'), bind='bn_'),
                      'fold_bn': V('bool', f('fold_bn')), 'input_features_calculator.features_mask': V('qvec', f('in_mask'), shape=('C',)),
                      'in_features_opt': V('Z', '(%s_in_features_opt_gen R %s)' % (self.short, S))})
            for w in self.wanted:
                if w.startswith('_'):
                    continue
                gen, ty, ok, _ = self.mt[w]
                oks = ['(%s %s)' % (ok, M)] if ok else []
                if ty == 'vec':
                    A[w] = V('qvec', '(%s %s)' % (gen, M), shape=('C',), oks=oks)
                else:
                    A[w] = V(ty, '(%s %s)' % (gen, M), oks=oks, tup1=w in ('kernel_size_opt', 'dilation_opt'))
        if self.kind == 'conv1d':
            A.update({'in_channels': V('nat', f('in_channels')), 'out_channels': V('nat', f('out_channels')), 'groups': V('nat', f('groups')),
                      'kernel_size': V('nat', f('kernel_size'), tup1=True), 'stride': V('nat', f('stride'), tup1=True), 'dilation': V('nat', f('dilation'), tup1=True),
                      'padding': V('padv', f('padding')), 'padding_mode': V('pmode', f('padding_mode'))})
        if self.kind == 'conv2d':
            A.update({'in_channels': V('nat', f('in_channels')), 'out_channels': V('nat', f('out_channels')), 'groups': V('nat', f('groups')),
                      'kernel_size': V('nat2', f('kernel_size')), 'stride': V('nat2', f('stride')), 'dilation': V('nat2', f('dilation')),
                      'padding': V('padv', f('padding')), 'padding_mode': V('pmode', f('padding_mode'))})
        if self.kind == 'linear':
            A.update({'in_features': V('nat', f('in_features')), 'out_features': V('nat', f('out_features'))})
        if self.kind == 'bn':
            aff = ['(bs_affine %s)' % S]
            A.update({'weight': V('ten', f('weight'), rank=1, oks=aff), 'bias': V('ten', f('bias'), rank=1, oks=aff),
                      'running_mean': V('oten', f('mean'), rank=1, bind='running_mean_'), 'running_var': V('oten', f('var'), rank=1, bind='running_var_'),
                      'eps': V('Q', f('eps')), 'momentum': V('oQ', f('momentum')), 'affine': V('bool', f('affine')), 'track_running_stats': V('bool', f('track')),
                      'input_features_calculator.features_mask': V('qvec', f('in_mask'), shape=('C',)),
                      'in_features_opt': V('Z', '(%s_in_features_opt_gen R %s)' % (self.short, S)), 'out_features_opt': V('Z', '(%s_out_features_opt_gen R %s)' % (self.short, S))})
        return A

    # attributes of `self` forward / export read and that no other method may store to
    def tracked(self):
        return {'weight', 'bias', 'bn', 'fold_bn', 'in_channels', 'out_channels', 'groups', 'kernel_size', 'stride', 'dilation', 'padding', 'padding_mode',
                'in_features', 'out_features', 'eps', 'momentum', 'affine', 'track_running_stats', 'running_mean', 'running_var', 'num_features',
                '_input_features_calculator', 'out_features_masker', 'timestep_masker', 'dilation_masker', 'binarization_threshold', 'training'}


FBN_FIELDS = {'eps': ('Q', 'fb_eps'), 'momentum': ('oQ', 'fb_momentum'), 'affine': ('bool', 'fb_affine'), 'track_running_stats': ('bool', 'fb_track')}

# torch constructor signatures: class -> [(slot, type, record field)]
CTORS = {
    'Conv1d': ('conv1d_new', [('in_channels', 'Z', 'nc_in'), ('out_channels', 'Z', 'nc_out'), ('kernel_size', 'Z', 'nc_kernel'), ('stride', 'nat', 'nc_stride'),
                              ('padding', 'padv', 'nc_padding'), ('dilation', 'Z', 'nc_dilation'), ('groups', 'Z', 'nc_groups'), ('bias', 'bool', 'nc_has_bias'),
                              ('padding_mode', 'pmode', 'nc_padding_mode')]),
    'Conv2d': ('conv2d_new', [('in_channels', 'Z', 'n2_in'), ('out_channels', 'Z', 'n2_out'), ('kernel_size', 'nat2', 'n2_kernel'), ('stride', 'nat2', 'n2_stride'),
                              ('padding', 'padv', 'n2_padding'), ('dilation', 'nat2', 'n2_dilation'), ('groups', 'Z', 'n2_groups'), ('bias', 'bool', 'n2_has_bias'),
                              ('padding_mode', 'pmode', 'n2_padding_mode')]),
    'Linear': ('linear_new', [('in_features', 'Z', 'nl_in'), ('out_features', 'Z', 'nl_out'), ('bias', 'bool', 'nl_has_bias')]),
    'BatchNorm1d': ('bn_new', [('num_features', 'Z', 'nb_features'), ('eps', 'Q', 'nb_eps'), ('momentum', 'oQ', 'nb_momentum'), ('affine', 'bool', 'nb_affine'),
                               ('track_running_stats', 'bool', 'nb_track')]),
}
CTORS['BatchNorm2d'] = CTORS['BatchNorm1d']

# the graph-surgery statements of export (after the creation of the new pad / the new BatchNorm), local names normalised
PINNED = {
    'pad_install': None, 'bn_install': None,      # filled below (PINNED.update)
}


# =============================================================================== one function
class FnTr:
    """translation of one method.  mode 'val' -> the value, 'ok' -> the definedness predicate (same lets + ok_)"""

    def __init__(self, cls, fn, kind, mode, selfname):
        self.cls, self.fn, self.kind, self.mode, self.selfname = cls, fn, kind, mode, selfname
        self.S = v_(selfname) if selfname != 'self' else 'self'
        self.attrs = cls.attrs(self.S)
        self.pending = []           # ok conditions of the expression being evaluated
        self.depth = 0
        self.ring = 'r0 r1 radd rmul'

    # ---------------------------------------------------------------- ok conditions
    def need(self, cond):
        self.pending.append(cond)

    def flush(self, lines, env):
        if self.mode == 'ok' and self.pending:
            c = conj(self.pending)
            lines.append('let ok_ := ok_ && %s in' % c)
            env['#ok'] = V('bool', 'ok_')
        self.pending = []

    # ---------------------------------------------------------------- expressions
    def self_path(self, n):
        """['bn', 'eps'] for self.bn.eps; None if n is not an attribute chain on the layer object"""
        path = []
        while isinstance(n, ast.Attribute):
            path.insert(0, n.attr)
            n = n.value
        if isinstance(n, ast.Name) and n.id == self.selfname and path:
            return path
        return None

    def ex(self, n, env):
        key = '~' + U(n)
        if key in env:
            return env[key]
        if isinstance(n, ast.Name):
            if n.id in env:
                return env[n.id]
            raise Reject('%s.%s: name %s is not bound here' % (self.cls.name, self.fn.name, n.id))
        if isinstance(n, ast.Constant):
            c = n.value
            if c is None:
                return V('none', 'None')
            if isinstance(c, bool):
                return V('bool', 'true' if c else 'false')
            if isinstance(c, int):
                return V('int', '%d' % c, value=c)
            if isinstance(c, str):
                return V('str', None, value=c)
            raise Reject('constant %r' % (c,))
        if isinstance(n, ast.Tuple):
            return V('tuple', None, items=[self.ex(e, env) for e in n.elts])
        if isinstance(n, ast.Attribute):
            path = self.self_path(n)
            if path is not None:
                k = '.'.join(path)
                if k in self.attrs:
                    v = self.attrs[k]
                    for c in getattr(v, 'oks', []):
                        self.need(c)
                    return v
                if len(path) == 1:
                    raise Reject('%s.%s reads %s.%s, which is not an attribute the translation knows' % (self.cls.name, self.fn.name, self.selfname, path[0]))
            base = self.ex(n.value, env)
            if base.t == 'fbn' and n.attr in FBN_FIELDS:
                ty, proj = FBN_FIELDS[n.attr]
                return V(ty, '(%s %s)' % (proj, base.term))
            if base.t == 'obj' and n.attr in base.fields:
                return env[base.fields[n.attr]]
            raise Reject('%s.%s: attribute %s' % (self.cls.name, self.fn.name, _d(n)))
        if isinstance(n, ast.Subscript):
            return self.subscript(n, env)
        if isinstance(n, ast.Compare):
            return self.compare(n, env)
        if isinstance(n, ast.BoolOp):
            vs = [self.as_bool(self.ex(x, env), x) for x in n.values]
            op = ' && ' if isinstance(n.op, ast.And) else ' || '
            return V('bool', '(' + op.join(v.term for v in vs) + ')')
        if isinstance(n, ast.UnaryOp) and isinstance(n.op, ast.Not):
            return V('bool', '(negb %s)' % self.as_bool(self.ex(n.operand, env), n.operand).term)
        if isinstance(n, ast.BinOp):
            return self.binop(n, env)
        if isinstance(n, ast.IfExp):
            return self.ifexp(n, env)
        if isinstance(n, ast.Call):
            return self.call(n, env)
        raise Reject('%s.%s: expression %s' % (self.cls.name, self.fn.name, _d(n)))

    def as_bool(self, v, n):
        if v.t != 'bool':
            raise Reject('%s is not a boolean' % _d(n))
        return v

    def as_Z(self, v, n):
        if v.t == 'Z':
            return v.term
        if v.t == 'nat':
            return '(Z.of_nat %s)' % v.term
        if v.t == 'int':
            return '%s%%Z' % v.term if v.value >= 0 else '(%s)%%Z' % v.term
        raise Reject('%s is not an integer' % _d(n))

    def compare(self, n, env):
        if len(n.ops) != 1:
            raise Reject('comparison chain ' + _d(n))
        op, a, b = n.ops[0], n.left, n.comparators[0]
        if isinstance(op, (ast.Is, ast.IsNot)):
            if not (isinstance(b, ast.Constant) and b.value is None):
                raise Reject('`is` test ' + _d(n))
            o = self.ex(a, env)
            if o.t not in ('oten', 'obn', 'oQ'):
                raise Reject('`is None` test of ' + _d(a))
            return V('bool', '(is_none %s)' % o.term if isinstance(op, ast.Is) else '(negb (is_none %s))' % o.term)
        if isinstance(op, (ast.Eq, ast.NotEq)):
            va, vb = self.ex(a, env), self.ex(b, env)
            if va.t == 'nat' and vb.t == 'nat' and getattr(va, 'tup1', False) == getattr(vb, 'tup1', False):
                t = '(%s =? %s)' % (va.term, vb.term)
            elif va.t in ('Z', 'nat', 'int') and vb.t in ('Z', 'nat', 'int') and not getattr(va, 'tup1', False) and not getattr(vb, 'tup1', False):
                t = '(%s =? %s)%%Z' % (self.as_Z(va, a), self.as_Z(vb, b))
            elif va.t == 'padv' or vb.t == 'padv':
                t = self.pad_eq(va if va.t == 'padv' else vb, vb if va.t == 'padv' else va, n)
            else:
                raise Reject('comparison ' + _d(n))
            return V('bool', t if isinstance(op, ast.Eq) else '(negb %s)' % t)
        if isinstance(op, (ast.In, ast.NotIn)):
            va, vb = self.ex(a, env), self.ex(b, env)
            if va.t != 'padv' or vb.t != 'tuple':
                raise Reject('membership test ' + _d(n))
            t = '(' + ' || '.join(self.pad_eq(va, x, n) for x in vb.items) + ')' if vb.items else 'false'
            return V('bool', t if isinstance(op, ast.In) else '(negb %s)' % t)
        raise Reject('comparison ' + _d(n))

    def pad_eq(self, p, lit, n):
        """p == literal for the `padding` attribute of a convolution (a str or a tuple of ints)"""
        if lit.t == 'str' and lit.value in ('valid', 'same'):
            return '(padv_eqb %s %s)' % (p.term, 'PadValid' if lit.value == 'valid' else 'PadSame')
        if lit.t == 'str' or lit.t == 'int':
            return 'false'          # another string / a bare int: nn.Conv*d never stores these
        if lit.t == 'tuple' and all(x.t == 'int' and x.value >= 0 for x in lit.items):
            return '(padv_eqb %s (PadTuple [%s]))' % (p.term, '; '.join(x.term for x in lit.items))
        raise Reject('padding compared with ' + _d(n))

    def binop(self, n, env):
        a, b = self.ex(n.left, env), self.ex(n.right, env)
        if isinstance(n.op, ast.Mult) and ('qvec' in (a.t, b.t)):
            return self.mul(a, b, n)
        if isinstance(n.op, (ast.Add, ast.Sub, ast.Mult)) and a.t in ('Z', 'nat', 'int') and b.t in ('Z', 'nat', 'int'):
            if getattr(a, 'tup1', False) or getattr(b, 'tup1', False):
                raise Reject('arithmetic on a tuple: ' + _d(n))
            o = {ast.Add: '+', ast.Sub: '-', ast.Mult: '*'}[type(n.op)]
            return V('Z', '(%s %s %s)%%Z' % (self.as_Z(a, n.left), o, self.as_Z(b, n.right)))
        raise Reject('operator in ' + _d(n))

    def subscript(self, n, env):
        base = self.ex(n.value, env)
        idx = n.slice
        if getattr(base, 'tup1', False):
            if isinstance(idx, ast.Constant) and idx.value == 0:
                return V(base.t, base.term, oks=getattr(base, 'oks', []))
            raise Reject('index of a 1-tuple: ' + _d(n))
        if base.t == 'ten':
            items = list(idx.elts) if isinstance(idx, ast.Tuple) else [idx]
            if len(items) > base.rank:
                raise Reject('too many indices: ' + _d(n))
            axis, mask = None, None
            for k, it in enumerate(items):
                if isinstance(it, ast.Slice) and it.lower is None and it.upper is None and it.step is None:
                    continue
                m = self.ex(it, env)
                if m.t != 'bvec' or axis is not None:
                    raise Reject('index not in the subset (one boolean mask and full slices): ' + _d(n))
                axis, mask = k, m
            if axis is None:
                return base
            sel = '(select %s)' % mask.term
            term = base.term
            for _ in range(axis):
                sel = '(map %s)' % sel
            lenchk = '(fun a_ => length a_ =? length %s)' % mask.term
            for _ in range(axis):
                lenchk = '(forallb %s)' % lenchk
            self.need('(%s %s)' % (lenchk, term))
            return V('ten', '(%s %s)' % (sel, term), rank=base.rank)
        raise Reject('subscript ' + _d(n))

    def reshape(self, n, base, env):
        f = n.func.attr
        if base.t != 'qvec' or n.keywords:
            raise Reject('reshape of ' + _d(n))
        sh = list(base.shape)
        if f == 'unsqueeze':
            if len(n.args) != 1 or not isinstance(n.args[0], ast.Constant) or not isinstance(n.args[0].value, int) or not 0 <= n.args[0].value <= len(sh):
                raise Reject('unsqueeze ' + _d(n))
            sh.insert(n.args[0].value, 1)
        else:
            args = n.args[0].elts if len(n.args) == 1 and isinstance(n.args[0], (ast.Tuple, ast.List)) else n.args
            dims = []
            for a in args:
                if isinstance(a, ast.UnaryOp) and isinstance(a.op, ast.USub) and isinstance(a.operand, ast.Constant) and a.operand.value == 1:
                    dims.append('C')
                elif isinstance(a, ast.Constant) and a.value == 1:
                    dims.append(1)
                else:
                    raise Reject('reshape ' + _d(n))
            if dims.count('C') != 1:
                raise Reject('reshape ' + _d(n))
            sh = dims
        return V('qvec', base.term, shape=tuple(sh))

    def mul(self, a, b, n):
        """torch.mul / * of a tensor over R with a (reshaped) mask"""
        left = a.t == 'qvec'
        m, t = (a, b) if left else (b, a)
        if m.t != 'qvec' or t.t not in ('ten', 'act'):
            raise Reject('product not in the subset (parameter tensor or activation times mask): ' + _d(n))
        rank = t.rank
        if len(m.shape) > rank:
            raise Reject('the mask has more axes than the tensor it multiplies: ' + _d(n))
        sh = (1,) * (rank - len(m.shape)) + tuple(m.shape)
        axis = sh.index('C')
        self.need('(is01 %s)' % m.term)
        L = 'true' if left else 'false'
        if t.t == 'act':
            if axis != 1:
                raise Reject('a mask multiplies an activation along axis %d, not along the channel axis: %s' % (axis, _d(n)))
            self.need('(length %s =? %s)' % (m.term, t.chan))
            return V('act', '(amul%d r0 r1 rmul %s %s %s)' % (rank - 2, L, m.term, t.term), rank=rank, chan=t.chan)
        if rank == 1:
            self.need('(length %s =? length %s)' % (m.term, t.term))
            return V('ten', '(mul1 r0 r1 rmul %s %s %s)' % (L, m.term, t.term), rank=1)
        if axis == 0:
            self.need('(length %s =? length %s)' % (m.term, t.term))
            return V('ten', '(wmul%d_ax0 r0 r1 rmul %s %s %s)' % (rank, L, m.term, t.term), rank=rank)
        if axis == rank - 1:
            self.need('(%s %s (length %s))' % ({2: 'rows_len', 3: 'rows_len3', 4: 'rows_len4'}[rank], t.term, m.term))
            return V('ten', '(wmul%d_ax%d r0 r1 rmul %s %s %s)' % (rank, axis, L, m.term, t.term), rank=rank)
        raise Reject('a mask multiplies a parameter tensor along a middle axis: ' + _d(n))

    def call(self, n, env):
        f = n.func
        fs = U(f)
        if fs == 'cast' and len(n.args) == 2 and not n.keywords:
            return self.ex(n.args[1], env)
        if fs == 'int' and len(n.args) == 1 and not n.keywords:
            a = n.args[0]
            if isinstance(a, ast.Call) and U(a.func) == 'torch.sum' and len(a.args) == 1 and not a.keywords:
                x = self.ex(a.args[0], env)
                if x.t == 'qvec' and x.shape == ('C',):
                    return V('Z', '(qint (tsum %s))' % x.term)
            raise Reject('int(...) of ' + _d(a))
        if fs == 'torch.mul' and len(n.args) == 2 and not n.keywords:
            return self.mul(self.ex(n.args[0], env), self.ex(n.args[1], env), n)
        if isinstance(f, ast.Attribute) and f.attr == 'bool' and not n.args and not n.keywords:
            x = self.ex(f.value, env)
            if x.t != 'qvec' or x.shape != ('C',):
                raise Reject('.bool() of ' + _d(f.value))
            return V('bvec', '(map q2b %s)' % x.term)
        if isinstance(f, ast.Attribute) and f.attr in ('unsqueeze', 'view', 'reshape'):
            return self.reshape(n, self.ex(f.value, env), env)
        path = self.self_path(f) if isinstance(f, ast.Attribute) else None
        if path is not None and len(path) == 1 and path[0] in ('_features_mask', '_time_mask') and path[0] in self.cls.mt:
            if len(n.args) + len(n.keywords) != 1 or (n.keywords and n.keywords[0].arg != 'discrete'):
                raise Reject('call ' + _d(n))
            d = self.as_bool(self.ex(n.args[0] if n.args else n.keywords[0].value, env), n)
            gen, _, ok, _ = self.cls.mt[path[0]]
            M = self.attrs_masks()
            if ok:
                self.need('(%s %s %s)' % (ok, M, d.term))
            return V('qvec', '(%s %s %s)' % (gen, M, d.term), shape=('C',))
        if self.kind == 'forward':
            if path == ['_conv_forward'] and self.cls.kind in ('conv1d', 'conv2d') and len(n.args) == 3 and not n.keywords:
                x, w, b = (self.ex(a, env) for a in n.args)
                return self.layer_op('c1_conv_forward' if self.cls.kind == 'conv1d' else 'c2_conv_forward', x, w, b, n)
            if fs == 'F.linear' and self.cls.kind == 'linear' and len(n.args) == 3 and not n.keywords:
                x, w, b = (self.ex(a, env) for a in n.args)
                return self.layer_op('lin_linear', x, w, b, n)
            if path == ['bn'] and len(n.args) == 1 and not n.keywords:
                bn = self.ex(f, env)
                if bn.t != 'fbn':
                    raise Reject('self.bn is called where it may be None: ' + _d(n))
                y = self.ex(n.args[0], env)
                if y.t != 'act':
                    raise Reject('self.bn applied to ' + _d(n.args[0]))
                return V('act', '(bn_apply%d r0 radd rmul %s %s)' % (y.rank - 2, bn.term, y.term), rank=y.rank, chan=y.chan)
        raise Reject('%s.%s: call %s' % (self.cls.name, self.fn.name, _d(n)))

    def attrs_masks(self):
        return '(%s_masks %s)' % ({'conv1d': 'c1s', 'conv2d': 'c2s', 'linear': 'ls'}[self.cls.kind], self.S)

    def layer_op(self, op, x, w, b, n):
        if x.t != 'input':
            raise Reject('the layer operator is not applied to the input of forward: ' + _d(n))
        if w.t != 'ten' or w.rank != self.cls.rank:
            raise Reject('weight argument of ' + _d(n))
        if b.t == 'none':
            bt = 'None'
        elif b.t == 'oten':
            bt = b.term
        else:
            raise Reject('bias argument of ' + _d(n))
        if self.cls.kind != 'linear':
            self.need('(%s_geom_ok %s)' % (self.cls.short, self.S))
        return V('act', '(%s r0 radd rmul %s %s %s %s)' % (op, self.S, x.term, w.term, bt), rank={'conv1d': 3, 'conv2d': 4, 'linear': 2}[self.cls.kind], chan='length %s' % w.term)

    # ---------------------------------------------------------------- tests
    def atoms(self, t, env, neg=False):
        """test -> list of ('b', term) / ('n', optional V, want_some) read as a conjunction; None if it has no such reading"""
        if isinstance(t, ast.UnaryOp) and isinstance(t.op, ast.Not):
            inner = self.atoms(t.operand, env, not neg)
            return inner
        if isinstance(t, ast.Compare) and len(t.ops) == 1 and isinstance(t.ops[0], (ast.Is, ast.IsNot)) and isinstance(t.comparators[0], ast.Constant) and t.comparators[0].value is None:
            o = self.ex(t.left, env)
            if o.t in ('fbn', 'ten') and ('~' + U(t.left)) in env:      # already narrowed to a value
                some = isinstance(t.ops[0], ast.IsNot) != neg
                return [('b', 'true' if some else 'false')]
            if o.t not in ('oten', 'obn'):
                raise Reject('`is None` test of ' + _d(t.left))
            return [('n', o, isinstance(t.ops[0], ast.IsNot) != neg, '~' + U(t.left))]
        if isinstance(t, ast.BoolOp) and isinstance(t.op, ast.And) and not neg:
            out = []
            for x in t.values:
                out += self.atoms(x, env)
            return out
        v = self.as_bool(self.ex(t, env), t)
        return [('b', '(negb %s)' % v.term if neg else v.term)]

    def narrowed(self, o):
        if o.t == 'oten':
            return V('ten', o.bind, rank=o.rank)
        return V('fbn', o.bind)

    def branch_envs(self, atoms, env):
        ea, eb = dict(env), dict(env)
        for a in atoms:
            if a[0] == 'n' and a[2]:
                ea[a[3]] = self.narrowed(a[1])
        if len(atoms) == 1 and atoms[0][0] == 'n' and not atoms[0][2]:
            eb[atoms[0][3]] = self.narrowed(atoms[0][1])
        return ea, eb

    def wrap(self, atoms, T, E):
        if not atoms:
            return T
        a, inner = atoms[0], self.wrap(atoms[1:], T, E)
        if a[0] == 'b':
            return '(if %s then\n%s\nelse\n%s)' % (a[1], ind(inner), ind(E))
        if a[2]:
            return '(match %s with\n| Some %s =>\n%s\n| None =>\n%s\nend)' % (a[1].term, a[1].bind, ind(inner), ind(E))
        return '(match %s with\n| None =>\n%s\n| Some %s =>\n%s\nend)' % (a[1].term, ind(inner), a[1].bind, ind(E))

    def ifexp(self, n, env):
        save = self.pending
        self.pending = []
        atoms = self.atoms(n.test, env)
        pre = self.pending
        ea, eb = self.branch_envs(atoms, env)
        self.pending = []
        va = self.ex(n.body, ea)
        oka = conj(self.pending)
        self.pending = []
        vb = self.ex(n.orelse, eb)
        okb = conj(self.pending)
        self.pending = save + pre
        if oka != 'true' or okb != 'true':
            self.need(self.wrap(atoms, oka, okb))
        # None / tensor -> optional tensor
        if {va.t, vb.t} == {'none', 'ten'}:
            t = va if va.t == 'ten' else vb
            ta = 'None' if va.t == 'none' else '(Some %s)' % va.term
            tb = 'None' if vb.t == 'none' else '(Some %s)' % vb.term
            return V('oten', self.wrap(atoms, ta, tb), rank=t.rank, bind='opt_')
        if va.t != vb.t or va.t in ('none', 'str', 'tuple', 'obj', 'act', 'qvec') or getattr(va, 'rank', None) != getattr(vb, 'rank', None) \
                or getattr(va, 'tup1', False) != getattr(vb, 'tup1', False):
            if {va.t, vb.t} <= {'Z', 'nat', 'int'} and not getattr(va, 'tup1', False) and not getattr(vb, 'tup1', False):
                return V('Z', self.wrap(atoms, self.as_Z(va, n.body), self.as_Z(vb, n.orelse)))
            raise Reject('the branches of %s have different types' % _d(n))
        return va.clone(self.wrap(atoms, va.term, vb.term))

    # ---------------------------------------------------------------- statements
    def coerce(self, v, ty, n):
        """value -> term of the constructor slot type"""
        if ty == 'Z':
            if v.t in ('Z', 'nat', 'int'):
                return self.as_Z(v, n)
        elif ty == 'nat':
            if v.t == 'nat':
                return v.term
        elif ty == 'oQ':
            if v.t == 'oQ':
                return v.term
            if v.t == 'none':
                return 'None'
        elif v.t == ty and not getattr(v, 'tup1', False):
            return v.term
        raise Reject('constructor argument %s has type %s, the slot has type %s' % (_d(n), v.t, ty))

    def ctor(self, call):
        fs = U(call.func)
        if fs.startswith('nn.') and (fs[3:] in CTORS or fs[3:] == 'ConstantPad1d'):
            return fs[3:]
        return None

    def make_obj(self, name, call, lines, env):
        c = self.ctor(call)
        if any(isinstance(a, ast.Starred) for a in call.args) or any(k.arg is None for k in call.keywords):
            raise Reject('constructor call ' + _d(call))
        if c == 'ConstantPad1d':
            slots = ['padding', 'value']
        else:
            rec, sig = CTORS[c]
            slots = [s for s, _, _ in sig]
        given = {}
        for s, a in zip(slots, call.args):
            given[s] = a
        if len(call.args) > len(slots):
            raise Reject('too many arguments: ' + _d(call))
        for k in call.keywords:
            if k.arg in given or k.arg not in slots:
                raise Reject('argument %s of %s' % (k.arg, _d(call)))
            given[k.arg] = k.value
        if set(given) != set(slots):
            raise Reject('%s: every argument of the constructor must be given (missing: %s): %s' % (c, sorted(set(slots) - set(given)), _d(call)))
        var = v_(name)
        if c == 'ConstantPad1d':
            p, val = self.ex(given['padding'], env), self.ex(given['value'], env)
            if p.t != 'tuple' or len(p.items) != 2 or not (p.items[1].t == 'int' and p.items[1].value == 0) or not (val.t == 'int' and val.value == 0):
                raise Reject('the new padding is not ConstantPad1d((amount, 0), 0): ' + _d(call))
            amount = self.as_Z(p.items[0], given['padding'])
            self.flush(lines, env)
            env[name] = V('obj', var, cls=c, fields={}, amount=amount)
            return
        fields = ' '.join('%s := %s;' % (fld, self.coerce(self.ex(given[s], env), ty, given[s])) for s, ty, fld in sig).rstrip(';')
        self.flush(lines, env)
        lines.append('let %s := {| %s |} in' % (var, fields))
        flds = {}
        pv = 'o_' + name
        if c in ('Conv1d', 'Conv2d', 'Linear'):
            p = {'Conv1d': 'nc', 'Conv2d': 'n2', 'Linear': 'nl'}[c]
            if c != 'Linear':
                self.need('(conv_ctor_ok (%s_in %s) (%s_out %s) (%s_groups %s))' % (p, var, p, var, p, var))
                self.flush(lines, env)
            lines.append('let %s_weight := init_w in' % pv)
            lines.append('let %s_bias := (if %s_has_bias %s then Some init_b else None) in' % (pv, p, var))
            rank = {'Conv1d': 3, 'Conv2d': 4, 'Linear': 2}[c]
            env['%weight:' + name] = V('ten', pv + '_weight', rank=rank)
            env['%bias:' + name] = V('oten', pv + '_bias', rank=1, bind='nbias_')
            flds = {'weight': '%weight:' + name, 'bias': '%bias:' + name}
        elif self.cls.kind == 'bn':
            lines.append('let %s_weight := init_w in' % pv)
            lines.append('let %s_bias := init_b in' % pv)
            lines.append('let %s_running_mean := (if nb_track %s then Some init_m else None) in' % (pv, var))
            lines.append('let %s_running_var := (if nb_track %s then Some init_v else None) in' % (pv, var))
            env['%weight:' + name] = V('ten', pv + '_weight', rank=1, affine=True)
            env['%bias:' + name] = V('ten', pv + '_bias', rank=1, affine=True)
            env['%running_mean:' + name] = V('oten', pv + '_running_mean', rank=1, bind='nmean_')
            env['%running_var:' + name] = V('oten', pv + '_running_var', rank=1, bind='nvar_')
            flds = {k: '%' + k + ':' + name for k in ('weight', 'bias', 'running_mean', 'running_var')}
        env[name] = V('obj', var, cls=c, fields=flds)

    def target_field(self, n, env):
        """(object V, field) for `obj.field` possibly under cast(...)"""
        if isinstance(n, ast.Call) and U(n.func) == 'cast' and len(n.args) == 2:
            n = n.args[1]
        if isinstance(n, ast.Attribute) and isinstance(n.value, ast.Name) and n.value.id in env and env[n.value.id].t == 'obj' and n.attr in env[n.value.id].fields:
            return env[n.value.id], n.attr
        return None

    def do_copy(self, obj, field, srcn, lines, env, where):
        src = self.ex(srcn, env)
        slot = obj.fields[field]
        cur = env[slot]
        hp = obj.term
        if src.t != 'ten' or src.rank != cur.rank:
            raise Reject('copy_ of %s into %s.%s' % (_d(srcn), obj.cls, field))
        c = obj.cls
        if field == 'weight' and c == 'Conv1d':
            self.need('(shape3z %s (nc_out %s) (nc_in %s / nc_groups %s)%%Z (nc_kernel %s))' % (src.term, hp, hp, hp, hp))
        elif field == 'weight' and c == 'Conv2d':
            self.need('(shape4z %s (n2_out %s) (n2_in %s / n2_groups %s)%%Z (Z.of_nat (fst (n2_kernel %s))) (Z.of_nat (snd (n2_kernel %s))))' % (src.term, hp, hp, hp, hp, hp))
        elif field == 'weight' and c == 'Linear':
            self.need('(shape2z %s (nl_out %s) (nl_in %s))' % (src.term, hp, hp))
        elif c in ('BatchNorm1d', 'BatchNorm2d'):
            self.need('(len_is %s (nb_features %s))' % (src.term, hp))
            if field in ('weight', 'bias'):
                self.need('(nb_affine %s)' % hp)
        else:
            self.need('(len_is %s (%s_out %s))' % (src.term, {'Conv1d': 'nc', 'Conv2d': 'n2', 'Linear': 'nl'}[c], hp))
        if cur.t == 'oten':
            self.need('(negb (is_none %s))' % cur.term)
        self.flush(lines, env)
        new = src.term if cur.t == 'ten' else '(Some %s)' % src.term
        lines.append('let %s := %s in' % (cur.term, new))
        env[slot] = cur.clone(cur.term)

    def tail_digest(self, stmts, objname):
        return digest(stmts, {objname: 'OBJ_'}) if stmts else 'empty'

    def block(self, stmts, env, top=False):
        """-> (lines, env, ret)   ret: the Coq term the block returns, None if it falls through"""
        lines = []
        stmts = _strip(stmts)
        i = 0
        while i < len(stmts):
            s = stmts[i]
            i += 1
            if isinstance(s, ast.Pass):
                continue
            if isinstance(s, ast.With):
                if len(s.items) != 1 or U(s.items[0].context_expr) != 'torch.no_grad()' or s.items[0].optional_vars is not None:
                    raise Reject('with ' + _d(s.items[0].context_expr))
                stmts = stmts[:i] + _strip(s.body) + stmts[i:]
                continue
            if isinstance(s, ast.Return):
                if self.kind == 'export':
                    if s.value is not None:
                        raise Reject('export returns a value')
                    if not top:
                        raise Reject('return inside a branch of export')
                    if i != len(stmts):
                        raise Reject('statements after return')
                    break
                if s.value is None:
                    raise Reject('bare return')
                v = self.ex(s.value, env)
                self.flush(lines, env)
                if i != len(stmts):
                    raise Reject('statements after return')
                return lines, env, self.ret_term(v, s)
            if isinstance(s, ast.Assign):
                if len(s.targets) != 1:
                    raise Reject('multiple assignment ' + _d(s))
                tg = s.targets[0]
                if isinstance(tg, ast.Name):
                    if isinstance(s.value, ast.Call) and self.ctor(s.value):
                        if self.kind != 'export':
                            raise Reject('constructor call outside export: ' + _d(s))
                        self.make_obj(tg.id, s.value, lines, env)
                        o = env[tg.id]
                        if o.cls == 'ConstantPad1d' or (o.cls.startswith('BatchNorm') and self.cls.kind != 'bn'):
                            # the rest of the block installs the new module in the graph: pinned, not translated
                            what = 'pad_install' if o.cls == 'ConstantPad1d' else 'bn_install'
                            if what == 'pad_install' and self.cls.kind != 'conv1d':
                                raise Reject('%s.export creates a padding layer' % self.cls.name)
                            got = self.tail_digest(stmts[i:], tg.id)
                            if got != PINNED[what]:
                                raise Reject('%s.export: the statements that install the new %s in the graph are not the pinned ones (AST digest %s, expected %s)'
                                             % (self.cls.name, 'ConstantPad1d' if what == 'pad_install' else 'BatchNorm', got, PINNED[what]))
                            if what == 'pad_install':
                                lines.append('let xpad_ := Some %s in' % o.amount)
                                env['#pad'] = V('oZ', 'xpad_')
                            else:
                                lines.append('let xbn_ := Some %s in' % o.term)
                                env['#bn'] = V('obnn', 'xbn_')
                            return lines, env, None
                        continue
                    v = self.ex(s.value, env)
                    self.flush(lines, env)
                    if v.t in ('none', 'str', 'tuple', 'obj', 'int', 'input'):
                        raise Reject('assignment of %s' % _d(s))
                    var = v_(tg.id)
                    lines.append('let %s := %s in' % (var, v.term))
                    nv = v.clone(var)
                    nv.oks = []
                    env[tg.id] = nv
                    continue
                tf = self.target_field(tg, env)
                if tf and isinstance(s.value, ast.Constant) and s.value.value is None and env[tf[0].fields[tf[1]]].t == 'oten':
                    cur = env[tf[0].fields[tf[1]]]
                    lines.append('let %s := None in' % cur.term)
                    env[tf[0].fields[tf[1]]] = cur.clone(cur.term)
                    continue
                raise Reject('assignment ' + _d(s))
            if isinstance(s, ast.Expr) and isinstance(s.value, ast.Call):
                c = s.value
                if isinstance(c.func, ast.Attribute) and c.func.attr == 'copy_' and len(c.args) == 1 and not c.keywords and self.kind == 'export':
                    tf = self.target_field(c.func.value, env)
                    if tf is None:
                        raise Reject('copy_ into ' + _d(c.func.value))
                    self.do_copy(tf[0], tf[1], c.args[0], lines, env, s)
                    continue
                if U(c.func) == 'mod.add_submodule' and self.kind == 'export' and len(c.args) == 2 and not c.keywords and U(c.args[0]) == 'str(n.target)' \
                        and isinstance(c.args[1], ast.Name) and c.args[1].id in env and env[c.args[1].id].t == 'obj':
                    if not top or '#installed' in env:
                        raise Reject('the layer is replaced conditionally / twice: ' + _d(s))
                    env['#installed'] = V('name', c.args[1].id)
                    continue
                raise Reject('%s.%s: statement %s' % (self.cls.name, self.fn.name, _d(s)))
            if isinstance(s, ast.If):
                atoms = self.atoms(s.test, env)
                self.flush(lines, env)
                ea, eb = self.branch_envs(atoms, env)
                la, ea, ra = self.block(s.body, ea)
                lb, eb, rb = self.block(s.orelse, eb)
                rest = stmts[i:]
                if ra is not None and rb is not None:
                    if rest:
                        raise Reject('statements after an if whose branches both return')
                    return lines, env, self.wrap(atoms, block_text(la, ra), block_text(lb, rb))
                if ra is not None or rb is not None:
                    # one branch returns: the other one continues with the rest of the block
                    ec = eb if ra is not None else ea
                    lc, ec, rc = self.block(rest, ec, top)
                    if rc is None:
                        if not top:
                            raise Reject('a branch returns, the other falls through a nested block')
                        rc = self.finish(ec)
                    if ra is not None:
                        return lines, env, self.wrap(atoms, block_text(la, ra), block_text(lb + lc, rc))
                    return lines, env, self.wrap(atoms, block_text(la + lc, rc), block_text(lb, rb))
                keys = [k for k in env if not k.startswith('~') and k in ea and k in eb and (ea[k] is not env[k] or eb[k] is not env[k])]
                keys += [k for k in ea if k not in env and k in eb and not k.startswith('~') and k not in keys]
                keys = [k for k in keys if ea[k].t not in ('obj', 'name')]
                conv = {}
                for k in keys:
                    if ea[k].t != eb[k].t and {ea[k].t, eb[k].t} <= {'Z', 'nat'} and not getattr(ea[k], 'tup1', False) and not getattr(eb[k], 'tup1', False):
                        conv[k] = True          # a Python int that is a stored size in one branch, a computed int in the other
                    elif ea[k].t != eb[k].t or getattr(ea[k], 'rank', None) != getattr(eb[k], 'rank', None) or getattr(ea[k], 'tup1', False) != getattr(eb[k], 'tup1', False):
                        raise Reject('%s has different types in the two branches of `if %s`' % (k, _d(s.test)))
                if any(k in ea and ea[k].t == 'obj' and (k not in env or ea[k] is not env[k]) for k in ea) or any(k in eb and eb[k].t == 'obj' and (k not in env or eb[k] is not env[k]) for k in eb):
                    pass        # objects created in a branch stay local to it
                if not keys:
                    continue
                names = [(ea[k].term if ea[k].term == eb[k].term else None) for k in keys]
                outs = []
                for k, nm in zip(keys, names):
                    outs.append(nm if nm and re.fullmatch(r'\w+', nm) else self.joinname(k))
                tm_ = lambda e, k: self.as_Z(e[k], s.test) if k in conv else e[k].term
                ta = '(%s)' % ', '.join(tm_(ea, k) for k in keys) if len(keys) > 1 else tm_(ea, keys[0])
                tb = '(%s)' % ', '.join(tm_(eb, k) for k in keys) if len(keys) > 1 else tm_(eb, keys[0])
                pat = "'(%s)" % ', '.join(outs) if len(keys) > 1 else outs[0]
                lines.append('let %s := %s in' % (pat, self.wrap(atoms, block_text(la, ta), block_text(lb, tb))))
                for k, o in zip(keys, outs):
                    env[k] = V('Z', o) if k in conv else ea[k].clone(o)
                continue
            raise Reject('%s.%s: statement %s' % (self.cls.name, self.fn.name, _d(s)))
        return lines, env, None

    def joinname(self, k):
        if k == '#ok':
            return 'ok_'
        if k == '#pad':
            return 'xpad_'
        if k == '#bn':
            return 'xbn_'
        if k.startswith('%'):
            f, o = k[1:].split(':')
            return 'o_%s_%s' % (o, f)
        return v_(k)

    def ret_term(self, v, s):
        if self.mode == 'ok':
            return 'ok_'
        if self.kind == 'forward':
            if v.t != 'act':
                raise Reject('forward returns ' + _d(s.value))
            return v.term
        if self.kind == 'prop':
            if v.t != 'Z':
                raise Reject('%s returns %s' % (self.fn.name, _d(s.value)))
            return v.term
        raise Reject('return ' + _d(s))

    def finish(self, env):
        """the result of export: the final state of the module installed in place of the layer"""
        if self.kind != 'export':
            raise Reject('%s.%s may fall off its end' % (self.cls.name, self.fn.name))
        if '#installed' not in env:
            raise Reject('%s.export does not replace the layer (mod.add_submodule(str(n.target), ...))' % self.cls.name)
        if self.mode == 'ok':
            return 'ok_'
        o = env[env['#installed'].term]
        want = {'conv1d': 'Conv1d', 'conv2d': 'Conv2d', 'linear': 'Linear', 'bn': self.cls.torch_base}[self.cls.kind]
        if o.cls != want:
            raise Reject('%s.export installs a %s' % (self.cls.name, o.cls))
        g = lambda f: env[o.fields[f]].term
        if self.cls.kind == 'bn':
            return '{| xb_layer := %s; xb_weight := %s; xb_bias := %s; xb_mean := %s; xb_var := %s |}' % (o.term, g('weight'), g('bias'), g('running_mean'), g('running_var'))
        p = {'conv1d': 'x1', 'conv2d': 'x2', 'linear': 'xl'}[self.cls.kind]
        pad = ' %s_pad := %s;' % (p, env['#pad'].term) if self.cls.kind == 'conv1d' else ''
        return '{| %s_layer := %s; %s_weight := %s; %s_bias := %s;%s %s_bn := %s |}' % (p, o.term, p, g('weight'), p, g('bias'), pad, p, env['#bn'].term)


# =============================================================================== classes, structure
CLASSES = [
    # file, class, short, torch base, kind, weight rank
    ('conv1d.py', 'PITConv1d', 'c1', 'Conv1d', 'conv1d', 3),
    ('conv2d.py', 'PITConv2d', 'c2', 'Conv2d', 'conv2d', 4),
    ('linear.py', 'PITLinear', 'lin', 'Linear', 'linear', 2),
    ('batchnorm_1d.py', 'PITBatchNorm1d', 'bn1', 'BatchNorm1d', 'bn', 1),
    ('batchnorm_2d.py', 'PITBatchNorm2d', 'bn2', 'BatchNorm2d', 'bn', 1),
]
NN_DIR = os.path.join('plinio', 'methods', 'pit', 'nn')
FORBIDDEN = {'__getattr__', '__setattr__', '__getattribute__', '__delattr__', '__call__', '_conv_forward', '_call_impl', '__getstate__', '__setstate__'}
WANT_IMPORTS = {'torch': 'torch', 'nn': 'torch.nn', 'F': 'torch.nn.functional', 'fx': 'torch.fx', 'cast': 'typing.cast'}


def read(repo, *path):
    p = os.path.join(repo, *path)
    try:
        return ast.parse(open(p).read())
    except OSError as e:
        raise Reject('cannot read %s: %s' % (p, e))


def check_module(tree, fname, cname, torch_base):
    classes = []
    bound = {}
    for n in tree.body:
        if isinstance(n, ast.Expr) and isinstance(n.value, ast.Constant):
            continue
        if isinstance(n, ast.Import):
            for a in n.names:
                bound[a.asname or a.name.split('.')[0]] = a.name if a.asname else a.name.split('.')[0]
            continue
        if isinstance(n, ast.ImportFrom):
            for a in n.names:
                bound[a.asname or a.name] = '%s%s.%s' % ('.' * n.level, n.module or '', a.name)
            continue
        if isinstance(n, ast.ClassDef) and not n.decorator_list and not n.keywords:
            classes.append(n)
            continue
        raise Reject('%s: module-level statement not in the subset: %s' % (fname, _d(n)))
    if [c.name for c in classes] != [cname]:
        raise Reject('%s defines the classes %s, expected [%s]' % (fname, [c.name for c in classes], cname))
    c = classes[0]
    if [U(b) for b in c.bases] != ['nn.' + torch_base, 'PITModule']:
        raise Reject('%s: bases of %s are %s' % (fname, cname, [U(b) for b in c.bases]))
    used = {x.id for x in ast.walk(tree) if isinstance(x, ast.Name)}
    for k, v in WANT_IMPORTS.items():
        if k in used and bound.get(k) != v:
            raise Reject('%s: the name %s is bound to %s, not to %s' % (fname, k, bound.get(k), v))
    if bound.get('PITModule') != '.module.PITModule':
        raise Reject('%s: PITModule is %s' % (fname, bound.get('PITModule')))
    # a name the translation gives a meaning to must not be rebound inside the class
    for x in ast.walk(c):
        if isinstance(x, (ast.Assign, ast.AugAssign, ast.AnnAssign)):
            for t in (x.targets if isinstance(x, ast.Assign) else [x.target]):
                if isinstance(t, ast.Name) and t.id in list(WANT_IMPORTS) + [cname, 'PITModule']:
                    raise Reject('%s: %s is rebound' % (fname, t.id))
    return c


def members(c, fname):
    ms = {}
    for m in c.body:
        if isinstance(m, ast.Expr) and isinstance(m.value, ast.Constant):
            continue
        if not isinstance(m, ast.FunctionDef):
            raise Reject('%s: class-level statement %s' % (fname, _d(m)))
        ms.setdefault(m.name, []).append(m)
    return ms


def stores(fn, selfname='self'):
    """attributes of `self` the function stores to: 'x' for `self.x = ..` / `del self.x` / register_*('x'), 'x.*' for a store
    into / through self.x (self.x.y = .., self.x[i] = .., self.x.copy_(..)), '<setattr>', '<__dict__>'"""
    out = set()

    def target(t):
        if isinstance(t, (ast.Tuple, ast.List)):
            for e in t.elts:
                target(e)
            return
        if isinstance(t, ast.Starred):
            return target(t.value)
        if isinstance(t, ast.Attribute) and isinstance(t.value, ast.Name) and t.value.id == selfname:
            out.add(t.attr)
            return
        for y in ast.walk(t):
            if isinstance(y, ast.Attribute) and isinstance(y.value, ast.Name) and y.value.id == selfname:
                out.add(y.attr + '.*')
    for x in ast.walk(fn):
        if isinstance(x, ast.Assign):
            for t in x.targets:
                target(t)
        elif isinstance(x, (ast.AugAssign, ast.AnnAssign, ast.For, ast.comprehension)):
            target(x.target)
        elif isinstance(x, ast.Delete):
            for t in x.targets:
                target(t)
        elif isinstance(x, ast.With):
            for i in x.items:
                if i.optional_vars is not None:
                    target(i.optional_vars)
        elif isinstance(x, ast.NamedExpr):
            target(x.target)
        if isinstance(x, ast.Call) and isinstance(x.func, ast.Name) and x.func.id in ('setattr', 'delattr'):
            out.add('<setattr>')
        if isinstance(x, ast.Attribute) and x.attr == '__dict__':
            out.add('<__dict__>')
        if isinstance(x, ast.Call) and isinstance(x.func, ast.Attribute):
            base = x.func.value
            if x.func.attr in ('register_buffer', 'register_parameter', 'add_module', '__setattr__', '__delattr__') and isinstance(base, ast.Name) and base.id == selfname:
                out.add(str(x.args[0].value) if x.args and isinstance(x.args[0], ast.Constant) else '<setattr>')
            if x.func.attr.endswith('_') and not x.func.attr.startswith('_'):          # torch in-place methods (copy_, fill_, mul_, ...)
                for y in ast.walk(base):
                    if isinstance(y, ast.Attribute) and isinstance(y.value, ast.Name) and y.value.id == selfname:
                        out.add(y.attr + '.*')
    return out


def decos(fn):
    return [U(d) for d in fn.decorator_list]


def check_class(cl, c, fname):
    ms = members(c, fname)
    bad = FORBIDDEN & set(ms)
    if bad:
        raise Reject('%s defines %s' % (cl.name, sorted(bad)))
    need = ['__init__', 'export', 'in_features_opt', 'input_features_calculator'] + (['forward'] if cl.kind != 'bn' else ['out_features_opt'])
    for k in need:
        if k not in ms:
            raise Reject('%s has no %s' % (cl.name, k))
    for k in ('__init__', 'export', 'in_features_opt', 'forward', 'out_features_opt'):
        if k in ms and len(ms[k]) != 1:
            raise Reject('%s defines %s %d times' % (cl.name, k, len(ms[k])))
    if cl.kind == 'bn' and 'forward' in ms:
        raise Reject('%s overrides forward' % cl.name)
    ex = ms['export'][0]
    if decos(ex) != ['staticmethod'] or [a.arg for a in ex.args.args] != ['n', 'mod'] or ex.args.vararg or ex.args.kwarg or ex.args.kwonlyargs:
        raise Reject('%s.export is not a staticmethod (n, mod)' % cl.name)
    if cl.kind != 'bn':
        fw = ms['forward'][0]
        if decos(fw) or [a.arg for a in fw.args.args] != ['self', 'input'] or fw.args.vararg or fw.args.kwarg or fw.args.kwonlyargs or fw.args.defaults:
            raise Reject('%s.forward is not forward(self, input)' % cl.name)
    for k in ('in_features_opt', 'out_features_opt'):
        if k in ms and (decos(ms[k][0]) != ['property'] or [a.arg for a in ms[k][0].args.args] != ['self']):
            raise Reject('%s.%s is not a plain property' % (cl.name, k))
    ifc = ms['input_features_calculator']
    if len(ifc) != 2 or decos(ifc[0]) != ['property'] or decos(ifc[1]) != ['input_features_calculator.setter'] \
            or [U(s) for s in _strip(ifc[0].body)] != ['return self._input_features_calculator'] \
            or [U(s) for s in _strip(ifc[1].body)] != ['calc.register(self)', 'self._input_features_calculator = calc']:
        raise Reject('%s.input_features_calculator is not the plain accessor pair' % cl.name)
    tracked = cl.tracked()
    for k, fns in ms.items():
        if k in ('__init__', 'input_features_calculator'):
            continue
        for fn in fns:
            sn = fn.args.args[0].arg if fn.args.args and 'staticmethod' not in decos(fn) else None
            st = stores(fn, sn) if sn else set()
            if k == 'export':
                st = stores(fn, 'submodule')
            deep = {a + '.*' for a in ('weight', 'bias', 'bn', 'running_mean', 'running_var', '_input_features_calculator')}
            hit = (st & tracked) | (st & deep) | (st & {'<setattr>', '<__dict__>'})
            if hit:
                raise Reject('%s.%s stores to %s, which forward / export read' % (cl.name, k, sorted(hit)))
    got = digest(ms['__init__'][0])
    if got != PINNED[cl.name + '.__init__']:
        raise Reject('%s.__init__ is not the pinned one (it fixes what weight / bias / bn / fold_bn / the geometry are; AST digest %s, expected %s)' % (cl.name, got, PINNED[cl.name + '.__init__']))
    return ms


def check_callers(repo):
    g = read(repo, 'plinio', 'methods', 'pit', 'graph.py')
    en = [x for x in g.body if isinstance(x, ast.FunctionDef) and x.name == 'export_node']
    if len(en) != 1 or digest(en[0]) != PINNED['graph.export_node']:
        raise Reject('pit/graph.py export_node (the caller of <layer>.export) is not the pinned one (AST digest %s, expected %s)' % (digest(en[0]) if en else None, PINNED['graph.export_node']))
    p = read(repo, 'plinio', 'methods', 'pit', 'pit.py')
    pe = [m for c in p.body if isinstance(c, ast.ClassDef) and c.name == 'PIT' for m in c.body if isinstance(m, ast.FunctionDef) and m.name == 'export']
    if len(pe) != 1 or digest(pe[0]) != PINNED['PIT.export']:
        raise Reject('PIT.export (pit/pit.py) is not the pinned one (AST digest %s, expected %s)' % (digest(pe[0]) if pe else None, PINNED['PIT.export']))


# =============================================================================== emission of one method
ACT_TY = {'conv1d': 'nat -> Z -> R', 'conv2d': 'nat -> Z -> Z -> R', 'linear': 'nat -> R'}
SELF_TY = {'conv1d': 'conv1d_self R', 'conv2d': 'conv2d_self R', 'linear': 'linear_self R', 'bn': 'bn_self R'}
W_TY = {3: 'list (list (list R))', 4: 'list (list (list (list R)))', 2: 'list (list R)', 1: 'list R'}
X_TY = {'conv1d': 'conv1d_exported R', 'conv2d': 'conv2d_exported R', 'linear': 'linear_exported R', 'bn': 'bn_exported R'}
RING = '(R : Type) (r0 r1 : R) (radd rmul : R -> R -> R)'


def emit_fn(cl, fn, kind):
    out = []
    for mode in ('val', 'ok'):
        if kind == 'export':
            body = _strip(fn.body)
            want = ['submodule = mod.get_submodule(str(n.target))', None, 'submodule = cast(%s, submodule)' % cl.name]
            if len(body) < 4 or U(body[0]) != want[0] or U(body[2]) != want[2] or not isinstance(body[1], ast.If) or U(body[1].test) != 'type(submodule) != %s' % cl.name \
                    or body[1].orelse or len(body[1].body) != 1 or not isinstance(body[1].body[0], ast.Raise) or not U(body[1].body[0]).startswith('raise TypeError('):
                raise Reject('%s.export does not start with get_submodule / type check / cast' % cl.name)
            tr = FnTr(cl, fn, kind, mode, 'submodule')
            env = {}
            pre = ['let ok_ := true in'] if mode == 'ok' else []
            if mode == 'ok':
                env['#ok'] = V('bool', 'ok_')
            if cl.kind != 'bn':
                if cl.kind == 'conv1d':
                    pre.append('let xpad_ : option Z := None in')
                    env['#pad'] = V('oZ', 'xpad_')
                pre.append('let xbn_ : option bn_new := None in')
                env['#bn'] = V('obnn', 'xbn_')
            lines, env, ret = tr.block(body[3:], env, top=True)
            if ret is None:
                ret = tr.finish(env)
            inits = '(init_w : %s) (init_b : list R)' % W_TY[cl.rank] if cl.kind != 'bn' else '(init_w init_b init_m init_v : list R)'
            sig = '(R : Type) (%s : %s) %s' % (tr.S, SELF_TY[cl.kind], inits)
            rty = X_TY[cl.kind]
        elif kind == 'forward':
            tr = FnTr(cl, fn, kind, mode, 'self')
            env = {'input': V('input', 'v_input', rank={'conv1d': 3, 'conv2d': 4, 'linear': 2}[cl.kind])}
            pre = ['let ok_ := true in'] if mode == 'ok' else []
            if mode == 'ok':
                env['#ok'] = V('bool', 'ok_')
            lines, env, ret = tr.block(fn.body, env, top=True)
            if ret is None:
                raise Reject('%s.forward may fall off its end' % cl.name)
            sig = '%s (self : %s) (v_input : %s)' % (RING, SELF_TY[cl.kind], ACT_TY[cl.kind])
            rty = ACT_TY[cl.kind]
        else:
            tr = FnTr(cl, fn, 'prop', mode, 'self')
            env = {}
            pre = ['let ok_ := true in'] if mode == 'ok' else []
            if mode == 'ok':
                env['#ok'] = V('bool', 'ok_')
            lines, env, ret = tr.block(fn.body, env, top=True)
            if ret is None:
                raise Reject('%s.%s may fall off its end' % (cl.name, fn.name))
            sig = '(R : Type) (self : %s)' % SELF_TY[cl.kind]
            rty = 'Z'
        name = '%s_%s_%s' % (cl.short, fn.name, 'gen' if mode == 'val' else 'ok')
        out.append('Definition %s %s : %s :=\n%s.' % (name, sig, rty if mode == 'val' else 'bool', ind(block_text(pre + lines, ret))))
    return '\n'.join(out) + '\n'


def pinned_digests(repo):
    """the digests of the pinned code in `repo` (for when pinned code is changed on purpose)"""
    out = {}
    for fname, cname, short, tb, kind, rank in CLASSES:
        c = [x for x in read(repo, NN_DIR, fname).body if isinstance(x, ast.ClassDef) and x.name == cname][0]
        ms = members(c, fname)
        out[cname + '.__init__'] = digest(ms['__init__'][0])
        if kind != 'bn':
            for x in ast.walk(ms['export'][0]):
                if isinstance(x, ast.If):
                    for j, s in enumerate(x.body):
                        if isinstance(s, ast.Assign) and isinstance(s.value, ast.Call) and U(s.value.func) in ('nn.ConstantPad1d', 'nn.BatchNorm1d', 'nn.BatchNorm2d'):
                            key = 'pad_install' if U(s.value.func) == 'nn.ConstantPad1d' else 'bn_install'
                            out.setdefault(key + ':' + cname, digest(x.body[j + 1:], {s.targets[0].id: 'OBJ_'}))
    g = read(repo, 'plinio', 'methods', 'pit', 'graph.py')
    out['graph.export_node'] = digest([x for x in g.body if isinstance(x, ast.FunctionDef) and x.name == 'export_node'][0])
    p = read(repo, 'plinio', 'methods', 'pit', 'pit.py')
    out['PIT.export'] = digest([m for c in p.body if isinstance(c, ast.ClassDef) and c.name == 'PIT' for m in c.body if isinstance(m, ast.FunctionDef) and m.name == 'export'][0])
    return out


PINNED.update({
    'pad_install': 'd14d239308657a83', 'bn_install': '75a7f5f0ddc9f216',
    'PITConv1d.__init__': 'ded8605b32855624', 'PITConv2d.__init__': '67f7678ebcf86634', 'PITLinear.__init__': '4ffd99f9ab71eeb0',
    'PITBatchNorm1d.__init__': '705a92e0c3a145f1', 'PITBatchNorm2d.__init__': '6428771395965f88',
    'graph.export_node': '3b7a1bf98258bf8c', 'PIT.export': '173dafc62cbcbc9b',
})

HEADER = r"""(* GENERATED by translator/export2coq.py from plinio/methods/pit/nn/{conv1d,conv2d,linear,batchnorm_1d,batchnorm_2d}.py of the tree
   under test -- do not edit.  forward / export / in_features_opt of the three searchable PIT layers and export of the two PIT
   BatchNorm layers, statement by statement, over the vocabulary of Model/Conv.v (parameter tensors = nested lists over a
   carrier R, activations = functions of (channel, position)); the mask quantities are the functions of Gen/MasksGen.v. *)
From Coq Require Import QArith ZArith List Bool Arith.
Import ListNotations.
Require Import Plinio.Base.Qx Plinio.Base.Tensor Plinio.Model.Masks Plinio.Model.Conv Plinio.Gen.MasksGen.
Local Open Scope nat_scope.

(* ---------------------------------------------------------------- python values (fixed text) *)
(* nn.Conv*d.padding is a str or a tuple of ints (torch normalises an int argument to a tuple) *)
Inductive padv := PadValid | PadSame | PadTuple (p : list nat).
Inductive pmode := PmZeros | PmReflect | PmReplicate | PmCircular.
Fixpoint nats_eqb (a b : list nat) : bool :=
  match a, b with [], [] => true | x :: a', y :: b' => (x =? y) && nats_eqb a' b' | _, _ => false end.
Definition padv_eqb (a b : padv) : bool :=
  match a, b with PadValid, PadValid => true | PadSame, PadSame => true | PadTuple p, PadTuple q => nats_eqb p q | _, _ => false end.
Definition is_none {A} (o : option A) : bool := match o with None => true | Some _ => false end.

(* the BatchNorm fused into a layer (`self.bn`): eval mode = per-channel affine map y * a_c + s_c (fb_coef = (a, s), as in
   Model/Conv.v), and the constructor arguments export copies *)
Record fbn (R : Type) := { fb_coef : list R * list R; fb_eps : Q; fb_momentum : option Q; fb_affine : bool; fb_track : bool }.
Arguments fb_coef {R}. Arguments fb_eps {R}. Arguments fb_momentum {R}. Arguments fb_affine {R}. Arguments fb_track {R}.
(* nn.BatchNorm1d / 2d (num_features, eps, momentum, affine, track_running_stats) *)
Record bn_new := { nb_features : Z; nb_eps : Q; nb_momentum : option Q; nb_affine : bool; nb_track : bool }.

(* what forward / export read from a PITConv1d; 1-tuples (kernel_size, stride, dilation) are read as their element *)
Record conv1d_self (R : Type) := { c1s_weight : list (list (list R)); c1s_bias : option (list R); c1s_bn : option (fbn R); c1s_fold_bn : bool;
  c1s_in_channels : nat; c1s_out_channels : nat; c1s_kernel_size : nat; c1s_stride : nat; c1s_padding : padv; c1s_dilation : nat; c1s_groups : nat;
  c1s_padding_mode : pmode; c1s_masks : layer_self; c1s_in_mask : vec }.
Arguments c1s_weight {R}. Arguments c1s_bias {R}. Arguments c1s_bn {R}. Arguments c1s_fold_bn {R}. Arguments c1s_in_channels {R}. Arguments c1s_out_channels {R}.
Arguments c1s_kernel_size {R}. Arguments c1s_stride {R}. Arguments c1s_padding {R}. Arguments c1s_dilation {R}. Arguments c1s_groups {R}. Arguments c1s_padding_mode {R}.
Arguments c1s_masks {R}. Arguments c1s_in_mask {R}.
(* nn.Conv1d(in_channels, out_channels, kernel_size, stride, padding, dilation, groups, bias, padding_mode) *)
Record conv1d_new := { nc_in : Z; nc_out : Z; nc_kernel : Z; nc_stride : nat; nc_padding : padv; nc_dilation : Z; nc_groups : Z; nc_has_bias : bool; nc_padding_mode : pmode }.
(* what PITConv1d.export leaves in the graph: the new layer and its parameters, the amount of the ConstantPad1d((amount, 0), 0)
   that feeds it at every call site (None: padding untouched), the BatchNorm inserted after it at every call site *)
Record conv1d_exported (R : Type) := { x1_layer : conv1d_new; x1_weight : list (list (list R)); x1_bias : option (list R); x1_pad : option Z; x1_bn : option bn_new }.
Arguments x1_layer {R}. Arguments x1_weight {R}. Arguments x1_bias {R}. Arguments x1_pad {R}. Arguments x1_bn {R}.

Record conv2d_self (R : Type) := { c2s_weight : list (list (list (list R))); c2s_bias : option (list R); c2s_bn : option (fbn R); c2s_fold_bn : bool;
  c2s_in_channels : nat; c2s_out_channels : nat; c2s_kernel_size : nat * nat; c2s_stride : nat * nat; c2s_padding : padv; c2s_dilation : nat * nat; c2s_groups : nat;
  c2s_padding_mode : pmode; c2s_masks : layer_self; c2s_in_mask : vec }.
Arguments c2s_weight {R}. Arguments c2s_bias {R}. Arguments c2s_bn {R}. Arguments c2s_fold_bn {R}. Arguments c2s_in_channels {R}. Arguments c2s_out_channels {R}.
Arguments c2s_kernel_size {R}. Arguments c2s_stride {R}. Arguments c2s_padding {R}. Arguments c2s_dilation {R}. Arguments c2s_groups {R}. Arguments c2s_padding_mode {R}.
Arguments c2s_masks {R}. Arguments c2s_in_mask {R}.
Record conv2d_new := { n2_in : Z; n2_out : Z; n2_kernel : nat * nat; n2_stride : nat * nat; n2_padding : padv; n2_dilation : nat * nat; n2_groups : Z; n2_has_bias : bool; n2_padding_mode : pmode }.
Record conv2d_exported (R : Type) := { x2_layer : conv2d_new; x2_weight : list (list (list (list R))); x2_bias : option (list R); x2_bn : option bn_new }.
Arguments x2_layer {R}. Arguments x2_weight {R}. Arguments x2_bias {R}. Arguments x2_bn {R}.

Record linear_self (R : Type) := { ls_weight : list (list R); ls_bias : option (list R); ls_bn : option (fbn R); ls_fold_bn : bool;
  ls_in_features : nat; ls_out_features : nat; ls_masks : layer_self; ls_in_mask : vec }.
Arguments ls_weight {R}. Arguments ls_bias {R}. Arguments ls_bn {R}. Arguments ls_fold_bn {R}. Arguments ls_in_features {R}. Arguments ls_out_features {R}.
Arguments ls_masks {R}. Arguments ls_in_mask {R}.
Record linear_new := { nl_in : Z; nl_out : Z; nl_has_bias : bool }.
Record linear_exported (R : Type) := { xl_layer : linear_new; xl_weight : list (list R); xl_bias : option (list R); xl_bn : option bn_new }.
Arguments xl_layer {R}. Arguments xl_weight {R}. Arguments xl_bias {R}. Arguments xl_bn {R}.

(* a PITBatchNorm1d / 2d: weight / bias are tensors iff affine (torch), running_mean / running_var may be None *)
Record bn_self (R : Type) := { bs_weight : list R; bs_bias : list R; bs_mean : option (list R); bs_var : option (list R);
  bs_eps : Q; bs_momentum : option Q; bs_affine : bool; bs_track : bool; bs_in_mask : vec }.
Arguments bs_weight {R}. Arguments bs_bias {R}. Arguments bs_mean {R}. Arguments bs_var {R}. Arguments bs_eps {R}. Arguments bs_momentum {R}.
Arguments bs_affine {R}. Arguments bs_track {R}. Arguments bs_in_mask {R}.
Record bn_exported (R : Type) := { xb_layer : bn_new; xb_weight : list R; xb_bias : list R; xb_mean : option (list R); xb_var : option (list R) }.
Arguments xb_layer {R}. Arguments xb_weight {R}. Arguments xb_bias {R}. Arguments xb_mean {R}. Arguments xb_var {R}.

(* ---------------------------------------------------------------- tensor vocabulary (fixed text) *)
(* a binarized mask is a 0/1 float tensor (is01: part of the *_ok predicates); it enters the carrier as bit (x <> 0) *)
Definition qbit {R} (r0 r1 : R) (x : Q) : R := bit r0 r1 (q2b x).
Definition q01 (x : Q) : bool := Qeq_bool x 0 || Qeq_bool x 1.
Definition is01 (m : vec) : bool := forallb q01 m.
(* one product mask * element (l = true) or element * mask (l = false) *)
Definition emul {R} (r0 r1 : R) (rmul : R -> R -> R) (l : bool) (x : Q) (e : R) : R := if l then rmul (qbit r0 r1 x) e else rmul e (qbit r0 r1 x).
Definition scale_rows {A} (f : Q -> A -> A) (m : vec) (w : list A) : list A := map (fun p => f (fst p) (snd p)) (combine m w).
(* torch.mul of a parameter tensor of rank 1..4 with a mask broadcast along its first / its last axis *)
Definition mul1 {R} r0 r1 rmul (l : bool) (m : vec) (v : list R) : list R := scale_rows (emul r0 r1 rmul l) m v.
Definition wmul2_ax0 {R} r0 r1 rmul (l : bool) (m : vec) (w : list (list R)) := scale_rows (fun x => map (emul r0 r1 rmul l x)) m w.
Definition wmul2_ax1 {R} r0 r1 rmul (l : bool) (m : vec) (w : list (list R)) := map (mul1 r0 r1 rmul l m) w.
Definition wmul3_ax0 {R} r0 r1 rmul (l : bool) (m : vec) (w : list (list (list R))) := scale_rows (fun x => map (map (emul r0 r1 rmul l x))) m w.
Definition wmul3_ax2 {R} r0 r1 rmul (l : bool) (m : vec) (w : list (list (list R))) := map (map (mul1 r0 r1 rmul l m)) w.
Definition wmul4_ax0 {R} r0 r1 rmul (l : bool) (m : vec) (w : list (list (list (list R)))) := scale_rows (fun x => map (map (map (emul r0 r1 rmul l x)))) m w.
Definition wmul4_ax3 {R} r0 r1 rmul (l : bool) (m : vec) (w : list (list (list (list R)))) := map (map (map (mul1 r0 r1 rmul l m))) w.
(* torch.mul of an activation (batch, channel, positions...) with a mask reshaped to (1, C, 1, ...) *)
Definition amul0 {R} r0 r1 rmul (l : bool) (m : vec) (y : nat -> R) : nat -> R := fun co => emul r0 r1 rmul l (nth co m 0%Q) (y co).
Definition amul1 {R} r0 r1 rmul (l : bool) (m : vec) (y : nat -> Z -> R) : nat -> Z -> R := fun co t => emul r0 r1 rmul l (nth co m 0%Q) (y co t).
Definition amul2 {R} r0 r1 rmul (l : bool) (m : vec) (y : nat -> Z -> Z -> R) : nat -> Z -> Z -> R := fun co h v => emul r0 r1 rmul l (nth co m 0%Q) (y co h v).
(* bn(y) in eval mode *)
Definition bn_apply0 {R} r0 radd rmul (bn : fbn R) (y : nat -> R) : nat -> R := fun co => bn_at r0 radd rmul (Some (fb_coef bn)) co (y co).
Definition bn_apply1 {R} r0 radd rmul (bn : fbn R) (y : nat -> Z -> R) : nat -> Z -> R := fun co t => bn_at r0 radd rmul (Some (fb_coef bn)) co (y co t).
Definition bn_apply2 {R} r0 radd rmul (bn : fbn R) (y : nat -> Z -> Z -> R) : nat -> Z -> Z -> R := fun co h v => bn_at r0 radd rmul (Some (fb_coef bn)) co (y co h v).
(* shapes *)
Definition len_is {A} (l : list A) (n : Z) : bool := (Z.of_nat (length l) =? n)%Z.
Definition shape2z {A} (w : list (list A)) (a b : Z) : bool := len_is w a && forallb (fun x => len_is x b) w.
Definition shape3z {A} (w : list (list (list A))) (a b c : Z) : bool := len_is w a && forallb (fun x => shape2z x b c) w.
Definition shape4z {A} (w : list (list (list (list A)))) (a b c d : Z) : bool := len_is w a && forallb (fun x => shape3z x b c d) w.
Definition rows_len {A} (w : list (list A)) (n : nat) : bool := forallb (fun x => length x =? n) w.
Definition rows_len3 {A} (w : list (list (list A))) (n : nat) : bool := forallb (fun x => rows_len x n) w.
Definition rows_len4 {A} (w : list (list (list (list A)))) (n : nat) : bool := forallb (fun x => rows_len3 x n) w.
(* torch's checks in the constructor of a convolution *)
Definition conv_ctor_ok (i o g : Z) : bool := (0 <? g)%Z && (i mod g =? 0)%Z && (o mod g =? 0)%Z.

(* ---------------------------------------------------------------- the layers' own geometry (fixed text; TRUSTED reading of
   nn.Conv1d._conv_forward / nn.Conv2d._conv_forward / F.linear = conv1d_at / conv2d_at / linear_at of Model/Conv.v, which the
   differential run compares with torch; *_geom_ok = the part of the geometry those operators cover) *)
Definition c1_is_dw {R} (s : conv1d_self R) : bool := (c1s_groups s =? c1s_in_channels s) && (c1s_groups s =? c1s_out_channels s).
Definition c1_conv_forward {R} r0 radd rmul (s : conv1d_self R) (x : nat -> Z -> R) (w : list (list (list R))) (b : option (list R)) : nat -> Z -> R :=
  conv1d_at r0 radd rmul (c1_is_dw s) w b (c1s_in_channels s) (c1s_kernel_size s) (Z.of_nat (c1s_dilation s)) (Z.of_nat (c1s_stride s)) x.
Definition c1_geom_ok {R} (s : conv1d_self R) : bool :=
  (padv_eqb (c1s_padding s) PadValid || padv_eqb (c1s_padding s) (PadTuple [0])) && ((c1s_groups s =? 1) || c1_is_dw s).
Definition c2_is_dw {R} (s : conv2d_self R) : bool := (c2s_groups s =? c2s_in_channels s) && (c2s_groups s =? c2s_out_channels s).
Definition pad2_of (p : padv) (kh kw d : nat) : nat * nat :=
  match p with PadValid => (0, 0) | PadSame => ((d * (kh - 1)) / 2, (d * (kw - 1)) / 2) | PadTuple [a; b] => (a, b) | PadTuple _ => (0, 0) end.
Definition pad2_ok (p : padv) (kh kw d s : nat) : bool :=
  match p with PadValid => true | PadSame => Nat.even (d * (kh - 1)) && Nat.even (d * (kw - 1)) && (s =? 1) | PadTuple [a; b] => true | PadTuple _ => false end.
Definition c2_conv_forward {R} r0 radd rmul (s : conv2d_self R) (x : nat -> Z -> Z -> R) (w : list (list (list (list R)))) (b : option (list R)) : nat -> Z -> Z -> R :=
  let '(kh, kw) := c2s_kernel_size s in let d := fst (c2s_dilation s) in let '(ph, pw) := pad2_of (c2s_padding s) kh kw d in
  conv2d_at r0 radd rmul (c2_is_dw s) w b (c2s_in_channels s) kh kw (Z.of_nat d) (Z.of_nat (fst (c2s_stride s))) (Z.of_nat ph) (Z.of_nat pw) x.
Definition c2_geom_ok {R} (s : conv2d_self R) : bool :=
  (fst (c2s_dilation s) =? snd (c2s_dilation s)) && (fst (c2s_stride s) =? snd (c2s_stride s)) &&
  pad2_ok (c2s_padding s) (fst (c2s_kernel_size s)) (snd (c2s_kernel_size s)) (fst (c2s_dilation s)) (fst (c2s_stride s)) && ((c2s_groups s =? 1) || c2_is_dw s).
Definition lin_linear {R} r0 radd rmul (s : linear_self R) (x : nat -> R) (w : list (list R)) (b : option (list R)) : nat -> R :=
  linear_at r0 radd rmul w b (ls_in_features s) x.

"""

FOOTER = r"""(* ---------------------------------------------------------------- the layer objects of the correspondence run (fixed text) *)
(* the mask side of a layer: theta of the features masker given, time-axis maskers on K taps (the Frozen ones keep the
   values __init__ gives their buffers), default threshold; _beta_norm / _gamma_norm are not read by the discrete paths *)
Definition masks_obj (frozen_t : bool) (K d0 : nat) (fm_theta beta gamma : vec) : layer_self :=
  {| s_fm_theta := fm_theta;
     s_tm_theta := if frozen_t then ftm_theta_gen K (tm_init_beta K) else tm_theta_gen K beta;
     s_dm_theta := if frozen_t then fdm_theta_gen K (dm_init_gamma K) else dm_theta_gen K gamma;
     s_thr := c1_default_binarization_threshold; s_dilation0 := d0; s_beta_norm := []; s_gamma_norm := [] |}.
Definition feat_masks (thr : Q) (fm_theta : vec) : layer_self :=
  {| s_fm_theta := fm_theta; s_tm_theta := []; s_dm_theta := []; s_thr := thr; s_dilation0 := 1; s_beta_norm := []; s_gamma_norm := [] |}.
Definition fbn_of {R} (has_bn : bool) (coef : list R * list R) : option (fbn R) :=
  if has_bn then Some {| fb_coef := coef; fb_eps := 0; fb_momentum := None; fb_affine := true; fb_track := true |} else None.
Definition fbn_opt {R} (bn : option (list R * list R)) : option (fbn R) :=
  option_map (fun c => {| fb_coef := c; fb_eps := 0; fb_momentum := None; fb_affine := true; fb_track := true |}) bn.

(* a PITConv1d with observed binarized masks mout (output features) / min (input features), causal padding outside *)
Definition conv1d_layer {R} (dw fold : bool) (w : list (list (list R))) (b : option (list R)) (bn : option (fbn R)) (cin cout K d0 st : nat) (ms : layer_self) (inm : vec) : conv1d_self R :=
  {| c1s_weight := w; c1s_bias := b; c1s_bn := bn; c1s_fold_bn := fold; c1s_in_channels := cin; c1s_out_channels := cout; c1s_kernel_size := K; c1s_stride := st;
     c1s_padding := PadTuple [0]; c1s_dilation := d0; c1s_groups := if dw then cout else 1; c1s_padding_mode := PmZeros; c1s_masks := ms; c1s_in_mask := inm |}.
Definition run_export1_gen (dw frozen has_bn fold : bool) (K d0 : nat) (beta gamma : vec) (mout min : list bool) (w : list (list (list Z))) (b : option (list Z)) :=
  let s := conv1d_layer dw fold w b (fbn_of has_bn ([], [])) (length min) (length mout) K d0 1 (masks_obj frozen K d0 (bfloat mout) beta gamma) (bfloat min) in
  let e := c1_export_gen Z s [] [] in let l := x1_layer e in
  (x1_weight e, x1_bias e,
   (Z.to_nat (nc_in l), Z.to_nat (nc_out l), Z.to_nat (nc_kernel l),
    (Z.to_nat (nc_dilation l), Z.to_nat (nc_groups l), match x1_pad e with Some p => Z.to_nat p | None => 0 end, option_map (fun n => Z.to_nat (nb_features n)) (x1_bn e)),
    map q2b (c1_time_mask_gen (c1s_masks s)))).
Definition run_export1_gen_ok (dw frozen has_bn fold : bool) (K d0 : nat) (beta gamma : vec) (mout min : list bool) (w : list (list (list Z))) (b : option (list Z)) : bool :=
  c1_export_ok Z (conv1d_layer dw fold w b (fbn_of has_bn ([], [])) (length min) (length mout) K d0 1 (masks_obj frozen K d0 (bfloat mout) beta gamma) (bfloat min)) [] [].

Definition conv2d_layer {R} (dw fold : bool) (w : list (list (list (list R)))) (b : option (list R)) (bn : option (fbn R)) (cin cout : nat) (ks st dil : nat * nat) (pad : padv) (ms : layer_self) (inm : vec) : conv2d_self R :=
  {| c2s_weight := w; c2s_bias := b; c2s_bn := bn; c2s_fold_bn := fold; c2s_in_channels := cin; c2s_out_channels := cout; c2s_kernel_size := ks; c2s_stride := st;
     c2s_padding := pad; c2s_dilation := dil; c2s_groups := if dw then cout else 1; c2s_padding_mode := PmZeros; c2s_masks := ms; c2s_in_mask := inm |}.
Definition run_export2_gen (dw has_bn fold : bool) (mout min : list bool) (w : list (list (list (list Z)))) (b : option (list Z)) :=
  let s := conv2d_layer dw fold w b (fbn_of has_bn ([], [])) (length min) (length mout) (1, 1) (1, 1) (1, 1) PadValid (feat_masks c2_default_binarization_threshold (bfloat mout)) (bfloat min) in
  let e := c2_export_gen Z s [] [] in let l := x2_layer e in
  (x2_weight e, x2_bias e, (Z.to_nat (n2_in l), Z.to_nat (n2_out l), Z.to_nat (n2_groups l), option_map (fun n => Z.to_nat (nb_features n)) (x2_bn e))).

Definition linear_layer {R} (fold : bool) (w : list (list R)) (b : option (list R)) (bn : option (fbn R)) (cin cout : nat) (ms : layer_self) (inm : vec) : linear_self R :=
  {| ls_weight := w; ls_bias := b; ls_bn := bn; ls_fold_bn := fold; ls_in_features := cin; ls_out_features := cout; ls_masks := ms; ls_in_mask := inm |}.
Definition run_export0_gen (has_bn fold : bool) (mout min : list bool) (w : list (list Z)) (b : option (list Z)) :=
  let s := linear_layer fold w b (fbn_of has_bn ([], [])) (length min) (length mout) (feat_masks lin_default_binarization_threshold (bfloat mout)) (bfloat min) in
  let e := lin_export_gen Z s [] [] in let l := xl_layer e in
  (xl_weight e, xl_bias e, (Z.to_nat (nl_in l), Z.to_nat (nl_out l), option_map (fun n => Z.to_nat (nb_features n)) (xl_bn e))).

(* PITConv1d.forward on a list tensor with the causal pad (K-1)*d in front: same shape as run_pit_conv1d of Model/Conv.v *)
Definition run_pit_conv1d_gen (fold dw : bool) (w : list (list (list Z))) (b : option (list Z)) (bn : option (list Z * list Z)) (cin K d st : nat)
    (frozen_t : bool) (alpha beta gamma : vec) (x : list (list Z)) : list (list Z) :=
  let s := conv1d_layer dw fold w b (fbn_opt bn) cin (length w) K d st (masks_obj frozen_t K d (fm_theta_gen (length alpha) fm_default_keep_alive_channels alpha) beta gamma) [] in
  let xp := Zpad1d ((K - 1) * d) x in
  map (fun co => map (fun t => c1_forward_gen Z 0%Z 1%Z Z.add Z.mul s (chans1 0%Z xp) co (Z.of_nat t))
                     (seq 0 (out_len (length (nth 0 xp [])) K d st))) (seq 0 (length w)).
"""


def translate_repo(repo, masks_text=None):
    """-> the text of coq/Gen/ExportGen.v for the tree `repo`.  masks_text: the text of Gen/MasksGen.v generated for the same
    tree (default: generated here with translator/masks2coq.py; a refusal there is a refusal here)"""
    if masks_text is None:
        from translator import masks2coq
        try:
            masks_text = masks2coq.translate_repo(repo)
        except masks2coq.Reject as e:
            raise Reject('translator/masks2coq.py refused the mask quantities the layers read: %s' % e)
    check_callers(repo)
    out = HEADER
    for fname, cname, short, tb, kind, rank in CLASSES:
        tree = read(repo, NN_DIR, fname)
        c = check_module(tree, fname, cname, tb)
        cl = Cls(short, cname, tb, kind, rank, masks_text)
        ms = check_class(cl, c, fname)
        out += '(* ---------------------------------------------------------------- %s : %s *)\n' % (fname, cname)
        out += emit_fn(cl, ms['in_features_opt'][0], 'prop')
        if kind == 'bn':
            out += emit_fn(cl, ms['out_features_opt'][0], 'prop')
        else:
            out += emit_fn(cl, ms['forward'][0], 'forward')
        out += emit_fn(cl, ms['export'][0], 'export') + '\n'
    return out + FOOTER
