"""Shared machinery of the /verif checks (see DESIGN.md §3, §5, §6).

Everything a per-property module needs: one seeded PRNG, the Coq literal printer and the
parser of `Eval vm_compute` output, the (locked, timed) Coq build, obligations +
`Print Assumptions`, evidence writer, known-findings matcher, replay writer.
"""
import shutil, os, sys, json, time, re, random, subprocess, fcntl, hashlib, fractions, collections, traceback

VERIF = os.path.dirname(os.path.dirname(os.path.abspath(__file__)))
REPO = os.environ.get('VERIF_REPO', '/repo')
COQ = os.path.join(VERIF, 'coq')
BUILD = os.path.join(VERIF, 'build')
EVID = os.path.join(VERIF, 'evidence')
REPLAYS = os.path.join(VERIF, 'replays')
KNOWN = os.path.join(VERIF, 'KNOWN_FINDINGS.json')
Fraction = fractions.Fraction
NPROC = min(16, os.cpu_count() or 4)

TRUSTED_COMMON = [
    'Coq 8.16.1 kernel + vm_compute (no native_compute)',
    'hand-written Gallina model tied to /repo by the correspondence run of this check (differential, sampled)',
    'vlib harness: case generators, observation extractors, Coq-literal printer/parser',
    'PyTorch kernels, autograd, torch.fx, float rounding: modelled, not verified (DESIGN.md §7)',
]


# ----------------------------------------------------------------------------- Coq literals
class Nat(int):
    """marks an int that must be printed as a Coq nat"""


class Raw(str):
    """a Coq term given verbatim"""


def coq(v):
    """Python value -> Coq term (Z for int, Q for Fraction, list, tuple, bool, string, option)"""
    if isinstance(v, Raw):
        return str(v)
    if isinstance(v, bool):
        return 'true' if v else 'false'
    if isinstance(v, Nat):
        assert 0 <= v < 5000, v
        return '%d%%nat' % v
    if isinstance(v, int):
        return '(%d)%%Z' % v
    if isinstance(v, Fraction):
        return '(%d # %d)%%Q' % (v.numerator, v.denominator)
    if isinstance(v, float):
        return coq(Fraction(v))
    if isinstance(v, str):
        assert '"' not in v
        return '"%s"%%string' % v
    if v is None:
        return 'None'
    if isinstance(v, tuple):
        return '(' + ', '.join(coq(x) for x in v) + ')'
    if isinstance(v, list):
        return '[' + '; '.join(coq(x) for x in v) + ']'
    raise TypeError('no Coq literal for %r' % (v,))


def some(v):
    return Raw('(Some %s)' % coq(v))


# ----------------------------------------------------------------------------- Coq output parser
_tok = re.compile(r'\s*(\[|\]|\(|\)|;|,|#|"(?:[^"]|"")*"|-?\d+|[A-Za-z_][A-Za-z_0-9\'.]*|%[A-Za-z_]+)')


def parse_coq(s):
    """Parse a printed Coq value made of lists, tuples, numbers (Z/nat/Q), bools, strings and
    constructor applications.  Numbers -> int, `a # b` -> Fraction, constructors -> tuples
    ('Name', args...); `Some x` -> ('Some', x); `None` -> None."""
    toks = []
    pos = 0
    s = s.strip()
    while pos < len(s):
        m = _tok.match(s, pos)
        if not m:
            raise ValueError('cannot tokenize Coq output at %r' % s[pos:pos + 40])
        t = m.group(1)
        pos = m.end()
        if t.startswith('%'):
            continue
        toks.append(t)
    i = [0]

    def peek():
        return toks[i[0]] if i[0] < len(toks) else None

    def nxt():
        t = toks[i[0]]
        i[0] += 1
        return t

    def atom():
        t = nxt()
        if t == '[':
            out = []
            if peek() == ']':
                nxt()
                return out
            while True:
                out.append(expr())
                t2 = nxt()
                if t2 == ']':
                    return out
                assert t2 == ';', t2
        if t == '(':
            first = expr()
            if peek() == ',':
                items = [first]
                while peek() == ',':
                    nxt()
                    items.append(expr())
                assert nxt() == ')'
                return tuple(items)
            assert nxt() == ')'
            return first
        if t.startswith('"'):
            return t[1:-1].replace('""', '"')
        if re.fullmatch(r'-?\d+', t):
            return int(t)
        if t == 'true':
            return True
        if t == 'false':
            return False
        if t == 'None':
            return None
        return ('@', t)

    def app():
        a = atom()
        if isinstance(a, tuple) and len(a) == 2 and a[0] == '@':
            args = []
            while peek() is not None and peek() not in (']', ')', ';', ',', '#'):
                args.append(atom_arg())
            return (a[1],) + tuple(args) if args or True else a[1]
        return a

    def atom_arg():
        a = atom()
        if isinstance(a, tuple) and len(a) == 2 and a[0] == '@':
            return (a[1],)
        return a

    def expr():
        a = app()
        if peek() == '#':
            nxt()
            b = app()
            return Fraction(a, b)
        return a

    v = expr()
    if i[0] != len(toks):
        raise ValueError('trailing tokens in Coq output: %r' % toks[i[0]:i[0] + 5])
    return v


# ----------------------------------------------------------------------------- processes
def sh(cmd, timeout, cwd=None, env=None):
    """run under shell `timeout`; returns (rc, stdout+stderr)"""
    full = ['timeout', '-k', '10', str(int(timeout))] + cmd
    p = subprocess.run(full, cwd=cwd, env=env, stdout=subprocess.PIPE, stderr=subprocess.STDOUT, text=True)
    return p.returncode, p.stdout


class Lock:
    def __init__(self, name):
        os.makedirs(BUILD, exist_ok=True)
        self.path = os.path.join(BUILD, name)

    def __enter__(self):
        self.f = open(self.path, 'w')
        fcntl.flock(self.f, fcntl.LOCK_EX)

    def __exit__(self, *a):
        fcntl.flock(self.f, fcntl.LOCK_UN)
        self.f.close()


def coq_project_files():
    out = []
    for d in ('Base', 'Model', 'Gen', 'Proofs', 'Props'):
        p = os.path.join(COQ, d)
        if os.path.isdir(p):
            for f in sorted(os.listdir(p)):
                if f.endswith('.v'):
                    out.append('%s/%s' % (d, f))
    return out


def write_if_changed(path, text):
    if os.path.exists(path) and open(path).read() == text:
        return False
    os.makedirs(os.path.dirname(path), exist_ok=True)
    with open(path, 'w') as f:
        f.write(text)
    return True


def coq_make(targets=None, timeout=1500):
    """(re)generate _CoqProject/Makefile when the file list changed and build `targets`
    (list of .vo paths relative to coq/, default: everything).  Returns (ok, log)."""
    with Lock('coq.lock'):
        files = coq_project_files()
        proj = '-Q . Plinio\n-arg -w -arg -notation-overridden,-deprecated-hint-without-locality,-deprecated-instance-without-locality\n' + '\n'.join(files) + '\n'
        changed = write_if_changed(os.path.join(COQ, '_CoqProject'), proj)
        if changed or not os.path.exists(os.path.join(COQ, 'Makefile')):
            rc, out = sh(['coq_makefile', '-f', '_CoqProject', '-o', 'Makefile'], 120, cwd=COQ)
            if rc != 0:
                return False, out
        cmd = ['make', '-j%d' % NPROC] + (targets or [])
        rc, out = sh(cmd, timeout, cwd=COQ)
        return rc == 0, out


def gate_scan():
    """the grep gate of DESIGN.md §3: forbidden words anywhere in the development"""
    bad = []
    pat = re.compile(r'\b(Admitted|admit|Axiom|Axioms|Parameter|Parameters|Conjecture|Hypothesis|Variable|Variables|Hypotheses)\b|Unset\s+Guard|bypass_check|type-in-type|impredicative-set|Admit Obligations|Unset Universe Checking|Unset Positivity')
    for f in coq_project_files():
        txt = open(os.path.join(COQ, f)).read()
        txt = re.sub(r'\(\*.*?\*\)', '', txt, flags=re.S)
        depth = 0
        for ln, line in enumerate(txt.split('\n'), 1):
            if re.match(r'\s*Section\b', line):
                depth += 1
            if re.match(r'\s*End\b', line) and depth > 0:
                depth -= 1
            for m in pat.finditer(line):
                w = m.group(0)
                if w in ('Variable', 'Variables', 'Hypothesis', 'Hypotheses') and depth > 0:
                    continue  # section-local: becomes a visible premise, not an axiom
                bad.append('%s:%d: %s' % (f, ln, w))
    return bad


def coqc_file(path, timeout=600):
    rc, out = sh(['coqc', '-Q', COQ, 'Plinio', '-w', '-notation-overridden,-deprecated-hint-without-locality', path], timeout, cwd=os.path.dirname(path))
    return rc, out


def split_evals(out):
    """stdout of a file compiled with `Set Printing Width 1000000`: one '     = v' + '     : t' per Eval"""
    vals = []
    cur = None
    for line in out.split('\n'):
        if line.startswith('     = '):
            cur = [line[7:]]
        elif line.startswith('     : ') and cur is not None:
            vals.append(' '.join(cur))
            cur = None
        elif cur is not None:
            cur.append(line.strip())
    return vals


HEADER = 'Set Printing Width 1000000.\nSet Printing Depth 1000000.\nFrom Coq Require Import ZArith QArith List String Bool.\nImport ListNotations.\nOpen Scope Z_scope.\n'


# ----------------------------------------------------------------------------- check context
class Ctx:
    def __init__(self, prop, tier, seed, level='proof'):
        self.prop, self.tier, self.seed, self.level = prop, tier, seed, level
        self.rng = random.Random((hash_str(prop) << 20) ^ seed)
        self.t0 = time.time()
        # one scratch directory per run: two runs of the same check at the same time (quick and thorough, or a run on a
        # scratch tree next to a run on /repo) must not overwrite each other's generated case files
        self.pdir = os.path.join(BUILD, prop)
        self.bdir = os.path.join(self.pdir, 'run-%s-%d' % (tier, os.getpid()))
        os.makedirs(self.bdir, exist_ok=True)
        try:      # scratch directories left by runs that were killed
            for d in os.listdir(self.pdir):
                q = os.path.join(self.pdir, d)
                if d.startswith('run-') and q != self.bdir and os.path.isdir(q) and time.time() - os.path.getmtime(q) > 6 * 3600:
                    shutil.rmtree(q, ignore_errors=True)
        except OSError:
            pass
        self.evaluations = 0
        self.distinct = set()
        self.samples = []
        self.dist = collections.Counter()
        self.obligations = []          # (name, ok, assumptions)
        self.checker_cmds = []
        self.violations = []           # (key, replay path, no_input)
        self.known_printed = []
        self.corr = 0                  # model/impl comparisons
        self.notes = []
        self.extra = {}
        self.assumptions = []
        self.rule = ''
        self.exhaustive = False
        self._known = [k for k in json.load(open(KNOWN))['findings'] if k['property'] == prop] if os.path.exists(KNOWN) else []
        extra = os.environ.get('VERIF_KNOWN_EXTRA')   # development only: entries proposed but not yet committed
        if extra and os.path.exists(extra):
            self._known += [k for k in json.load(open(extra))['findings'] if k['property'] == prop]
        self._nrep = 0

    @property
    def quick(self):
        return self.tier == 'quick'

    # -- coverage bookkeeping
    def case(self, key, nontrivial=True, sample=None, kind=None):
        self.evaluations += 1
        if nontrivial:
            self.distinct.add(hashlib.sha1(repr(key).encode()).hexdigest()[:16])
        if kind:
            self.dist[kind] += 1
        if sample is not None and len(self.samples) < 6:
            self.samples.append(sample)

    # -- Coq
    def build(self, targets=None, extra_props=()):
        """build the property's theorem file(s); record obligations by name with their assumptions.
        extra_props: further statement files Props/<name>.v of the same property (e.g. C12gen: the sentences of C12 about the
        cost generated from the source, kept apart because the two models they bridge reuse short names)"""
        self._props = [self.prop] + list(extra_props)
        targets = targets or ['Props/%s.vo' % p for p in self._props]
        ok, log = coq_make(targets)
        self.checker_cmds.append('make -j%d %s (in /verif/coq, generated by coq_makefile -f _CoqProject)' % (NPROC, ' '.join(targets)))
        names = []
        for p_ in self._props:
            names += re.findall(r'^\s*(?:Theorem|Corollary)\s+([A-Za-z_0-9\']+)', re.sub(r'\(\*.*?\*\)', '', open(os.path.join(COQ, 'Props', p_ + '.v')).read(), flags=re.S), flags=re.M)
        gate = gate_scan()
        if gate:
            ok = False
            log += '\nGATE: forbidden declarations: ' + '; '.join(gate)
        if not ok:
            open(os.path.join(self.pdir, 'make.log'), 'w').write(log)
            for n in names:
                self.obligations.append((n, False, []))
            self.broken_log = log
            return False
        # Print Assumptions, freshly, for every theorem of Props/Cxx.v
        src = ''.join('Require Import Plinio.Props.%s.\n' % p_ for p_ in self._props) + ''.join('Print Assumptions %s.\n' % n for n in names)
        p = os.path.join(self.bdir, 'assum_%s.v' % self.prop)
        open(p, 'w').write(src)
        rc, out = coqc_file(p, 600)
        self.checker_cmds.append('coqc -Q /verif/coq Plinio build/%s/assum_%s.v   (Print Assumptions of every theorem)' % (self.prop, self.prop))
        if rc != 0:
            for n in names:
                self.obligations.append((n, False, []))
            self.broken_log = out
            return False
        if self.tier == 'thorough' and os.environ.get('VERIF_NO_COQCHK') != '1':
            self._targets = targets
            self.coqchk()
            if any(o[0].startswith('coqchk:') and not o[1] for o in self.obligations):
                # the independent checker refuses the compiled development: the theorems are not established
                for n in names:
                    self.obligations.append((n, False, []))
                return False
        blocks = re.split(r'(?m)^(?=Closed under the global context|Axioms:|Section Variables:)', out)
        blocks = [b.strip() for b in blocks if b.strip()]
        for k, n in enumerate(names):
            b = blocks[k] if k < len(blocks) else '?'
            ass = [] if b.startswith('Closed under') else [re.sub(r'\s+', ' ', b)]
            self.obligations.append((n, True, ass))
        return True

    def coqchk(self, timeout=2400):
        """thorough tier: independent re-check of Props/Cxx.vo and everything it depends on, with the axiom list"""
        # under the build lock: another check rebuilding a generated file while coqchk reads the .vo files would make it
        # report 'inconsistent assumptions'; if it does, the targets are rebuilt and coqchk runs once more
        for attempt in (0, 1):
            with Lock('coq.lock'):
                rc, out = sh(['coqchk', '-o', '-silent', '-Q', COQ, 'Plinio'] + ['Plinio.Props.%s' % p_ for p_ in getattr(self, '_props', [self.prop])], timeout, cwd=COQ)
            if rc in (0, 124) or attempt == 1 or 'nconsistent assumptions' not in out:
                break
            coq_make(getattr(self, '_targets', None) or ['Props/%s.vo' % self.prop])
        self.checker_cmds.append('coqchk -o -silent -Q /verif/coq Plinio ' + ' '.join('Plinio.Props.%s' % p_ for p_ in getattr(self, '_props', [self.prop])))
        summ = out[out.find('CONTEXT SUMMARY'):] if 'CONTEXT SUMMARY' in out else out[-1500:]
        m = re.search(r'\* Axioms:(.*?)\n\s*\n\* Constants', summ, flags=re.S)
        axioms = re.sub(r'\s+', ' ', m.group(1)).strip() if m else '?'
        self.extra['coqchk'] = {'exit': rc, 'axioms': axioms, 'summary': re.sub(r'[ \t]+', ' ', summ)[:1500]}
        if rc == 124:
            self.notes.append('coqchk timed out after %ds (the proofs by vm_compute are re-evaluated by its slower reduction); not counted as a failure' % timeout)
        elif rc != 0:
            self.obligations.append(('coqchk:Props.%s' % self.prop, False, []))
            self.broken_log = out[-3000:]
        else:
            self.obligations.append(('coqchk:Props.%s' % self.prop, True, [] if axioms == '<none>' else ['coqchk axioms: ' + axioms]))

    def coq_eval(self, name, imports, defs, exprs, timeout=900):
        """evaluate `exprs` (Coq terms) with vm_compute in one coqc run; returns parsed values,
        or raises RuntimeError with the log (model evaluation broke)"""
        src = HEADER + ''.join('Require Import %s.\n' % m for m in imports) + defs + '\n' + ''.join('Eval vm_compute in (%s).\n' % e for e in exprs)
        p = os.path.join(self.bdir, name + '.v')
        open(p, 'w').write(src)
        rc, out = coqc_file(p, timeout)
        if rc != 0:
            raise RuntimeError('coqc failed on %s:\n%s' % (p, out[-3000:]))
        vals = split_evals(out)
        if len(vals) != len(exprs):
            raise RuntimeError('expected %d results, got %d from %s\n%s' % (len(exprs), len(vals), p, out[-2000:]))
        self.checker_cmds.append('coqc -Q /verif/coq Plinio build/%s/run-*/%s.v   (%d vm_compute evaluations)' % (self.prop, name, len(exprs)))
        return [parse_coq(v) for v in vals]

    def coq_eval_sharded(self, name, imports, defs, exprs, shard=400, timeout=900):
        """same, split over several files compiled in parallel"""
        chunks = [exprs[i:i + shard] for i in range(0, len(exprs), shard)]
        if len(chunks) <= 1:
            return self.coq_eval(name, imports, defs, exprs, timeout)
        from concurrent.futures import ThreadPoolExecutor
        with ThreadPoolExecutor(NPROC) as ex:
            res = list(ex.map(lambda kc: self.coq_eval('%s_%d' % (name, kc[0]), imports, defs, kc[1], timeout), enumerate(chunks)))
        return [v for r in res for v in r]

    # -- violations
    def violation(self, key, replay, what, no_input=False):
        """report a property failure.  `key` identifies the specific failing input class / call
        site (matched against KNOWN_FINDINGS.json); `replay` is a JSON-able dict."""
        for k in self._known:
            if k['status'] == 'open' and k['key'] == key:
                if key not in self.known_printed:
                    self.known_printed.append(key)
                    print('KNOWN-FINDING: property=%s %s' % (self.prop, k['description']), flush=True)
                return 'known'
        if any(v[0] == key for v in self.violations):
            return 'dup'
        os.makedirs(REPLAYS, exist_ok=True)
        self._nrep += 1
        path = os.path.join(REPLAYS, '%s-%s-seed%d-%d.json' % (self.prop, self.tier, self.seed, self._nrep))
        replay = dict(replay)
        replay.update({'property': self.prop, 'key': key, 'what': what, 'no_failing_input_found': no_input,
                       'replay_cmd': './check %s --replay %s' % (self.prop, path)})
        with open(path, 'w') as f:
            json.dump(replay, f, indent=1, default=jdefault)
        self.violations.append((key, path, no_input))
        print('   %s: %s' % (key, what), flush=True)
        print('VIOLATION property=%s replay=%s%s' % (self.prop, path, ' no-failing-input-found' if no_input else ''), flush=True)
        return 'new'

    def finish(self):
        nob = len(self.obligations)
        ndis = sum(1 for o in self.obligations if o[1])
        ass = sorted({a for o in self.obligations for a in o[2]})
        cov = {
            'obligations': nob, 'discharged': ndis,
            'checker_cmd': ' ; '.join(dict.fromkeys(self.checker_cmds)) or 'none',
            'trusted_base': TRUSTED_COMMON + (['Print Assumptions: ' + a for a in ass] if ass else ['Print Assumptions: every theorem of Props/%s.v is closed under the global context' % self.prop]) + self.assumptions,
            'theorems': [{'name': o[0], 'checked': o[1], 'assumptions': o[2] or 'closed under the global context'} for o in self.obligations],
            'evaluations': self.evaluations,
            'distinct_nontrivial': len(self.distinct),
            'traces_validated_against_impl': self.corr,
            'rule': self.rule,
            'samples': self.samples or ['(no case generated)'],
            'distribution': dict(self.dist),
            'exhaustive': self.exhaustive,
            'known_findings_hit': self.known_printed,
            'notes': self.notes,
        }
        cov.update(self.extra)
        ev = {'property_id': self.prop, 'tier': self.tier, 'seed': self.seed, 'level': self.level,
              'coverage': cov, 'assumptions': self.assumptions + ['see DESIGN.md §7 (trusted base) and §C' + self.prop[1:]],
              'wall_s': round(time.time() - self.t0, 2), 'violations': len(self.violations)}
        os.makedirs(EVID, exist_ok=True)
        tmp = os.path.join(EVID, '.%s.%d.tmp' % (self.prop, os.getpid()))
        with open(tmp, 'w') as f:
            json.dump(ev, f, indent=1, default=jdefault)
        os.replace(tmp, os.path.join(EVID, self.prop + '.json'))
        shutil.rmtree(self.bdir, ignore_errors=True)
        print('%s %s: obligations %d/%d, cases %d (distinct non-trivial %d), model-vs-impl comparisons %d, known findings %d, violations %d, %.1fs'
              % (self.prop, self.tier, ndis, nob, self.evaluations, len(self.distinct), self.corr, len(self.known_printed), len(self.violations), time.time() - self.t0), flush=True)
        return 1 if self.violations else 0


def jdefault(o):
    if isinstance(o, Fraction):
        return '%d/%d' % (o.numerator, o.denominator)
    if isinstance(o, (set, frozenset)):
        return sorted(o)
    try:
        import torch
        if isinstance(o, torch.Tensor):
            return o.tolist()
    except Exception:
        pass
    return repr(o)


def hash_str(s):
    return int(hashlib.sha1(s.encode()).hexdigest()[:8], 16)


def frac(x):
    """exact rational value of a python/torch float"""
    return Fraction(float(x))


def close(impl, model, rel=2.0 ** -20):
    """real-valued observable: |impl - model| <= rel*max(1,|model|)  (model exact)"""
    if isinstance(impl, float) and (impl != impl or impl in (float('inf'), float('-inf'))):
        return False
    impl = Fraction(impl) if not isinstance(impl, Fraction) else impl
    return abs(impl - model) <= Fraction(rel) * max(1, abs(model))


def setup_torch():
    import warnings
    warnings.filterwarnings('ignore')
    import torch
    torch.set_num_threads(1)
    return torch
