(* C15: the model GENERATED from the source of CostSpec.__setitem__ / __getitem__ (Gen/CostSpecGen.v, rewritten by
   translator/costspec2coq.py on every run) computes the same functions as the hand-written model the theorems are
   proved about.  These equalities are the obligations that tie the theorems to the code as it is now. *)
From Coq Require Import List Bool Arith Lia.
Import ListNotations.
From Coq Require Import Permutation.
Require Import Plinio.Model.CostSpec Plinio.Gen.CostSpecGen Plinio.Proofs.CostSpec.

Section GenEq.
Variable F : Type.

(* ---- the insertion-ordered dict *)
Lemma dict_mem_false_entries (s : spec F) ty : dict_mem F ty s = false -> entries F s ty = [].
Proof.
  unfold entries. induction s as [|[ty' es] t IH]; cbn; [reflexivity|].
  destruct (Nat.eqb ty ty'); cbn; [discriminate|]. exact IH.
Qed.

Lemma setitem_absent (s : spec F) ty e : dict_mem F ty s = false ->
  dict_set F (dict_set F s ty []) ty (dict_get F (dict_set F s ty []) ty ++ [e]) = setitem F s ty e.
Proof.
  unfold dict_get, entries. induction s as [|[ty' es] t IH]; cbn.
  - intros _. rewrite !Nat.eqb_refl. cbn. reflexivity.
  - destruct (Nat.eqb ty ty') eqn:E; cbn; [discriminate|]. intro H. rewrite ?E. cbn. rewrite ?E. cbn. f_equal. apply IH. exact H.
Qed.

Lemma setitem_present (s : spec F) ty e : dict_mem F ty s = true ->
  dict_set F s ty (dict_get F s ty ++ [e]) = setitem F s ty e.
Proof.
  unfold dict_get, entries. induction s as [|[ty' es] t IH]; cbn; [discriminate|].
  destruct (Nat.eqb ty ty') eqn:E; cbn; [reflexivity|]. intro H. f_equal. apply IH. exact H.
Qed.

Theorem setitem_gen_eq : forall (s : spec F) ty e, setitem_gen F s ty e = setitem F s ty e.
Proof.
  intros s ty e. unfold setitem_gen. destruct (dict_mem F ty s) eqn:E; cbn [negb].
  - apply setitem_present. exact E.
  - apply setitem_absent. exact E.
Qed.

(* ---- the lookup loop *)
Lemma fold_step_scan (sat : nat -> bool) : forall (es : list (entry F)) (bm : option F) (bc : option nat),
  match fold_res (getitem_step F sat) es (bm, bc) with
  | Ok (best_match, _) => ret F best_match
  | Raise => Conflict
  end = scan F sat es bm (negb (is_none bc)).
Proof.
  induction es as [|[c f] t IH]; intros bm bc; cbn [fold_res scan].
  - destruct bm; reflexivity.
  - destruct c as [k|]; destruct bc as [b|]; cbn [getitem_step is_none sat_opt negb];
      try destruct (sat k); cbn [negb is_none]; try reflexivity; rewrite IH; reflexivity.
Qed.

Theorem getitem_gen_eq : forall (s : spec F) ty sat, getitem_gen F s ty sat = getitem F s ty sat.
Proof.
  intros s ty sat. unfold getitem_gen, getitem, dict_get. cbn zeta.
  destruct (dict_mem F ty s) eqn:E.
  - apply (fold_step_scan sat (entries F s ty) None None).
  - rewrite (dict_mem_false_entries s ty E). reflexivity.
Qed.

Lemma register_all_gen_eq : forall regs, register_all_gen F regs = register_all F regs.
Proof.
  intro regs. unfold register_all_gen, register_all. generalize (@nil (nat * list (entry F))) as s.
  induction regs as [|r regs IH]; intro s; cbn [fold_left]; [reflexivity|]. rewrite setitem_gen_eq. apply IH.
Qed.

(* the theorems of the hand-written model, transported to the generated one *)
Theorem gen_getitem_rule : forall (regs : list (nat * entry F)) (ty : nat) (sat : nat -> bool),
  getitem_gen F (register_all_gen F regs) ty sat = rule F sat (regs_of F regs ty).
Proof. intros. rewrite getitem_gen_eq, register_all_gen_eq. apply getitem_rule. Qed.

Theorem gen_getitem_perm : forall (regs regs' : list (nat * entry F)) (ty : nat) (sat : nat -> bool),
  NoDup (map (pattern_of F) regs) -> Permutation regs regs' ->
  getitem_gen F (register_all_gen F regs) ty sat = getitem_gen F (register_all_gen F regs') ty sat.
Proof. intros. rewrite !getitem_gen_eq, !register_all_gen_eq. apply getitem_perm; assumption. Qed.

Theorem gen_conflict_iff : forall (regs : list (nat * entry F)) (ty : nat) (sat : nat -> bool),
  getitem_gen F (register_all_gen F regs) ty sat = Conflict <->
  2 <= length (sat_constrained F sat (regs_of F regs ty)).
Proof. intros. rewrite getitem_gen_eq, register_all_gen_eq. apply conflict_iff. Qed.
End GenEq.
