"""C17 — checkpoint / resume (DESIGN.md §C17).  Theorems: coq/Props/C17.v over coq/Model/Ckpt.v.

Cases: (constructor configuration, history) for PIT / MPS / SuperNet wrappers of small real networks (Conv/Linear/BN,
residual add, Conv1d with receptive-field / dilation masks, MPS per-layer and per-channel, SuperNet with two blocks).
A history is: mode call, 0..5 optimizer steps (SGD / Adam on both parameter groups, random data) with option changes
(temperature, hard / gumbel / disable_sampling, discrete_cost) in between, final mode (train or eval).  At the end of the
history the state_dict is deep-copied, a fresh wrapper of the same seed network and constructor options is built, the
checkpoint is loaded with strict=True, the wrapper is put in the mode of the interrupted run and both wrappers run one
forward pass on the same batch with the same RNG seed.

Oracle (implementation only): the load must succeed with no missing / unexpected keys; outputs (bitwise), every cost value,
summary() and the exported network (leaf structure, weights, outputs) of restored and original must coincide.
Correspondence (model in Coq on the same configuration and history): state_dict key list, the transient options after
every step, missing / unexpected keys, which of the four observations coincide, the coefficient tensors after the final
forward pass (arg-max index / soft-max values) and the PIT effective sizes.
"""
import math, os, time
from concurrent.futures import ProcessPoolExecutor
from .common import *

OBS = ('out', 'cost', 'summary', 'export')
SMPC = {0: 'Sm', 1: 'Gs', 2: 'NoSamp'}


# ----------------------------------------------------------------------------- case generation
def f32(x):
    import struct
    return struct.unpack('f', struct.pack('f', x))[0]


def variants(quick):
    V = []
    for disc in (False, True):
        V.append({'method': 'PIT', 'net': 'pit1d', 'opts': {'k': 5, 'discrete_cost': disc}})
        V.append({'method': 'PIT', 'net': 'net2d', 'opts': {'discrete_cost': disc, 'head_bn': disc}})
    V.append({'method': 'PIT', 'net': 'pit1d', 'opts': {'k': 4, 'stride2': True}})
    V.append({'method': 'PIT', 'net': 'net2d', 'opts': {'fold_bn': True, 'head_bn': True, 'full_cost': True}})
    for pc in (False, True):
        for fl in ({}, {'gumbel': True}, {'hard': True}, {'gumbel': True, 'hard': True}, {'nosamp': True}, {'temperature': 0.5}):
            V.append({'method': 'MPS', 'net': 'net2d', 'opts': dict(fl, per_channel=pc)})
    V.append({'method': 'MPS', 'net': 'net2d', 'opts': {'per_channel': True, 'w_prec': (0, 2, 8), 'head_bn': True}})
    V.append({'method': 'MPS', 'net': 'net2d', 'opts': {'per_channel': False, 'w_prec': (4, 8), 'a_prec': (8,), 'full_cost': True}})
    for g in (False, True):
        for h in (False, True):
            V.append({'method': 'SN', 'net': 'sn2', 'opts': {'gumbel': g, 'hard': h}})
    V.append({'method': 'SN', 'net': 'sn2', 'opts': {'full_cost': True}})
    # additions that have the same operand nodes, twice and three times (module names derived from the operands collide)
    V.append({'method': 'MPS', 'net': 'net2d', 'opts': {'per_channel': False, 'radd': 2}})
    V.append({'method': 'MPS', 'net': 'net2d', 'opts': {'per_channel': True, 'radd': 3, 'gumbel': True}})
    V.append({'method': 'PIT', 'net': 'net2d', 'opts': {'radd': 3}})
    return V


def option_changes(v):
    """named option changes applicable to a configuration: list of (name, [ops])"""
    m, o = v['method'], v['opts']
    if m == 'PIT':
        d = bool(o.get('discrete_cost', False))
        return [('none', []), ('disc', [('disc', not d)]), ('disc-and-back', [('disc', not d), ('disc', d)])]
    if m == 'MPS':
        g, d, h = bool(o.get('gumbel', False)), bool(o.get('nosamp', False)), bool(o.get('hard', False))
        return [('none', []),
                ('temperature', [('upd', 0.25, None, g or None, d or None)]),          # sampler flags passed again
                ('temperature-bare', [('upd', 2.0, None, None, None)]),              # options that are not given keep their value
                ('nosamp-and-back', [('upd', None, None, None, not d), ('upd', None, None, None, d)]),
                ('hard', [('upd', None, not h, g or None, d or None)]),
                ('hard-and-back', [('upd', None, not h, g or None, d or None), ('upd', None, h, g or None, d or None)]),
                ('gumbel', [('upd', None, None, not g, None)]),
                ('nosamp', [('upd', None, None, None, not d)])]
    h = bool(o.get('hard', False))
    return [('none', []), ('temperature', [('upd', 0.25, None, None, None)]), ('temperature-5', [('upd', 5.0, None, None, None)]),
            ('temperature-and-back', [('upd', 0.5, None, None, None), ('upd', 1.0, None, None, None)]),
            ('hard', [('upd', None, not h, None, None)]), ('hard-and-back', [('upd', None, not h, None, None), ('upd', None, h, None, None)])]


def switches(m):
    sw = [('sw', 'train_net_only', True), ('sw', 'train_nas_only', True), ('sw', 'train_net_and_nas', True)]
    if m == 'PIT':
        sw += [('sw', n, b) for n in ('train_features', 'train_rf', 'train_dilation') for b in (False, True)]
        sw += [('sw', 'train_rf', False), ('sw', 'train_dilation', False)]
    if m == 'SN':
        sw += [('sw', 'train_selection', False), ('sw', 'train_selection', True)]
    return sw


def sprinkle(rng, m, ops):
    """trainability switches at random points (also right before the checkpoint) and, in a third of the histories, architectural
    parameters moved far enough to prune masks / change the arg-max; PIT: both time-axis switches off in a quarter of them"""
    out = list(ops)
    sw = switches(m)
    if rng.random() < 0.35:
        out.insert(rng.randint(0, len(out)), ('perturb', rng.randint(0, 10 ** 6)))
    for _ in range(rng.choice([0, 0, 1, 1, 2, 3])):
        out.insert(rng.randint(0, len(out)), rng.choice(sw))
    # observer calls with default and non-default options somewhere before the checkpoint
    ob = ['export', 'export_run', 'summary', 'cost', 'str'] + (['export_nobn', 'export_nobn'] if m == 'PIT' else [])
    for _ in range(rng.choice([0, 1, 1, 2])):
        out.insert(rng.randint(0, len(out)), ('obs', rng.choice(ob)))
    r = rng.random()
    if r < 0.3:
        out.append(rng.choice(sw))                      # right before the checkpoint
    elif r < 0.55 and m == 'PIT':
        out += [('sw', 'train_rf', False), ('sw', 'train_dilation', False)] if rng.random() < 0.5 else [('sw', 'train_net_only', True)]
    elif r < 0.55:
        out.append(('sw', 'train_net_only', True))
    if rng.random() < 0.25:
        out += ([('eval',)] if rng.random() < 0.7 else []) + [('obs', 'export_run')]   # export, run the exported network (eval), checkpoint: no NAS-model forward in between
    return out


def history(rng, n, c, late_restore=False):
    """n optimizer steps with the option-change pattern c in between; a two-call 'changed-and-restored' pattern is split: the
    restoring call comes at a later point (steps / forward passes run under the other value in between), with late_restore right
    before the checkpoint"""
    first, second = (c[1][:1], c[1][1:]) if c[0].endswith('-and-back') else (c[1], [])
    pos = rng.randint(0, n) if not late_restore else rng.randint(0, min(1, n))
    pos2 = n if (late_restore or rng.random() < 0.4) else rng.randint(pos, n)
    kind = rng.choice(['sgd', 'adam'])
    ops = []
    for i in range(n):
        if i == pos:
            ops += first
        if i == pos2:
            ops += second
        ops.append(('step', kind))
        if rng.random() < 0.15:
            ops.append(('fwd',))
    if pos == n:
        ops += first
    if pos2 == n:
        ops += second
    return ops


def gen_cases(ctx):
    rng = ctx.rng
    V = variants(ctx.quick)
    cases = []
    per_variant = 6 if ctx.quick else 40
    for vi, v in enumerate(V):
        chs = option_changes(v)
        combos = [(n, c, fm) for n in range(0, 6) for c in chs for fm in ('train', 'eval')]
        rng.shuffle(combos)
        # make sure each option change and each step count appears for each method
        picked, seen_c, seen_n = [], set(), set()
        for n, c, fm in combos:
            if len(picked) >= per_variant:
                break
            if c[0] in seen_c and n in seen_n and rng.random() < 0.6:
                continue
            seen_c.add(c[0]); seen_n.add(n)
            picked.append((n, c, fm))
        for n, c, fm in picked:
            st = rng.random() < 0.7                    # mode of the seed network handed to the constructor
            r0 = rng.random()
            ops = [] if r0 < 0.2 else [('train',)] if r0 < 0.85 else [('eval',)]     # 20%: the run never calls train()/eval() first
            ops += history(rng, n, c)
            if fm == 'eval' or rng.random() < 0.3:
                ops.append((fm,))
            ops = sprinkle(rng, v['method'], ops)
            cases.append({'cfg': dict(v, opts=dict(v['opts'], seed_training=st, names=rng.choice([0, 1, 1, 2])), seed=rng.randint(0, 3)), 'ops': ops, 'kind': '%s:%s:steps%d:%s' % (v['method'], c[0], n, fm), 'vi': vi})
    # every changed-and-restored pattern of every configuration once more, with the restoring call right before the checkpoint:
    # whatever was computed under the other value (coefficient buffers, statistics) must come back through the state_dict
    for vi, v in enumerate(V):
        for c in option_changes(v):
            if not c[0].endswith('-and-back'):
                continue
            for rep in range(1 if ctx.quick else 4):
                n = rng.randint(2, 4)
                fm = rng.choice(['train', 'eval'])
                ops = [('train',)] + history(rng, n, c, late_restore=True) + ([(fm,)] if rng.random() < 0.5 else [])
                ops = sprinkle(rng, v['method'], ops) if rng.random() < 0.5 else ops
                cases.append({'cfg': dict(v, opts=dict(v['opts'], seed_training=rng.random() < 0.7, names=rng.choice([0, 1, 2])), seed=rng.randint(0, 3)),
                              'ops': ops, 'kind': '%s:%s-late:steps%d:%s' % (v['method'], c[0], n, fm), 'vi': vi})
    # random histories
    nrand = 30 if ctx.quick else 300
    for i in range(nrand):
        vi = rng.randrange(len(V))
        v = V[vi]
        chs = option_changes(v)
        ops = [rng.choice([('train',), ('train',), ('eval',)])] if rng.random() < 0.8 else []
        for _ in range(rng.randint(1, 8)):
            r = rng.random()
            if r < 0.35:
                ops.append(('step', rng.choice(['sgd', 'adam'])))
            elif r < 0.45:
                ops.append(('fwd',))
            elif r < 0.6:
                ops.append(rng.choice([('train',), ('eval',)]))
            else:
                ops += rng.choice(chs)[1]
        ops = sprinkle(rng, v['method'], ops)
        cases.append({'cfg': dict(v, opts=dict(v['opts'], seed_training=rng.random() < 0.6, names=rng.choice([0, 1, 2])), seed=rng.randint(0, 3)), 'ops': ops, 'kind': '%s:random' % v['method'], 'vi': vi})
    return cases


# ----------------------------------------------------------------------------- Coq literals
def rec(**kw):
    return Raw('{| ' + '; '.join('%s := %s' % (k, coq(v)) for k, v in kw.items()) + ' |}')


def cfg_literal(case, res):
    f = res['fresh']
    cfg = case['cfg']
    m, o = cfg['method'], cfg['opts']
    masks = [rec(m_names=k['names'], m_kind=Raw(k['kind']), m_p=k['p'], m_ka=k['ka'], m_c=k['c'], m_fixed=k['fixed']) for k in f['masks']]
    layers = [rec(l_name=l['name'], l_feat=Nat(l['feat']), l_time=(None if l['tix'] is None else some((Nat(l['tix'][0]), Nat(l['tix'][1])))),
                  l_bnorm=l['bn'], l_gnorm=l['gn']) for l in f['layers']]
    samplers = [rec(s_names=q['names'], s_reach=q['reach'], s_alpha=q['alpha'], s_prec=q['prec'], s_temp=Fraction(1),
                    s_theta=[Raw('CInit') for _ in q['alpha']]) for q in f['samplers']]
    pers = rec(p_bn=bool(f['bn']), p_net=[(n, d) for n, d in zip(f['plain'], f['digests'])], p_masks=masks, p_layers=layers, p_samplers=samplers)
    temp = Fraction(f32(o.get('temperature', 1.0))) if m == 'MPS' else Fraction(1)
    return rec(c_meth=Raw(m), c_pers=pers, c_training=f['view']['training'], c_disc=bool(o.get('discrete_cost', False)),
               c_hard=bool(o.get('hard', False)), c_gum=bool(o.get('gumbel', False)), c_nos=bool(m == 'MPS' and o.get('nosamp', False)), c_temp=temp)


def op_literal(op):
    k = op[0]
    if k == 'fwd':
        return 'OForward %s' % coq(Nat(op[1]))
    if k == 'vals':
        return 'OStep %s %s %s' % (coq(op[1]), coq(op[2]), coq(op[3]))
    if k == 'train':
        return 'OTrain'
    if k == 'eval':
        return 'OEval'
    if k == 'disc':
        return 'OSetDisc %s' % coq(op[1])
    if k == 'obs':
        return 'OObserve %s' % coq(Nat(op[1]))
    if k == 'sw':
        return 'OTrainSwitch %s %s' % (coq(Nat(op[1])), coq(op[2]))
    if k == 'upd':
        return 'OUpdate %s %s %s %s' % tuple('None' if a is None else '(Some %s)' % coq(a) for a in op[1:5])
    raise ValueError(op)


def softmax(z):
    mx = max(z)
    e = [math.exp(float(a - mx)) for a in z]
    s = sum(e)
    return [a / s for a in e]


# ----------------------------------------------------------------------------- run
def _work(case):
    from . import c17_impl
    try:
        return c17_impl.run_case(case)
    except Exception as ex:
        import traceback
        return {'crash': traceback.format_exc()[-1500:]}


def public_case(case):
    return {'cfg': case['cfg'], 'ops': [list(o) for o in case['ops']], 'kind': case['kind']}


def oracle(case, res):
    """the sentences of the property on the implementation; returns [(key, what)]"""
    m = case['cfg']['method']
    out = []
    if 'crash' in res:
        return [('history-crashed:%s' % m, 'running the history raised: ' + res['crash'].strip().split('\n')[-1])]
    for kc in res.get('key_changes', []):
        out.append(('observer-changes-state_dict-keys:%s:%s' % (m, kc['observer']), 'the state_dict keys of the live %s model differ before / after %s: lost %s gained %s' % (m, kc['observer'], kc['lost'], kc['gained'])))
    for vc in res.get('value_changes', []):
        out.append(('observer-changes-state_dict-values:%s:%s' % (m, vc['observer']),
                    'the state_dict VALUES of the live %s model (%s mode) differ before / after the observer call %s: %d tensors, e.g. %s' % (m, vc['mode'], vc['observer'], vc['n'], vc['changed'][:4])))
    ld = res['load']
    if res['ckpt_keys'] != res['fresh_keys']:
        miss = sorted(set(res['fresh_keys']) - set(res['ckpt_keys']))
        unex = sorted(set(res['ckpt_keys']) - set(res['fresh_keys']))
        suffix = (miss + unex)[0].split('.')[-1]
        out.append(('load-keys:%s:%s' % (m, suffix), 'state_dict keys of the checkpoint differ from those of a fresh wrapper: missing %s unexpected %s' % (miss, unex)))
    for pr, l2 in res.get('loads', {}).items():
        if not l2['ok']:
            ld = l2
    if not ld['ok']:
        out.append(('load-raises:%s:%s' % (m, ld['exc']), 'load_state_dict(strict=True) raised %s: %s' % (ld['exc'], ld['msg'][:300])))
        return out
    if ld['missing'] or ld['unexpected']:
        out.append(('load-keys:%s:%s' % (m, (ld['missing'] + ld['unexpected'])[0].split('.')[-1]), 'missing %s unexpected %s' % (ld['missing'], ld['unexpected'])))
    ch = res['changed']
    pname = {'A': 'build, load, train()/eval(), forward', 'B': 'build from a seed already in the mode of the original, load, forward (no mode call)',
             'C': 'build, train()/eval(), load, forward'}
    for pr, eq in res['eqs'].items():
        for k in OBS:
            if not eq[k]:
                opt = ch[0] if ch else 'no-option-change'
                key = 'resume-differs:%s:%s:%s' % (m, opt, k) + ('' if (ch or pr == 'A') else ':protocol-%s' % pr)
                out.append((key,
                            '%s of the restored %s wrapper differs from the original after the forward pass [restart protocol %s: %s] (options changed after construction and not in the state_dict: %s): original %s, restored %s'
                            % (k, m, pr, pname[pr], ch or 'none', res['briefs'][pr][k][0], res['briefs'][pr][k][1])))
    return out


def run(ctx):
    setup_torch()
    built = ctx.build()
    ctx.rule = ('per configuration (PIT 1-D with rf/dilation masks, PIT 2-D with BN head / fold_bn, MPS per-layer / per-channel x {default, gumbel, hard, gumbel+hard, '
                'disable_sampling, temperature 0.5, 0-bit, single activation precision}, SuperNet two blocks x {gumbel, hard}) seeded histories: mode, 0..5 optimizer steps '
                '(SGD / Adam, both parameter groups, random data), one option-change pattern (none / temperature / bare temperature / hard / gumbel / disable_sampling / discrete_cost, '
                'each also changed-and-restored) at a random position, final mode train or eval; plus random op sequences of length <= 8.  '
                'non-trivial = at least one optimizer step or option change; distinct = distinct (configuration, history)')
    cases = gen_cases(ctx)
    t0 = time.time()
    with ProcessPoolExecutor(min(NPROC, 12)) as ex:
        results = list(ex.map(_work, cases, chunksize=2))
    ctx.extra['impl_wall_s'] = round(time.time() - t0, 1)
    fails = []
    for case, res in zip(cases, results):
        nontriv = any(o[0] in ('step', 'upd', 'disc', 'perturb', 'sw', 'obs') for o in case['ops'])
        ctx.case((repr(case['cfg']), repr(case['ops'])), nontrivial=nontriv, kind=case['kind'].rsplit(':steps', 1)[0] if ':steps' in case['kind'] else case['kind'],
                 sample={'cfg': case['cfg'], 'ops': case['ops'], 'load': res.get('load'), 'equal(out,cost,summary,export)': res.get('eq'), 'changed_transient_options': res.get('changed')})
        for key, what in oracle(case, res):
            fails.append((key, case, what))
    ctx.extra['cases_with_changed_transient_option'] = sum(1 for r in results if r.get('changed'))
    ctx.extra['cases_all_observations_equal'] = sum(1 for r in results if r.get('eq') and all(r['eq'].values()))
    for key, case, what in fails:
        ctx.violation(key, {'case': public_case(case)}, what)

    # ---- the model on the same configurations and histories
    mism = []
    model_ok = built
    skipped_vals = 0
    if built:
        try:
            good = [(c, r) for c, r in zip(cases, results) if 'crash' not in r]
            shards = {}
            for c, r in good:
                shards.setdefault(c['vi'], []).append((c, r))
            jobs = []
            for vi, items in sorted(shards.items()):
                for off in range(0, len(items), 24):
                    part = items[off:off + 24]
                    sk = lambda c: (c['cfg']['seed'], c['cfg']['opts'].get('names', 0))
                    seeds = sorted({sk(c) for c, r in part})
                    defs = ''.join('Definition cfg_s%d_n%d : cfg := %s.\n' % (sd[0], sd[1], coq(cfg_literal(*[x for x in part if sk(x[0]) == sd][0]))) for sd in seeds)
                    exprs = ['run_case (with_training %s cfg_s%d_n%d) [%s] %s' % ((coq(bool(r['fresh']['view']['training'])),) + sk(c) + ('; '.join(op_literal(o) for o in r['mops']), coq(Nat(r.get('noise', 1))))) for c, r in part]
                    jobs.append(('cases_v%d_%d' % (vi, off), defs, exprs, part))
            from concurrent.futures import ThreadPoolExecutor
            with ThreadPoolExecutor(NPROC) as ex:
                outs = list(ex.map(lambda j: ctx.coq_eval(j[0], ['Plinio.Model.Ckpt'], j[1], j[2], 600), jobs))
            for (name, defs, exprs, part), vals in zip(jobs, outs):
                for (c, r), mv in zip(part, vals):
                    skipped_vals += compare(ctx, c, r, mv, mism)
        except RuntimeError as ex:
            model_ok = False
            ctx.notes.append('model evaluation failed: ' + str(ex)[-1200:])
    ctx.extra['model_impl_mismatches'] = len(mism)
    if os.environ.get('C17_DEBUG'):
        import collections
        print(collections.Counter((w, c['kind']) for w, c, d in mism))
        for w, c, d in mism[:int(os.environ['C17_DEBUG'])]:
            print('MISMATCH', w, c['cfg'], c['ops'], str(d)[:700])
    ctx.extra['coefficient_columns_not_compared(constructor value / gumbel sample)'] = skipped_vals
    ctx.assumptions += ['plain tensors (weights, BatchNorm statistics, clip values, calculator constants) enter the model as digests: their values are irrelevant to the property',
                        'coefficient tensors are modelled by a normal form (shifted logits / first arg-max / Gumbel noise id); soft-max values are compared with tolerance 1e-5',
                        'train()/eval() is applied to the restored wrapper explicitly (the training flag is never part of a PyTorch state_dict)']

    if not ctx.violations:   # a printed KNOWN-FINDING must not hide a broken proof / model / correspondence
        if not built:
            ctx.violation('proof-broken', {'theorems': [o[0] for o in ctx.obligations if not o[1]], 'log': getattr(ctx, 'broken_log', '')[-3000:]}, 'Props/C17.v no longer checks', no_input=True)
        elif not model_ok:
            ctx.violation('model-eval-broken', {'notes': ctx.notes}, 'the model could not be evaluated', no_input=True)
    if built and model_ok and mism and not ctx.violations:
        what, c, detail = mism[0]
        ctx.violation('correspondence-broken', {'what': what, 'case': public_case(c), 'detail': detail, 'n_mismatches': len(mism), 'correspondence': 'Model/Ckpt.v vs plinio.methods'},
                      'model and implementation disagree on %d observations (first: %s: %s) but the property oracle found no new failing input' % (len(mism), what, str(detail)[:400]), no_input=True)


def compare(ctx, c, r, mv, mism):
    """model value of run_case vs the implementation's observations of the same case; returns #columns skipped"""
    m = c['cfg']['method']
    keys, views, (missing, unexpected), resumed_all, (thetas, effs) = mv
    resumed = resumed_all[0]
    ctx.corr += 1
    if sorted(keys) != r['ckpt_keys']:
        d = sorted(set(keys) ^ set(r['ckpt_keys']))
        mism.append(('state_dict-keys', c, {'model_only_or_impl_only': d[:8]}))
    # options after every op
    for i, (v, iv) in enumerate(zip(views, r['views'])):
        ctx.corr += 1
        tr, disc, hard, smp, sntemp, temps = v
        ok = tr == iv['training']
        if m == 'PIT':
            ok = ok and set(iv['disc']) == {disc}
        else:
            rc = [q['reach'] for q in r['fresh']['samplers']]
            ok = ok and all((h == hard and s == smp) if rr else (h is False and s == 0) for h, s, rr in zip(iv['hard'], iv['smp'], rc))
            if m == 'MPS':
                ok = ok and [Fraction(*t) for t in temps] == iv['temps']
            else:
                ok = ok and set(iv['temps']) == {Fraction(*sntemp)}
        if not ok:
            mism.append(('options-after-op-%d' % i, c, {'model(training,disc,hard,sampler,sn_temp,temps)': v, 'impl': iv, 'op': r['mops'][i][:1] if r['mops'][i][0] == 'vals' else r['mops'][i]}))
            break
    if len(views) != len(r['views']):
        mism.append(('trace-length', c, {}))
    ctx.corr += 1
    ld = r['load']
    if ld['ok']:
        if sorted(missing) != sorted(ld['missing']) or sorted(unexpected) != sorted(ld['unexpected']) or any(x is None for x in resumed_all):
            mism.append(('load-result', c, {'model': (missing, unexpected), 'impl': ld}))
            return 0
    else:
        if resumed is not None:
            mism.append(('load-result', c, {'model': 'load succeeds', 'impl': ld}))
        return 0
    o = c['cfg']['opts']
    # hard Gumbel sample under a changed SuperNet temperature: the value is the same one-hot up to the rounding of the
    # straight-through expression (1 - s) + s, which depends on the temperature: either outcome is accepted
    ulp = m == 'SN' and o.get('gumbel') and 'temperature' in r['changed'] and views and views[-1][0] and views[-1][2]
    # a HARD Gumbel sample is a one-hot vector whose position the model does not know (it knows the noise id only): when the
    # model says the coefficients of restored and original are different objects, they can still coincide by chance
    gum_hard = m != 'PIT' and views and views[-1][0] and (o.get('gumbel') or views[-1][3] == 1) and (o.get('hard') or views[-1][2])
    # ... the same holds for a STALE hard Gumbel sample that the original still carries (disable_sampling switched on after it was
    # drawn, also in eval mode): a coefficient column the model knows only as "Gumbel sample" and that is one-hot in the implementation
    if m != 'PIT' and not gum_hard:
        for mt, it in zip(thetas, r['after_fwd']['thetas']):
            for (tag, ix, z), col in zip(mt, it):
                if tag == 3 and len(col) > 1 and abs(max(col) - 1.0) <= 1e-5 and sum(abs(v) for v in col) - max(col) <= 1e-5:
                    gum_hard = True
    for pi, pr in enumerate('ABC'):
        if pr not in r['eqs']:
            continue
        pred = resumed_all[pi][1]
        eq = r['eqs'][pr]
        for k, pv in zip(OBS, pred):
            ctx.corr += 1
            if ulp and pv and not eq[k]:
                ctx.dist['float-boundary:hard-gumbel-temperature'] += 1
                continue
            if gum_hard and not pv and eq[k]:
                ctx.dist['undecided:hard-gumbel-sample-coincides'] += 1
                continue
            if k in ('out', 'export') and not pv and eq[k] and not pred[1] and not eq['cost']:
                # the coefficients differ (confirmed by the differing cost) but this batch does not show it in the outputs
                # (e.g. the only channel whose precision differs is dead after ReLU): data coincidence, counted
                ctx.dist['coincidence:outputs-insensitive-to-differing-coefficients'] += 1
                continue
            if pv != eq[k]:
                mism.append(('resume-%s-equal:protocol-%s' % (k, pr), c, {'model_predicts_equal': pv, 'impl_equal': eq[k], 'changed': r['changed'], 'brief': r['briefs'][pr].get(k)}))
    skipped = 0
    af = r['after_fwd']
    if m != 'PIT':
        for si, (mt, it) in enumerate(zip(thetas, af['thetas'])):
            for (tag, ix, z), col in zip(mt, it):
                if tag in (0, 3):
                    skipped += 1
                    continue
                ctx.corr += 1
                if tag == 4:
                    ok = col == [1.0]
                elif tag == 1:
                    ok = col == [1.0 if j == ix else 0.0 for j in range(len(col))]
                else:
                    sm = softmax([Fraction(*q) for q in z])
                    ok = len(sm) == len(col) and all(abs(a - b) <= 1e-5 for a, b in zip(sm, col))
                if not ok:
                    mism.append(('theta-after-forward', c, {'sampler': si, 'model': (tag, ix, [float(Fraction(*q)) for q in z]), 'impl': col}))
    else:
        for li, (e3, (ioe, ike)) in enumerate(zip(effs, af['eff'])):
            oe, ke = (e3[0], e3[1]), e3[2]
            ctx.corr += 1
            if not (close(ioe, Fraction(*oe), 2.0 ** -16) and close(ike, Fraction(*ke), 2.0 ** -16)):
                mism.append(('pit-effective-sizes', c, {'layer': li, 'model': (float(Fraction(*oe)), float(Fraction(*ke))), 'impl': (ioe, ike)}))
    return skipped


def replay(r):
    import json
    setup_torch()
    from . import c17_impl
    print(json.dumps({k: r[k] for k in r if k in ('property', 'key', 'what')}, indent=1)[:3000])
    case = r.get('case')
    if not case:
        print('no failing input in this replay file (%s)' % r.get('key'))
        return 1
    case = {'cfg': case['cfg'], 'ops': [tuple(o) for o in case['ops']]}
    if 'opts' in case['cfg']:
        for k in ('w_prec', 'a_prec'):
            if k in case['cfg']['opts']:
                case['cfg']['opts'][k] = tuple(case['cfg']['opts'][k])
    res = c17_impl.run_case(case)
    print('configuration:', case['cfg'])
    print('history      :', case['ops'])
    print('required     : load_state_dict(strict=True) into a fresh wrapper succeeds with no missing/unexpected keys; outputs, costs, summary, exported network of restored == original')
    print('load         :', res.get('load'))
    print('transient options changed after construction:', res.get('changed'))
    for pr, eq in (res.get('eqs') or {}).items():
        print('protocol %s equal:' % pr, eq, '(A: build, load, mode call, forward; B: seed already in the mode, load, forward, no mode call; C: build, mode call, load, forward)')
        for k, v in res['briefs'][pr].items():
            print('  %s: original %s | restored %s' % (k, v[0], v[1]))
    bad = oracle(case, res)
    for key, what in bad:
        print('  FAILS:', key)
    return 0 if not bad else 1
