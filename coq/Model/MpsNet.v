(* Model of the MPS network-level machinery (plinio/methods/mps/graph.py, nn/*.py export paths).

   IR: a network is a list of nodes in topological order, a node refers to earlier nodes by index; the
   network output is the last node.  NIn stands for the placeholder together with the input quantizer
   (MPSIdentity) that add_input_quantizer inserts behind it; BatchNorm is fused into its producer by the
   import and is a propagating node here.

   - classes         : build_shared_mps_qtz_map (weakly connected components of the sharing graph: the
                       network graph without the incoming edges of features-defining nodes)
   - defprod / tq    : the walk of register_in_mps_quantizers (old: along input_features_set_by to the
                       features-DEFINING producer; repaired: along the data path to the nearest MPS layer)
   - in_qid/out_qid/w_qid : which quantizer object each searchable layer holds
   - eval_mps / eval_exp  : forward pass of the MPS network (theta-weighted sums of quantized copies) and
                       of the exported network (selected quantizers), over abstract tensors
   - summary_of / export_of : what summary() reports and what export() builds for a layer *)
From Coq Require Import List Arith Bool QArith.
Import ListNotations.
Require Import Plinio.Base.Qx.

Inductive node :=
| NIn   (c : nat)
| NConv (src cin cout : nat)
| NDw   (src c : nat)
| NLin  (src cin cout : nat)
| NProp (src : nat)
| NFlat (src mult : nat)
| NAdd  (a b : nat).

(* indices point backwards *)
Definition node_ok (i : nat) (nd : node) : bool :=
  match nd with
  | NIn _ => true
  | NConv s _ _ | NDw s _ | NLin s _ _ | NProp s | NFlat s _ => s <? i
  | NAdd a b => (a <? i) && (b <? i)
  end.
Fixpoint wf_from (i : nat) (net : list node) : bool :=
  match net with [] => true | nd :: r => node_ok i nd && wf_from (S i) r end.
Definition wf (net : list node) : bool := wf_from 0 net.

(* ---- sharing partition *)
Definition rename (a b : nat) (cls : list nat) : list nat := map (fun c => if Nat.eqb c b then a else c) cls.
Definition cstep (cls : list nat) (nd : node) : list nat :=
  match nd with
  | NIn _ | NConv _ _ _ | NLin _ _ _ => cls ++ [length cls]
  | NDw s _ | NProp s | NFlat s _ => cls ++ [nth s cls 0%nat]
  | NAdd a b => let ca := nth a cls 0%nat in let cb := nth b cls 0%nat in rename ca cb cls ++ [ca]
  end.
Definition classes (net : list node) : list nat := fold_left cstep net [].
Definition cls_of (net : list node) (i : nat) : nat := nth i (classes net) 0%nat.
(* the component that contains the graph output is not quantized (DummyQuantizer, precision -1) *)
Definition out_class (net : list node) : nat := cls_of net (length net - 1).

(* ---- producer walks *)
Fixpoint defprod (net : list node) (fuel i : nat) : nat :=
  match fuel with
  | O => i
  | S f => match nth_error net i with
           | Some (NDw s _) | Some (NProp s) | Some (NFlat s _) => defprod net f s
           | Some (NAdd a _) => defprod net f a
           | _ => i
           end
  end.
Fixpoint tq (net : list node) (fuel i : nat) : nat :=
  match fuel with
  | O => i
  | S f => match nth_error net i with
           | Some (NProp s) | Some (NFlat s _) => tq net f s
           | _ => i
           end
  end.
Definition is_layer (nd : node) : bool :=
  match nd with NConv _ _ _ | NDw _ _ | NLin _ _ _ => true | _ => false end.
Definition is_mps (nd : node) : bool :=
  match nd with NProp _ | NFlat _ _ => false | _ => true end.
Definition first_src (nd : node) : option nat :=
  match nd with
  | NIn _ => None
  | NConv s _ _ | NDw s _ | NLin s _ _ | NProp s | NFlat s _ => Some s
  | NAdd a _ => Some a
  end.

(* ---- quantizer objects *)
Inductive qid := QIn | QCls (c : nat) | QW (c : nat) | QWown (i : nat) | QDummy.
Definition qid_eqb (a b : qid) : bool :=
  match a, b with
  | QIn, QIn | QDummy, QDummy => true
  | QCls x, QCls y | QW x, QW y | QWown x, QWown y => Nat.eqb x y
  | _, _ => false
  end.
Definition out_qid (net : list node) (i : nat) : qid :=
  match nth_error net i with
  | Some (NIn _) => QIn
  | Some _ => QCls (cls_of net i)
  | None => QDummy
  end.
(* `fixed` = the repaired register_in_mps_quantizers *)
Definition in_producer (fixed : bool) (net : list node) (s : nat) : nat :=
  if fixed then tq net (S s) s else defprod net (S s) s.
Definition in_qid (fixed : bool) (net : list node) (i : nat) : qid :=
  match nth_error net i with
  | Some nd => match first_src nd with
               | Some s => if is_mps nd then out_qid net (in_producer fixed net s) else QDummy
               | None => QDummy
               end
  | None => QDummy
  end.
Definition w_qid (shared : bool) (net : list node) (i : nat) : qid :=
  match nth_error net i with
  | Some nd => if is_layer nd then (if shared then QW (cls_of net i) else QWown i) else QDummy
  | None => QDummy
  end.

(* harness view: per node (kind tag, out, in, w) *)
Definition qcode (q : qid) : nat * nat :=
  match q with QIn => (0, 0) | QCls c => (1, c) | QW c => (2, c) | QWown i => (3, i) | QDummy => (4, 0) end%nat.
Definition qcode_l (q : qid) : list nat := [fst (qcode q); snd (qcode q)].
Definition run_wiring (fixed shared : bool) (net : list node) : bool * list (list (list nat)) * nat :=
  (wf net, map (fun i => [qcode_l (out_qid net i); qcode_l (in_qid fixed net i); qcode_l (w_qid shared net i)]) (seq 0 (length net)), out_class net).

(* ---- selection *)
Fixpoint argmax_aux (best : Q) (bi i : nat) (l : list Q) : nat :=
  match l with
  | [] => bi
  | x :: r => if qlt_bool best x then argmax_aux x i (S i) r else argmax_aux best bi (S i) r
  end.
Definition argmax (l : list Q) : nat := match l with [] => 0%nat | x :: r => argmax_aux x 0 1 r end.
Definition onehot {S : Type} (s0 s1 : S) (k n : nat) : list S := map (fun i => if Nat.eqb i k then s1 else s0) (seq 0 n).

(* what summary() reports / what export() builds for node i: (in, out, w) precisions = arg-max entries *)
Section Select.
  Variable alpha : qid -> list Q.
  Variable precs : qid -> list Z.
  Definition sel (q : qid) : nat := argmax (alpha q).
  Definition sel_prec (q : qid) : Z := nth (sel q) (precs q) (-1)%Z.
  Definition summary_of (fixed shared : bool) (net : list node) (i : nat) : Z * Z * Z :=
    (sel_prec (in_qid fixed net i), sel_prec (out_qid net i), sel_prec (w_qid shared net i)).
  (* exported Quant layer: the three quantizer objects (id, candidate index) it carries *)
  Definition export_of (fixed shared : bool) (net : list node) (i : nat) : (qid * nat) * (qid * nat) * (qid * nat) :=
    let qi := in_qid fixed net i in let qo := out_qid net i in let qw := w_qid shared net i in
    ((qi, argmax (alpha qi)), (qo, argmax (alpha qo)), (qw, argmax (alpha qw))).
  Definition export_precs (e : (qid * nat) * (qid * nat) * (qid * nat)) : Z * Z * Z :=
    let '((qi, ki), (qo, ko), (qw, kw)) := e in
    (nth ki (precs qi) (-1)%Z, nth ko (precs qo) (-1)%Z, nth kw (precs qw) (-1)%Z).
End Select.

(* harness view of summary(): coefficient / precision tables keyed by quantizer code *)
Definition code_eqb (a b : nat * nat) : bool := Nat.eqb (fst a) (fst b) && Nat.eqb (snd a) (snd b).
Definition lookup_q {A : Type} (d : A) (l : list ((nat * nat) * A)) (q : qid) : A :=
  match find (fun e => code_eqb (fst e) (qcode q)) l with Some e => snd e | None => d end.
Definition run_summary (fixed shared : bool) (net : list node) (al : list ((nat * nat) * list Q)) (pl : list ((nat * nat) * list Z)) : list (Z * Z * Z) :=
  map (summary_of (lookup_q [] al) (lookup_q [] pl) fixed shared net) (seq 0 (length net)).

(* ---- forward semantics over abstract tensors *)
Section Eval.
  Variable V : Type.                       (* tensors *)
  Variable S : Type.                       (* coefficients *)
  Variables (s0 s1 : S) (vzero : V).
  Variable vadd : V -> V -> V.
  Variable smul : S -> V -> V.
  Variable qlen : qid -> nat.              (* number of candidate precisions of a quantizer object *)
  Variable qfun : qid -> nat -> V -> V.    (* candidate k of quantizer object q applied to a tensor *)
  Variable qscale : qid -> nat -> V.       (* its scale *)
  Variable convf : nat -> V -> V -> V -> V.   (* layer i: input, quantized weight, quantized bias *)
  Variable weight : nat -> V.
  Variable bias : nat -> V.
  Variable biasq : nat -> V -> V -> V -> V.   (* bias quantizer of layer i: bias, input scale, weight scale *)
  Variable propf : nat -> V -> V.          (* relu / pooling / flatten / fused-away BN at node i *)
  Variable addf : V -> V -> V.

  (* torch.stack([theta_i * f_i]).sum(0) and the effective_scale loop *)
  Definition mix (th : list S) (fs : list V) : V :=
    fold_left (fun acc tf => vadd acc (smul (fst tf) (snd tf))) (combine th fs) vzero.
  Definition mixq (theta : qid -> list S) (q : qid) (x : V) : V :=
    mix (theta q) (map (fun k => qfun q k x) (seq 0 (qlen q))).
  Definition effscale (theta : qid -> list S) (q : qid) : V :=
    mix (theta q) (map (qscale q) (seq 0 (qlen q))).

  Section Net.
    Variables (fixed shared : bool) (net : list node).
    Definition mps_node (theta : qid -> list S) (x : V) (vs : list V) (i : nat) (nd : node) : V :=
      let v := fun s => nth s vs vzero in
      let qi := in_qid fixed net i in let qo := out_qid net i in let qw := w_qid shared net i in
      match nd with
      | NIn _ => mixq theta qo x
      | NConv s _ _ | NDw s _ | NLin s _ _ =>
          mixq theta qo (convf i (v s) (mixq theta qw (weight i)) (biasq i (bias i) (effscale theta qi) (effscale theta qw)))
      | NProp s | NFlat s _ => propf i (v s)
      | NAdd a b => mixq theta qo (addf (v a) (v b))
      end.
    Definition exp_node (selq : qid -> nat) (x : V) (vs : list V) (i : nat) (nd : node) : V :=
      let v := fun s => nth s vs vzero in
      let qi := in_qid fixed net i in let qo := out_qid net i in let qw := w_qid shared net i in
      match nd with
      | NIn _ => qfun qo (selq qo) x
      | NConv s _ _ | NDw s _ | NLin s _ _ =>
          qfun qo (selq qo) (convf i (v s) (qfun qw (selq qw) (weight i)) (biasq i (bias i) (qscale qi (selq qi)) (qscale qw (selq qw))))
      | NProp s | NFlat s _ => propf i (v s)
      | NAdd a b => qfun qo (selq qo) (addf (v a) (v b))
      end.
    Fixpoint run_nodes (f : list V -> nat -> node -> V) (vs : list V) (rest : list node) : list V :=
      match rest with
      | [] => vs
      | nd :: r => run_nodes f (vs ++ [f vs (length vs) nd]) r
      end.
    Definition eval_mps (theta : qid -> list S) (x : V) : list V := run_nodes (mps_node theta x) [] net.
    Definition eval_exp (selq : qid -> nat) (x : V) : list V := run_nodes (exp_node selq x) [] net.
  End Net.
End Eval.
