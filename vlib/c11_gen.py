"""C11 — second tie, by translation (DESIGN.md §13, "Second tie, by translation").

translator/train2coq.py reads the source of the trainability bookkeeping of the tree under test (DNAS.train_* /
nas_parameters / net_parameters; PIT / MPS / SuperNet named_nas_parameters / named_net_parameters; the train_features /
train_rf / train_dilation / discrete_cost / train_selection properties and setters at model, layer and masker level; the
constructors of the six masker classes; the masker choice of PITConv1d.autoimport) and writes coq/Gen/TrainGen.v;
coq/Proofs/TrainGen.v proves the generated functions equal to Model/Train.v with v0 = false on the states of one method
(`method_state`), and Props/C11.v states the C11_generated_* theorems.  This module is what vlib/c11.py needs:

    rej = c11_gen.regenerate(ctx)                         # BEFORE ctx.build(); None, or why the translator refused the source
    ctx.extra['generated_model'] = c11_gen.status(rej, built)
    ...
    mism += c11_gen.correspond(ctx, defs, res, ivals, checks, meta, bad)   # the generated model on the same transitions
    ...
    c11_gen.report(ctx, rej, built)                       # 'translator-rejected ... no-failing-input-found'
"""
import os
import re
from .common import COQ, REPO, write_if_changed
from translator import train2coq

GEN_V = os.path.join(COQ, 'Gen', 'TrainGen.v')
IMPORTS = ['Plinio.Model.Train', 'Plinio.Gen.TrainGen']
TRANSLATOR = 'translator/train2coq.py'
SOURCE = ('plinio/methods/dnas_base/dnas.py, plinio/methods/pit/pit.py, plinio/methods/pit/nn/{features,timestep,dilation}_masker.py, '
          'plinio/methods/pit/nn/{conv1d,conv2d,linear,batchnorm_1d,batchnorm_2d,module}.py, plinio/methods/mps/mps.py, '
          'plinio/methods/supernet/supernet.py, plinio/methods/supernet/nn/combiner.py')
METHOD = {'PIT': 'MPit', 'MPS': 'MMps', 'SuperNet': 'MSn'}
SHARD = 300


def regenerate(ctx=None, repo=None):
    """translate the trainability bookkeeping of the tree under test into Gen/TrainGen.v (written only when it changed).
    -> None, or the reason why the translator refused the source (the file then fails on purpose)"""
    try:
        text, rej = train2coq.translate_repo(repo or REPO), None
    except (train2coq.Reject, SyntaxError, OSError, RecursionError) as e:
        rej = '%s: %s' % (type(e).__name__, e)
        text = ('(* %s REFUSED the trainability bookkeeping of the tree under test:\n   %s\n   no model of the current code exists; this file fails on purpose. *)\n'
                'Definition translator_rejected : True := 0.\n' % (TRANSLATOR, rej.replace('*)', '* )').replace('(*', '( *')))
    write_if_changed(GEN_V, text)
    if ctx is not None and rej:
        ctx.notes.append('generated model: the translator refused the source: ' + rej)
    return rej


def status(rej, built):
    """the `generated_model` entry of the evidence file"""
    return {'file': 'coq/Gen/TrainGen.v', 'translator': TRANSLATOR, 'source': SOURCE,
            'status': 'refused: ' + rej if rej else
            'regenerated; equal to the hand model (nas_ids / net_ids / train / switch cases of step / run, v0 = false) on the states of one method (C11_generated_*)' if built
            else 'regenerated; obligations do not check'}


_CHECK = re.compile(r'^check_step false (st_\d+) ')


def gen_check(expr, method):
    """`check_step false st_k [path] op <observed>` of the hand model -> the same transition run with the generated functions"""
    if not _CHECK.match(expr):
        raise ValueError('not a check_step expression: ' + expr[:80])
    return _CHECK.sub(lambda m: 'check_step_gen %s %s ' % (METHOD[method], m.group(1)), expr, 1)


def gen_exprs(checks, methods):
    return [gen_check(c, m) for c, m in zip(checks, methods)]


def gen_init_expr(ri, method):
    """(every layer of the initial state is one of the method and what it yields is registered, the initial view seen through the generated functions)"""
    return '(method_state %s st_%d, view_gen %s st_%d)' % (METHOD[method], ri, METHOD[method], ri)


def correspond(ctx, defs, res, ivals, checks, meta, bad):
    """the generated model next to the hand model, same initial states and same transitions.
    defs: the `Definition st_k` text; res: the explorations; ivals: [(wfb, view false st_k)] of the hand model; checks: the
    check_step expressions; meta: [(ri, r, t)] per check; bad: indices on which the HAND model disagrees with the implementation.
    -> mismatches in the format of c11.run: (what, prototype, path, op, description)"""
    out = []
    gi = ctx.coq_eval('ginit', IMPORTS, defs, [gen_init_expr(ri, r['method']) for ri, r in enumerate(res)])
    for r, hv, gv in zip(res, ivals, gi):
        ctx.corr += 1
        if gv[0] is not True:
            out.append(('generated-model:initial-state', r['proto'], [], ['init'],
                        'method_state %s = %r: a layer of the prototype is not of the shape the generated %s functions are proved for' % (METHOD[r['method']], gv[0], r['method'])))
        elif gv[1] != hv[1]:
            out.append(('generated-model:initial-state', r['proto'], [], ['init'], 'view_gen differs from the view of the hand-written model: %s vs %s' % (str(gv[1])[:300], str(hv[1])[:300])))
    gchecks = gen_exprs(checks, [m[1]['method'] for m in meta])
    shards = [gchecks[i:i + SHARD] for i in range(0, len(gchecks), SHARD)]
    svals = ctx.coq_eval_sharded('gcases', IMPORTS, defs, ['bad_indices [%s]' % ';\n '.join(c) for c in shards], shard=1) if shards else []
    gbad = []
    for si, (n, idx) in enumerate(svals):
        if n != len(shards[si]):
            raise RuntimeError('generated model, shard %d: %d results for %d cases' % (si, n, len(shards[si])))
        ctx.corr += n
        gbad += [si * SHARD + i for i in idx]
    diff = sorted(set(gbad) ^ set(bad))
    for i in diff[:12]:
        ri, r, t = meta[i]
        out.append(('generated-model:transition', r['proto'], t['path'], t['op'],
                    'the generated model %s with the implementation on this transition, the hand-written model %s' % (
                        ('disagrees', 'agrees') if i in gbad else ('agrees', 'disagrees'))))
    ctx.extra['generated_model_comparisons'] = len(gchecks) + len(gi)
    ctx.extra['generated_model_differs_from_hand_model_on'] = len(diff)
    return out


def report(ctx, rej, built):
    """translator-rejected wording for the final verdict; True if a violation was filed"""
    if built or ctx.violations or not rej:
        return False
    ctx.violation('translator-rejected', {'translator': TRANSLATOR, 'source': SOURCE, 'reason': rej, 'theorems': [o[0] for o in ctx.obligations if not o[1]]},
                  'the source of the trainability bookkeeping is outside the subset the translator accepts (%s): no generated model, the C11_generated_* theorems are not established' % rej[:300],
                  no_input=True)
    return True
