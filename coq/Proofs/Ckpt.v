(* Proofs about Model/Ckpt.v (C17): key-set invariance over all histories, strict load of an own checkpoint,
   resume equivalence, and the refutations for options that live outside the state_dict. *)
From Coq Require Import QArith ZArith List Bool String Arith Lia.
Import ListNotations.
Require Import Plinio.Base.Qx Plinio.Model.Ckpt.
Local Open Scope list_scope.

(* ---------------------------------------------------------------- list helpers *)
Lemma flat_map_zip_with : forall {A B C} (f : A -> B -> A) (keep : A -> A) (g : A -> list C) (a : list A) (b : list B),
  (forall x y, g (f x y) = g x) -> (forall x, g (keep x) = g x) -> flat_map g (zip_with f keep a b) = flat_map g a.
Proof.
  intros A B C f keep g a. induction a as [|x a IH]; intros b Hf Hk; [reflexivity|].
  destruct b as [|y b]; cbn [zip_with flat_map]; [rewrite Hk | rewrite Hf]; rewrite IH; auto.
Qed.

Lemma flat_map_map_same : forall {A C} (h : A -> A) (g : A -> list C) (l : list A),
  (forall x, g (h x) = g x) -> flat_map g (map h l) = flat_map g l.
Proof. intros A C h g l H. induction l as [|x l IH]; cbn; [reflexivity|]. now rewrite H, IH. Qed.

Lemma map_fst_set_net : forall n v, map fst (set_net n v) = map fst n.
Proof.
  unfold set_net. induction n as [|e n IH]; intros v; [reflexivity|].
  destruct v; cbn [zip_with map fst]; f_equal; apply IH.
Qed.

Lemma existsb_self : forall (l : list string) k, In k l -> existsb (String.eqb k) l = true.
Proof. intros l k H. apply existsb_exists. exists k. split; [assumption | apply String.eqb_refl]. Qed.

Lemma filter_not_self : forall (l : list string), filter (fun k => negb (existsb (String.eqb k) l)) l = [].
Proof.
  intros l. assert (H : forall l', incl l' l -> filter (fun k => negb (existsb (String.eqb k) l)) l' = []).
  { induction l' as [|x l' IH]; intros Hi; [reflexivity|]. cbn [filter].
    rewrite existsb_self by (apply Hi; now left). cbn. apply IH. intros y Hy. apply Hi. now right. }
  apply H. apply incl_refl.
Qed.

(* ---------------------------------------------------------------- the key list never changes *)
Lemma layers_keys_eq : forall l1 l2 : list player, l1 = l2 ->
  flat_map (fun l => match l_time l with Some _ => with_suffixes [l_name l] ["._beta_norm"%string; "._gamma_norm"%string] | None => [] end) l1 =
  flat_map (fun l => match l_time l with Some _ => with_suffixes [l_name l] ["._beta_norm"%string; "._gamma_norm"%string] | None => [] end) l2.
Proof. intros; subst; reflexivity. Qed.

Lemma meth_forward : forall n s, meth (forward n s) = meth s.
Proof. intros n [m p t]. unfold forward. destruct m; reflexivity. Qed.

Lemma keys_forward : forall n s, keys (meth s) (pe (forward n s)) = keys (meth s) (pe s).
Proof.
  intros n [m p t]. unfold forward. cbn [meth pe tr]. destruct m; try reflexivity.
  unfold keys. cbn [p_bn p_net p_masks p_layers p_samplers]. do 3 f_equal.
  apply flat_map_map_same. intros x. reflexivity.
Qed.

Lemma meth_step : forall s o, meth (step s o) = meth s.
Proof.
  intros [m p t] o. destruct o; cbn [step meth pe tr with_pe with_tr set_mode]; try reflexivity; try (destruct m; reflexivity).
Qed.

Lemma keys_step : forall s o, keys (meth s) (pe (step s o)) = keys (meth s) (pe s).
Proof.
  intros [m p t] o. destruct o; cbn [step meth pe tr with_pe with_tr set_mode]; try reflexivity.
  - unfold keys. cbn [p_bn p_net p_masks p_layers p_samplers]. rewrite map_fst_set_net. f_equal. f_equal.
    + apply flat_map_zip_with; intros; reflexivity.
    + f_equal. apply flat_map_zip_with; intros; reflexivity.
  - destruct m; reflexivity.
  - destruct m; try reflexivity. cbn [pe]. unfold keys. cbn [p_bn p_net p_masks p_layers p_samplers]. do 3 f_equal.
    destruct t0; [|reflexivity]. apply flat_map_map_same. intros x. reflexivity.
  - apply (keys_forward noise {| meth := m; pe := p; tr := t |}).
Qed.

Lemma keys_run : forall ops s, meth (run s ops) = meth s /\ keys (meth s) (pe (run s ops)) = keys (meth s) (pe s).
Proof.
  induction ops as [|o ops IH]; intros s; [split; reflexivity|].
  unfold run in *. cbn [fold_left]. destruct (IH (step s o)) as [Hm Hk]. rewrite meth_step in *.
  split; [assumption|]. rewrite Hk. apply keys_step.
Qed.

(* ---------------------------------------------------------------- strict load of an own checkpoint *)
Lemma load_same_keys : forall sd f, keys (meth f) sd = keys (meth f) (pe f) ->
  missing_keys sd f = [] /\ unexpected_keys sd f = [] /\ load sd f = Some {| meth := meth f; pe := sd; tr := tr f |}.
Proof.
  intros sd f H. assert (Hm : missing_keys sd f = []) by (unfold missing_keys; rewrite H; apply filter_not_self).
  assert (Hu : unexpected_keys sd f = []) by (unfold unexpected_keys; rewrite H; apply filter_not_self).
  unfold load. rewrite Hm, Hu. auto.
Qed.

Theorem keys_exact : forall c ops,
  let s := run (fresh c) ops in
  keys (meth s) (save s) = keys (c_meth c) (pe (fresh c)) /\
  missing_keys (save s) (fresh c) = [] /\ unexpected_keys (save s) (fresh c) = [] /\
  load (save s) (fresh c) = Some {| meth := c_meth c; pe := pe s; tr := tr (fresh c) |}.
Proof.
  intros c ops s. destruct (keys_run ops (fresh c)) as [Hm Hk]. fold s in Hm, Hk.
  assert (Hf : meth (fresh c) = c_meth c) by reflexivity. rewrite Hf in *.
  split; [unfold save; now rewrite Hm|].
  destruct (load_same_keys (save s) (fresh c)) as (A & B & C); [exact Hk|]. auto.
Qed.

(* ---------------------------------------------------------------- observations depend on persisted tensors + options only *)
Definition opts (t : trans) := (training t, disc t, hard t, gum t, nos t, sn_temp t).

Lemma observe_forward_opts : forall n s1 s2, meth s1 = meth s2 -> pe s1 = pe s2 -> opts (tr s1) = opts (tr s2) ->
  observe (forward n s1) = observe (forward n s2).
Proof.
  intros n [m1 p1 t1] [m2 p2 t2]. cbn [meth pe tr]. intros -> ->. destruct t1, t2. unfold opts. cbn. intros H. inversion H; subst.
  destruct m2; reflexivity.
Qed.

Theorem resume_equiv : forall c ops n,
  let s := run (fresh c) ops in
  opts_match s c ->
  exists r, resume n c s = Some r /\ observe r = observe (forward n s).
Proof.
  intros c ops n s (Hd & Hh & Hg & Hn & Ht).
  destruct (keys_exact c ops) as (_ & _ & _ & Hl). fold s in Hl.
  unfold resume. rewrite Hl. eexists. split; [reflexivity|].
  destruct (keys_run ops (fresh c)) as [Hm _]. fold s in Hm.
  apply observe_forward_opts.
  - cbn. now rewrite Hm.
  - reflexivity.
  - unfold opts. cbn [set_mode with_tr tr fresh training disc hard gum nos sn_temp]. now rewrite Hd, Hh, Hg, Hn, Ht.
Qed.

(* requires_grad flags (trainability switches), the SuperNet coefficient attribute and the MPS ranges never reach an observation:
   the observations after the forward pass are a function of the persisted tensors and of [opts] only *)
Theorem observations_ignore_trainability : forall n m p t1 t2, opts t1 = opts t2 ->
  observe (forward n {| meth := m; pe := p; tr := t1 |}) = observe (forward n {| meth := m; pe := p; tr := t2 |}).
Proof. intros. apply observe_forward_opts; auto. Qed.

Lemma switch_keeps_opts : forall s w b, opts (tr (step s (OTrainSwitch w b))) = opts (tr s) /\ pe (step s (OTrainSwitch w b)) = pe s.
Proof. intros [m p t] w b. split; reflexivity. Qed.

(* the three restart protocols are the same function *)
Lemma load_fresh_like : forall c ops f, meth f = c_meth c -> pe f = pe (fresh c) ->
  load (save (run (fresh c) ops)) f = Some {| meth := c_meth c; pe := pe (run (fresh c) ops); tr := tr f |}.
Proof.
  intros c ops f Hm Hp. destruct (keys_run ops (fresh c)) as [_ Hk]. cbn [meth fresh] in Hk.
  destruct (load_same_keys (save (run (fresh c) ops)) f) as (_ & _ & H).
  - rewrite Hm, Hp. exact Hk.
  - rewrite H, Hm. reflexivity.
Qed.

Theorem resume_protocols_agree : forall c ops n,
  let s := run (fresh c) ops in
  resume_nomode n c s = resume n c s /\ resume_mode_first n c s = resume n c s.
Proof.
  intros c ops n s. unfold resume, resume_nomode, resume_mode_first. subst s.
  rewrite (load_fresh_like c ops (fresh c)) by reflexivity.
  rewrite (load_fresh_like c ops (fresh (with_training (training (tr (run (fresh c) ops))) c))) by reflexivity.
  rewrite (load_fresh_like c ops (set_mode (training (tr (run (fresh c) ops))) (fresh c))) by reflexivity.
  split; reflexivity.
Qed.

(* histories that leave the transient options at their constructor values (optimizer steps, forward passes, mode
   changes, MPS temperature changes that pass the sampler flags again, options set to the value they already have) *)
Definition skind_eqb (a b : skind) : bool := match a, b with Sm, Sm | Gs, Gs | NoSamp, NoSamp => true | _, _ => false end.
Definition obool_is (o : option bool) (b : bool) : bool := match o with None => true | Some x => Bool.eqb x b end.
Definition keeps_opts (c : cfg) (o : op) : bool :=
  match o with
  | OSetDisc b => match c_meth c with PIT => Bool.eqb b (c_disc c) | _ => true end
  | OUpdate ot oh og od =>
      match c_meth c with
      | PIT => true
      | MPS => obool_is oh (c_hard c) && obool_is og (c_gum c) && obool_is od (c_nos c)
      | SN => obool_is oh (c_hard c) && match ot with None => true | Some _ => false end
      end
  | _ => true
  end.

Lemma observers_in_history : forall c s k, step s (OObserve k) = s /\ keeps_opts c (OObserve k) = true.
Proof. intros. split; reflexivity. Qed.

Lemma skind_eqb_eq : forall a b, skind_eqb a b = true -> a = b.
Proof. intros [] []; cbn; congruence. Qed.
Lemma obool_is_upd : forall o b, obool_is o b = true -> upd o b = b.
Proof. intros [x|] b; cbn; [|reflexivity]. intros H. now apply eqb_prop in H. Qed.

Lemma opts_match_step : forall c s o, meth s = c_meth c -> keeps_opts c o = true -> opts_match s c -> opts_match (step s o) c.
Proof.
  intros c [m p t] o Hm Hk (Hd & Hh & Hg & Hn & Ht). cbn [meth] in Hm. subst m. destruct t. cbn in Hd, Hh, Hg, Hn, Ht. subst.
  unfold opts_match. destruct o; cbn [step keeps_opts] in *.
  - cbn. auto.
  - destruct (c_meth c); cbn; auto. apply eqb_prop in Hk. subst. auto.
  - destruct (c_meth c); cbn; auto.
    + apply andb_true_iff in Hk as [H12 H3]. apply andb_true_iff in H12 as [H1 H2].
      rewrite (obool_is_upd _ _ H1), (obool_is_upd _ _ H2), (obool_is_upd _ _ H3). auto.
    + apply andb_true_iff in Hk as [H1 H2]. destruct t; [discriminate|]. rewrite (obool_is_upd _ _ H1). cbn. auto.
  - cbn. auto.
  - cbn. auto.
  - unfold forward. cbn [meth pe tr]. destruct (c_meth c); cbn; auto.
  - cbn. auto.
  - cbn. auto.
Qed.

Lemma opts_match_run : forall c ops s, meth s = c_meth c -> forallb (keeps_opts c) ops = true -> opts_match s c -> opts_match (run s ops) c.
Proof.
  intros c. induction ops as [|o ops IH]; intros s Hm Hk H; [exact H|].
  cbn in Hk. apply andb_true_iff in Hk as [H1 H2]. unfold run in *. cbn [fold_left].
  apply IH; [now rewrite meth_step | assumption | now apply opts_match_step].
Qed.

Theorem resume_equiv_neutral_history : forall c ops n,
  forallb (keeps_opts c) ops = true ->
  exists r, resume n c (run (fresh c) ops) = Some r /\ observe r = observe (forward n (run (fresh c) ops)).
Proof.
  intros c ops n H. apply resume_equiv. apply opts_match_run; [reflexivity | assumption |].
  unfold opts_match. cbn. auto 6.
Qed.

(* ---------------------------------------------------------------- finer: which observation needs which option *)
(* PIT: outputs, summary and export never depend on a transient option; only the cost reads discrete_cost *)
Theorem pit_resume_out_summary_export : forall c ops n, c_meth c = PIT ->
  let s := run (fresh c) ops in
  exists r, resume n c s = Some r /\ pe r = pe (forward n s) /\
    o_out (obs r) = o_out (obs (forward n s)) /\ o_summary (obs r) = o_summary (obs (forward n s)) /\
    o_export (obs r) = o_export (obs (forward n s)) /\
    (disc (tr s) = c_disc c -> o_cost (obs r) = o_cost (obs (forward n s))).
Proof.
  intros c ops n Hc s. destruct (keys_exact c ops) as (_ & _ & _ & Hl). fold s in Hl.
  destruct (keys_run ops (fresh c)) as [Hm _]. fold s in Hm. cbn in Hm. rewrite Hc in Hm.
  unfold resume. rewrite Hl. eexists. split; [reflexivity|].
  destruct s as [m p t]. cbn in Hm. subst m. rewrite Hc. cbn. repeat split. intros ->. reflexivity.
Qed.

(* MPS in eval mode: both samplers that sample take the arg-max, so hard / gumbel flags do not matter *)
Lemma mps_sample_eval : forall k h t n a old, k <> NoSamp -> mps_sample k false h t n a old = hard_nf t a.
Proof. intros [] h t n a old H; cbn; try congruence; now rewrite orb_true_r. Qed.

Lemma mps_resample_eval : forall k1 k2 h1 h2 n q, k1 <> NoSamp -> k2 <> NoSamp ->
  mps_resample k1 false h1 n q = mps_resample k2 false h2 n q.
Proof. intros. unfold mps_resample. destruct (s_reach q); [|reflexivity]. now rewrite !mps_sample_eval. Qed.

Lemma observe_forward_mps_eval : forall n p t1 t2, training t1 = false -> training t2 = false ->
  smp t1 <> NoSamp -> smp t2 <> NoSamp ->
  observe (forward n {| meth := MPS; pe := p; tr := t1 |}) = observe (forward n {| meth := MPS; pe := p; tr := t2 |}).
Proof.
  intros n p t1 t2 H1 H2 H3 H4. unfold observe, forward, obs, thetas. cbn [meth pe tr training disc hard p_bn p_samplers].
  rewrite H1, H2. rewrite (map_ext _ _ (fun q => mps_resample_eval (smp t1) (smp t2) (hard t1) (hard t2) n q H3 H4)). reflexivity.
Qed.

Theorem mps_eval_resume : forall c ops n, c_meth c = MPS ->
  let s := run (fresh c) ops in
  training (tr s) = false -> smp (tr s) <> NoSamp -> c_smp c <> NoSamp ->
  exists r, resume n c s = Some r /\ observe r = observe (forward n s).
Proof.
  intros c ops n Hc s Ht Hs Hcs. destruct (keys_exact c ops) as (_ & _ & _ & Hl). fold s in Hl.
  destruct (keys_run ops (fresh c)) as [Hm _]. fold s in Hm. cbn in Hm. rewrite Hc in Hm.
  unfold resume. rewrite Hl. eexists. split; [reflexivity|].
  destruct s as [m p t]. cbn in Hm, Ht, Hs. subst m. rewrite Hc.
  unfold set_mode, with_tr. cbn [meth pe tr]. apply observe_forward_mps_eval; cbn [training]; auto.
Qed.

(* ---------------------------------------------------------------- refutations: options outside the state_dict *)
Definition mk_sampler (a : list (list Q)) : sampler :=
  {| s_names := ["seed.q"%string]; s_reach := true; s_alpha := a; s_prec := [2; 4]; s_temp := 1; s_theta := map (fun _ => CInit) a |}.
Definition w_cfg (m : method) (tr0 : bool) (k : skind) : cfg :=
  {| c_meth := m;
     c_pers := {| p_bn := false; p_net := [("seed.l.weight"%string, 7%Z)];
                  p_masks := match m with PIT => [{| m_names := ["seed.l.out_features_masker"%string]; m_kind := Feat; m_p := [1; 1]; m_ka := [0; 1]; m_c := []; m_fixed := [] |}] | _ => [] end;
                  p_layers := match m with PIT => [{| l_name := "seed.l"%string; l_feat := 0; l_time := None; l_bnorm := []; l_gnorm := [] |}] | _ => [] end;
                  p_samplers := match m with PIT => [] | _ => [mk_sampler [[1; 2]]] end |};
     c_training := tr0; c_disc := false; c_hard := false;
     c_gum := match k with Gs => true | _ => false end; c_nos := match k with NoSamp => true | _ => false end; c_temp := 1 |}.

Definition differs (c : cfg) (ops : list op) (n : nat) (which : observation -> observation -> bool) : bool :=
  match resume n c (run (fresh c) ops) with
  | Some r => negb (which (obs r) (obs (forward n (run (fresh c) ops))))
  | None => false
  end.
Definition eq_out a b := fst (fst (fst (obs_eqb a b))).
Definition eq_cost a b := snd (fst (fst (obs_eqb a b))).
Definition eq_summary a b := snd (fst (obs_eqb a b)).
Definition eq_export a b := snd (obs_eqb a b).

Lemma differs_sound : forall c ops n which, (forall a b, a = b -> which a b = true) -> differs c ops n which = true ->
  exists r, resume n c (run (fresh c) ops) = Some r /\ obs r <> obs (forward n (run (fresh c) ops)).
Proof.
  intros c ops n which Hw H. unfold differs in H. destruct (resume n c (run (fresh c) ops)) as [r|]; [|discriminate].
  exists r. split; [reflexivity|]. intros E. apply Hw in E. rewrite E in H. discriminate.
Qed.

Lemma list_eqb_refl : forall {A} (e : A -> A -> bool) (l : list A), (forall x, e x x = true) -> list_eqb e l l = true.
Proof. intros A e l H. induction l; cbn; [reflexivity|]. now rewrite H, IHl. Qed.
Lemma q_eqb_refl : forall x, q_eqb x x = true.
Proof. intros x. unfold q_eqb. apply Qeq_bool_iff. reflexivity. Qed.
Lemma ql_eqb_refl : forall l, ql_eqb l l = true.
Proof. intros l. apply list_eqb_refl, q_eqb_refl. Qed.
Lemma cnf_eqb_refl : forall x, cnf_eqb x x = true.
Proof.
  intros []; cbn [cnf_eqb]; try reflexivity; try apply Nat.eqb_refl; try apply ql_eqb_refl.
  rewrite ql_eqb_refl, q_eqb_refl, eqb_reflx, Nat.eqb_refl. reflexivity.
Qed.
Lemma tl_eqb_refl : forall l, tl_eqb l l = true.
Proof. intros l. apply list_eqb_refl. intros t. apply list_eqb_refl, cnf_eqb_refl. Qed.
Lemma eq_out_refl : forall a b, a = b -> eq_out a b = true.
Proof. intros a b <-. unfold eq_out, obs_eqb. cbn. now rewrite eqb_reflx, tl_eqb_refl. Qed.
Lemma eq_cost_refl : forall a b, a = b -> eq_cost a b = true.
Proof.
  intros a b <-. unfold eq_cost, obs_eqb. cbn. rewrite tl_eqb_refl. cbn. apply list_eqb_refl.
  intros x. now rewrite !q_eqb_refl.
Qed.
Lemma eq_summary_refl : forall a b, a = b -> eq_summary a b = true.
Proof. intros a b <-. unfold eq_summary, obs_eqb. cbn. apply tl_eqb_refl. Qed.
Lemma eq_export_refl : forall a b, a = b -> eq_export a b = true.
Proof. intros a b <-. unfold eq_export, obs_eqb. cbn. apply tl_eqb_refl. Qed.

(* the witnesses: one option each, changed once after construction *)
Definition w_pit_disc := (w_cfg PIT true Sm, [OStep [] [[3 # 4; 1]] []; OSetDisc true], 1%nat).
Definition w_mps_hard := (w_cfg MPS true Sm, [OTrain; OUpdate None (Some true) None None], 1%nat).
Definition w_mps_gumbel := (w_cfg MPS true Sm, [OTrain; OUpdate None None (Some true) None], 1%nat).
Definition w_mps_nosamp := (w_cfg MPS true Sm, [OTrain; OForward 1; OStep [] [] [[[2; 1]]]; OUpdate None None None (Some true)], 2%nat).
Definition w_sn_hard := (w_cfg SN true Sm, [OEval; OUpdate None (Some true) None None], 1%nat).
Definition w_sn_temp := (w_cfg SN true Sm, [OTrain; OUpdate (Some (1 # 2)) None None None], 1%nat).
Definition wdiff (w : cfg * list op * nat) which := differs (fst (fst w)) (snd (fst w)) (snd w) which.

Lemma witnesses_differ :
  wdiff w_pit_disc eq_cost = true /\ wdiff w_pit_disc eq_out = false /\
  wdiff w_mps_hard eq_out = true /\ wdiff w_mps_hard eq_cost = true /\
  wdiff w_mps_gumbel eq_out = true /\
  wdiff w_mps_nosamp eq_out = true /\ wdiff w_mps_nosamp eq_cost = true /\
  wdiff w_sn_hard eq_out = true /\ wdiff w_sn_hard eq_cost = true /\ wdiff w_sn_hard eq_summary = true /\
  wdiff w_sn_temp eq_out = true /\ wdiff w_sn_temp eq_cost = true /\ wdiff w_sn_temp eq_summary = true.
Proof. vm_compute. repeat split. Qed.

Definition resume_statement (c : cfg) (ops : list op) (n : nat) : Prop :=
  exists r, resume n c (run (fresh c) ops) = Some r /\ observe r = observe (forward n (run (fresh c) ops)).

Lemma refute_from_differs : forall w which, (forall a b, a = b -> which a b = true) -> wdiff w which = true ->
  ~ resume_statement (fst (fst w)) (snd (fst w)) (snd w).
Proof.
  intros [[c ops] n] which Hw H. cbn [fst snd]. unfold wdiff in H. cbn [fst snd] in H.
  destruct (differs_sound _ _ _ _ Hw H) as (r & Hr & Hne). intros (r' & Hr' & He).
  rewrite Hr in Hr'. inversion Hr'; subst r'. apply Hne. unfold observe in He. exact (f_equal snd He).
Qed.

Theorem resume_after_option_change_refuted :
  (exists c ops n, c_meth c = PIT /\ ops = [OStep [] [[3 # 4; 1]] []; OSetDisc true] /\ ~ resume_statement c ops n) /\
  (exists c ops n, c_meth c = MPS /\ ops = [OTrain; OUpdate None (Some true) None None] /\ ~ resume_statement c ops n) /\
  (exists c ops n, c_meth c = MPS /\ ops = [OTrain; OUpdate None None (Some true) None] /\ ~ resume_statement c ops n) /\
  (exists c ops n, c_meth c = MPS /\ ops = [OTrain; OForward 1; OStep [] [] [[[2; 1]]]; OUpdate None None None (Some true)] /\ ~ resume_statement c ops n) /\
  (exists c ops n, c_meth c = SN /\ ops = [OEval; OUpdate None (Some true) None None] /\ ~ resume_statement c ops n) /\
  (exists c ops n, c_meth c = SN /\ ops = [OTrain; OUpdate (Some (1 # 2)) None None None] /\ ~ resume_statement c ops n).
Proof.
  destruct witnesses_differ as (H1 & _ & H2 & _ & H3 & H5 & _ & H6 & _ & _ & H7 & _).
  repeat split.
  - exists (w_cfg PIT true Sm), (snd (fst w_pit_disc)), 1%nat. repeat split. exact (refute_from_differs w_pit_disc eq_cost eq_cost_refl H1).
  - exists (w_cfg MPS true Sm), (snd (fst w_mps_hard)), 1%nat. repeat split. exact (refute_from_differs w_mps_hard eq_out eq_out_refl H2).
  - exists (w_cfg MPS true Sm), (snd (fst w_mps_gumbel)), 1%nat. repeat split. exact (refute_from_differs w_mps_gumbel eq_out eq_out_refl H3).
  - exists (w_cfg MPS true Sm), (snd (fst w_mps_nosamp)), 2%nat. repeat split. exact (refute_from_differs w_mps_nosamp eq_out eq_out_refl H5).
  - exists (w_cfg SN true Sm), (snd (fst w_sn_hard)), 1%nat. repeat split. exact (refute_from_differs w_sn_hard eq_out eq_out_refl H6).
  - exists (w_cfg SN true Sm), (snd (fst w_sn_temp)), 1%nat. repeat split. exact (refute_from_differs w_sn_temp eq_out eq_out_refl H7).
Qed.

(* the MPS temperature IS persisted (buffer): changing it does not break the resume, whatever the sampler *)
Theorem mps_temperature_persisted : forall c steps1 steps2 t n, c_meth c = MPS ->
  forallb (keeps_opts c) steps1 = true -> forallb (keeps_opts c) steps2 = true ->
  resume_statement c (steps1 ++ OUpdate (Some t) None None None :: steps2) n.
Proof.
  intros c s1 s2 t n Hc H1 H2. apply resume_equiv_neutral_history.
  rewrite forallb_app. rewrite H1. cbn [forallb andb]. rewrite H2, andb_true_r.
  unfold keeps_opts. rewrite Hc. reflexivity.
Qed.

(* the lazily computed attributes coincide as well after the forward pass *)
Theorem lazy_state_recomputed : forall c ops n r, c_meth c = MPS ->
  resume n c (run (fresh c) ops) = Some r -> lazy r = lazy (forward n (run (fresh c) ops)) /\ lazy r <> None.
Proof.
  intros c ops n r Hc H. destruct (keys_exact c ops) as (_ & _ & _ & Hl).
  destruct (keys_run ops (fresh c)) as [Hm _]. cbn in Hm. rewrite Hc in Hm.
  unfold resume in H. rewrite Hl in H. inversion H; subst r; clear H.
  destruct (run (fresh c) ops) as [m p t]. cbn in Hm. subst m. rewrite Hc. cbn. split; [reflexivity | discriminate].
Qed.

(* "after the usual forward pass" is necessary: SuperNetCombiner.theta_alpha (read by get_cost) is a plain attribute that
   only a forward pass (or summary()) sets; MPS weight ranges / bias scales do not exist before the first forward *)
Theorem resume_without_forward_refuted :
  (exists c ops s', c_meth c = SN /\ load (save (run (fresh c) ops)) (fresh c) = Some s' /\
                    o_cost (obs s') <> o_cost (obs (run (fresh c) ops))) /\
  (exists c ops s', c_meth c = MPS /\ load (save (run (fresh c) ops)) (fresh c) = Some s' /\
                    lazy s' <> lazy (run (fresh c) ops)).
Proof.
  split.
  - exists (w_cfg SN true Sm), [OForward 1]. eexists. split; [reflexivity|]. split; [vm_compute; reflexivity|]. vm_compute. discriminate.
  - exists (w_cfg MPS true Sm), [OForward 1]. eexists. split; [reflexivity|]. split; [vm_compute; reflexivity|]. vm_compute. discriminate.
Qed.
