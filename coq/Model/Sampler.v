(* Model of the coefficient samplers (C10)
     plinio/methods/mps/nn/qtz.py      MPSBaseQtz.sample_alpha_sm / _gs / _none, update_softmax_options,
                                       MPSPerLayerQtz (one coefficient vector), MPSPerChannelQtz (matrix,
                                       softmax over the precision axis = per column)
     plinio/methods/mps/nn/ste_argmax.py   STEArgmax.forward
     plinio/methods/supernet/nn/combiner.py SuperNetCombiner.sample_alpha_sm / _gs, best_layer_index
     plinio/methods/supernet/supernet.py    SuperNet.update_softmax_options (temperature, hard only)
     plinio/methods/mps/nn/{conv1d,conv2d,linear,identity}.py  selected_*_precision / selected_*_quantizer
   `exp` is the Section variable g (hypotheses only in Proofs/Sampler.v).  A coefficient tensor is a list
   of COLUMNS: a per-layer selector / a combiner has one column, a per-channel selector one column per
   channel; every column is indexed by the alternative (precision / branch).  No proofs here. *)
From Coq Require Import QArith ZArith List Bool Arith.
Import ListNotations.
Require Import Plinio.Base.Qx.
Local Open Scope Q_scope.

Definition qsum (l : list Q) : Q := fold_right Qplus 0 l.

(* torch.argmax on a 1-D tensor: first maximum *)
Fixpoint argmax_aux (l : list Q) (i bi : nat) (bv : Q) : nat :=
  match l with
  | [] => bi
  | x :: t => if qlt_bool bv x then argmax_aux t (S i) i x else argmax_aux t (S i) bi bv
  end.
Definition argmax (l : list Q) : nat :=
  match l with [] => O | x :: t => argmax_aux t 1%nat O x end.

(* F.one_hot(k, num_classes=n) as floats *)
Definition onehot (n k : nat) : list Q := map (fun i => if Nat.eqb i k then 1 else 0) (seq 0 n).
(* STEArgmax.forward on one column / the combiner's F.one_hot(torch.argmax(theta)) *)
Definition ste (v : list Q) : list Q := onehot (length v) (argmax v).
Definition onehot_at_argmax (a : list Q) : list Q := onehot (length a) (argmax a).

(* logits + gumbels, element-wise; a missing noise entry counts as 0 so that the shape is always the
   shape of the coefficients (the implementation draws the noise with empty_like(logits)) *)
Fixpoint addn (a n : list Q) : list Q :=
  match a with
  | [] => []
  | x :: a' => match n with [] => x :: addn a' [] | y :: n' => (x + y) :: addn a' n' end
  end.
Fixpoint zipcols {A} (f : list Q -> list Q -> A) (a n : list (list Q)) : list A :=
  match a with
  | [] => []
  | x :: a' => match n with [] => f x [] :: zipcols f a' [] | y :: n' => f x y :: zipcols f a' n' end
  end.

(* what summary()/export() use: argmax over the RAW coefficients (per column) *)
Definition selected (alpha : list (list Q)) : list nat := map argmax alpha.
Definition dot (u v : list Q) : Q := qsum (map (fun p => fst p * snd p) (combine u v)).

Inductive kind := KMps | KComb.
Record sampler := mkS { hard : bool; gumbel : bool; disabled : bool; temp : Q; training : bool;
                        alpha : list (list Q); theta : list (list Q) }.
Inductive sop :=
| SUpdate (t : option Q) (h g d : option bool)
| STrain | SEval
| SForward (noise : list (list Q))
| SOptStep (alpha' : list (list Q)).

(* keep_opts = false: MPSBaseQtz.update_softmax_options as it is: EVERY call re-selects the sampler
     from the gumbel / disable_sampling arguments of that call alone (None counts as False);
   keep_opts = true: an argument left None keeps the current choice (partial update).
   comb_eval_argmax = false: SuperNetCombiner.sample_alpha_sm of the pinned upstream commit (ignores
     self.training); true: the repaired combiner (one-hot at the arg-max when not training). *)
Record cfg := mkCfg { keep_opts : bool; comb_eval_argmax : bool }.

Definition upd_flag (keep cur : bool) (o : option bool) : bool :=
  match o with Some b => b | None => if keep then cur else false end.
Definition upd_hard (cur : bool) (o : option bool) : bool := match o with Some b => b | None => cur end.
Definition upd_temp (cur : Q) (o : option Q) : Q := match o with Some t => t | None => cur end.
Definition is_none {A} (o : option A) : bool := match o with None => true | _ => false end.

(* name of the bound sampling function: 0 = sample_alpha_sm, 1 = sample_alpha_gs, 2 = sample_alpha_none *)
Definition sampler_name (s : sampler) : Z := if disabled s then 2%Z else if gumbel s then 1%Z else 0%Z.

Section G.
Variable g : Q -> Q.

Definition expo (T : Q) (a : list Q) : list Q := map (fun x => g (x / T)) a.
Definition softmax (T : Q) (a : list Q) : list Q :=
  let e := expo T a in let s := qsum e in map (fun x => x / s) e.
(* F.gumbel_softmax(logits, tau, hard, dim=0) on one column, the noise being an input *)
Definition gumbel_softmax (T : Q) (hd : bool) (a n : list Q) : list Q :=
  let y := softmax T (addn a n) in if hd then ste y else y.

Definition eval_argmax (c : cfg) (k : kind) (s : sampler) : bool :=
  match k with KMps => negb (training s) | KComb => comb_eval_argmax c && negb (training s) end.
Definition sample_sm (c : cfg) (k : kind) (s : sampler) : list (list Q) :=
  let th := map (softmax (temp s)) (alpha s) in
  if hard s || eval_argmax c k s then map ste th else th.
Definition sample_gs (c : cfg) (k : kind) (s : sampler) (noise : list (list Q)) : list (list Q) :=
  if training s then zipcols (gumbel_softmax (temp s) (hard s)) (alpha s) noise else sample_sm c k s.
Definition sample (c : cfg) (k : kind) (s : sampler) (noise : list (list Q)) : list (list Q) :=
  if disabled s then theta s else if gumbel s then sample_gs c k s noise else sample_sm c k s.

Definition set_theta (s : sampler) (th : list (list Q)) : sampler :=
  mkS (hard s) (gumbel s) (disabled s) (temp s) (training s) (alpha s) th.

(* None = the call does not exist (SuperNet.update_softmax_options has no gumbel / disable_sampling) *)
Definition step (c : cfg) (k : kind) (s : sampler) (o : sop) : option sampler :=
  match o with
  | SUpdate t h gm d =>
      match k with
      | KMps => Some (mkS (upd_hard (hard s) h) (upd_flag (keep_opts c) (gumbel s) gm)
                          (upd_flag (keep_opts c) (disabled s) d) (upd_temp (temp s) t)
                          (training s) (alpha s) (theta s))
      | KComb => if is_none gm && is_none d
                 then Some (mkS (upd_hard (hard s) h) (gumbel s) (disabled s) (upd_temp (temp s) t)
                                (training s) (alpha s) (theta s))
                 else None
      end
  | STrain => Some (mkS (hard s) (gumbel s) (disabled s) (temp s) true (alpha s) (theta s))
  | SEval => Some (mkS (hard s) (gumbel s) (disabled s) (temp s) false (alpha s) (theta s))
  | SForward noise => Some (set_theta s (sample c k s noise))
  | SOptStep a' => Some (mkS (hard s) (gumbel s) (disabled s) (temp s) (training s) a' (theta s))
  end.

Fixpoint run (c : cfg) (k : kind) (s : sampler) (ops : list sop) : option sampler :=
  match ops with
  | [] => Some s
  | o :: r => match step c k s o with Some s' => run c k s' r | None => None end
  end.

(* all intermediate states (one per executed op); stops at a call that does not exist *)
Fixpoint trace (c : cfg) (k : kind) (s : sampler) (ops : list sop) : list (option sampler) :=
  match ops with
  | [] => []
  | o :: r => match step c k s o with
              | Some s' => Some s' :: trace c k s' r
              | None => [None]
              end
  end.
End G.

(* ------------------------------------------------------------------ executable surrogate of g
   The harness feeds the implementation's own exponentials: a finite table  x |-> exp(x)  holding every
   argument the run needs (exact fractions of the float values); default 1 outside the table. *)
Fixpoint g_tab (tab : list (Q * Q)) (x : Q) : Q :=
  match tab with
  | [] => 1
  | (k, v) :: r => if Qeq_bool k x then v else g_tab r x
  end.

Definition qclose (tol a b : Q) : bool := Qle_bool (qabs (a - b)) tol.
Fixpoint vclose (tol : Q) (u v : list Q) : bool :=
  match u, v with
  | [], [] => true
  | x :: u', y :: v' => qclose tol x y && vclose tol u' v'
  | _, _ => false
  end.
Fixpoint mclose (tol : Q) (u v : list (list Q)) : bool :=
  match u, v with
  | [], [] => true
  | x :: u', y :: v' => vclose tol x y && mclose tol u' v'
  | _, _ => false
  end.

(* observation of the implementation after one op:
   (sampler name, hard, training, temperature, theta_alpha as columns); None = the call raised TypeError *)
Definition obs := option (Z * bool * bool * Q * list (list Q)).
Definition obs_agree (tol : Q) (m : option sampler) (o : obs) : bool :=
  match m, o with
  | None, None => true
  | Some s, Some (nm, h, tr, t, th) =>
      Z.eqb (sampler_name s) nm && Bool.eqb (hard s) h && Bool.eqb (training s) tr &&
      Qeq_bool (temp s) t && mclose tol (theta s) th
  | _, _ => false
  end.
Fixpoint bad_steps (tol : Q) (i : nat) (ms : list (option sampler)) (os : list obs) : list nat :=
  match ms, os with
  | [], [] => []
  | m :: ms', o :: os' => (if obs_agree tol m o then [] else [i]) ++ bad_steps tol (S i) ms' os'
  | _, _ => [i]
  end.

(* ---- decoding of the harness data (keeps the generated literals small: Coq elaborates big number
   literals slowly).  q30 n = n / 2^30 (coefficients, noise, observed theta on that grid);
   qexp (m, e) = m * 2^e (the float64 exponentials, mantissa cut to 30 bits);
   tab_block T xs vs: the table entries of one forward pass, keys x / T computed here *)
Definition q30 (n : Z) : Q := n # 1073741824.
Definition cols30 (m : list (list Z)) : list (list Q) := map (map q30) m.
Definition qexp (me : Z * Z) : Q :=
  let (m, e) := me in
  if (0 <=? e)%Z then inject_Z (m * 2 ^ e) else m # (Z.to_pos (2 ^ (- e))).
Definition tab_block (T : Q) (xs : list Z) (vs : list (Z * Z)) : list (Q * Q) :=
  combine (map (fun x => q30 x / T) xs) (map qexp vs).

Fixpoint last_state (s : sampler) (ms : list (option sampler)) : sampler :=
  match ms with
  | [] => s
  | Some s' :: r => last_state s' r
  | None :: r => last_state s r
  end.

(* run_trace: indices (from `skip` on) of the steps at which the model and the implementation's
   observations differ (os = observations of the steps skip, skip+1, ...), and the arg-max selection
   (summary / export) of the final coefficients *)
Definition run_trace (keep fixc : bool) (k : kind) (tab : list (Q * Q)) (tol : Q)
           (s : sampler) (ops : list sop) (skip : nat) (os : list obs) : list nat * list nat :=
  let ms := trace (g_tab tab) (mkCfg keep fixc) k s ops in
  (bad_steps tol skip (skipn skip ms) os,
   selected (alpha (last_state s ms))).

Definition run_selected (alpha : list (list Q)) : list nat := selected alpha.
(* one sampling call compared with the implementation: (agrees within tol, arg-max of every model column) *)
Definition run_sample (fixc : bool) (k : kind) (tab : list (Q * Q)) (tol : Q) (s : sampler)
           (noise : list (list Q)) (impl : list (list Q)) : bool * list nat :=
  let th := sample (g_tab tab) (mkCfg false fixc) k s noise in
  (mclose tol th impl, map argmax th).
