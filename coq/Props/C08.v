(* C08 — No setting of the architectural parameters can search a layer out of existence.
   Statements only (proofs: Proofs/Masks.v; model: Model/Masks.v).  alpha, beta, gamma are ARBITRARY
   rational vectors (zero, negative, huge); K is any kernel size unless a bound is written. *)
From Coq Require Import QArith ZArith List Bool Arith.
Import ListNotations.
Require Import Plinio.Base.Qx Plinio.Model.Masks Plinio.Proofs.Masks.
Local Open Scope nat_scope.

Theorem C08_alpha_alive : forall alpha, alpha <> [] -> 1 <= out_features_opt alpha.
Proof. exact alpha_alive. Qed.

Theorem C08_frozen_full_width : forall alpha, Forall (fun x => bin x = true) (theta_alpha_frozen alpha).
Proof. exact frozen_full_width. Qed.

(* the binarized receptive-field mask is a non-empty suffix (most recent timesteps) *)
Theorem C08_beta_suffix : forall beta, beta <> [] ->
  let K := length beta in
  exists r, 1 <= r <= K /\ forall t, t < K -> nth t (map bin (theta_beta beta)) false = (K - r <=? t).
Proof. exact beta_suffix. Qed.

(* the binarized dilation mask is a power-of-two comb anchored at the most recent timestep *)
Theorem C08_gamma_comb : forall K gamma, gamma <> [] ->
  exists v, v < length gamma /\
    forall j, j < K -> nth j (map bin (theta_gamma true K gamma)) false = Nat.eqb ((K - 1 - j) mod 2 ^ v) 0.
Proof. exact gamma_comb. Qed.

Theorem C08_time_mask_nonempty : forall K beta gamma, 1 <= K -> length beta = K -> gamma <> [] ->
  1 <= kernel_size_opt true K beta gamma.
Proof. exact time_mask_nonempty. Qed.

Theorem C08_dilation_ge_1 : forall K d0 gamma, 1 <= d0 -> 1 <= dilation_opt true K d0 gamma.
Proof. exact dilation_opt_ge_1. Qed.

(* for EVERY K: the kept taps are exactly the taps of the exported layer, an arithmetic progression of
   kernel_size_opt taps spaced dilation_opt (= 2^v x initial dilation) ending at the last timestep. *)
Theorem C08_kept_taps_progression : forall K d0 beta gamma, 1 <= K -> length beta = K -> length gamma = gamma_len K ->
  let m := time_mask true K beta gamma in
  let k' := kernel_size_opt true K beta gamma in
  exists v, v < gamma_len K /\ dilation_opt true K d0 gamma = 2 ^ v * d0 /\
            kept_lags K m = export_lags k' (2 ^ v) /\ 1 <= k'.
Proof. exact kept_taps_progression. Qed.

(* the comb of the pinned upstream commit is anchored at tap 0: a kernel can vanish *)
Theorem C08_upstream_empty_kernel_refuted : exists K beta gamma, length beta = K /\ length gamma = gamma_len K /\
  kernel_size_opt false K beta gamma = 0.
Proof. exact time_mask_empty_refuted_v0. Qed.

Example C08_example :
  time_mask true 6 [0; 0; 0; 3; 0; -1]%Q [0; 1; 0]%Q = [false; false; false; true; false; true] /\
  kernel_size_opt true 6 [0; 0; 0; 3; 0; -1]%Q [0; 1; 0]%Q = 2 /\ dilation_opt true 6 3 [0; 1; 0]%Q = 6 /\
  gamma_len 6 = 3 /\ out_features_opt [0; -1; 0]%Q = 2.
Proof. vm_compute. repeat split. Qed.

Print Assumptions C08_alpha_alive.
Print Assumptions C08_frozen_full_width.
Print Assumptions C08_beta_suffix.
Print Assumptions C08_gamma_comb.
Print Assumptions C08_time_mask_nonempty.
Print Assumptions C08_dilation_ge_1.
Print Assumptions C08_kept_taps_progression.
Print Assumptions C08_upstream_empty_kernel_refuted.

(* ================================================================================================
   Composition with the network-level annotation model of C09 (Model/Calc.v, Model/CalcMasks.v):
   NETWORK level, for EVERY well-formed network of the C09 IR and EVERY family of rational parameter
   vectors `alpha` (one vector per sharing component of build_shared_features_map, of the component's
   width — alpha_ok_b; zero, negative and huge entries included): `comp_mask nt alpha` gives each
   searchable layer the binarized keep-alive mask of its component (all ones for a frozen component).
   pos_b: no declared width (input, layer, flatten multiplier) is zero. *)
Require Import Plinio.Model.Calc Plinio.Proofs.Calc Plinio.Model.CalcMasks Plinio.Proofs.CalcMasks.

(* (1) the assignment is one the repaired sharing can produce: all C09 *_full theorems apply to it *)
Theorem C08_params_give_consistent_masks : forall nt alpha, alpha_ok_b nt alpha = true ->
  consistent_b true nt (comp_mask nt alpha) = true.
Proof. exact comp_consistent. Qed.

(* (2) no parameter setting searches a layer out of existence: every searchable layer keeps >= 1 output
   feature, and every tensor of the exported network has >= 1 feature *)
Theorem C08_layer_keeps_a_feature : forall nt alpha, alpha_ok_b nt alpha = true -> pos_b nt = true ->
  forall i, (i < length nt)%nat -> is_search_layer (node_at nt i) = true -> (1 <= count (comp_mask nt alpha i))%nat.
Proof. exact comp_layer_alive. Qed.

Theorem C08_exported_width_ge_1 : forall nt alpha, wf nt = true -> alpha_ok_b nt alpha = true -> pos_b nt = true ->
  forall j, (j < length nt)%nat -> (1 <= nth j (xwidths nt (comp_mask nt alpha)) 0)%nat.
Proof. exact comp_xwidth_pos. Qed.

(* (3) frozen (input/output-tied, excluded-layer-tied, concat-tied) components keep their full width *)
Theorem C08_frozen_component_full_width : forall nt alpha, alpha_ok_b nt alpha = true ->
  forall i c, (i < length nt)%nat -> is_search_layer (node_at nt i) = true ->
  masker_of true nt i = Some (c, true) -> comp_mask nt alpha i = repeat true (nth i (widths nt) 0%nat).
Proof. exact frozen_full. Qed.

(* (4) for every parameter setting the exported network is shape-consistent and non-empty: every exported
   module's input width equals its producer's exported width and is >= 1, every exported layer has >= 1 output *)
Theorem C08_export_consistent_for_all_params : forall nt alpha, wf nt = true -> alpha_ok_b nt alpha = true -> pos_b nt = true ->
  shape_ok true nt (comp_mask nt alpha) = true /\
  (forall j, (j < length nt)%nat -> (1 <= nth j (xwidths nt (comp_mask nt alpha)) 0)%nat) /\
  (forall i, (i < length nt)%nat -> consumer nt i = true ->
     export_in true nt (comp_mask nt alpha) i = nth (src1 (node_at nt i)) (xwidths nt (comp_mask nt alpha)) 0%nat /\
     (1 <= export_in true nt (comp_mask nt alpha) i)%nat) /\
  (forall i, (i < length nt)%nat -> is_search_layer (node_at nt i) = true ->
     (1 <= nth i (xwidths nt (comp_mask nt alpha)) 0)%nat).
Proof. exact comp_export_ok. Qed.

(* a 12-node network (residual add, depthwise, cat of searchable / excluded / input tensors, BatchNorm, flatten x4)
   with adversarial parameters: all-zero, -10^30, 1/4, negative *)
Definition c08_net : net :=
  [NIn 3; NLayer 0 4 Full true; NProp 1 TPlain; NLayer 2 4 Full true; NJoin 2 3 false; NLayer 4 4 Dw true;
   NLayer 0 2 Full false; NCat [5; 6; 0]; NBn 7 true; NLayer 8 3 Full true; NFlat 9 4 FFlatten; NLayer 10 2 Full true]%nat.
Definition c08_alpha := qassoc [(1%nat, [0; 0; 0; 0]%Q); (9%nat, [-(1000000000000000000000000000000 # 1); 1 # 4; 0]%Q); (11%nat, [0; -3]%Q)].
Example C08_net_example :
  wf c08_net = true /\ alpha_ok_b c08_net c08_alpha = true /\ pos_b c08_net = true /\
  map (comp_mask c08_net c08_alpha) [1; 3; 5; 9; 11]%nat =
    [[false; false; false; true]; [false; false; false; true]; [false; false; false; true]; [true; false; true]; [true; true]] /\
  xwidths c08_net (comp_mask c08_net c08_alpha) = [3; 1; 1; 1; 1; 1; 2; 6; 6; 2; 8; 2]%nat /\
  shape_ok true c08_net (comp_mask c08_net c08_alpha) = true.
Proof. vm_compute. repeat split. Qed.

Print Assumptions C08_params_give_consistent_masks.
Print Assumptions C08_layer_keeps_a_feature.
Print Assumptions C08_exported_width_ge_1.
Print Assumptions C08_frozen_component_full_width.
Print Assumptions C08_export_consistent_for_all_params.
