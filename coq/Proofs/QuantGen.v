(* C13: the model GENERATED from the source of the activation and weight quantizers (Gen/QuantGen.v, rewritten by
   translator/quant2coq.py on every run) computes the hand-written model of Model/Quant.v, and every division it
   performs on an evaluated path has a non-zero divisor on the domain of the property. *)
From Coq Require Import QArith Qround ZArith List Bool Lia Lqa.
Import ListNotations.
Require Import Plinio.Base.Qx Plinio.Base.Round Plinio.Model.Quant Plinio.Proofs.Quant Plinio.Gen.QuantGen.
Local Open Scope Q_scope.

Lemma nzq x : ~ x == 0 -> negb (Qeq_bool x 0) = true.
Proof. intro H. destruct (Qeq_bool x 0) eqn:E; [|reflexivity]. apply Qeq_bool_iff in E. contradiction. Qed.

Lemma qmin_inject a b : qmin (inject_Z a) (inject_Z b) == inject_Z (Z.min a b).
Proof.
  destruct (qmin_cases (inject_Z a) (inject_Z b)) as [[H E]|[H E]]; rewrite E.
  - rewrite <- Zle_Qle in H. rewrite Z.min_l by exact H. reflexivity.
  - rewrite <- Zlt_Qlt in H. rewrite Z.min_r by lia. reflexivity.
Qed.

Lemma qle_bool_compat_r a b b' : b == b' -> Qle_bool a b = Qle_bool a b'.
Proof.
  intros Hb. destruct (Qle_bool a b) eqn:E, (Qle_bool a b') eqn:E'; try reflexivity.
  - apply Qle_bool_iff in E. rewrite Hb in E. apply Qle_bool_iff in E. congruence.
  - apply Qle_bool_iff in E'. rewrite <- Hb in E'. apply Qle_bool_iff in E'. congruence.
Qed.
Lemma qmin_compat_r a b b' : b == b' -> qmin a b == qmin a b'.
Proof. intros Hb. unfold qmin. rewrite (qle_bool_compat_r a b b' Hb). destruct (Qle_bool a b'); [reflexivity|exact Hb]. Qed.

Lemma pow2_pred p' : (2 ^ (Z.of_nat (S p') - 1))%Z = pow2 p'.
Proof. unfold pow2. f_equal. lia. Qed.

(* ---- PACT activations *)
Theorem aq_gen_int : forall p clip x, aq_gen p clip x false == inject_Z (aq_int p clip x).
Proof. intros. unfold aq_gen, aq_int, aq_sf, qclamp, qpow2, pow2. cbn zeta. reflexivity. Qed.

Theorem aq_gen_fq : forall p clip x, aq_gen p clip x true == aq_fq p clip x.
Proof. intros. unfold aq_gen, aq_fq, aq_int, aq_sf, qclamp, qpow2, pow2. cbn zeta. reflexivity. Qed.

Theorem aq_scale_gen_eq : forall p clip, aq_scale_gen p clip == aq_scale p clip.
Proof. intros. unfold aq_scale_gen, aq_scale, qpow2, pow2. reflexivity. Qed.

Theorem aq_gen_defined : forall p' clip x deq, 0 < clip -> aq_ok (S p') clip x deq = true.
Proof.
  intros p' clip x deq Hc. unfold aq_ok. cbn zeta.
  pose proof (N_pos p') as HN. unfold qpow2, pow2 in HN.
  apply andb_true_intro. split; [apply nzq; lra|].
  destruct deq; [|reflexivity]. apply nzq. intro H.
  assert (Hpos : 0 < (inject_Z (2 ^ Z.of_nat (S p')) - 1) / (clip + (1 # 1000))).
  { apply Qlt_shift_div_l; lra. }
  lra.
Qed.

Theorem aq_scale_gen_defined : forall p' clip, aq_scale_ok (S p') clip = true.
Proof. intros. unfold aq_scale_ok. pose proof (N_pos p') as HN. unfold qpow2, pow2 in HN. apply nzq. lra. Qed.

(* ---- min-max weights (symmetric ranges ch_min = - m, ch_max = m) *)
Theorem wq_scale_gen_eq : forall p m, wq_scale_gen p (- m) m == wq_scale p m.
Proof.
  intros [|p'] m; unfold wq_scale_gen, wq_scale; cbn zeta.
  - reflexivity.
  - cbn [Nat.eqb negb]. unfold qpow2, pow2. reflexivity.
Qed.

Theorem wq_gen_zero_bits : forall m x deq, wq_gen 0 (- m) m x deq == 0.
Proof. intros. unfold wq_gen. cbn. reflexivity. Qed.

Theorem wq_gen_int : forall p' m x, wq_gen (S p') (- m) m x false == inject_Z (wq_int (S p') m x).
Proof.
  intros p' m x. unfold wq_gen, wq_int, wq_scale. cbn zeta. cbn [Nat.eqb negb].
  rewrite pow2_pred. unfold qpow2, pow2.
  assert (E : inject_Z (2 ^ Z.of_nat p') - 1 == inject_Z (2 ^ Z.of_nat p' - 1)).
  { unfold Z.sub. rewrite inject_Z_plus, inject_Z_opp. reflexivity. }
  etransitivity; [apply qmin_compat_r; exact E|]. rewrite qmin_inject. reflexivity.
Qed.

Theorem wq_gen_fq : forall p' m x, wq_gen (S p') (- m) m x true == wq_fq (S p') m x.
Proof.
  intros p' m x. unfold wq_fq. rewrite <- wq_gen_int.
  unfold wq_gen, wq_scale. cbn zeta. cbn [Nat.eqb negb]. unfold qpow2, pow2. reflexivity.
Qed.

Theorem wq_gen_defined : forall p' m x deq, 0 <= m -> wq_ok (S p') (- m) m x deq = true.
Proof.
  intros p' m x deq Hm. unfold wq_ok. cbn zeta. cbn [Nat.eqb negb].
  pose proof (N_pos p') as HN. unfold qpow2, pow2 in HN.
  pose proof (wq_scale_pos p' m Hm) as Hs. unfold wq_scale, qpow2, pow2 in Hs. cbn zeta in Hs.
  assert (E1 : negb (Qeq_bool (inject_Z (2 ^ Z.of_nat (S p')) - 1) 0) = true) by (apply nzq; lra).
  assert (E2 : negb (Qeq_bool ((if Qeq_bool (m - - m) 0 then 1 else m - - m) / (inject_Z (2 ^ Z.of_nat (S p')) - 1)) 0) = true) by (apply nzq; lra).
  rewrite E1, E2. destruct deq; reflexivity.
Qed.

Theorem wq_scale_gen_defined : forall p m, wq_scale_ok p (- m) m = true.
Proof.
  intros [|p'] m; unfold wq_scale_ok; cbn zeta; cbn [Nat.eqb negb]; [reflexivity|].
  pose proof (N_pos p') as HN. unfold qpow2, pow2 in HN. apply nzq. lra.
Qed.

(* ---- bias *)
Theorem bq_gen_int : forall sb b, bq_gen sb b false == inject_Z (bq_int sb b).
Proof.
  intros sb b. unfold bq_gen, bq_int. cbn zeta.
  destruct (Qle_bool (qabs sb) (1 # 100000000)); [|reflexivity].
  change (rne 0) with (rne (inject_Z 0)). rewrite rne_int. reflexivity.
Qed.

Theorem bq_gen_fq : forall sb b, bq_gen sb b true == bq_fq sb b.
Proof.
  intros sb b. unfold bq_fq. rewrite <- bq_gen_int. unfold bq_gen. cbn zeta. reflexivity.
Qed.

Theorem bq_gen_defined : forall sb b deq, bq_ok sb b deq = true.
Proof.
  intros sb b deq. unfold bq_ok. cbn zeta.
  apply andb_true_intro. split; [|destruct deq; reflexivity].
  destruct (Qle_bool (qabs sb) (1 # 100000000)) eqn:E; [reflexivity|].
  apply nzq. intro H.
  assert (K : Qle_bool (qabs sb) (1 # 100000000) = true).
  { apply Qle_bool_iff. destruct (qabs_cases sb) as [[H1 H2]|[H1 H2]]; rewrite H2; lra. }
  congruence.
Qed.

(* ---- the sentence "fake-quantized output = integer output x reported scale" on the generated code *)
Theorem gen_aq_fq_is_int_times_scale : forall p' clip x, 0 < clip ->
  aq_gen (S p') clip x true == aq_gen (S p') clip x false * aq_scale_gen (S p') clip.
Proof. intros p' clip x Hc. rewrite aq_gen_fq, aq_gen_int, aq_scale_gen_eq. apply aq_fq_scale. exact Hc. Qed.

Theorem gen_wq_fq_is_int_times_scale : forall p m x,
  wq_gen p (- m) m x true == wq_gen p (- m) m x false * wq_scale_gen p (- m) m.
Proof.
  intros [|p'] m x.
  - rewrite !wq_gen_zero_bits. ring.
  - rewrite wq_gen_fq, wq_gen_int, wq_scale_gen_eq. unfold wq_fq. reflexivity.
Qed.

Theorem gen_bq_fq_is_multiple : forall sb b, bq_gen sb b true == sb * bq_gen sb b false.
Proof. intros. rewrite bq_gen_fq, bq_gen_int. unfold bq_fq. reflexivity. Qed.
